#!/bin/bash
# tools/seedconfirm2.sh <dir with patch.diff, demo_test.go, note.txt> <name>
# Like seedconfirm.sh for the round-6 layout: the demonstration names its directory on its first line (`// dir: <rel>`).
set -u
export GOFLAGS=-mod=mod GOPROXY=off GOSUMDB=off GOTOOLCHAIN=local
out=$1; name=$2
R=${VERIF_ROOT:-/verif}
ddir=$(head -1 $out/demo_test.go | sed -n 's,^// dir: *\([^ ]*\).*,\1,p'); ddir=${ddir:-.}
wt=$(mktemp -d /tmp/confirm-XXXXXX)
git -C /repo worktree add -q --detach $wt/repo || exit 2
cleanup() { git -C /repo worktree remove --force $wt/repo; rm -rf $wt; }
cd $wt/repo
ok=1
git apply $out/patch.diff || { echo "CONFIRM $name apply-failed"; cleanup; exit 1; }
go build ./... >/dev/null 2>&1 || { echo "CONFIRM $name build-failed"; ok=0; }
suite=$(go test -vet=off -count=1 ./... 2>&1); s1=$?
[ $s1 = 0 ] || { echo "CONFIRM $name suite-fails-with-change"; echo "$suite" | tail -5; ok=0; }
cp $out/demo_test.go $ddir/zz_seed_demo_test.go
with=$(go test -vet=off -count=1 -run 'C[0-9][0-9]|Demo|Seed' ./$ddir 2>&1); s2=$?
[ $s2 != 0 ] || { echo "CONFIRM $name demo-passes-with-change"; ok=0; }
rm $ddir/zz_seed_demo_test.go
git checkout -q -- . ; git clean -fdq
cp $out/demo_test.go $ddir/zz_seed_demo_test.go
without=$(go test -vet=off -count=1 -run 'C[0-9][0-9]|Demo|Seed' ./$ddir 2>&1); s3=$?
[ $s3 = 0 ] || { echo "CONFIRM $name demo-fails-without-change"; echo "$without" | tail -8; ok=0; }
rm $ddir/zz_seed_demo_test.go
if [ $ok = 1 ]; then
  mkdir -p $R/seeded/$name
  cp $out/patch.diff $R/seeded/$name/patch.diff
  cp $out/demo_test.go $R/seeded/$name/demo_test.go
  [ -f $out/note.txt ] && cp $out/note.txt $R/seeded/$name/notes.md
  echo "$with" | tail -15 > $R/seeded/$name/demo_fail_output.txt
  echo "CONFIRM $name ok (suite passes with change; demo fails with, passes without; demo dir $ddir)"
else
  echo "CONFIRM $name REJECTED"
fi
cleanup
