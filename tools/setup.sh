#!/bin/bash
# One-time build after a fresh restore, offline: harness, generated tables,
# Coq development, extraction, driver.
set -e
export GOFLAGS=-mod=mod GOPROXY=off GOSUMDB=off GOTOOLCHAIN=local
mkdir -p /verif/build
cd /verif/harness && cp /repo/go.sum go.sum && go build -tags verif -o /verif/build/vh .
/verif/build/vh gen
/verif/tools/mkcoqproject.sh
cd /verif/coq && timeout 3000 make -k -j16 > /verif/build/coq-build.log 2>&1 || { tail -40 /verif/build/coq-build.log; echo "coq build incomplete"; }
/verif/tools/build_driver.sh
echo setup done
