#!/bin/bash
# One-time build after a fresh restore, offline: harness, generated tables,
# Coq development, extraction, driver.
set -e
export GOFLAGS=-mod=mod GOPROXY=off GOSUMDB=off GOTOOLCHAIN=local
mkdir -p ${VERIF_ROOT:-/verif}/build
cd ${VERIF_ROOT:-/verif}/harness && cp ${VERIF_REPO:-/repo}/go.sum go.sum && go mod edit -replace github.com/tormoder/fit=${VERIF_REPO:-/repo} && go build -tags verif -o ${VERIF_ROOT:-/verif}/build/vh .
${VERIF_ROOT:-/verif}/build/vh gen
${VERIF_ROOT:-/verif}/tools/mkcoqproject.sh
cd ${VERIF_ROOT:-/verif}/coq && timeout 3000 make -k -j16 > ${VERIF_ROOT:-/verif}/build/coq-build.log 2>&1 || { tail -40 ${VERIF_ROOT:-/verif}/build/coq-build.log; echo "coq build incomplete"; }
${VERIF_ROOT:-/verif}/tools/build_driver.sh
echo setup done
