#!/usr/bin/env python3-vt
"""validate MANIFEST.json and evidence/*.json against the given schemas (python3-vt has jsonschema)"""
import json, glob, sys, jsonschema
ok = True
try:
    jsonschema.validate(json.load(open('/verif/MANIFEST.json')), json.load(open('/root/.vp/MANIFEST.schema.json')))
    print('MANIFEST.json valid')
except Exception as e:
    ok = False; print('MANIFEST.json INVALID', str(e)[:300])
es = json.load(open('/root/.vp/EVIDENCE.schema.json'))
for f in sorted(glob.glob('/verif/evidence/*.json')):
    try:
        ev = json.load(open(f)); jsonschema.validate(ev, es)
        c = ev['coverage']
        print(f.split('/')[-1], 'valid', ev['tier'], 'obl', c.get('obligations'), 'dis', c.get('discharged'), 'eval', c.get('evaluations'), 'dn', c.get('distinct_nontrivial'), 'viol', ev.get('violations'))
    except Exception as e:
        ok = False; print(f, 'INVALID', str(e)[:300])
sys.exit(0 if ok else 1)
