#!/bin/bash
# regenerate _CoqProject (file list) and the Makefile when the set of .v files changes
cd ${VERIF_ROOT:-/verif}/coq
{
  echo "-Q . FitV"
  echo "-arg -w -arg -notation-overridden,-deprecated-hint-without-locality,-deprecated-instance-without-locality"
  find Gen Model Spec Proofs Props -name '*.v' | sort
} > _CoqProject.new
if ! cmp -s _CoqProject.new _CoqProject || [ ! -f Makefile ]; then
  mv _CoqProject.new _CoqProject
  coq_makefile -f _CoqProject -o Makefile >/dev/null
else
  rm -f _CoqProject.new
fi
