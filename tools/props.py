"""Per-property configuration of ./check: theorem files, harness command,
trusted base and assumptions reproduced in the evidence files."""

COMMON_TRUSTED = [
    "Coq 8.16.1 kernel; vm_compute (bytecode VM) for finite checks; no native_compute",
    "no axioms declared by this development (grep gate in every check); library axioms as listed per property",
    "translator: /verif/harness `vh gen` (reflection over the compiled package through the build-tag-guarded hooks in /repo) regenerates coq/Gen/*.v on every run",
    "extraction: ExtrOcamlBasic only (bool, option, unit, list, prod, sumbool, sumor mapped to OCaml; andb/orb inlined); N, Z, positive, nat stay extracted inductives; OCaml 4.13.1; driver glue in /verif/driver",
    "correspondence harness /verif/harness (Go, built with -tags verif against /repo's working tree): generator quality bounds how well the hand-written model is validated",
]

PROPS = {
    "C14": {
        "props_files": ["Props/C14.v"],
        "harness": "c14",
        "trusted": [
            "Gen/CrcTable.v: crcTable read through dyncrc16.VerifTable (hook)",
            "modelled, not verified: Go uint16/byte arithmetic of updateByte (written out with masks in Model/Crc.v), the Hash16 method set as a state-passing interface",
        ],
        "assumptions": [
            "Go's uint16 shifts/xors behave as N.shiftr/N.lxor on values < 2^16",
            "hash.Hash methods Size/BlockSize/Sum are outside the property",
        ],
        "explanation": "update_is_arc proved for all 2^16 x 2^8 transitions by XOR-linearity plus vm_compute on the basis axes over the table extracted from the current source; fold/partition/reset/residue by induction; correspondence by rows against the real updateByte.",
    },
}


# further properties are configured by one JSON file each under tools/props.d/
import glob as _glob
import json as _json
import os as _os

for _f in sorted(_glob.glob(_os.path.join(_os.path.dirname(_os.path.abspath(__file__)), "props.d", "*.json"))):
    _pid = _os.path.splitext(_os.path.basename(_f))[0]
    PROPS[_pid] = _json.load(open(_f))
