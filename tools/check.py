#!/usr/bin/env python3
"""./check <ID> [--tier quick|thorough] [--replay <file>]

Decides one property of tormoder/fit (see DESIGN.md section 5):
 1. rebuild the harness against /repo's working tree (hooks on) and regenerate
    the Coq tables coq/Gen/*.v from it;
 2. rebuild the Coq development; the proof obligations of the property are the
    Qed-closed statements in the dependency cone of coq/Props/<ID>.v;
 3. re-extract the model/spec and rebuild the OCaml driver;
 4. run the correspondence check and the spec oracle against the
    implementation (Go harness `vh`);
 5. print VIOLATION / KNOWN-FINDING lines, write evidence/<ID>.json.
"""
import fcntl
import hashlib
import json
import os
import re
import subprocess
import sys
import time

ROOT = os.environ.get("VERIF_ROOT", "/verif")
COQ = os.path.join(ROOT, "coq")
BUILD = os.path.join(ROOT, "build")
REPO = os.environ.get("VERIF_REPO", "/repo")

sys.path.insert(0, os.path.join(ROOT, "tools"))
from props import PROPS, COMMON_TRUSTED  # noqa: E402

ENV = dict(os.environ)
ENV.update({"GOFLAGS": "-mod=mod", "GOPROXY": "off", "GOSUMDB": "off", "GOTOOLCHAIN": "local",
            "CGO_ENABLED": ENV.get("CGO_ENABLED", "1")})

FORBIDDEN = re.compile(
    r"\b(Admitted|admit|Axiom|Axioms|Parameter|Parameters|Conjecture|Conjectures|Hypothesis|Hypotheses|Variable|Variables|Context)\b"
    r"|Unset\s+Guard|bypass_check|type-in-type|impredicative-set|Admit\s+Obligations|Unset\s+Positivity|Unset\s+Universe")


def sh(cmd, cwd=None, timeout=3600, env=None):
    """run a shell command, return (status, combined output)"""
    try:
        p = subprocess.run(cmd, shell=True, cwd=cwd, env=env or ENV, stdout=subprocess.PIPE,
                           stderr=subprocess.STDOUT, timeout=timeout, text=True, errors="replace")
        return p.returncode, p.stdout
    except subprocess.TimeoutExpired as e:
        out = e.stdout or ""
        if isinstance(out, bytes):
            out = out.decode(errors="replace")
        return 124, out + "\n[timeout after %ss]" % timeout


def strip_comments(src):
    out, depth, i = [], 0, 0
    while i < len(src):
        if src.startswith("(*", i):
            depth += 1
            i += 2
        elif src.startswith("*)", i) and depth > 0:
            depth -= 1
            i += 2
        else:
            if depth == 0:
                out.append(src[i])
            i += 1
    return "".join(out)


def grep_gate():
    """no Admitted/admit/Axiom/... anywhere in the hand-written development"""
    bad = []
    for d, _, files in os.walk(COQ):
        for f in files:
            if not f.endswith(".v"):
                continue
            p = os.path.join(d, f)
            src = strip_comments(open(p, errors="replace").read())
            # string literals cannot hide vernacular; keep them
            for m in FORBIDDEN.finditer(src):
                line = src.count("\n", 0, m.start()) + 1
                bad.append("%s:%d: %s" % (os.path.relpath(p, ROOT), line, m.group(0)))
    return bad


def make_deps():
    """parse coq_makefile's dependency file into {vo: [deps]}"""
    deps = {}
    p = os.path.join(COQ, ".Makefile.d")
    if not os.path.exists(p):
        return deps
    for line in open(p):
        if ":" not in line:
            continue
        lhs, rhs = line.split(":", 1)
        targets = lhs.split()
        vo = [t for t in targets if t.endswith(".vo")]
        if not vo:
            continue
        deps[vo[0]] = [x for x in rhs.split() if x.endswith(".vo") and not x.startswith("/")]
    return deps


def cone(vo, deps):
    seen, stack = set(), [vo]
    while stack:
        x = stack.pop()
        if x in seen:
            continue
        seen.add(x)
        stack.extend(deps.get(x, []))
    return sorted(seen)


def count_qed(vfile):
    try:
        src = strip_comments(open(os.path.join(COQ, vfile), errors="replace").read())
    except OSError:
        return 0
    return len(re.findall(r"\b(Qed|Defined)\s*\.", src))


class Build:
    def __init__(self):
        self.log = []
        self.harness_ok = False
        self.gen_ok = False
        self.coq_ok = False
        self.driver_ok = False
        self.coq_errors = ""
        self.gen_failed = {}

    def note(self, s):
        self.log.append(s)


def build_all():
    """steps 1-3 under a file lock (checks may run concurrently)"""
    os.makedirs(BUILD, exist_ok=True)
    b = Build()
    lock = open(os.path.join(BUILD, ".lock"), "w")
    fcntl.flock(lock, fcntl.LOCK_EX)
    try:
        st, out = sh("cp %s/go.sum go.sum 2>/dev/null; go mod edit -replace github.com/tormoder/fit=%s && go build -tags verif -o %s/vh ." % (REPO, REPO, BUILD),
                     cwd=os.path.join(ROOT, "harness"), timeout=900)
        b.harness_ok = st == 0
        if st != 0:
            b.note("harness build failed:\n" + out[-4000:])
            return b
        st, out = sh("%s/vh gen" % BUILD, timeout=600)
        # status 3: some translators failed, the others wrote their tables; build/gen_failed.json says which
        b.gen_ok = st in (0, 3)
        b.gen_failed = {}
        try:
            b.gen_failed = json.load(open(os.path.join(BUILD, "gen_failed.json"))) if st == 3 else {}
        except (OSError, ValueError):
            b.gen_ok = st == 0
        b.note(out.strip())
        if not b.gen_ok:
            b.note("gen failed:\n" + out[-4000:])
            return b
        sh(os.path.join(ROOT, "tools/mkcoqproject.sh"))
        st, out = sh("timeout 3000 make -k -j16 2>&1", cwd=COQ, timeout=3100)
        b.coq_ok = st == 0
        if st != 0:
            errs = [l for l in out.splitlines() if not l.startswith(("COQC", "COQDEP", "make"))]
            b.coq_errors = "\n".join(errs)[-6000:]
            b.note("coq build incomplete:\n" + b.coq_errors)
        st, out = sh(os.path.join(ROOT, "tools/build_driver.sh"), timeout=1200)
        b.driver_ok = st == 0
        if st != 0:
            b.note("driver build failed:\n" + out[-4000:])
    finally:
        fcntl.flock(lock, fcntl.LOCK_UN)
        lock.close()
    return b


def proof_status(pid):
    """(obligations, discharged, theorem info, assumptions text, failing files)"""
    cfg = PROPS[pid]
    deps = make_deps()
    files = cfg["props_files"]
    vos = set()
    for f in files:
        vos.update(cone(f[:-2] + ".vo", deps))
    total, done, failing = 0, 0, []
    for vo in sorted(vos):
        v = vo[:-3] + ".v"
        n = count_qed(v)
        total += n
        vo_path = os.path.join(COQ, vo)
        v_path = os.path.join(COQ, v)
        if os.path.exists(vo_path) and os.path.exists(v_path) and os.path.getmtime(vo_path) >= os.path.getmtime(v_path):
            done += n
        else:
            failing.append(v)
    # up to date with respect to dependencies?
    for f in files:
        st, _ = sh("make -q %s" % (f[:-2] + ".vo"), cwd=COQ)
        if st != 0 and f not in failing:
            failing.append(f)
    assumptions = ""
    theorems = []
    if not failing:
        for f in files:
            st, out = sh("timeout 600 coqc -Q . FitV -w none %s" % f, cwd=COQ, timeout=700)
            assumptions += out
            if st != 0:
                failing.append(f)
            src = strip_comments(open(os.path.join(COQ, f)).read())
            theorems += re.findall(r"\b(?:Theorem|Example|Corollary)\s+([A-Za-z0-9_']+)", src)
    if failing:
        done = min(done, total - 1) if total else 0
    return total, done, theorems, assumptions, failing


def axioms_of(text):
    ax = set()
    blocks = text.split("Axioms:")
    for blk in blocks[1:]:
        for line in blk.splitlines():
            # the type may start on the next (indented) line for long names
            m = re.match(r"^([A-Za-z_][A-Za-z0-9_.']*)\s*(:|$)", line)
            if m:
                ax.add(m.group(1))
            elif line.strip().startswith("Closed under"):
                break
    return sorted(ax)


def write_evidence(pid, ev):
    os.makedirs(os.path.join(ROOT, "evidence"), exist_ok=True)
    p = os.path.join(ROOT, "evidence", pid + ".json")
    with open(p + ".tmp", "w") as f:
        json.dump(ev, f, indent=1, sort_keys=True)
    os.replace(p + ".tmp", p)


def write_replay(pid, obj):
    os.makedirs(os.path.join(ROOT, "replays"), exist_ok=True)
    blob = json.dumps(obj, indent=1, sort_keys=True)
    h = hashlib.sha256(blob.encode()).hexdigest()[:12]
    p = os.path.join(ROOT, "replays", "%s-%s.json" % (pid, h))
    open(p, "w").write(blob)
    return p


def main():
    args = sys.argv[1:]
    if not args:
        print(__doc__)
        return 2
    pid = args[0]
    tier = os.environ.get("VERIF_TIER", "quick")
    replay = None
    i = 1
    while i < len(args):
        if args[i] == "--tier":
            tier = args[i + 1]
            i += 2
        elif args[i] == "--replay":
            replay = args[i + 1]
            i += 2
        else:
            i += 1
    if pid not in PROPS:
        print("unknown property", pid)
        return 2
    if tier not in ("quick", "thorough"):
        tier = "quick"
    cfg = PROPS[pid]
    seed = os.environ.get("VERIF_SEED", "1")
    try:
        seed_int = int(seed)
    except ValueError:
        seed_int = int(hashlib.sha256(seed.encode()).hexdigest()[:12], 16)
    t0 = time.time()

    b = build_all()
    violations = []
    lines = []

    gate = grep_gate()
    if gate:
        b.note("forbidden vernacular:\n" + "\n".join(gate))

    total = done = 0
    theorems, assum_text, failing = [], "", []
    if b.gen_ok:
        total, done, theorems, assum_text, failing = proof_status(pid)
    # a translator that failed leaves a stale (or no) table: only the properties whose theorems consume it are affected
    stale = []
    if b.gen_ok and b.gen_failed:
        deps = make_deps()
        needed = set()
        for f in PROPS[pid]["props_files"]:
            needed.update(cone(f[:-2] + ".vo", deps))
        for name, why in sorted(b.gen_failed.items()):
            if name.startswith("?") or ("Gen/" + name[:-2] + ".vo") in needed or not os.path.exists(os.path.join(COQ, "Gen", name)):
                stale.append("%s (%s)" % (name, why[:300]))
    proofs_ok = b.gen_ok and not failing and not gate and total > 0 and not stale

    run = None
    harness_status = None
    harness_out = ""
    if b.harness_ok and b.driver_ok:
        out_json = os.path.join(BUILD, "run", pid + ".json")
        if os.path.exists(out_json):
            os.remove(out_json)
        cmd = "%s/vh %s --tier %s --seed %d --out %s" % (BUILD, cfg["harness"], tier, seed_int, out_json)
        if not proofs_ok:
            cmd += " --boost 10"
        if replay:
            cmd += " --replay " + replay
        to = cfg.get("timeout_thorough", 7200) if tier == "thorough" else cfg.get("timeout_quick", 1500)
        harness_status, harness_out = sh(cmd, cwd=ROOT, timeout=to)
        sys.stdout.write(harness_out)
        if os.path.exists(out_json):
            run = json.load(open(out_json))
        for l in harness_out.splitlines():
            if l.startswith("VIOLATION "):
                violations.append(l)
        if harness_status not in (0, 1) or run is None:
            b.note("harness run failed (status %s)" % harness_status)

    status = 0
    if violations:
        status = 1
    broken = []
    if not b.harness_ok:
        broken.append("the harness no longer builds against /repo (hook or API it relies on changed)")
    elif not b.gen_ok:
        broken.append("the translator could not regenerate the Coq tables from /repo")
    if b.gen_ok and not proofs_ok:
        if stale:
            broken.append("the translator could not regenerate a table this property's theorems consume: " + "; ".join(stale))
        if gate:
            broken.append("forbidden vernacular in the development: " + "; ".join(gate[:5]))
        if failing:
            broken.append("proof obligations no longer check: " + ", ".join(failing))
        if total == 0:
            broken.append("no proof obligations found for " + pid)
    if b.harness_ok and not b.driver_ok:
        broken.append("the model no longer extracts/builds (driver)")
    if b.harness_ok and b.driver_ok and (run is None or harness_status not in (0, 1)):
        broken.append("the correspondence run did not complete")
    if broken and not violations:
        # nothing replayable was found: still a violation, named as such
        rp = write_replay(pid, {
            "property": pid, "kind": "no-failing-input", "broken": broken,
            "theorem_files": cfg["props_files"], "failing_files": failing,
            "coq_errors": b.coq_errors[-3000:], "build_log": [x[-2000:] for x in b.log][-6:],
            "seed": seed_int, "tier": tier})
        l = "VIOLATION property=%s replay=%s no-failing-input-found" % (pid, rp)
        print(l)
        for x in broken:
            print("  " + x)
        violations.append(l)
        status = 1
    elif broken:
        for x in broken:
            print("  note: " + x)

    # thorough tier: the independent checker re-checks the compiled theorem file and everything it depends on
    coqchk = None
    if tier == "thorough" and proofs_ok and not replay:
        mods = " ".join("FitV." + f[:-2].replace("/", ".") for f in cfg["props_files"])
        st, out = sh("timeout 5400 coqchk -silent -o -Q . FitV %s 2>&1" % mods, cwd=COQ, timeout=5500)
        m = re.search(r"\* Axioms:(.*?)\n\s*\n\* Constants/Inductives relying on type-in-type:(.*?)\n\s*\n\* Constants/Inductives relying on unsafe \(co\)fixpoints:(.*?)\n\s*\n\* Inductives whose positivity is assumed:(.*?)\n", out + "\n", re.S)
        coqchk = {"cmd": "coqchk -silent -o -Q . FitV " + mods, "status": st}
        if m:
            coqchk.update({"axioms": " ".join(m.group(1).split()), "type_in_type": " ".join(m.group(2).split()),
                           "unsafe_fixpoints": " ".join(m.group(3).split()), "assumed_positivity": " ".join(m.group(4).split())})
        if st != 0 or not m or any(coqchk.get(k) != "<none>" for k in ("type_in_type", "unsafe_fixpoints", "assumed_positivity")):
            rp = write_replay(pid, {"property": pid, "kind": "no-failing-input", "broken": ["coqchk does not accept the compiled development"],
                                    "coqchk": coqchk, "output_tail": out[-3000:]})
            l = "VIOLATION property=%s replay=%s no-failing-input-found" % (pid, rp)
            print(l)
            violations.append(l)
            status = 1

    axioms = axioms_of(assum_text)
    trusted = list(COMMON_TRUSTED) + list(cfg.get("trusted", []))
    trusted.append("axioms reported by Print Assumptions for %s: %s" % (
        ", ".join(cfg["props_files"]), ", ".join(axioms) if axioms else "none (closed under the global context)"))
    cov = {
        "obligations": total,
        "discharged": done if proofs_ok else min(done, max(total - 1, 0)),
        "checker_cmd": "cd /verif/coq && make -k -j16 && coqc -Q . FitV " + " ".join(cfg["props_files"]),
        "trusted_base": trusted,
        "theorems": theorems,
        "axioms": axioms,
        "evaluations": (run or {}).get("evaluations", 0),
        "distinct_nontrivial": (run or {}).get("distinct_nontrivial", 0),
        "rule": (run or {}).get("rule", ""),
        "samples": (run or {}).get("samples", []) or [{"theorems": theorems[:5]}],
        "traces_validated_against_impl": (run or {}).get("traces_validated_against_impl", 0),
        "exhaustive": bool((run or {}).get("exhaustive", False)),
        "histogram": (run or {}).get("histogram", {}),
        "known_findings": (run or {}).get("known_findings", []),
        "spec_failures": len((run or {}).get("spec_failures", []) or []),
        "correspondence_failures": len((run or {}).get("correspondence_failures", []) or []),
        "explanation": cfg.get("explanation", ""),
    }
    if coqchk:
        cov["coqchk"] = coqchk
        trusted.append("coqchk (independent checker) accepted %s; axioms it reports: %s" % (", ".join(cfg["props_files"]), coqchk.get("axioms", "?")))
    extra = (run or {}).get("extra") or {}
    for k, v in extra.items():
        cov.setdefault(k, v)
    if (run or {}).get("notes"):
        cov["notes"] = run["notes"]
    ev = {
        "property_id": pid,
        "tier": tier,
        "seed": seed_int,
        "level": "proof",
        "coverage": cov,
        "assumptions": cfg.get("assumptions", []),
        "wall_s": round(time.time() - t0, 2),
        "violations": len(violations),
    }
    if not replay:
        write_evidence(pid, ev)   # a replay re-judges one recorded case; it is not a coverage run
    print("%s: tier=%s obligations=%d discharged=%d violations=%d wall=%.1fs" % (
        pid, tier, cov["obligations"], cov["discharged"], len(violations), time.time() - t0))
    return status


if __name__ == "__main__":
    sys.exit(main())
