#!/bin/bash
# Extract the Coq model to OCaml and build the driver co-process.
# Every coq/Extract/*.v is compiled from build/extract (its "Extraction "x.ml""
# output lands there); every driver/*.ml is linked: conv.ml first, then the
# h_*.ml handler modules, handlers.ml, driver.ml last.
set -e
R=${VERIF_ROOT:-/verif}
mkdir -p $R/build/extract $R/build/driver
cd $R/build/extract
for v in $R/coq/Extract/*.v; do
  base=$(basename $v .v)
  stamp=.$base.stamp
  need=0
  [ -f $stamp ] || need=1
  if [ $need = 0 ]; then
    if [ -n "$(find $R/coq/Model $R/coq/Spec $R/coq/Gen $v -name '*.v' -newer $stamp | head -1)" ]; then need=1; fi
  fi
  if [ $need = 1 ]; then
    timeout 900 coqc -Q $R/coq FitV $v > $base.log 2>&1 || { cat $base.log; exit 1; }
    touch $stamp
  fi
done
cd $R/build/driver
need=0
[ -x vdriver ] || need=1
for f in $R/build/extract/*.ml $R/driver/*.ml; do
  [ "$f" -nt vdriver ] && need=1
done
if [ $need = 1 ]; then
  rm -f *.ml *.mli *.cm* *.o
  cp $R/build/extract/*.ml $R/build/extract/*.mli $R/driver/*.ml .
  mods=""
  for f in $R/build/extract/*.ml; do b=$(basename $f .ml); mods="$mods $b.mli $b.ml"; done
  hs=""
  : > h_all.ml
  for f in $R/driver/h_*.ml; do
    [ -f "$f" ] || continue
    b=$(basename $f .ml)
    hs="$hs $b.ml"
    m="$(echo ${b:0:1} | tr a-z A-Z)${b:1}"
    echo "let () = $m.install Registry.register" >> h_all.ml
  done
  ocamlfind ocamlopt -O3 -w -a -package str $mods conv.ml registry.ml $hs h_all.ml handlers.ml driver.ml -o vdriver.new 2>build.log || \
  ocamlfind ocamlopt -w -a $mods conv.ml registry.ml $hs h_all.ml handlers.ml driver.ml -o vdriver.new 2>build.log || { cat build.log; exit 1; }
  mv vdriver.new vdriver
fi
