#!/bin/bash
# Extract the Coq model to OCaml and build the driver co-process.
# Every coq/Extract/*.v is compiled from build/extract (its "Extraction "x.ml""
# output lands there); every driver/*.ml is linked: conv.ml first, then the
# h_*.ml handler modules, handlers.ml, driver.ml last.
set -e
R=${VERIF_ROOT:-/verif}
mkdir -p $R/build/extract $R/build/driver
cd $R/build/extract
for v in $R/coq/Extract/*.v; do
  base=$(basename $v .v)
  stamp=.$base.stamp
  need=0
  [ -f $stamp ] || need=1
  if [ $need = 0 ]; then
    if [ -n "$(find $R/coq/Model $R/coq/Spec $R/coq/Gen $v -name '*.v' -newer $stamp | head -1)" ]; then need=1; fi
  fi
  if [ $need = 1 ]; then
    if timeout 900 coqc -Q $R/coq FitV $v > $base.log 2>&1; then
      touch $stamp
    else
      # an extraction that no longer compiles (its model or one of its imports did not build) must not take the
      # other properties' handlers down: the main model is required, the others are left out of the driver
      cat $base.log
      rm -f $stamp
      ml=$(grep -o 'Extraction "[a-z0-9_]*\.ml"' $v | head -1 | sed 's/Extraction "//; s/"//')
      [ -n "$ml" ] && rm -f $ml ${ml%.ml}.mli
      [ "$base" = "Extract" ] && exit 1
      echo "build_driver: leaving out $base ($ml)"
    fi
  fi
done
cd $R/build/driver
need=0
[ -x vdriver ] || need=1
# the set of extracted modules changed (one was left out or came back): rebuild
ls $R/build/extract/*.ml 2>/dev/null | sort > .mods.new
cmp -s .mods.new .mods 2>/dev/null || need=1
for f in $R/build/extract/*.ml $R/driver/*.ml; do
  [ "$f" -nt vdriver ] && need=1
done
if [ $need = 1 ]; then
  rm -f *.ml *.mli *.cm* *.o
  cp $R/build/extract/*.ml $R/build/extract/*.mli $R/driver/*.ml .
  mods=""
  for f in $R/build/extract/*.ml; do b=$(basename $f .ml); mods="$mods $b.mli $b.ml"; done
  hs=""
  : > h_all.ml
  for f in $R/driver/h_*.ml; do
    [ -f "$f" ] || continue
    b=$(basename $f .ml)
    # skip handler modules whose extracted model is missing
    skip=0
    for m in $(grep -o 'Fitmodel_[a-z0-9]*' $f | sort -u); do
      lm=$(echo $m | tr A-Z a-z)
      [ -f $R/build/extract/$lm.ml ] || skip=1
    done
    if [ $skip = 1 ]; then echo "build_driver: leaving out $b (its extracted model is missing)"; rm -f $b.ml; continue; fi
    hs="$hs $b.ml"
    m="$(echo ${b:0:1} | tr a-z A-Z)${b:1}"
    echo "let () = $m.install Registry.register" >> h_all.ml
  done
  ocamlfind ocamlopt -O3 -w -a -package str $mods conv.ml registry.ml $hs h_all.ml handlers.ml driver.ml -o vdriver.new 2>build.log || \
  ocamlfind ocamlopt -w -a $mods conv.ml registry.ml $hs h_all.ml handlers.ml driver.ml -o vdriver.new 2>build.log || { cat build.log; exit 1; }
  mv vdriver.new vdriver
  mv .mods.new .mods
fi
