#!/bin/bash
# extract the Coq model to OCaml and build the driver co-process
set -e
mkdir -p /verif/build/extract /verif/build/driver
cd /verif/build/extract
# re-extract only when a model/spec .vo or Extract.v is newer than the extracted file
need=0
[ -f fitmodel.ml ] || need=1
if [ $need = 0 ]; then
  if [ -n "$(find /verif/coq/Model /verif/coq/Spec /verif/coq/Gen /verif/coq/Extract -name '*.v' -newer fitmodel.ml | head -1)" ]; then need=1; fi
fi
if [ $need = 1 ]; then
  timeout 600 coqc -Q /verif/coq FitV /verif/coq/Extract/Extract.v > extract.log 2>&1 || { cat extract.log; exit 1; }
fi
cd /verif/build/driver
need=0
[ -x vdriver ] || need=1
for f in /verif/build/extract/fitmodel.ml /verif/driver/*.ml; do
  [ "$f" -nt vdriver ] && need=1
done
if [ $need = 1 ]; then
  cp /verif/build/extract/fitmodel.ml /verif/build/extract/fitmodel.mli /verif/driver/*.ml .
  ocamlfind ocamlopt -O3 -w -a -package str fitmodel.mli fitmodel.ml conv.ml handlers.ml driver.ml -o vdriver.new 2>build.log || \
  ocamlfind ocamlopt -w -a fitmodel.mli fitmodel.ml conv.ml handlers.ml driver.ml -o vdriver.new 2>build.log || { cat build.log; exit 1; }
  mv vdriver.new vdriver
fi
