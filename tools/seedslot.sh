#!/bin/bash
# tools/seedslot.sh <slot> <patch.diff> <ID> [<ID>...]
# Runs tools/seedtest.sh in a private copy of /verif (with its build output) against a private worktree of /repo under
# /tmp/seedslot/<slot>, so that several seeded changes can be judged at the same time and /repo itself stays untouched.
# The copies are refreshed from /verif and /repo's HEAD at every call and removed by `tools/seedslot.sh <slot> --clean`.
set -u
slot=$1; shift
base=/tmp/seedslot/$slot
if [ "${1:-}" = "--clean" ]; then git -C /repo worktree remove --force $base/repo 2>/dev/null; rm -rf $base; exit 0; fi
mkdir -p $base
rsync -a --delete --exclude .git /verif/ $base/verif/
if [ ! -d $base/repo ]; then git -C /repo worktree add -q --detach $base/repo HEAD || exit 2; fi
git -C $base/repo checkout -q --detach $(git -C /repo rev-parse HEAD) && git -C $base/repo checkout -q -- . && git -C $base/repo clean -fdq
export VERIF_ROOT=$base/verif VERIF_REPO=$base/repo SEED_LOG=${SEED_LOG:-/tmp/seedslot/logs}
mkdir -p $SEED_LOG
export GOFLAGS=-mod=mod GOPROXY=off GOSUMDB=off GOTOOLCHAIN=local
(cd $VERIF_ROOT/harness && go mod edit -replace github.com/tormoder/fit=$VERIF_REPO)
$VERIF_ROOT/tools/seedtest.sh "$@"
