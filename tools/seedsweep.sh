#!/bin/bash
# tools/seedsweep.sh <first-seed> <last-seed> [IDs...]: every quick check under several seeds on the unchanged
# tree; prints the runs that exit non-zero (false alarms / flakiness).  Honors VERIF_ROOT / VERIF_REPO.
R=${VERIF_ROOT:-/verif}; cd $R
a=$1; b=$2; shift 2
ids=${@:-$(python3 -c "import json;print(' '.join(c['property_id'] for c in json.load(open('$R/MANIFEST.json'))['checks']))")}
for s in $(seq $a $b); do for id in $ids; do
  out=$(VERIF_SEED=$s timeout 3000 ./check $id --tier quick 2>&1); st=$?
  if [ $st != 0 ]; then echo "SWEEP seed=$s $id exit=$st"; echo "$out" | grep -E "VIOLATION|^  " | head -6; else echo "sweep seed=$s $id ok"; fi
done; done
