#!/bin/bash
# tools/seedtest.sh <patch.diff> <ID> [<ID>...]
# Apply a seeded change to /repo, run the quick check of each named property,
# undo the change straight afterwards.  The evidence files of the properties
# are put back as they were (evidence must come from the unchanged tree).
# Prints one line per property:  SEED <patch> <ID> exit=<n> <first VIOLATION line or ->
set -u
R=${VERIF_ROOT:-/verif}
REPO=${VERIF_REPO:-/repo}
patch=$1; shift
if [ -n "$(git -C $REPO status --porcelain --untracked-files=no)" ]; then echo "repo not clean"; exit 2; fi
tmp=$(mktemp -d)
restore() { git -C $REPO checkout -- . ; git -C $REPO clean -fdq -e '*.orig' >/dev/null 2>&1; for id in "$@"; do [ -f $tmp/$id.json ] && cp $tmp/$id.json $R/evidence/$id.json; done; rm -rf $tmp; }
for id in "$@"; do [ -f $R/evidence/$id.json ] && cp $R/evidence/$id.json $tmp/$id.json; done
if ! git -C $REPO apply "$patch"; then echo "SEED $patch apply-failed"; restore "$@"; exit 2; fi
cd $R
for id in "$@"; do
  out=$(timeout ${SEED_TIMEOUT:-1800} ./check $id --tier ${SEED_TIER:-quick} 2>&1); st=$?
  v=$(echo "$out" | grep -m1 '^VIOLATION' || echo -)
  echo "SEED $patch $id exit=$st $v"
  echo "$out" > ${SEED_LOG:-/tmp}/seedtest-$(basename $(dirname $patch))-$(basename $patch .diff)-$id.log
done
restore "$@"
