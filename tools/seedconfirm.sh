#!/bin/bash
# tools/seedconfirm.sh <seed-out-dir> <k> <name> [<demo-dir-in-repo>]
# Confirms a seeded change independently in a scratch worktree of /repo (under /tmp):
#   suite passes with the change, the demonstration fails with it and passes without it.
# On success copies patch, demo and a meta.json skeleton to /verif/seeded/<name>/.
set -u
export GOFLAGS=-mod=mod GOPROXY=off GOSUMDB=off GOTOOLCHAIN=local
out=$1; k=$2; name=$3; ddir=${4:-.}
R=${VERIF_ROOT:-/verif}
wt=$(mktemp -d /tmp/confirm-XXXXXX)
git -C /repo worktree add -q --detach $wt/repo || exit 2
cleanup() { git -C /repo worktree remove --force $wt/repo; rm -rf $wt; }
cd $wt/repo
demo=$out/demo${k}_test.go
ok=1
git apply $out/patch$k.diff || { echo "CONFIRM $name apply-failed"; cleanup; exit 1; }
go build ./... >/dev/null 2>&1 || { echo "CONFIRM $name build-failed"; ok=0; }
suite=$(go test -vet=off -count=1 ./... 2>&1); s1=$?
[ $s1 = 0 ] || { echo "CONFIRM $name suite-fails-with-change"; echo "$suite" | tail -5; ok=0; }
cp $demo $ddir/zz_seed_demo_test.go
with=$(go test -vet=off -count=1 -run 'C[0-9][0-9]|Demo|Seed' ./$ddir 2>&1); s2=$?
[ $s2 != 0 ] || { echo "CONFIRM $name demo-passes-with-change"; ok=0; }
rm $ddir/zz_seed_demo_test.go
git checkout -q -- . ; git clean -fdq
cp $demo $ddir/zz_seed_demo_test.go
without=$(go test -vet=off -count=1 -run 'C[0-9][0-9]|Demo|Seed' ./$ddir 2>&1); s3=$?
[ $s3 = 0 ] || { echo "CONFIRM $name demo-fails-without-change"; echo "$without" | tail -8; ok=0; }
rm $ddir/zz_seed_demo_test.go
if [ $ok = 1 ]; then
  mkdir -p $R/seeded/$name
  cp $out/patch$k.diff $R/seeded/$name/patch.diff
  cp $demo $R/seeded/$name/demo_test.go
  [ -f $out/notes$k.md ] && cp $out/notes$k.md $R/seeded/$name/notes.md
  echo "$with" | tail -15 > $R/seeded/$name/demo_fail_output.txt
  echo "CONFIRM $name ok (suite passes with change; demo fails with, passes without; demo dir $ddir)"
else
  echo "CONFIRM $name REJECTED"
fi
cleanup
