#!/usr/bin/env python3
"""Regenerate /verif/MANIFEST.json from the table below (one place to edit)."""
import json, os, subprocess
ROOT = os.environ.get("VERIF_ROOT", "/verif")

def hook_commits():
    out = subprocess.run("git -C /repo log --format=%h --grep='^verif:'", shell=True, stdout=subprocess.PIPE, text=True).stdout.split()
    return out

CHECKS = {
 "C14": ("updateByte = bitwise CRC-16/ARC step proved in Coq for all 2^16 x 2^8 (state, byte) pairs over the table regenerated from the source; checksum/partition/reset/residue theorems by induction for all byte strings; model tied to the code by row-wise correspondence with the real updateByte and the streaming API",
         "Coq kernel + vm_compute; no axioms (Print Assumptions: closed under the global context); translator vh gen (CrcTable via hook); extraction ExtrOcamlBasic; Go integer semantics modelled with explicit masks",
         "Rocq proof (XOR-linearity + finite vm_compute) with translator-regenerated table and differential correspondence"),
 "C15": ("profile_wf checker evaluated by vm_compute on the profile tables, struct layouts and constructor values regenerated from the compiled library on every run, lifted by generic soundness lemmas to the forall (message, field) statements; tables_never_written (the tables are read-only for all code reachable from the entry points, from the regenerated shared-state analysis); independently re-evaluated on the implementation by reflection and by one single-field stream per entry and byte order through the real Decode in lock step with the model",
         "Coq kernel + vm_compute; no axioms; translator vh gen (reflection through the verif hooks); SDK field-name clause is a regression oracle against a snapshot (partial)",
         "Rocq proof by reflection (boolean checker + soundness lemmas) over translator-regenerated tables"),
 "C03": ("route_spec/dropped_no_effect/add_no_panic proved by induction over arbitrary message sequences for every valid file type, from routing_wf (vm_compute comparison of the routing observed by probing the real add methods with what the container struct types prescribe); init_exact over all 256 values; accessor_exact; spec re-evaluated on the implementation through direct add sequences and lock-step decoding",
         "Coq kernel + vm_compute; no axioms; translator probes File.add through the verif hook for 256 file types x every known message type; 17 valid types and 5 expanding types written from the property text; known finding second_file_id",
         "Rocq proof (induction over message sequences + boolean checker over a probed table) with correspondence"),
 "C18": ("accumulate_spec (induction over value lists, uint32 wrap explicit), widen16/event/csd lemmas for all source bit patterns, refutation witnesses for the three recorded defects; the extracted spec is evaluated on the real expandComponents and on files decoded one after another in one process",
         "Coq kernel + vm_compute; no axioms; hand-written model of the generated expandComponents bodies tied by correspondence through the hook and Decode; three known findings (generated code pinned by goldens / package-level accumulators)",
         "Rocq proof (induction, finite sweeps lifted by lemma, refutation witnesses) with differential correspondence"),
 "C02": ("absent_fields_invalid proved from the profile soundness theorems; decode_denote over streams is PARTIAL: the extracted reference semantics (Spec/FitSyntax.v) is evaluated on what the real Decode returns for profile-driven well-formed streams (all field kinds x compatible definition types x sizes x byte orders), in lock step with the Coq model",
         "Coq kernel + vm_compute; no axioms; hand-written decoder model tied by lock-step correspondence; partial: stream-level theorem not yet proved, the property is decided on generated inputs by the spec oracle",
         "Rocq proof (partial) + extracted reference semantics as oracle + differential correspondence with the Coq decoder model"),
 "C12": ("rollover rule, invariant lemmas, date_time/local_date_time lemmas proved for all values; stream-level theorem PARTIAL: extracted reference semantics evaluated on generated time sequences decoded by the real Decode in lock step with the model; two known findings replayed on every run",
         "Coq kernel; no axioms; Go int32/uint32 masking modelled as mod 32; known findings local_sets_reference and ts_zero_no_reference",
         "Rocq proof (arithmetic lemmas by lia) + extracted reference semantics as oracle + correspondence"),
 "C13": ("slot-table theorems (latest definition wins, slots functionally independent, undefined local type is an error in every state, data record program parametric in its definition) proved; stream-level lifting PARTIAL and covered by reference semantics + metamorphic redefinition test on the implementation",
         "Coq kernel + vm_compute; no axioms; hand-written decoder model tied by lock-step correspondence",
         "Rocq proof (functional-update lemmas, program unfolding) + reference semantics oracle + metamorphic testing"),
 "C16": ("finalization-only-adds-lists, sortedness/permutation and counting lemmas proved; opts_invisible PARTIAL: every stream decoded under all 8 option sets and compared; counts compared with the extracted reference semantics, bounded on part-way failure",
         "Coq kernel; no axioms; hand-written decoder model tied by lock-step correspondence under all option sets",
         "Rocq proof (Sorted/Permutation lemmas) + 8-way differential decoding + reference semantics oracle"),
 "C17": ("coordinate validity/Semicircles/Degrees-exact/NaN-iff/degree round trip (exact)/printed form within 2e-5 proved over a Flocq binary64/binary32 model for all 2^32 semicircle values; time bijection, whole seconds and IsBaseTime-only-at-zero proved for all 2^32 second counts in pure Z arithmetic; latlng.go and time.go TRANSLATED function by function into Gallina on every run and proved equal to the model on every argument (latlng_translated, time_translated), package constants regenerated; exhaustive spec oracle on the implementation and bit-exact correspondence with the extracted model",
         "Coq kernel + vm_compute; coordinate theorems about Degrees/round trip/printed form depend on the standard-library axioms ClassicalDedekindReals.sig_forall_dec, ClassicalDedekindReals.sig_not_dec, FunctionalExtensionality.functional_extensionality_dep, Classical_Prop.classic (through Flocq/Reals); time half axiom-free; strconv.FormatFloat is a hand model validated by correspondence; known finding lat_plus90",
         "Rocq proof over Flocq IEEE-754 model + source-to-Gallina translation of latlng.go/time.go proved equal to the model + exhaustive differential correspondence"),
 "C19": ("PARTIAL: gen_bijection/ftype_spec/gen_sheet_spec proved for a Gallina model of fitgen's scanner, parser, transform and struct/lookup generation over raw sheet grids; exit status, byte-identical reruns, compilation with the support closure and the SDK version string are run-time tests through the real command on the 5 bundled workbooks and sampled dependency-closed product profiles; fitgen's real output is compared with the extracted model on rows read by an independent xlsx reader and judged by the extracted spec",
         "Coq kernel; no axioms; partial: text layout, go/printer, xlsx parsing and the Go compiler are not modelled (tested at run time); the unused-import defect of degenerate profiles was repaired (fix 9d03c31)",
         "Rocq proof (partial) of the row->entry mapping + real-command differential/metamorphic testing"),
 "C20": ("string_of_const and string_of_other proved for every generated type and ALL values of its width (generic lemmas over the three String shapes + one vm_compute of a well-formedness checker on the representation parsed from types_string.go on every run); tables_are_stringer_output against a Gallina model of the stringer; real String() of every constant, all 8/16-bit values and sampled 32-bit values compared with model and spec; the repository's stringer re-run on types.go and compared byte for byte",
         "Coq kernel + vm_compute; no axioms; translator gen_c20.go (go/ast over types.go and types_string.go, fails loudly on an unknown String shape); strconv.FormatInt modelled as a decimal numeral",
         "Rocq proof by reflection over translator-regenerated tables + exhaustive differential correspondence"),
}

def load_props_d():
    """checks whose manifest text lives in tools/props.d/<ID>.json (keys manifest_text, manifest_note, manifest_technique)"""
    import glob
    for f in sorted(glob.glob(os.path.join(ROOT, "tools/props.d/*.json"))):
        pid = os.path.splitext(os.path.basename(f))[0]
        cfg = json.load(open(f))
        if "manifest_text" in cfg:
            CHECKS[pid] = (cfg["manifest_text"], cfg.get("manifest_note", ""), cfg.get("manifest_technique", ""))

def main():
    load_props_d()
    checks = []
    for pid in sorted(CHECKS):
        text, note, tech = CHECKS[pid]
        checks.append({
            "property_id": pid,
            "quick_cmd": "./check %s --tier quick" % pid,
            "thorough_cmd": "./check %s --tier thorough" % pid,
            "evidence_file": "/verif/evidence/%s.json" % pid,
            "replay_cmd_template": "./check %s --replay {path}" % pid,
            "engine": "coq",
            "level_claimed": {"category": "proof", "text": text, "design_ref": "DESIGN.md section 6, %s" % pid},
            "level_note": note,
            "technique": tech,
        })
    allp = [json.loads(l)["id"] for l in open(os.path.join(ROOT, "properties.jsonl"))]
    na = [{"property_id": p, "reason": "check under construction in this build phase (not yet claimed); see DESIGN.md section 6"} for p in allp if p not in CHECKS]
    m = {
        "version": 1,
        "setup_cmd": "cd /verif && tools/setup.sh",
        "hooks": {
            "guard": "verif",
            "enable": "go build -tags verif (harness module /verif/harness replaces github.com/tormoder/fit with /repo)",
            "baseline_off_cmd": "cd /repo && GOFLAGS=-mod=mod GOPROXY=off GOSUMDB=off GOTOOLCHAIN=local go test -vet=off -count=1 -timeout 25m ./...",
            "source_commits": hook_commits(),
            "add_only": True,
        },
        "engines": [
            {"name": "coq", "path": "/verif/coq", "serves_properties": sorted(CHECKS), "kind_free_text": "Coq 8.16.1 development: Gen (tables regenerated from /repo), Model, Spec, Proofs, Props"},
            {"name": "vh", "path": "/verif/harness", "serves_properties": sorted(CHECKS), "kind_free_text": "Go translator + correspondence/spec-oracle harness built against /repo with -tags verif"},
            {"name": "vdriver", "path": "/verif/driver", "serves_properties": sorted(CHECKS), "kind_free_text": "OCaml co-process around the extracted model and specs"},
        ],
        "checks": checks,
        "not_applicable": na,
        "notes": "every check: ./check <ID> regenerates coq/Gen from /repo's working tree, rebuilds the Coq development, re-extracts the model, runs correspondence + spec oracle, writes evidence/<ID>.json",
    }
    json.dump(m, open(os.path.join(ROOT, "MANIFEST.json"), "w"), indent=1)
    print("MANIFEST.json:", len(checks), "checks,", len(na), "not yet claimed")

main()
