package main

import (
	"encoding/hex"
	"encoding/json"
	"fmt"
	"os"
	"strings"
)

// replayStream re-runs one recorded stream case (./check <ID> --replay <file>):
// the case is decoded by the current implementation in lock step with the
// model and judged by the reference semantics again.  Replay files written by
// report.finish hold the case under "case" (spec failure) or
// "first_disagreeing_case" (correspondence break).
func replayStream(prop string, o runOpts, timeInScope bool, requireSuccess bool, allOptions bool) int {
	r := newReport(prop, o)
	r.Rule = "replay of " + o.replay
	raw, err := os.ReadFile(o.replay)
	if err != nil {
		fmt.Println("replay:", err)
		return 2
	}
	var doc map[string]json.RawMessage
	if err := json.Unmarshal(raw, &doc); err != nil {
		fmt.Println("replay:", err)
		return 2
	}
	body := doc["case"]
	if body == nil {
		body = doc["first_disagreeing_case"]
	}
	var c struct {
		Stream  *stream `json:"stream"`
		Options string  `json:"options"`
		Sched   []int   `json:"sched"`
		Ewd     bool    `json:"eof_with_data"`
	}
	if body == nil || json.Unmarshal(body, &c) != nil || c.Stream == nil {
		fmt.Println("replay: no stream case in", o.replay, "(the file names a broken obligation or a non-stream case; run the check itself)")
		return 2
	}
	for i := range c.Stream.Records {
		rec := &c.Stream.Records[i]
		rec.Pay, _ = hex.DecodeString(rec.PayHex)
		rec.DevPay, _ = hex.DecodeString(rec.DevHex)
	}
	d, err := startDriver(o.driver)
	if err != nil {
		fmt.Println("driver:", err)
		return 2
	}
	defer d.close()
	w := newWorld(d)
	_ = timeInScope // every stream is in scope of every stream property since the C12 defects were repaired
	rs := readerSpec{Data: c.Stream.bytes(), Sched: c.Sched, Ewd: c.Ewd}
	sets := []optSet{{}}
	if len(c.Options) == 3 {
		sets = []optSet{{c.Options[0] == '1', c.Options[1] == '1', c.Options[2] == '1'}}
	}
	if allOptions {
		sets = nil
		for i := 0; i < 8; i++ {
			sets = append(sets, optSet{i&4 != 0, i&2 != 0, i&1 != 0})
		}
	}
	var base string
	for i, os := range sets {
		impl, _, _, ok := decodeAndJudge(r, w, streamCase{c.Stream, rs}, os, "", requireSuccess)
		if !ok {
			return 2
		}
		var fs []string
		for _, f := range impl.Files {
			if k := strings.Index(f, ";UM"); k >= 0 {
				f = f[:k] // the unknown lists are what the options add
			}
			fs = append(fs, maskAccumText(f))
		}
		proj := fmt.Sprintf("err=%d pos=%d files=%v", impl.ErrClass, impl.Pos, fs)
		if i == 0 {
			base = proj
		} else if proj != base {
			r.specFail("options_visible", fmt.Sprintf("options %s change messages, error or bytes consumed", os.String()), map[string]interface{}{"stream": c.Stream, "options": os.String()})
		}
		r.count(fmt.Sprintf("replay%d", i), true)
		fmt.Printf("replay %s options=%s: implementation %.300s\n", prop, os.String(), impl.observable())
	}
	return r.finish()
}
