package main

import (
	"fmt"
	"go/ast"
	"go/constant"
	"go/importer"
	"go/parser"
	"go/token"
	"go/types"
	"path/filepath"
	"strings"
)

// genC17Funcs TRANSLATES latlng.go into Gallina (Gen/C17Funcs.v): every
// function and method of the file becomes a definition over the vocabulary of
// Model/LatLng.v (int32 as Z, float64 as Flocq binary64, bool, string; a
// struct with the single field `semicircles int32` is its field).  Unlike
// Gen/C17Consts.v (operators and constants in source order) this is the code
// itself, so Proofs/C17Funcs.v can prove SEMANTIC equality with the
// hand-written model: a behaviour-preserving rewrite of a test (merged range
// tests, reordered disjuncts, a helper function) keeps the proof, a changed
// bound or operator breaks it.
//
// Fragment translated (anything else is an error, i.e. a broken tie):
//   statements   if <cond> { return e } [else ...]  ...  return e;  x := e
//   expressions  parameters, receiver, package constants and variables,
//                constant expressions (evaluated by go/types),
//                == != < <= > >= on int32 and float64, || && !,
//                * and / on float64, float64(int32), int32(float64),
//                x.semicircles, T{semicircles: e}, T{e},
//                calls of functions/methods of the file,
//                math.NaN(), math.Pow(a, b) on small integer constants,
//                strconv.FormatFloat(x, fmt, prec, bits) on constant fmt/prec/bits;
//                for time.go: uint32 and int64 (time.Duration) as Z, * on int64
//                (wrapped), / by a positive constant, the conversions between
//                them, time.Date on constants, Time.Add / Sub / Equal.
// Trusted: this translator; the meaning of the vocabulary (Model/LatLng.v
// header: IEEE-754 round-to-nearest-even, int32(float64), FormatFloat).

func init() { extraGens = append(extraGens, genC17Funcs) }

type c17tr struct {
	info  *types.Info
	pkg   *types.Package
	funcs map[string]*ast.FuncDecl // Gallina name -> decl
	vars  map[string]ast.Expr      // package variable -> initialiser
	done  map[string]bool
	order []string // emitted definitions, dependency order
	defs  map[string]string
}

func isGoTime(ty types.Type) bool {
	n, ok := ty.(*types.Named)
	return ok && n.Obj().Pkg() != nil && n.Obj().Pkg().Path() == "time" && n.Obj().Name() == "Time"
}

func kindOf(ty types.Type) types.BasicKind {
	if b, ok := ty.Underlying().(*types.Basic); ok {
		return b.Kind()
	}
	return types.Invalid
}

func (t *c17tr) coqType(ty types.Type) (string, error) {
	if isGoTime(ty) {
		return "gotime", nil
	}
	switch u := ty.Underlying().(type) {
	case *types.Basic:
		switch u.Kind() {
		case types.Int32, types.Int, types.UntypedInt, types.Uint32, types.Int64:
			return "Z", nil
		case types.Float64, types.UntypedFloat:
			return "binary64", nil
		case types.Bool, types.UntypedBool:
			return "bool", nil
		case types.String, types.UntypedString:
			return "string", nil
		}
	case *types.Struct:
		if u.NumFields() == 1 && u.Field(0).Name() == "semicircles" {
			if b, ok := u.Field(0).Type().(*types.Basic); ok && b.Kind() == types.Int32 {
				return "Z", nil
			}
		}
	}
	return "", fmt.Errorf("type %s is outside the translated fragment", ty)
}

func isFloat(ty types.Type) bool {
	b, ok := ty.Underlying().(*types.Basic)
	return ok && b.Info()&types.IsFloat != 0
}
func isInt(ty types.Type) bool {
	b, ok := ty.Underlying().(*types.Basic)
	return ok && b.Info()&types.IsInteger != 0
}

func zlit(v constant.Value) (string, bool) {
	i := constant.ToInt(v)
	if i.Kind() != constant.Int {
		return "", false
	}
	s := i.ExactString()
	if strings.HasPrefix(s, "-") {
		s = "(" + s + ")"
	}
	return s, true
}

func funcKey(fd *ast.FuncDecl) string {
	if fd.Recv != nil && len(fd.Recv.List) == 1 {
		ty := fd.Recv.List[0].Type
		if st, ok := ty.(*ast.StarExpr); ok {
			ty = st.X
		}
		if id, ok := ty.(*ast.Ident); ok {
			return "go_" + id.Name + "_" + fd.Name.Name
		}
	}
	return "go_" + fd.Name.Name
}

func (t *c17tr) expr(e ast.Expr) (string, error) {
	tv, ok := t.info.Types[e]
	if ok && tv.Value != nil {
		switch {
		case tv.Value.Kind() == constant.Bool:
			if constant.BoolVal(tv.Value) {
				return "true", nil
			}
			return "false", nil
		case tv.Value.Kind() == constant.String:
			return fmt.Sprintf("%q%%string", constant.StringVal(tv.Value)), nil
		case isFloat(tv.Type):
			if s, ok := zlit(tv.Value); ok {
				return "(b64_of_Z " + s + ")", nil
			}
			return "", fmt.Errorf("non-integral float constant %s", tv.Value)
		default:
			if s, ok := zlit(tv.Value); ok {
				return s, nil
			}
			return "", fmt.Errorf("constant %s is outside the translated fragment", tv.Value)
		}
	}
	switch x := e.(type) {
	case *ast.ParenExpr:
		return t.expr(x.X)
	case *ast.Ident:
		switch obj := t.info.Uses[x].(type) {
		case *types.Var:
			if obj.Parent() == t.pkg.Scope() {
				if err := t.emitVar(obj.Name()); err != nil {
					return "", err
				}
				return "go_var_" + obj.Name(), nil
			}
			return "v_" + obj.Name(), nil
		}
		return "", fmt.Errorf("identifier %s is outside the translated fragment", x.Name)
	case *ast.SelectorExpr:
		if x.Sel.Name == "semicircles" {
			if _, err := t.coqType(t.info.Types[x.X].Type); err != nil {
				return "", err
			}
			return t.expr(x.X)
		}
		return "", fmt.Errorf("selector .%s is outside the translated fragment", x.Sel.Name)
	case *ast.CompositeLit:
		if _, err := t.coqType(t.info.Types[x].Type); err != nil {
			return "", err
		}
		if len(x.Elts) != 1 {
			return "", fmt.Errorf("composite literal without exactly one element")
		}
		el := x.Elts[0]
		if kv, ok := el.(*ast.KeyValueExpr); ok {
			el = kv.Value
		}
		return t.expr(el)
	case *ast.UnaryExpr:
		if x.Op == token.NOT {
			a, err := t.expr(x.X)
			if err != nil {
				return "", err
			}
			return "(negb " + a + ")", nil
		}
		return "", fmt.Errorf("unary %s is outside the translated fragment", x.Op)
	case *ast.BinaryExpr:
		a, err := t.expr(x.X)
		if err != nil {
			return "", err
		}
		b, err := t.expr(x.Y)
		if err != nil {
			return "", err
		}
		lt := t.info.Types[x.X].Type
		switch x.Op {
		case token.LOR:
			return "(orb " + a + " " + b + ")", nil
		case token.LAND:
			return "(andb " + a + " " + b + ")", nil
		}
		if isFloat(lt) || isFloat(t.info.Types[x.Y].Type) {
			op := map[token.Token]string{token.GEQ: "b64_ge", token.LEQ: "b64_le", token.LSS: "b64_lt", token.GTR: "b64_gt",
				token.EQL: "b64_eq", token.MUL: "b64_mult mode_NE", token.QUO: "b64_div mode_NE"}[x.Op]
			if op == "" {
				return "", fmt.Errorf("float64 operator %s is outside the translated fragment", x.Op)
			}
			return "(" + op + " " + a + " " + b + ")", nil
		}
		if isInt(lt) {
			op := map[token.Token]string{token.GEQ: "Z.geb", token.LEQ: "Z.leb", token.LSS: "Z.ltb", token.GTR: "Z.gtb", token.EQL: "Z.eqb"}[x.Op]
			if x.Op == token.NEQ {
				return "(negb (Z.eqb " + a + " " + b + "))", nil
			}
			if op == "" && kindOf(lt) == types.Int64 && kindOf(t.info.Types[x.Y].Type) == types.Int64 {
				switch x.Op {
				case token.MUL:
					return "(wrap64 (" + a + " * " + b + "))", nil
				case token.QUO:
					if ytv := t.info.Types[x.Y]; ytv.Value != nil && constant.Sign(ytv.Value) > 0 {
						return "(Z.quot " + a + " " + b + ")", nil
					}
				}
			}
			if op == "" {
				return "", fmt.Errorf("integer operator %s at %s is outside the translated fragment (wrap-around is not modelled)", x.Op, lt)
			}
			return "(" + op + " " + a + " " + b + ")", nil
		}
		return "", fmt.Errorf("operator %s on %s is outside the translated fragment", x.Op, lt)
	case *ast.CallExpr:
		// conversions
		if ftv, ok := t.info.Types[x.Fun]; ok && ftv.IsType() {
			if len(x.Args) != 1 {
				return "", fmt.Errorf("conversion with %d arguments", len(x.Args))
			}
			a, err := t.expr(x.Args[0])
			if err != nil {
				return "", err
			}
			from := t.info.Types[x.Args[0]].Type
			b, _ := ftv.Type.Underlying().(*types.Basic)
			switch {
			case b != nil && b.Kind() == types.Float64 && isInt(from):
				if fb, _ := from.Underlying().(*types.Basic); fb == nil || fb.Kind() != types.Int32 {
					return "", fmt.Errorf("float64(%s) is outside the translated fragment", from)
				}
				return "(b64_of_Z " + a + ")", nil
			case b != nil && b.Kind() == types.Int32 && isFloat(from):
				return "(int32_of_b64 " + a + ")", nil
			case types.Identical(ftv.Type, from):
				return a, nil
			case b != nil && b.Kind() == types.Int64 && kindOf(from) == types.Uint32:
				return a, nil // every uint32 is an int64
			case b != nil && b.Kind() == types.Uint32 && kindOf(from) == types.Int64:
				return "(to_uint32 " + a + ")", nil
			}
			return "", fmt.Errorf("conversion %s(%s) is outside the translated fragment", ftv.Type, from)
		}
		if sel, ok := x.Fun.(*ast.SelectorExpr); ok {
			if pk, ok := sel.X.(*ast.Ident); ok {
				if pn, ok := t.info.Uses[pk].(*types.PkgName); ok {
					full := pn.Imported().Path() + "." + sel.Sel.Name
					switch full {
					case "math.NaN":
						return "go_nan", nil
					case "math.Pow":
						var zs []string
						for _, a := range x.Args {
							atv := t.info.Types[a]
							if atv.Value == nil {
								return "", fmt.Errorf("math.Pow on a non-constant")
							}
							s, ok := zlit(atv.Value)
							if !ok || strings.HasPrefix(s, "(") || len(s) > 3 {
								return "", fmt.Errorf("math.Pow on %s is outside the translated fragment", atv.Value)
							}
							zs = append(zs, s)
						}
						return "(go_pow_small " + zs[0] + " " + zs[1] + ")", nil
					case "time.Date":
						if len(x.Args) != 8 {
							return "", fmt.Errorf("time.Date with %d arguments", len(x.Args))
						}
						var zs []string
						for _, a := range x.Args[:7] {
							atv := t.info.Types[a]
							if atv.Value == nil {
								return "", fmt.Errorf("time.Date on a non-constant")
							}
							z, ok := zlit(atv.Value)
							if !ok {
								return "", fmt.Errorf("time.Date argument %s", atv.Value)
							}
							zs = append(zs, z)
						}
						loc, ok := x.Args[7].(*ast.SelectorExpr)
						if !ok {
							return "", fmt.Errorf("time.Date with a location that is not a package variable of time")
						}
						return fmt.Sprintf("(go_time_date %s %q%%string)", strings.Join(zs, " "), loc.Sel.Name), nil
					case "strconv.FormatFloat":
						a, err := t.expr(x.Args[0])
						if err != nil {
							return "", err
						}
						var zs []string
						for _, c := range x.Args[1:] {
							ctv := t.info.Types[c]
							if ctv.Value == nil {
								return "", fmt.Errorf("strconv.FormatFloat with a non-constant format argument")
							}
							s, ok := zlit(ctv.Value)
							if !ok {
								return "", fmt.Errorf("strconv.FormatFloat argument %s", ctv.Value)
							}
							zs = append(zs, s)
						}
						return "(go_format_float " + a + " " + strings.Join(zs, " ") + ")", nil
					}
					return "", fmt.Errorf("call of %s is outside the translated fragment", full)
				}
			}
			// method call on a value of the file's types
			if s, ok := t.info.Selections[sel]; ok && s.Kind() == types.MethodVal {
				recvT := s.Recv()
				if p, ok := recvT.(*types.Pointer); ok {
					recvT = p.Elem()
				}
				named, _ := recvT.(*types.Named)
				if named == nil {
					return "", fmt.Errorf("method call on %s", recvT)
				}
				if isGoTime(named) {
					m := map[string]string{"Add": "time_add", "Sub": "time_sub", "Equal": "time_equal"}[sel.Sel.Name]
					if m == "" || len(x.Args) != 1 {
						return "", fmt.Errorf("time.Time method %s is outside the translated fragment", sel.Sel.Name)
					}
					r, err := t.expr(sel.X)
					if err != nil {
						return "", err
					}
					a, err := t.expr(x.Args[0])
					if err != nil {
						return "", err
					}
					return "(" + m + " " + r + " " + a + ")", nil
				}
				key := "go_" + named.Obj().Name() + "_" + sel.Sel.Name
				if err := t.emitFunc(key); err != nil {
					return "", err
				}
				r, err := t.expr(sel.X)
				if err != nil {
					return "", err
				}
				args := []string{r}
				for _, a := range x.Args {
					s, err := t.expr(a)
					if err != nil {
						return "", err
					}
					args = append(args, s)
				}
				return "(" + key + " " + strings.Join(args, " ") + ")", nil
			}
		}
		if id, ok := x.Fun.(*ast.Ident); ok {
			if _, ok := t.info.Uses[id].(*types.Func); ok {
				key := "go_" + id.Name
				if err := t.emitFunc(key); err != nil {
					return "", err
				}
				if len(x.Args) == 0 {
					return key, nil
				}
				var args []string
				for _, a := range x.Args {
					s, err := t.expr(a)
					if err != nil {
						return "", err
					}
					args = append(args, s)
				}
				return "(" + key + " " + strings.Join(args, " ") + ")", nil
			}
		}
		return "", fmt.Errorf("call is outside the translated fragment")
	}
	return "", fmt.Errorf("expression %T is outside the translated fragment", e)
}

func (t *c17tr) stmts(list []ast.Stmt) (string, error) {
	if len(list) == 0 {
		return "", fmt.Errorf("control reaches the end of a function without return")
	}
	switch s := list[0].(type) {
	case *ast.ReturnStmt:
		if len(s.Results) != 1 {
			return "", fmt.Errorf("return with %d results", len(s.Results))
		}
		return t.expr(s.Results[0])
	case *ast.AssignStmt:
		// x := e (one variable, defined once: a name for an intermediate value)
		id, ok := s.Lhs[0].(*ast.Ident)
		if s.Tok != token.DEFINE || len(s.Lhs) != 1 || len(s.Rhs) != 1 || !ok || id.Name == "_" {
			return "", fmt.Errorf("assignment outside the translated fragment (only `x := e`)")
		}
		e, err := t.expr(s.Rhs[0])
		if err != nil {
			return "", err
		}
		rest, err := t.stmts(list[1:])
		if err != nil {
			return "", err
		}
		return "(let v_" + id.Name + " := " + e + " in " + rest + ")", nil
	case *ast.IfStmt:
		if s.Init != nil {
			return "", fmt.Errorf("if with an init statement")
		}
		c, err := t.expr(s.Cond)
		if err != nil {
			return "", err
		}
		th, err := t.stmts(s.Body.List)
		if err != nil {
			return "", err
		}
		var rest string
		switch el := s.Else.(type) {
		case nil:
			rest, err = t.stmts(list[1:])
		case *ast.BlockStmt:
			rest, err = t.stmts(append(append([]ast.Stmt{}, el.List...), list[1:]...))
		case *ast.IfStmt:
			rest, err = t.stmts(append([]ast.Stmt{el}, list[1:]...))
		}
		if err != nil {
			return "", err
		}
		return "(if " + c + " then " + th + " else " + rest + ")", nil
	}
	return "", fmt.Errorf("statement %T is outside the translated fragment", list[0])
}

func (t *c17tr) emitVar(name string) error {
	key := "go_var_" + name
	if t.done[key] {
		return nil
	}
	init, ok := t.vars[name]
	if !ok {
		return fmt.Errorf("package variable %s has no single initialiser", name)
	}
	t.done[key] = true
	body, err := t.expr(init)
	if err != nil {
		return fmt.Errorf("var %s: %v", name, err)
	}
	ty, err := t.coqType(t.info.Types[init].Type)
	if err != nil {
		return err
	}
	t.defs[key] = fmt.Sprintf("Definition %s : %s := %s.\n", key, ty, body)
	t.order = append(t.order, key)
	return nil
}

func (t *c17tr) emitFunc(key string) error {
	if t.done[key] {
		if _, ok := t.defs[key]; !ok {
			return fmt.Errorf("%s is recursive", key)
		}
		return nil
	}
	fd, ok := t.funcs[key]
	if !ok {
		return fmt.Errorf("function %s is not declared in latlng.go", key)
	}
	t.done[key] = true
	var params []string
	add := func(fl *ast.FieldList) error {
		if fl == nil {
			return nil
		}
		for _, f := range fl.List {
			ty, err := t.coqType(t.info.Types[f.Type].Type)
			if err != nil {
				return err
			}
			if len(f.Names) == 0 {
				params = append(params, fmt.Sprintf("(_ : %s)", ty))
			}
			for _, n := range f.Names {
				nm := "v_" + n.Name
				if n.Name == "_" {
					nm = "_"
				}
				params = append(params, fmt.Sprintf("(%s : %s)", nm, ty))
			}
		}
		return nil
	}
	if err := add(fd.Recv); err != nil {
		return fmt.Errorf("%s: %v", key, err)
	}
	if err := add(fd.Type.Params); err != nil {
		return fmt.Errorf("%s: %v", key, err)
	}
	if fd.Type.Results == nil || len(fd.Type.Results.List) != 1 || len(fd.Type.Results.List[0].Names) > 0 {
		return fmt.Errorf("%s: not exactly one unnamed result", key)
	}
	rty, err := t.coqType(t.info.Types[fd.Type.Results.List[0].Type].Type)
	if err != nil {
		return fmt.Errorf("%s: %v", key, err)
	}
	body, err := t.stmts(fd.Body.List)
	if err != nil {
		return fmt.Errorf("%s: %v", key, err)
	}
	sp := ""
	if len(params) > 0 {
		sp = " " + strings.Join(params, " ")
	}
	t.defs[key] = fmt.Sprintf("Definition %s%s : %s :=\n  %s.\n", key, sp, rty, body)
	t.order = append(t.order, key)
	return nil
}

func genC17Funcs() (*coqFile, error) {
	fset := token.NewFileSet()
	var files []*ast.File
	for _, name := range []string{"latlng.go", "time.go"} {
		f, err := parser.ParseFile(fset, filepath.Join(repoRoot, name), nil, 0)
		if err != nil {
			return nil, err
		}
		files = append(files, f)
	}
	info := &types.Info{Types: map[ast.Expr]types.TypeAndValue{}, Uses: map[*ast.Ident]types.Object{},
		Selections: map[*ast.SelectorExpr]*types.Selection{}}
	conf := types.Config{Importer: importer.ForCompiler(fset, "source", nil)}
	pkg, err := conf.Check("fit", fset, files, info)
	if err != nil {
		return nil, fmt.Errorf("type-checking latlng.go and time.go: %v", err)
	}
	t := &c17tr{info: info, pkg: pkg, funcs: map[string]*ast.FuncDecl{}, vars: map[string]ast.Expr{}, done: map[string]bool{}, defs: map[string]string{}}
	var keys []string
	var decls []ast.Decl
	for _, f := range files {
		decls = append(decls, f.Decls...)
	}
	for _, d := range decls {
		switch d := d.(type) {
		case *ast.FuncDecl:
			if d.Body == nil {
				continue
			}
			k := funcKey(d)
			t.funcs[k] = d
			keys = append(keys, k)
		case *ast.GenDecl:
			if d.Tok != token.VAR {
				continue
			}
			for _, sp := range d.Specs {
				vs := sp.(*ast.ValueSpec)
				if len(vs.Names) == len(vs.Values) {
					for i, n := range vs.Names {
						t.vars[n.Name] = vs.Values[i]
					}
				}
			}
		}
	}
	// every function of the file is translated (a new helper the others call comes along; a new function
	// outside the fragment is a broken tie -- it may be what the exported API now computes with)
	for _, k := range keys {
		if err := t.emitFunc(k); err != nil {
			return nil, err
		}
	}
	for _, need := range []string{"go_NewLatitude", "go_NewLatitudeDegrees", "go_NewLatitudeInvalid", "go_Latitude_Semicircles",
		"go_Latitude_Degrees", "go_Latitude_Invalid", "go_Latitude_String", "go_NewLongitude", "go_NewLongitudeDegrees",
		"go_NewLongitudeInvalid", "go_Longitude_Semicircles", "go_Longitude_Degrees", "go_Longitude_Invalid", "go_Longitude_String",
		"go_IsBaseTime", "go_decodeDateTime", "go_encodeTime"} {
		if _, ok := t.defs[need]; !ok {
			return nil, fmt.Errorf("latlng.go / time.go do not declare %s", strings.TrimPrefix(need, "go_"))
		}
	}
	c := &coqFile{name: "C17Funcs.v"}
	c.p(genHeader)
	c.p("(* latlng.go and time.go translated function by function (harness/gen_c17funcs.go); vocabulary: Model/LatLng.v, Model/FitTime.v *)\n")
	c.p("From Coq Require Import ZArith Bool String.\nFrom Flocq Require Import Core IEEE754.BinarySingleNaN IEEE754.Binary IEEE754.Bits.\n")
	c.p("From FitV Require Import Model.LatLng Model.FitTime.\nLocal Open Scope Z_scope.\n\n")
	for _, k := range t.order {
		c.p("%s", t.defs[k])
	}
	// the proofs see through every definition of the file, helpers included, whatever they are called
	c.p("\nCreate HintDb go_src.\n#[global] Hint Unfold %s : go_src.\n", strings.Join(t.order, " "))
	return c, nil
}
