package main

import (
	"crypto/sha256"
	"encoding/binary"
	"encoding/hex"
	"encoding/json"
	"fmt"
	"os"
	"path/filepath"
	"reflect"
	"sort"
	"strings"
	"time"

	"github.com/tormoder/fit"
)

// C10 -- framing.  Every input (a valid file, or a concatenation of 1-5 valid
// files, with or without trailing bytes, optionally with one corrupted byte so
// that failing paths are exercised too) is read through a counting reader
// under ten partition families by every entry point.  The property is judged
// directly on what the implementation returned (bytes consumed, Files, header,
// file_id) and every run is compared with the extracted model in lock step.

func init() { register("c10", runC10) }

// vfile is one valid FIT file (a frame) together with what decoding it alone
// returns.
type vfile struct {
	data  []byte
	hs    int // header size
	ds    int // data size
	name  string
	canon string // canonical File of the solo Decode (accumulated Distance masked)
	hdr   string // canonical header
	fid   string // canonical File{Header, FileId}: what DecodeHeaderAndFileID reports
	s     *stream
}

func (v *vfile) frameLen() int { return v.hs + v.ds + 2 }

// parseFrame reads header size and data size from the first bytes.
func parseFrame(data []byte) (hs, ds int, ok bool) {
	if len(data) < 12 {
		return 0, 0, false
	}
	hs = int(data[0])
	if (hs != 12 && hs != 14) || len(data) < hs {
		return 0, 0, false
	}
	return hs, int(binary.LittleEndian.Uint32(data[4:8])), true
}

func minInt(a, b int) int {
	if a < b {
		return a
	}
	return b
}

// frameBound: the largest number of bytes an entry point may take from a
// reader holding data: nothing after the frame announced by the header (the
// header alone for the header-only entry points; one byte when the size byte is
// not a header size).
func frameBound(entry string, data []byte) int {
	if len(data) == 0 {
		return 0
	}
	sz := int(data[0])
	if sz != 12 && sz != 14 {
		return 1
	}
	if entry == "H" || entry == "J" || len(data) < sz {
		return minInt(sz, len(data))
	}
	ds := int(binary.LittleEndian.Uint32(data[4:8]))
	return minInt(len(data), sz+ds+2)
}

// chainBound: DecodeChained may walk over every complete frame and into the
// frame after them.
func chainBound(data []byte) int {
	off := 0
	for {
		hs, ds, ok := parseFrame(data[off:])
		if !ok || off+hs+ds+2 > len(data) {
			break
		}
		off += hs + ds + 2
	}
	return off + frameBound("D", data[off:])
}

// maskAccum zeroes RecordMsg.Distance where it was produced by the
// process-wide compressed_speed_distance accumulator (known finding of C18):
// that value depends on every earlier Decode of the process, so "equal to
// decoding that file alone" is judged modulo it; the model, which threads the
// accumulator state, is compared exactly.
func maskAccum(f *fit.File) {
	if f == nil {
		return
	}
	_, slots := fileSlots(f)
	for _, s := range slots {
		for _, m := range slotMsgs(s) {
			if m.Type().Name() != "RecordMsg" || !m.CanSet() {
				continue
			}
			csd := m.FieldByName("CompressedSpeedDistance")
			if !csd.IsValid() || csd.Kind() != reflect.Slice || csd.Len() != 3 {
				continue
			}
			expand := false
			for i := 0; i < 3; i++ {
				if csd.Index(i).Uint() != 0xFF {
					expand = true
				}
			}
			if expand {
				m.FieldByName("Distance").SetUint(0)
			}
		}
	}
}

func maskedCanon(f *fit.File) string {
	maskAccum(f)
	return canonFile(f)
}

func fidCanon(f *fit.File) string {
	if f == nil {
		return "nil"
	}
	return canonFile(&fit.File{Header: f.Header, FileId: f.FileId})
}

// ------------------------------------------------------------ partitions

var c10Families = []string{"1", "2", "3", "7", "4095", "4096", "4097", "8192", "random", "eofdata", "edge"}

// ioSched describes how the reader cuts the stream into Read results.
type ioSched struct {
	Family string `json:"partition"`
	Chunk  int    `json:"chunk,omitempty"` // constant chunk size (0: Sched is explicit)
	Sched  []int  `json:"sched,omitempty"`
	Ones   int    `json:"one_byte_reads,omitempty"` // this many 1-byte reads, then every Read returns all it is asked for
	Ewd    bool   `json:"eof_with_data"`
}

func (p ioSched) expand(n int) []int {
	if p.Ones > 0 {
		out := make([]int, p.Ones)
		for i := range out {
			out[i] = 1
		}
		return out
	}
	if p.Chunk == 0 {
		return p.Sched
	}
	out := make([]int, n/p.Chunk+2)
	for i := range out {
		out[i] = p.Chunk
	}
	return out
}

func randomSched(rg *rng, n int) []int {
	var out []int
	left := n
	for left > 0 {
		var c int
		switch rg.intn(8) {
		case 0:
			c = 0
		case 1:
			c = 1
		case 2:
			c = 1 + rg.intn(16)
		case 3:
			c = 4090 + rg.intn(12)
		case 4:
			c = 8185 + rg.intn(12)
		case 5:
			c = 1 + rg.intn(40000)
		default:
			c = 1 + rg.intn(300)
		}
		out = append(out, c)
		left -= c
	}
	return out
}

func c10Partition(rg *rng, fam string, n int) ioSched {
	switch fam {
	case "random":
		return ioSched{Family: fam, Sched: randomSched(rg, n), Ewd: rg.bool()}
	case "small": // chunk sizes 1..3 only
		var out []int
		for left := n; left > 0; {
			c := 1 + rg.intn(3)
			out = append(out, c)
			left -= c
		}
		return ioSched{Family: fam, Sched: out, Ewd: rg.bool()}
	case "eofdata": // the last chunk arrives together with io.EOF
		switch rg.intn(3) {
		case 0:
			return ioSched{Family: fam, Ewd: true} // one read returns everything asked for, the last one with EOF
		case 1:
			return ioSched{Family: fam, Chunk: 1 + rg.intn(64), Ewd: true}
		}
		return ioSched{Family: fam, Sched: randomSched(rg, n), Ewd: true}
	}
	c := 0
	fmt.Sscanf(fam, "%d", &c)
	return ioSched{Family: fam, Chunk: c}
}

// ------------------------------------------------------------ inputs

type ioInput struct {
	files    []*vfile
	trailing []byte
	corrupt  int // absolute offset of the corrupted byte, -1 none
	data     []byte
	id       string
	model    bool // small enough for the lock-step model run
}

func (in *ioInput) build() {
	in.data = in.data[:0]
	for _, f := range in.files {
		in.data = append(in.data, f.data...)
	}
	in.data = append(in.data, in.trailing...)
	sum := sha256.Sum256(in.data)
	in.id = hex.EncodeToString(sum[:8])
}

// intact: number of leading frames untouched by the corruption
func (in *ioInput) intact() int {
	off := 0
	for i, f := range in.files {
		if in.corrupt >= 0 && in.corrupt < off+len(f.data) {
			return i
		}
		off += len(f.data)
	}
	return len(in.files)
}

type ioCase struct {
	Entry    string   `json:"entry"`
	Hex      string   `json:"input_hex"`
	Frames   []int    `json:"valid_frame_lengths"`
	Trailing int      `json:"trailing_bytes"`
	Corrupt  int      `json:"corrupted_offset"`
	Part     ioSched  `json:"reader"`
	Cut      int      `json:"cut_offset"`
	Fault    bool     `json:"fault"`
	Chunking string   `json:"chunking,omitempty"`
	Names    []string `json:"files,omitempty"`
}

const c10ModelMax = 9000 // bytes; larger inputs run on the implementation only (the model's unary positions are quadratic)

// soloDecode decodes one candidate file alone (one big read) through the
// world and returns its vfile when the library accepts it.
func soloDecode(r *report, w *world, data []byte, name string, s *stream, useModel bool) (*vfile, decOut, decOut, error) {
	hs, ds, ok := parseFrame(data)
	if !ok {
		return nil, decOut{}, decOut{}, nil
	}
	var impl, model decOut
	var err error
	rs := readerSpec{Data: data}
	if useModel {
		impl, model, err = w.decode("D", optSet{}, rs)
		if err != nil {
			return nil, impl, model, err
		}
		if r != nil && impl.observableMasked() != model.observableMasked() {
			r.corrFail("model_vs_impl_solo", fmt.Sprintf("model and implementation differ on a file decoded alone in one read (%s)\n    impl : %.400s\n    model: %.400s", name, impl.observable(), model.observable()),
				ioCase{Entry: "D", Hex: hexs(data), Corrupt: -1, Cut: -1, Part: ioSched{Family: "whole"}, Names: []string{name}})
		}
	} else {
		impl = implDecode("D", optSet{}, rs)
	}
	if impl.Panic != "" || impl.ErrClass != 0 || len(impl.Raw) != 1 || impl.Raw[0] == nil {
		// validity is not the implementation's to decide: a stream inside the domain of the reference semantics
		// (well-formed, compatible with the profile, hosted file type) is a valid file; rejecting it breaks the
		// "one File per input" clause for every chain that contains it
		if r != nil && s != nil && useModel && impl.Panic == "" {
			if sr, err := askSpec(w.d, s); err == nil && sr.InDomain && model.ErrClass == 0 {
				r.specFail("valid_rejected", fmt.Sprintf("Decode rejects a valid file (inside the domain of the reference semantics, accepted by the model): %s (%s)\n    records: %.600s", impl.ErrText, name, s.specArgs()),
					ioCase{Entry: "D", Hex: hexs(data), Corrupt: -1, Cut: -1, Part: ioSched{Family: "whole"}, Names: []string{name}})
			}
		}
		return nil, impl, model, nil
	}
	v := &vfile{data: data, hs: hs, ds: ds, name: name, s: s}
	v.hdr = canonHeader(impl.Raw[0].Header)
	v.fid = fidCanon(impl.Raw[0])
	v.canon = maskedCanon(impl.Raw[0])
	return v, impl, model, nil
}

func corpusFitFiles() []string {
	var out []string
	filepath.Walk(filepath.Join(repoRoot, "testdata"), func(p string, info os.FileInfo, err error) error {
		if err == nil && !info.IsDir() && strings.HasSuffix(p, ".fit") {
			out = append(out, p)
		}
		return nil
	})
	sort.Strings(out)
	return out
}

// splitFrames cuts a byte string into the frames its headers announce.
func splitFrames(data []byte) [][]byte {
	var out [][]byte
	off := 0
	for off < len(data) {
		hs, ds, ok := parseFrame(data[off:])
		if !ok || off+hs+ds+2 > len(data) {
			break
		}
		out = append(out, data[off:off+hs+ds+2])
		off += hs + ds + 2
	}
	return out
}

type c10Ctx struct {
	r  *report
	w  *world
	rg *rng
}

// runCase runs one (input, entry, partition) and judges it.
func (c *c10Ctx) runCase(in *ioInput, entry string, part ioSched) bool {
	r := c.r
	rs := readerSpec{Data: in.data, Sched: part.expand(len(in.data)), Ewd: part.Ewd}
	var impl, model decOut
	// CheckIntegrity's io.CopyN is quadratic in the model under fine partitions; it touches no accumulator,
	// so the model run can be skipped for large inputs without desynchronising the accumulator mirror
	fine := part.Family == "random" || part.Family == "small" || part.Family == "edge" || (part.Chunk > 0 && part.Chunk < 512) || (part.Family == "eofdata" && len(part.Sched) > 0)
	useModel := in.model && !(entry == "I" && fine && len(in.data) > 2500)
	if useModel {
		var err error
		impl, model, err = c.w.decode(entry, optSet{}, rs)
		if err != nil {
			fmt.Println("driver:", err, "entry", entry, "bytes", len(in.data), "partition", part.Family, part.Chunk, len(part.Sched))
			return false
		}
		r.Traces++
	} else {
		impl = implDecode(entry, optSet{}, rs)
	}
	rep := func() interface{} {
		ic := ioCase{Entry: entry, Hex: hexs(in.data), Trailing: len(in.trailing), Corrupt: in.corrupt, Part: part, Cut: -1}
		for _, f := range in.files {
			ic.Frames = append(ic.Frames, len(f.data))
			ic.Names = append(ic.Names, f.name)
		}
		if len(ic.Hex) > 40000 {
			ic.Hex = "" // corpus files are named instead
		}
		return ic
	}
	if useModel && impl.observableMasked() != model.observableMasked() {
		r.corrFail("model_vs_impl_"+entry, fmt.Sprintf("model and implementation differ (entry %s, partition %s)\n    impl : %.500s\n    model: %.500s", entry, part.Family, impl.observable(), model.observable()), rep())
	}
	judgeC10(r, in, entry, part, impl, rep)
	nontrivial := impl.Panic == "" && len(in.data) > impl.Pos // something follows what was consumed: framing matters
	r.count(in.id+"/"+entry+"/"+part.Family+fmt.Sprint(part.Chunk, len(part.Sched), part.Ewd), nontrivial)
	r.hist("entry_" + entry)
	r.hist("partition_" + part.Family)
	if impl.ErrClass == 0 {
		r.hist("outcome_ok")
	} else {
		r.hist("outcome_error")
	}
	return true
}

// judgeC10 decides the property on what the implementation returned.
func judgeC10(r *report, in *ioInput, entry string, part ioSched, impl decOut, rep func() interface{}) {
	where := fmt.Sprintf("entry %s, partition %s, input %d bytes (%d valid files, %d trailing bytes, corrupted offset %d)", entryName(entry), part.Family, len(in.data), len(in.files), len(in.trailing), in.corrupt)
	if impl.Panic != "" {
		r.specFail("panic", "panic or hang: "+impl.Panic+"; "+where, rep())
		return
	}
	// never past the frame, on every path
	bound := 0
	if entry == "C" {
		bound = chainBound(in.data)
	} else {
		bound = frameBound(entry, in.data)
	}
	if impl.Pos > bound {
		r.specFail("past_frame", fmt.Sprintf("%d bytes taken from the reader, the frame ends at %d; %s", impl.Pos, bound, where), rep())
	}
	k := in.intact()
	if entry != "C" {
		if k == 0 {
			return // first frame corrupted or absent: only the bound is claimed
		}
		f := in.files[0]
		if impl.ErrClass != 0 {
			r.specFail("chunking_changes_result", fmt.Sprintf("a file that decodes alone is rejected (%s); %s", impl.ErrText, where), rep())
			return
		}
		switch entry {
		case "D", "I":
			if impl.Pos != f.frameLen() {
				r.specFail("consumed_exact", fmt.Sprintf("success after %d bytes, header size + data size + 2 = %d; %s", impl.Pos, f.frameLen(), where), rep())
			}
			if entry == "D" {
				if len(impl.Raw) != 1 || maskedCanon(impl.Raw[0]) != f.canon {
					r.specFail("chunking_changes_result", "the decoded File differs from the one decoded alone in one read; "+where, rep())
				}
			}
		case "H", "J":
			if impl.Pos != f.hs {
				r.specFail("consumed_exact", fmt.Sprintf("header-only success after %d bytes, header size %d; %s", impl.Pos, f.hs, where), rep())
			}
			if entry == "H" && impl.Hdr != f.hdr {
				r.specFail("header_fileid_agree", fmt.Sprintf("DecodeHeader reports %s, Decode reports %s; %s", impl.Hdr, f.hdr, where), rep())
			}
		case "F":
			if impl.Pos < f.hs {
				r.specFail("consumed_exact", fmt.Sprintf("DecodeHeaderAndFileID success after %d bytes, less than the header; %s", impl.Pos, where), rep())
			}
			if impl.Hdr != f.hdr || len(impl.Files) != 1 || impl.Files[0] != f.fid {
				r.specFail("header_fileid_agree", fmt.Sprintf("DecodeHeaderAndFileID reports header %s and %.300s, Decode reports %s and %.300s; %s", impl.Hdr, strings.Join(impl.Files, " "), f.hdr, f.fid, where), rep())
			}
		}
		return
	}
	// DecodeChained: one File per intact leading file, each equal to decoding it alone
	if len(impl.Raw) < k {
		r.specFail("chained_concat", fmt.Sprintf("%d Files returned for %d valid leading files (%s); %s", len(impl.Raw), k, impl.ErrText, where), rep())
		return
	}
	for i := 0; i < k; i++ {
		if maskedCanon(impl.Raw[i]) != in.files[i].canon {
			r.specFail("chained_concat", fmt.Sprintf("File #%d of the chain differs from decoding that file alone; %s", i+1, where), rep())
			return
		}
	}
	if k == len(in.files) && len(in.trailing) == 0 && in.corrupt < 0 {
		if impl.ErrClass != 0 || len(impl.Raw) != k {
			r.specFail("chained_concat", fmt.Sprintf("a concatenation of %d valid files yields %d Files and error %q; %s", k, len(impl.Raw), impl.ErrText, where), rep())
		} else if impl.Pos != len(in.data) {
			r.specFail("consumed_exact", fmt.Sprintf("DecodeChained succeeded after %d of %d bytes; %s", impl.Pos, len(in.data), where), rep())
		}
	}
}

func entryName(e string) string {
	switch e {
	case "D":
		return "Decode"
	case "C":
		return "DecodeChained"
	case "I":
		return "CheckIntegrity(false)"
	case "J":
		return "CheckIntegrity(true)"
	case "H":
		return "DecodeHeader"
	case "F":
		return "DecodeHeaderAndFileID"
	}
	return e
}

var c10Entries = []string{"D", "I", "J", "H", "F", "C"}

// edgePartition: 1-byte reads up to the point where exactly delta bytes of some file's data remain, then reads
// that return everything asked for: the next fill of the 4096-byte buffer happens with limit - n = delta, so an
// off-by-one in its cap (delta around the buffer size, or 1-3) shows as bytes taken beyond the frame.
func edgePartition(rg *rng, in *ioInput) ioSched {
	if len(in.files) == 0 {
		return ioSched{Family: "edge", Ones: 1 + rg.intn(len(in.data)+1)}
	}
	j := rg.intn(len(in.files))
	off := 0
	for i := 0; i < j; i++ {
		off += len(in.files[i].data)
	}
	f := in.files[j]
	deltas := []int{1, 2, 3}
	if f.ds >= 4097 {
		deltas = []int{4095, 4096, 4097, 4095, 4096, 4097, 4095, 1, 2}
	} else if f.ds >= 4095 {
		deltas = []int{4095, 4095, 1}
	}
	d := deltas[rg.intn(len(deltas))]
	if d > f.ds {
		d = f.ds
	}
	return ioSched{Family: "edge", Ones: off + f.hs + f.ds - d}
}

func (c *c10Ctx) runInput(in *ioInput, fams []string) bool {
	for _, fam := range fams {
		part := c10Partition(c.rg, fam, len(in.data))
		if fam == "edge" {
			part = edgePartition(c.rg, in)
		}
		for _, e := range c10Entries {
			if !c.runCase(in, e, part) {
				return false
			}
		}
	}
	return true
}

func trailingBytes(rg *rng, st genStats) []byte {
	switch rg.intn(6) {
	case 0:
		st["trailing_1_byte"]++
		return []byte{byte(rg.intn(12))}
	case 1:
		st["trailing_garbage"]++
		b := rg.bytes(1 + rg.intn(40))
		if b[0] == 12 || b[0] == 14 {
			b[0] = 0
		}
		return b
	case 2:
		st["trailing_truncated_header"]++
		h := frame(14, 0x10, 2115, "ok", nil)
		return h[:1+rg.intn(11)]
	case 3:
		st["trailing_longer_than_buffer"]++
		return make([]byte, 4096+rg.intn(6000))
	case 4:
		st["trailing_header_then_short_data"]++
		h := frame(14, 0x10, 2115, "ok", make([]byte, 20))
		return h[:14+rg.intn(10)]
	}
	st["trailing_zeros"]++
	return make([]byte, 1+rg.intn(30))
}

func runC10(args []string) int {
	o := parseRunOpts("c10", args)
	r := newReport("C10", o)
	r.Rule = "inputs: valid files (generated from the profile table, small and larger than the 4096-byte buffer, and the library's testdata files that decode) and concatenations of 1-5 of them, with and without trailing bytes (1 byte, garbage, truncated header, longer than the buffer), a share of them with one corrupted byte so that failing paths run too; " +
		"each input x 11 partition families (chunks of 1, 2, 3, 7, 4095, 4096, 4097, 8192 bytes, random sizes with empty reads, last chunk together with EOF, and edge: 1-byte reads until exactly 1-3 or 4095-4097 data bytes of a file remain, then unbounded reads) x 6 entry points through a counting reader; " +
		"judged on the implementation: bytes consumed (= header+data+2 on success of Decode/CheckIntegrity, = header size for the header-only calls, never beyond the frame on any path), Files of DecodeChained = Files of the solo decodes, header/file_id of DecodeHeader/DecodeHeaderAndFileID = those of Decode; every run also compared with the extracted model (inputs up to 9000 bytes); " +
		"non-trivial = bytes follow what the call consumed (next file or trailing bytes); distinct by (input, entry, partition)"
	d, err := startDriver(o.driver)
	if err != nil {
		fmt.Println("driver:", err)
		return 2
	}
	defer d.close()
	w := newWorld(d)
	rg := newRng(o.seed)
	c := &c10Ctx{r: r, w: w, rg: rg}
	if o.replay != "" {
		return replayIO(r, w, o)
	}
	st := genStats{}
	phase := func(what string) {
		if os.Getenv("VERIF_DEBUG") != "" {
			fmt.Fprintf(os.Stderr, "[c10 %.1fs] %s evaluations=%d\n", time.Since(r.start).Seconds(), what, r.Evaluations)
		}
	}

	// pool of valid files: generated
	cfg := defaultCfg()
	cfg.illFormed = 0
	var pool, poolBig []*vfile
	var rejected [][]byte // generated files Decode rejects: no validity claim, the frame bound still applies
	nPool := sizes(o.tier, o.boost, 260, 6000)
	for i := 0; i < nPool; i++ {
		cfg.maxRecords = 12
		s := genStream(rg, &cfg, st)
		data := s.bytes()
		target := 0
		switch {
		case i%40 == 7:
			target = 8200 + rg.intn(700) // beyond 8192 bytes
		case i%20 == 3:
			target = 4100 + rg.intn(3000) // beyond the 4096-byte buffer
		}
		if target > 0 && len(s.Records) > 2 && len(data) > 40 {
			// a large valid file: the records after the file_id message repeated (redefinitions are legal)
			tail := append([]record{}, s.Records[2:]...)
			for len(data) < target {
				s.Records = append(s.Records, tail...)
				data = s.bytes()
			}
		}
		v, impl, _, err := soloDecode(r, w, data, "generated", s, true)
		if err != nil {
			fmt.Println("driver:", err)
			return 2
		}
		if v == nil {
			r.hist("generated_file_rejected_by_decode")
			if len(rejected) < 40 {
				rejected = append(rejected, data)
			}
			if len(r.Notes) < 3 {
				r.Notes = append(r.Notes, fmt.Sprintf("generated file not accepted by Decode (left to C02): %s %.200s", impl.ErrText, s.specArgs()))
			}
			continue
		}
		if len(data) > 2500 {
			poolBig = append(poolBig, v)
		} else {
			pool = append(pool, v)
		}
		r.hist("file_size_" + bucket(len(data)))
	}
	// corpus: every frame of every testdata file that decodes alone
	var corpusSmall, corpusBig []*vfile
	for _, p := range corpusFitFiles() {
		raw, err := os.ReadFile(p)
		if err != nil {
			continue
		}
		rel, _ := filepath.Rel(repoRoot, p)
		frames := splitFrames(raw)
		for i, fr := range frames {
			small := len(fr) <= 2500
			v, _, _, err := soloDecode(r, w, fr, fmt.Sprintf("%s#%d", rel, i), nil, small)
			if err != nil {
				fmt.Println("driver:", err)
				return 2
			}
			if v == nil {
				r.hist("corpus_frame_not_valid")
				continue
			}
			if small {
				corpusSmall = append(corpusSmall, v)
			} else {
				corpusBig = append(corpusBig, v)
			}
		}
	}
	r.Extra["generated_valid_files"] = len(pool) + len(poolBig)
	r.Extra["generated_valid_files_over_2500_bytes"] = len(poolBig)
	r.Extra["corpus_valid_frames_lockstep"] = len(corpusSmall)
	r.Extra["corpus_valid_frames_impl_only"] = len(corpusBig)
	if len(pool) == 0 {
		r.specFail("valid_rejected", "Decode accepts none of the generated valid files (one read): the inputs of this check cannot be built", nil)
		return r.finish()
	}

	pick := func() *vfile {
		if len(corpusSmall) > 0 && rg.chance(1, 5) {
			return corpusSmall[rg.intn(len(corpusSmall))]
		}
		if len(poolBig) > 0 && rg.chance(1, 40) {
			return poolBig[rg.intn(len(poolBig))]
		}
		return pool[rg.intn(len(pool))]
	}
	mkInput := func(n int, trailing, corrupt bool) *ioInput {
		in := &ioInput{corrupt: -1, model: true}
		total := 0
		for i := 0; i < n; i++ {
			f := pick()
			for tries := 0; total+len(f.data) > c10ModelMax+3000 && tries < 20; tries++ {
				f = pool[rg.intn(len(pool))]
			}
			in.files = append(in.files, f)
			total += len(f.data)
		}
		if trailing {
			in.trailing = trailingBytes(rg, st)
		}
		in.build()
		if corrupt {
			in.corrupt = rg.intn(len(in.data))
			// the two high bytes of a data size field are corrupted in the implementation-only phase
			// (the extracted model builds the data size as a unary number)
			off := 0
			for _, f := range in.files {
				if rel := in.corrupt - off; rel == 6 || rel == 7 {
					in.corrupt -= 2
				}
				off += len(f.data)
			}
			in.data = append([]byte{}, in.data...)
			in.data[in.corrupt] ^= byte(1 << uint(rg.intn(8)))
			st["corrupted_inputs"]++
		}
		return in
	}

	phase("pools built")
	// 1. every pool file and small corpus frame alone, then with trailing bytes
	nIn := 0
	budget := sizes(o.tier, o.boost, 120, 12000)
	fams := c10Families
	if o.tier == "thorough" {
		fams = append(append([]string{}, c10Families...), "small", "random", "random")
	}
	for _, f := range corpusSmall {
		for _, tr := range []bool{false, true} {
			in := &ioInput{files: []*vfile{f}, corrupt: -1, model: true}
			if tr {
				in.trailing = trailingBytes(rg, st)
			}
			in.build()
			if !c.runInput(in, fams) {
				return 2
			}
			r.hist("inputs_corpus_single")
		}
	}
	for _, data := range rejected {
		in := &ioInput{corrupt: -1, model: len(data) <= c10ModelMax, trailing: append(append([]byte{}, data...), trailingBytes(rg, st)...)}
		in.build()
		if !c.runInput(in, fams) {
			return 2
		}
		r.hist("inputs_rejected_generated_bounds_only")
	}
	phase("corpus singles done")
	for nIn < budget {
		n := 1 + rg.intn(5)
		in := mkInput(n, rg.chance(1, 2), rg.chance(1, 4))
		if !c.runInput(in, fams) {
			return 2
		}
		r.hist(fmt.Sprintf("inputs_chain_of_%d", n))
		if len(in.trailing) > 0 {
			r.hist("inputs_with_trailing_bytes")
		}
		nIn++
		if nIn <= 2 {
			r.sample(map[string]interface{}{"files": n, "bytes": len(in.data), "trailing": len(in.trailing), "corrupted_offset": in.corrupt})
		}
	}
	// aimed chains: a file that SETS decoder state a later file could pick up (time reference, definitions on all 16
	// local types, compressed offsets) followed by files that would USE such state if it leaked across the file
	// boundary (compressed-timestamp records and local timestamps before any timestamp of their own)
	{
		mk := func(needs bool) *vfile {
			be := rg.bool()
			arch := byte(0)
			if be {
				arch = 1
			}
			s := &stream{HdrSize: 14, Proto: 0x20, Profile: 2115, HdrCRC: "ok"}
			s.Records = append(s.Records,
				record{Kind: "D", Local: 5, Gmn: 0, Fields: []fieldDefS{{0, 1, 0}}},
				record{Kind: "M", Local: 5, Pay: []byte{4}},
				record{Kind: "D", Local: 0, Arch: arch, Gmn: uint16(fit.MesgNumRecord), Fields: []fieldDefS{{253, 4, 0x86}, {3, 1, 2}}},
				record{Kind: "D", Local: 1, Arch: arch, Gmn: uint16(fit.MesgNumRecord), Fields: []fieldDefS{{3, 1, 2}}},
				record{Kind: "D", Local: 3, Arch: arch, Gmn: uint16(fit.MesgNumActivity), Fields: []fieldDefS{{5, 4, 0x86}}})
			ts := uint32(0x30000000 + rg.intn(1<<24))
			explicit := record{Kind: "M", Local: 0, Pay: append(put32(be, ts), byte(rg.intn(200)))}
			if !needs {
				s.Records = append(s.Records, explicit)
			}
			for k, n := 0, 1+rg.intn(4); k < n; k++ {
				s.Records = append(s.Records, record{Kind: "Z", Local: 1, Offset: byte(rg.intn(32)), Pay: []byte{byte(rg.intn(200))}})
			}
			s.Records = append(s.Records, record{Kind: "M", Local: 3, Pay: put32(be, ts+uint32(rg.intn(7200)))})
			if needs && rg.bool() {
				s.Records = append(s.Records, explicit, record{Kind: "Z", Local: 1, Offset: byte(rg.intn(32)), Pay: []byte{7}})
			}
			s.fillHex()
			v, _, _, err := soloDecode(r, w, s.bytes(), "aimed-state", s, true)
			if err != nil {
				return nil
			}
			return v
		}
		for k := 0; k < 8; k++ {
			var files []*vfile
			for _, needs := range [][]bool{{false, true}, {false, true, true}, {true, false, true}, {false, false, true}}[k%4] {
				if v := mk(needs); v != nil {
					files = append(files, v)
				}
			}
			if len(files) < 2 {
				continue
			}
			in := &ioInput{files: files, corrupt: -1, model: true}
			in.build()
			if !c.runInput(in, fams) {
				return 2
			}
			r.hist("inputs_aimed_state_leak_chain")
		}
	}
	// chains decoded WITH the unknown-field / unknown-message options: each File of the chain, the reported
	// unknown lists included, must equal what Decode with the same options returns for that file alone
	{
		opts := optSet{false, true, true}
		for k := 0; k < 12; k++ {
			n := 2 + rg.intn(3)
			var files []*vfile
			var solo []string
			for i := 0; i < n; i++ {
				f := pool[rg.intn(len(pool))]
				impl, model, err := w.decode("D", opts, readerSpec{Data: f.data})
				if err != nil {
					fmt.Println("driver:", err)
					return 2
				}
				if impl.observableMasked() != model.observableMasked() {
					r.corrFail("model_vs_impl_solo_opts", "model and implementation differ on a file decoded alone with the unknown options", ioCase{Entry: "D", Hex: hexs(f.data), Corrupt: -1, Cut: -1, Part: ioSched{Family: "whole"}})
				}
				if impl.ErrClass != 0 || len(impl.Raw) != 1 {
					continue
				}
				files = append(files, f)
				solo = append(solo, maskedCanon(impl.Raw[0]))
			}
			if len(files) < 2 {
				continue
			}
			in := &ioInput{files: files, corrupt: -1, model: true}
			in.build()
			rs := readerSpec{Data: in.data, Sched: makeSched(rg, rg.intn(9), len(in.data))}
			impl, model, err := w.decode("C", opts, rs)
			if err != nil {
				fmt.Println("driver:", err)
				return 2
			}
			rep := ioCase{Entry: "C", Hex: hexs(in.data), Corrupt: -1, Cut: -1, Part: ioSched{Family: "random", Sched: rs.Sched}, Names: []string{"options unknown_fields+unknown_messages"}}
			if impl.observableMasked() != model.observableMasked() {
				r.corrFail("model_vs_impl_C_opts", "model and implementation differ on a chain decoded with the unknown options", rep)
			}
			if impl.ErrClass != 0 || len(impl.Raw) != len(files) {
				r.specFail("chained_concat", fmt.Sprintf("DecodeChained with the unknown options: %d Files and error %q for %d valid files", len(impl.Raw), impl.ErrText, len(files)), rep)
			} else {
				for i := range files {
					if got := maskedCanon(impl.Raw[i]); got != solo[i] {
						r.specFail("chained_concat", fmt.Sprintf("DecodeChained with the unknown options: File #%d differs from decoding that file alone with the same options\n    chain: %.300s\n    alone: %.300s", i+1, tailFrom(got, ";UM"), tailFrom(solo[i], ";UM")), rep)
						break
					}
				}
			}
			r.count(fmt.Sprintf("optchain%d", k), true)
			r.hist("inputs_chain_with_unknown_options")
		}
	}
	phase("lock-step inputs done")
	// huge announced data sizes (high bytes of the size field corrupted), implementation only
	for k := 0; k < sizes(o.tier, o.boost, 60, 2000); k++ {
		in := mkInput(1+rg.intn(3), rg.chance(1, 2), false)
		in.model = false
		off := 0
		which := rg.intn(len(in.files))
		for i := 0; i < which; i++ {
			off += len(in.files[i].data)
		}
		in.corrupt = off + 6 + rg.intn(2)
		in.data = append([]byte{}, in.data...)
		in.data[in.corrupt] ^= byte(1 << uint(rg.intn(8)))
		if !c.runInput(in, fams) {
			return 2
		}
		r.hist("inputs_huge_data_size_impl_only")
	}
	phase("huge data sizes done")
	// 2. the large corpus files on the implementation alone (last: the model's accumulator mirror is no longer needed)
	bigFams := fams
	if o.tier != "thorough" {
		bigFams = []string{"1", "7", "4095", "4096", "4097", "8192", "random", "eofdata", "edge", "edge"}
	}
	for i, f := range corpusBig {
		in := &ioInput{files: []*vfile{f}, corrupt: -1}
		if i%2 == 1 {
			in.trailing = trailingBytes(rg, st)
		}
		in.build()
		ff := fams
		if len(f.data) > 60000 {
			ff = bigFams
		}
		if !c.runInput(in, ff) {
			return 2
		}
		r.hist("inputs_corpus_large_impl_only")
	}
	if len(corpusBig) >= 2 {
		for k := 0; k < 3; k++ {
			in := &ioInput{corrupt: -1}
			for j := 0; j < 2+k; j++ {
				in.files = append(in.files, corpusBig[rg.intn(len(corpusBig))])
			}
			if k == 1 {
				in.trailing = trailingBytes(rg, st)
			}
			in.build()
			if !c.runInput(in, bigFams) {
				return 2
			}
			r.hist("inputs_corpus_large_chain_impl_only")
		}
	}
	phase("large corpus done")
	for k, v := range st {
		if !strings.HasPrefix(k, "cell_") {
			r.Hist[k] += v
		}
	}
	return r.finish()
}

// ------------------------------------------------------------ replay (C10 and C11)

func replayIO(r *report, w *world, o runOpts) int {
	raw, err := os.ReadFile(o.replay)
	if err != nil {
		fmt.Println("replay:", err)
		return 2
	}
	var doc struct {
		Case  json.RawMessage `json:"case"`
		First json.RawMessage `json:"first_disagreeing_case"`
	}
	json.Unmarshal(raw, &doc)
	body := doc.Case
	if len(body) == 0 {
		body = doc.First
	}
	var ic ioCase
	if len(body) == 0 || json.Unmarshal(body, &ic) != nil || ic.Entry == "" {
		fmt.Println("replay: no replayable case in", o.replay)
		return 2
	}
	var data []byte
	if ic.Hex != "" {
		data, _ = hex.DecodeString(ic.Hex)
	} else {
		// corpus files by name
		for _, n := range ic.Names {
			p := n
			if i := strings.LastIndex(n, "#"); i >= 0 {
				p = n[:i]
			}
			b, err := os.ReadFile(filepath.Join(repoRoot, p))
			if err != nil {
				fmt.Println("replay:", err)
				return 2
			}
			idx := 0
			fmt.Sscanf(n[strings.LastIndex(n, "#")+1:], "%d", &idx)
			fr := splitFrames(b)
			if idx < len(fr) {
				data = append(data, fr[idx]...)
			}
		}
		data = append(data, make([]byte, ic.Trailing)...)
	}
	in := &ioInput{corrupt: ic.Corrupt, model: len(data) <= c10ModelMax+3000}
	// rebuild the valid frames: undo the corruption, decode each alone
	clean := append([]byte{}, data...)
	off := 0
	for _, l := range ic.Frames {
		if off+l > len(clean) {
			break
		}
		fr := clean[off : off+l]
		if ic.Corrupt >= off && ic.Corrupt < off+l {
			// the replay stores the corrupted bytes; the frame is no longer valid and is not claimed
			break
		}
		v, _, _, err := soloDecode(nil, w, fr, "replay", nil, in.model)
		if err != nil {
			fmt.Println("driver:", err)
			return 2
		}
		if v == nil {
			break
		}
		in.files = append(in.files, v)
		off += l
	}
	in.trailing = data[len(data)-ic.Trailing:]
	in.data = data
	in.id = "replay"
	if r.Property == "C11" {
		return replayC11(r, w, in, ic)
	}
	c := &c10Ctx{r: r, w: w, rg: newRng(o.seed)}
	if !c.runCase(in, ic.Entry, ic.Part) {
		return 2
	}
	return r.finish()
}

func tailFrom(s, marker string) string {
	if k := strings.Index(s, marker); k >= 0 {
		return s[k:]
	}
	return s
}
