package main

import (
	"fmt"
	"reflect"
	"strings"

	"github.com/tormoder/fit"
)

// C03: routing to the typed container.
// Spec oracle on the implementation: for every file type, random interleavings
// of messages of every known type are added through the real File.add (hook)
// and each slot is compared with what the property prescribes -- exactly the
// messages of the type the slot holds, in order (last one for single slots),
// nothing else changed; all 256 file-type values through NewFile and Decode;
// all accessors on every file. Correspondence: the same interleavings as FIT
// streams through the real Decode in lock step with the model (which routes
// by the regenerated table).

func init() { register("c03", runC03) }

func runC03(args []string) int {
	o := parseRunOpts("c03", args)
	r := newReport("C03", o)
	r.Rule = "all 256 file-type values x (direct add sequences of messages of every known type with unique markers | FIT streams through Decode in lock step with the model); " +
		"non-trivial = at least one message was stored in a container slot; distinct by file type + message-type sequence"
	d, err := startDriver(o.driver)
	if err != nil {
		fmt.Println("driver:", err)
		return 2
	}
	defer d.close()
	w := newWorld(d)
	rg := newRng(o.seed)
	p := profile()

	if resp, _ := d.ask("routing_wf"); resp != "ok" {
		r.Notes = append(r.Notes, "routing_wf is false on the regenerated table: "+resp)
		r.Extra["routing_wf_report"] = resp
	}

	// --- init and accessors, all 256 values
	accNames := []string{}
	ftyp := reflect.TypeOf(&fit.File{})
	errT := reflect.TypeOf((*error)(nil)).Elem()
	for i := 0; i < ftyp.NumMethod(); i++ {
		m := ftyp.Method(i)
		if m.Type.NumIn() == 1 && m.Type.NumOut() == 2 && m.Type.Out(1) == errT && m.Type.Out(0).Kind() == reflect.Ptr &&
			strings.HasSuffix(m.Type.Out(0).Elem().Name(), "File") {
			accNames = append(accNames, m.Name)
		}
	}
	checkAccessors := func(f *fit.File, what string, rep interface{}, knownTag string) {
		cont := fit.VerifContainer(f)
		okCount := 0
		for _, name := range accNames {
			out := reflect.ValueOf(f).MethodByName(name).Call(nil)
			isErr := !out[1].IsNil()
			if isErr {
				if !out[0].IsNil() {
					r.specFail("accessor_value_with_error", fmt.Sprintf("%s: accessor %s returns a container together with an error", what, name), rep)
				}
				continue
			}
			okCount++
			if cont == nil || out[0].IsNil() || out[0].Pointer() != reflect.ValueOf(cont).Pointer() {
				r.specFail(knownTag, fmt.Sprintf("%s: accessor %s returns no error but not the container (file_id type %d)", what, name, f.FileId.Type), rep)
			} else if out[0].Type() != reflect.TypeOf(cont) {
				r.specFail("accessor_wrong_container", fmt.Sprintf("%s: accessor %s returns %v", what, name, out[0].Type()), rep)
			}
		}
		if okCount != 1 {
			r.specFail(knownTag, fmt.Sprintf("%s: %d accessors succeed (file_id type %d), expected exactly one", what, okCount, f.FileId.Type), rep)
		}
	}
	for t := 0; t < 256; t++ {
		valid, _ := d.ask(fmt.Sprintf("ft_valid %d", t))
		f, err := fit.NewFile(fit.FileType(t), validHeader())
		rep := map[string]interface{}{"entry": "NewFile", "filetype": t}
		if (err == nil) != (valid == "1") {
			r.specFail("init", fmt.Sprintf("NewFile(%d): error=%v, the property says valid=%s", t, err, valid), rep)
		}
		// the same through Decode of a stream with only a file_id
		s := &stream{HdrSize: 14, Proto: 0x10, Profile: 2115, HdrCRC: "ok", Records: []record{
			{Kind: "D", Local: 0, Gmn: 0, Fields: []fieldDefS{{0, 1, 0}}}, {Kind: "M", Local: 0, Pay: []byte{byte(t)}}}}
		s.fillHex()
		rs := readerSpec{Data: s.bytes()}
		impl, model, err2 := w.decode("D", optSet{}, rs)
		if err2 != nil {
			fmt.Println("driver:", err2)
			return 2
		}
		rep2 := map[string]interface{}{"entry": "Decode", "filetype": t, "input_hex": hexs(rs.Data)}
		if (impl.ErrClass == 0) != (valid == "1") {
			r.specFail("init", fmt.Sprintf("Decode of a file with file_id type %d: error class %d, the property says valid=%s", t, impl.ErrClass, valid), rep2)
		}
		if impl.observable() != model.observable() {
			r.corrFail("init", fmt.Sprintf("file type %d: model and implementation differ", t), rep2)
		}
		r.count(fmt.Sprintf("init%d", t), false)
		if err == nil {
			checkAccessors(f, fmt.Sprintf("NewFile(%d)", t), rep, "accessor")
		}
	}

	// --- streams through Decode in lock step with the model
	nstr := 1500
	if o.tier == "thorough" {
		nstr = 150000
	}
	nstr *= o.boost
	cfg := defaultCfg()
	cfg.maxRecords = 40
	cfg.unknownMsg = 60
	cfg.secondFid = 80
	st := genStats{}
	for i := 0; i < nstr; i++ {
		s := genStream(rg, &cfg, st)
		if i == 0 {
			// the recorded witness of the known finding: activity file, then a file_id of type settings
			s = &stream{HdrSize: 14, Proto: 0x10, Profile: 2115, HdrCRC: "ok", Records: []record{
				{Kind: "D", Local: 0, Gmn: 0, Fields: []fieldDefS{{0, 1, 0}}}, {Kind: "M", Local: 0, Pay: []byte{4}},
				{Kind: "M", Local: 0, Pay: []byte{2}}}}
			s.fillHex()
		}
		rs := readerSpec{Data: s.bytes()}
		impl, model, err := w.decode("D", optSet{}, rs)
		if err != nil {
			fmt.Println("driver:", err)
			return 2
		}
		r.Traces++
		rep := map[string]interface{}{"entry": "Decode", "stream": s, "input_hex": hexs(rs.Data)}
		if impl.observable() != model.observable() {
			r.corrFail("decode_routing", fmt.Sprintf("model and implementation differ on a generated stream\n    impl : %.300s\n    model: %.300s", impl.observable(), model.observable()), rep)
		}
		nontrivial := strings.Contains(strings.Join(impl.Files, ""), "]&") || strings.Count(strings.Join(impl.Files, ""), "[") > 1
		r.count("s"+hexs(rs.Data), nontrivial && impl.ErrClass == 0)
		// the property itself on what Decode returned, judged by the reference semantics (Spec/FitSyntax.v, extracted):
		// per slot of the file type exactly the denoted messages of that type, in stream order, the last one for a
		// single-valued slot -- in particular a message the file type does not hold has no effect on the others
		// (a decoder that treats dropped messages differently, e.g. skips their timestamp, shows here with the stream
		// as the failing input).  Streams with a second file_id are left to the accessor check and its recorded finding.
		if impl.ErrClass == 0 && impl.Panic == "" && len(impl.Raw) == 1 && impl.Raw[0] != nil {
			nfid := 0
			for _, rec := range s.Records {
				if rec.Kind != "D" && findDefGmn(s, rec) == 0 {
					nfid++
				}
			}
			if nfid <= 1 {
				if sr, e := askSpec(w.d, s); e == nil && sr.InDomain {
					r.hist("routing_judged_by_reference_semantics")
					if diff := compareFileWithSpec(impl.Raw[0], sr); diff != "" {
						r.specFail("routing_spec", "the File Decode returned is not the routing of the messages the stream denotes: "+diff+fmt.Sprintf("\n    records: %.600s", s.specArgs()), rep)
					}
				}
			}
		}
		// accessor property on what Decode returns
		if impl.ErrClass == 0 && impl.Panic == "" {
			f, err := fit.Decode(rs.reader())
			// keep the model's accumulator mirror in step with this extra call
			if _, m2, e2 := w.decodeModelOnly("D", optSet{}, rs); e2 == nil {
				_ = m2
			}
			if err == nil {
				fids := 0
				for _, rec := range s.Records {
					if rec.Kind != "D" && findDefGmn(s, rec) == 0 {
						fids++
					}
				}
				tag := "accessor"
				if fids > 1 {
					tag = "second_file_id"
					r.hist("streams_with_second_file_id")
				}
				checkAccessors(f, "Decode result", rep, tag)
			}
		}
		if i < 2 {
			r.sample(map[string]interface{}{"stream": s.specArgs(), "decoded": fmt.Sprintf("%.300s", impl.observable())})
		}
	}
	// --- pairs of files in a FRESH process: a stream that re-types itself from Y to X (second file_id), then an
	// ordinary X file.  What the second Decode returns must be what the model returns for it alone: nothing a file
	// does to its own FileId.Type may change how later files of that type are routed (a per-type cache filled on
	// first use would be such a thing; in this long-lived process every type has been seen long before).
	npairs := 24
	if o.tier == "thorough" {
		npairs = 600
	}
	npairs *= o.boost
	for i := 0; i < npairs; i++ {
		y := p.validFts[rg.intn(len(p.validFts))]
		x := p.validFts[rg.intn(len(p.validFts))]
		mk := func(ft byte, n int) *stream {
			c := defaultCfg()
			c.maxRecords, c.illFormed, c.secondFid, c.unknownMsg, c.dev, c.compressed, c.fileType = n, 0, 0, 0, 0, 0, int(ft)
			c.msgFilter = func(num uint16) bool { return num != uint16(fit.MesgNumRecord) }
			return genStream(rg, &c, st)
		}
		s1, s1b, s2 := mk(y, 4), mk(x, 6), mk(x, 30)
		cfgF := defaultCfg()
		d2, m2 := fileIdRecords(rg, &cfgF, st, x)
		s1.Records = append(append(s1.Records, d2, m2), s1b.Records...)
		s1.fillHex()
		b1, b2 := s1.bytes(), s2.bytes()
		out, err := c08RunChild([]c08Call{
			{Entry: "D", In: c08Input{ID: "retyped", Kind: "stream", Hex: hexs(b1)}},
			{Entry: "D", In: c08Input{ID: "ordinary", Kind: "stream", Hex: hexs(b2)}}})
		if err != nil || len(out) != 2 {
			fmt.Println("fresh-process pair: child failed:", err)
			return 2
		}
		impl2, model2, err := w.decode("D", optSet{}, readerSpec{Data: b2})
		if err != nil {
			fmt.Println("driver:", err)
			return 2
		}
		got := out[1].Main
		if k := strings.Index(got, " shape="); k >= 0 {
			got = got[:k]
		}
		r.Traces++
		r.count(fmt.Sprintf("pair%x|%x", b1, b2), impl2.ErrClass == 0)
		r.hist("fresh_process_pairs")
		if maskAccumText(got) != maskAccumText(model2.observable()) {
			r.specFail("routing_after_retyped_file", fmt.Sprintf("in a fresh process, after decoding a stream that re-types itself from file type %d to %d, Decode of an ordinary file of type %d returns something else than it does alone\n    after : %.300s\n    alone : %.300s",
				y, x, x, diffAt(got, model2.observable()), diffAt(model2.observable(), got)),
				map[string]interface{}{"entry": "Decode, Decode (fresh process)", "first_input_hex": hexs(b1), "second_input_hex": hexs(b2), "first_types": []int{int(y), int(x)}})
		}
	}
	// (the direct add sequences run AFTER the streams: they call the real expandComponents, which moves the
	// library's process-wide accumulators behind the back of the model's mirror in world)
	// --- direct add sequences
	nseq := 60
	if o.tier == "thorough" {
		nseq = 3000
	}
	nseq *= o.boost
	markerOf := func(v reflect.Value) string {
		var sb strings.Builder
		canonMsg(&sb, v)
		return sb.String()
	}
	for _, ft := range p.validFts {
		for k := 0; k < nseq; k++ {
			f, _ := fitNewFile(ft)
			_, slots := fileSlots(f)
			n := rg.intn(40)
			type added struct {
				mn    int
				plain reflect.Value
			}
			var seq []added
			var typeSeq []string
			// hosted types get most of the weight so that slots fill up
			var hosted []int
			for _, s := range slots[1:] {
				if s.msg >= 0 {
					hosted = append(hosted, s.msg)
				}
			}
			for i := 0; i < n; i++ {
				mn := int(p.known[rg.intn(len(p.known))])
				if rg.chance(2, 3) && len(hosted) > 0 {
					mn = hosted[rg.intn(len(hosted))]
				}
				if mn == 0 && rg.chance(1, 2) {
					continue // a later file_id of ANOTHER type is exercised separately (known finding)
				}
				mv, ok := newFilled(mn, rg.intn(1<<16))
				if !ok {
					continue
				}
				// small key-like values (indexes, ids) and verbatim / near repeats of earlier messages:
				// routing must not look at them either
				for fi := 0; fi < mv.NumField(); fi++ {
					if fv := mv.Field(fi); fv.Kind() >= reflect.Uint8 && fv.Kind() <= reflect.Uint64 && rg.chance(1, 3) {
						fv.SetUint(uint64(rg.intn(5)))
					}
				}
				if len(seq) > 0 && rg.chance(1, 6) {
					for _, j := range rg.perm(len(seq)) {
						if seq[j].mn == mn {
							mv.Set(seq[j].plain)
							r.hist("add_repeat_of_earlier_msg")
							if rg.bool() && mv.NumField() > 0 {
								fi := rg.intn(mv.NumField())
								if alt, ok := newFilled(mn, rg.intn(1<<16)); ok {
									mv.Field(fi).Set(alt.Field(fi))
								}
							}
							break
						}
					}
				}
				if mn == 0 {
					// a repeated file_id of the file's own type: must leave the container alone
					mv.FieldByName("Type").SetUint(uint64(ft))
					r.hist("add_same_type_file_id")
				} else if pv, ok := fit.VerifNewMesg(mn); ok {
					// routing must not depend on content: all-invalid and partly invalid messages too
					switch rg.intn(4) {
					case 0:
						mv.Set(pv.Elem())
						r.hist("add_all_invalid_msg")
					case 1:
						for fi := 0; fi < mv.NumField(); fi++ {
							if rg.chance(1, 2) {
								mv.Field(fi).Set(pv.Elem().Field(fi))
							}
						}
						r.hist("add_partly_invalid_msg")
					}
				}
				in := reflect.New(mv.Type()).Elem()
				in.Set(mv)
				func() {
					defer func() {
						if rec := recover(); rec != nil {
							r.specFail("add_panic", fmt.Sprintf("file type %d: add of message %d panics: %v", ft, mn, rec), map[string]interface{}{"filetype": ft, "mesgnum": mn})
						}
					}()
					fit.VerifFileAdd(f, in)
				}()
				seq = append(seq, added{mn, mv})
				typeSeq = append(typeSeq, fmt.Sprint(mn))
			}
			stored := false
			var msgTexts []string
			for _, a := range seq {
				msgTexts = append(msgTexts, markerOf(a.plain))
			}
			rep := map[string]interface{}{"entry": "File.add", "filetype": ft, "message_types": typeSeq, "messages_in_order": msgTexts, "sequence_no": k}
			for si, s := range slots {
				if si == 0 {
					continue
				}
				var want []added
				for _, a := range seq {
					if a.mn == s.msg {
						want = append(want, a)
					}
				}
				if !s.multi && len(want) > 1 {
					want = want[len(want)-1:]
				}
				got := slotMsgs(s)
				if len(got) != len(want) {
					r.specFail("slot_contents", fmt.Sprintf("file type %d slot %s: holds %d messages, the %d messages of type %d in the sequence prescribe %d", ft, s.name, len(got), len(want), s.msg, len(want)), rep)
					continue
				}
				for i := range got {
					stored = true
					// identity and order: compare modulo the fields component expansion may write
					exp, has := expandedCopy(want[i].plain)
					same := true
					for fi := 0; fi < got[i].NumField(); fi++ {
						a, b := got[i].Field(fi).Interface(), want[i].plain.Field(fi).Interface()
						if reflect.DeepEqual(a, b) {
							continue
						}
						if has && !reflect.DeepEqual(exp.Field(fi).Interface(), b) {
							continue // a component destination
						}
						same = false
					}
					if got[i].Type() != want[i].plain.Type() || !same {
						r.specFail("slot_order", fmt.Sprintf("file type %d slot %s position %d: holds %.80s, expected the message added as %.80s", ft, s.name, i, markerOf(got[i]), markerOf(want[i].plain)), rep)
						break
					}
				}
			}
			checkAccessors(f, fmt.Sprintf("file type %d after %d adds", ft, len(seq)), rep, "accessor")
			r.count(fmt.Sprintf("add%d|%s", ft, strings.Join(typeSeq, ",")), stored)
			r.hist(fmt.Sprintf("add_seq_len_%s", bucket(len(seq))))
			if k == 0 && ft == 4 {
				r.sample(rep)
			}
		}
	}

	for k, v := range st {
		if strings.HasPrefix(k, "filetype_") {
			r.Hist["stream_"+k] = v
		}
	}
	return r.finish()
}

// findDefGmn returns the global message number a data record is decoded with
// (0xFFFF if undefined), by replaying the definitions before it.
func findDefGmn(s *stream, target record) uint16 {
	defs := map[byte]uint16{}
	for i := range s.Records {
		rec := &s.Records[i]
		if rec.Kind == "D" {
			defs[rec.Local] = rec.Gmn
			continue
		}
		if reflect.DeepEqual(*rec, target) {
			if g, ok := defs[rec.Local]; ok {
				return g
			}
			return 0xFFFF
		}
	}
	return 0xFFFF
}
