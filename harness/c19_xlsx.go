package main

import (
	"archive/zip"
	"bytes"
	"encoding/xml"
	"fmt"
	"io"
	"path"
	"regexp"
	"strconv"
	"strings"
)

// A minimal .xlsx reader and cell editor written for the C19 harness.  It is
// independent of github.com/tealeg/xlsx and of fitgen's scanner/parser: zip
// container, workbook.xml (sheet order) + workbook.xml.rels (sheet parts),
// sharedStrings.xml, and the sheet XML (rows, cells, shared/inline/number
// values).  Element names are matched by local name, so the prefixed files
// written by some tools (<x:row>) read the same way.  Cell values are the raw
// stored text (no number formatting).

type xlsxBook struct {
	files      map[string][]byte // zip member name -> content
	order      []string          // zip member order (kept when rewriting)
	sheetParts []string          // zip member of sheet i (workbook order)
	sheetNames []string
	shared     []string
}

type xlsxSheet struct {
	rows  [][]string // dense: rows[r][c], r = 0 for spreadsheet row 1
	ncols int
}

func stripBOM(b []byte) []byte { return bytes.TrimPrefix(b, []byte{0xEF, 0xBB, 0xBF}) }

func openXlsx(data []byte) (*xlsxBook, error) {
	zr, err := zip.NewReader(bytes.NewReader(data), int64(len(data)))
	if err != nil {
		return nil, err
	}
	b := &xlsxBook{files: map[string][]byte{}}
	for _, f := range zr.File {
		rc, err := f.Open()
		if err != nil {
			return nil, err
		}
		c, err := io.ReadAll(rc)
		rc.Close()
		if err != nil {
			return nil, err
		}
		b.files[f.Name] = c
		b.order = append(b.order, f.Name)
	}
	// workbook: sheets in order with their relationship ids
	var wb struct {
		Sheets []struct {
			Name string `xml:"name,attr"`
			RID  string `xml:"http://schemas.openxmlformats.org/officeDocument/2006/relationships id,attr"`
		} `xml:"sheets>sheet"`
	}
	wbx, ok := b.files["xl/workbook.xml"]
	if !ok {
		return nil, fmt.Errorf("xlsx: no xl/workbook.xml")
	}
	if err := xml.Unmarshal(stripBOM(wbx), &wb); err != nil {
		return nil, fmt.Errorf("xlsx: workbook.xml: %v", err)
	}
	var rels struct {
		Rel []struct {
			ID     string `xml:"Id,attr"`
			Target string `xml:"Target,attr"`
		} `xml:"Relationship"`
	}
	rx, ok := b.files["xl/_rels/workbook.xml.rels"]
	if !ok {
		return nil, fmt.Errorf("xlsx: no workbook rels")
	}
	if err := xml.Unmarshal(stripBOM(rx), &rels); err != nil {
		return nil, fmt.Errorf("xlsx: workbook.xml.rels: %v", err)
	}
	target := map[string]string{}
	for _, r := range rels.Rel {
		t := r.Target
		if strings.HasPrefix(t, "/") {
			t = strings.TrimPrefix(t, "/")
		} else {
			t = path.Join("xl", t)
		}
		target[r.ID] = t
	}
	for _, s := range wb.Sheets {
		t, ok := target[s.RID]
		if !ok {
			return nil, fmt.Errorf("xlsx: sheet %q: relationship %q not found", s.Name, s.RID)
		}
		if _, ok := b.files[t]; !ok {
			return nil, fmt.Errorf("xlsx: sheet %q: part %q not in archive", s.Name, t)
		}
		b.sheetParts = append(b.sheetParts, t)
		b.sheetNames = append(b.sheetNames, s.Name)
	}
	// shared strings: every <si> is the concatenation of its <t> and <r><t> texts
	if sx, ok := b.files["xl/sharedStrings.xml"]; ok {
		var sst struct {
			SI []struct {
				T []string `xml:"t"`
				R []struct {
					T []string `xml:"t"`
				} `xml:"r"`
			} `xml:"si"`
		}
		if err := xml.Unmarshal(stripBOM(sx), &sst); err != nil {
			return nil, fmt.Errorf("xlsx: sharedStrings.xml: %v", err)
		}
		for _, si := range sst.SI {
			var sb strings.Builder
			for _, t := range si.T {
				sb.WriteString(t)
			}
			for _, r := range si.R {
				for _, t := range r.T {
					sb.WriteString(t)
				}
			}
			b.shared = append(b.shared, sb.String())
		}
	}
	return b, nil
}

// colIndex parses the letters of a cell reference ("AB12" -> 27, 12).
func cellRef(ref string) (col, row int, err error) {
	i := 0
	for i < len(ref) && ref[i] >= 'A' && ref[i] <= 'Z' {
		col = col*26 + int(ref[i]-'A') + 1
		i++
	}
	if i == 0 || i == len(ref) {
		return 0, 0, fmt.Errorf("bad cell reference %q", ref)
	}
	row, err = strconv.Atoi(ref[i:])
	if err != nil || row < 1 {
		return 0, 0, fmt.Errorf("bad cell reference %q", ref)
	}
	return col - 1, row, nil
}

func colLetters(c int) string {
	s := ""
	c++
	for c > 0 {
		c--
		s = string(rune('A'+c%26)) + s
		c /= 26
	}
	return s
}

func (b *xlsxBook) sheet(i int) (*xlsxSheet, error) {
	if i >= len(b.sheetParts) {
		return nil, fmt.Errorf("xlsx: no sheet %d", i)
	}
	var ws struct {
		Rows []struct {
			R     int `xml:"r,attr"`
			Cells []struct {
				R  string `xml:"r,attr"`
				T  string `xml:"t,attr"`
				V  string `xml:"v"`
				IS struct {
					T []string `xml:"t"`
					R []struct {
						T []string `xml:"t"`
					} `xml:"r"`
				} `xml:"is"`
			} `xml:"c"`
		} `xml:"sheetData>row"`
	}
	if err := xml.Unmarshal(stripBOM(b.files[b.sheetParts[i]]), &ws); err != nil {
		return nil, fmt.Errorf("xlsx: %s: %v", b.sheetParts[i], err)
	}
	type cellv struct {
		c int
		v string
	}
	maxRow := 0
	rowCells := map[int][]cellv{}
	next := 1
	for _, row := range ws.Rows {
		rn := row.R
		if rn == 0 {
			rn = next
		}
		next = rn + 1
		if rn > maxRow {
			maxRow = rn
		}
		nc := 0
		for _, c := range row.Cells {
			col := nc
			if c.R != "" {
				cc, rr, err := cellRef(c.R)
				if err != nil {
					return nil, err
				}
				if rr != rn {
					return nil, fmt.Errorf("xlsx: cell %s in row %d", c.R, rn)
				}
				col = cc
			}
			nc = col + 1
			var v string
			switch c.T {
			case "s":
				if c.V != "" {
					k, err := strconv.Atoi(strings.TrimSpace(c.V))
					if err != nil || k < 0 || k >= len(b.shared) {
						return nil, fmt.Errorf("xlsx: cell %s: bad shared string index %q", c.R, c.V)
					}
					v = b.shared[k]
				}
			case "inlineStr":
				var sb strings.Builder
				for _, t := range c.IS.T {
					sb.WriteString(t)
				}
				for _, r := range c.IS.R {
					for _, t := range r.T {
						sb.WriteString(t)
					}
				}
				v = sb.String()
			default: // n, str, b, e or absent: the stored text
				v = c.V
			}
			rowCells[rn] = append(rowCells[rn], cellv{col, v})
		}
	}
	s := &xlsxSheet{}
	// the number of columns is that of the first row (fitgen sizes every row by it)
	for _, c := range rowCells[1] {
		if c.c+1 > s.ncols {
			s.ncols = c.c + 1
		}
	}
	for rn := 1; rn <= maxRow; rn++ {
		r := make([]string, s.ncols)
		for _, c := range rowCells[rn] {
			if c.c >= s.ncols {
				if c.v != "" {
					return nil, fmt.Errorf("xlsx: row %d has a value in column %s beyond the header row", rn, colLetters(c.c))
				}
				continue
			}
			r[c.c] = c.v
		}
		s.rows = append(s.rows, r)
	}
	return s, nil
}

// blankCells returns a copy of the workbook bytes in which the given cells of
// sheet i (0-based column, 1-based row) hold no value.  The edit is made in the
// sheet XML text: the <c> element is replaced by an empty <c r=".." s=".."/>
// of the same style; everything else in the archive is copied unchanged.
func (b *xlsxBook) blankCells(i int, col int, rowsToBlank []int) ([]byte, int, error) {
	part := b.sheetParts[i]
	src := b.files[part]
	want := map[string]bool{}
	for _, r := range rowsToBlank {
		want[colLetters(col)+strconv.Itoa(r)] = true
	}
	// one cell element: <c ...attrs.../> or <c ...attrs...>...</c> (possibly prefixed)
	re := regexp.MustCompile(`<((?:[A-Za-z0-9]+:)?)c((?:\s+[A-Za-z0-9:]+="[^"]*")*)\s*(/>|>(?s:.*?)</(?:[A-Za-z0-9]+:)?c>)`)
	reR := regexp.MustCompile(`\sr="([A-Z]+[0-9]+)"`)
	reS := regexp.MustCompile(`\ss="([0-9]+)"`)
	done := 0
	out := re.ReplaceAllFunc(src, func(m []byte) []byte {
		sm := re.FindSubmatch(m)
		rm := reR.FindSubmatch(sm[2])
		if rm == nil || !want[string(rm[1])] {
			return m
		}
		done++
		style := ""
		if s := reS.FindSubmatch(sm[2]); s != nil {
			style = ` s="` + string(s[1]) + `"`
		}
		return []byte("<" + string(sm[1]) + `c r="` + string(rm[1]) + `"` + style + "/>")
	})
	var buf bytes.Buffer
	zw := zip.NewWriter(&buf)
	for _, name := range b.order {
		w, err := zw.CreateHeader(&zip.FileHeader{Name: name, Method: zip.Deflate})
		if err != nil {
			return nil, 0, err
		}
		c := b.files[name]
		if name == part {
			c = out
		}
		if _, err := w.Write(c); err != nil {
			return nil, 0, err
		}
	}
	if err := zw.Close(); err != nil {
		return nil, 0, err
	}
	return buf.Bytes(), done, nil
}

// wrapInSDKZip builds FitSDKRelease_<ver>.zip content holding the workbook as
// Profile.xlsx (fitgen's readDataFromZIP takes the first member whose name
// ends in Profile.xls or Profile.xlsx).
func wrapInSDKZip(workbook []byte) ([]byte, error) {
	var buf bytes.Buffer
	zw := zip.NewWriter(&buf)
	w, err := zw.Create("c/README.txt")
	if err != nil {
		return nil, err
	}
	w.Write([]byte("FIT SDK\n"))
	w, err = zw.Create("Profile.xlsx")
	if err != nil {
		return nil, err
	}
	w.Write(workbook)
	if err := zw.Close(); err != nil {
		return nil, err
	}
	return buf.Bytes(), nil
}
