package main

import (
	"bytes"
	"encoding/hex"
	"encoding/json"
	"fmt"
	"os"
	"path/filepath"
	"reflect"
	"sort"
	"strconv"
	"strings"
	"time"

	"github.com/tormoder/fit"
)

// C07: anything Decode accepts can be re-encoded, and one round trip is a
// fixpoint.  Inputs: the device files under testdata, generated streams,
// mutated streams that Decode still accepts.  Per accepted input:
//   Decode -> f1 -> Encode -> CheckIntegrity -> Decode -> f2 -> Encode -> Decode -> f3
// Spec oracle: the extracted content_eq7 (Spec/RoundTrip.v) on (f1, f2) and
// (f2, f3).  Correspondence: model decoder (through `world`) and model encoder
// agree with the implementation at every step.

func init() { register("c07", runC07) }

type c07Input struct {
	Name string
	Data []byte
	BE   bool
}

func (in *c07Input) replay(extra map[string]interface{}) map[string]interface{} {
	r := map[string]interface{}{"entry": "fit.Decode/fit.Encode", "input": in.Name, "input_hex": hexs(in.Data), "big_endian": in.BE}
	if len(in.Data) > 1<<16 {
		r["input_hex"] = "(large file: see input path)"
	}
	for k, v := range extra {
		r[k] = v
	}
	return r
}

// reencodeStep: Encode f (implementation and model), CheckIntegrity, Decode.
// ok=false means the chain stops here (a failure was recorded or is known).
func reencodeStep(r *report, w *world, in *c07Input, f *fit.File, gen int, useModel bool) (next *fit.File, ok bool, err error) {
	c := &fileCase{File: f, BE: in.BE}
	before := canonFile(f)
	csd := hasValidCsd(f)
	out := implEncode(f, c.arch())
	rep := in.replay(map[string]interface{}{"generation": gen, "file": trunc(before, 20000)})
	if useModel {
		mresp, err := w.d.ask(fmt.Sprintf("enc %s %s", beFlag(in.BE), before))
		if err != nil {
			return nil, false, err
		}
		if mresp[:1] != out.class() {
			r.corrFail("verdict", fmt.Sprintf("Encode of generation %d: implementation %s (%v %s), model %.60s", gen, out.class(), out.Err, out.Panic, mresp), rep)
		} else if out.class() == "O" {
			if parts := strings.SplitN(mresp, " ", 3); parts[1] != hexOrDash(out.Bytes) {
				r.corrFail("bytes", fmt.Sprintf("model bytes differ from the bytes Encode wrote (generation %d)", gen), rep)
			}
		}
	}
	switch out.class() {
	case "P":
		tag := "reencode_panic"
		if !containerOf(f).IsValid() {
			tag = "second_file_id"
		}
		r.specFail(tag, fmt.Sprintf("Encode panics on a File that Decode returned (generation %d): %s", gen, out.Panic), rep)
		return nil, false, nil
	case "E":
		tag := "reencode_fails"
		if !containerOf(f).IsValid() {
			tag = "second_file_id" // FileId.Type no longer names the container Decode created
		} else if !stringsOK(f) {
			tag = "reencode_utf8"
		}
		r.hist("encode_error_" + tag)
		r.specFail(tag, fmt.Sprintf("Encode fails on a File that Decode returned (generation %d): %v", gen, out.Err), rep)
		return nil, false, nil
	}
	if err := fit.CheckIntegrity(bytes.NewReader(out.Bytes), false); err != nil {
		r.specFail("reencode_integrity", fmt.Sprintf("CheckIntegrity rejects the re-encoded bytes (generation %d): %v", gen, err), rep)
		return nil, false, nil
	}
	var f2 *fit.File
	var impl, model decOut
	if useModel {
		f2, impl, model, err = w.decodeKeep(out.Bytes)
		if err != nil {
			return nil, false, err
		}
		if impl.observable() != model.observable() {
			r.corrFail("decode_model", fmt.Sprintf("model Decode of the re-encoded bytes differs from the implementation's (generation %d)", gen),
				in.replay(map[string]interface{}{"generation": gen, "impl": trunc(impl.observable(), 2000), "model": trunc(model.observable(), 2000)}))
		}
	} else {
		f2, impl = implDecodeKeep(out.Bytes)
	}
	if impl.Panic != "" || impl.ErrClass != 0 {
		r.specFail("redecode_fails", fmt.Sprintf("Decode rejects the re-encoded bytes (generation %d): %s %s", gen, impl.ErrText, impl.Panic), rep)
		return nil, false, nil
	}
	resp, err := w.d.ask(fmt.Sprintf("c07 %s %s", before, impl.Files[0]))
	if err != nil {
		return nil, false, err
	}
	if strings.HasPrefix(resp, "ERR") {
		return nil, false, fmt.Errorf("driver: %.300s", resp)
	}
	m := kv(resp)
	if m["eq"] != "1" {
		tag := "reencode_values"
		if gen >= 2 {
			tag = "fixpoint"
		}
		if csd {
			// the recorded finding explains differences in the accumulated Distance and in EnhancedSpeed (derived
			// from the compressed speed one pass late) of records carrying compressed_speed_distance, nothing else
			if r2, err := w.d.ask(fmt.Sprintf("c07 %s %s", maskAccumTextX(before, true), maskAccumTextX(impl.Files[0], true))); err == nil && kv(r2)["eq"] == "1" {
				tag = "csd_accumulator"
			} else if hasShortCsd(before) || hasShortCsd(impl.Files[0]) {
				// a compressed_speed_distance array shorter than 3 bytes: mask what its padded re-encoding changes
				// in those records only (position-wise on both generations)
				// (records with a full 3-byte array in the same file still differ by the accumulator finding)
				a, b := maskShortCsdPair(before, impl.Files[0])
				a, b = maskAccumTextX(a, true), maskAccumTextX(b, true)
				if r3, err := w.d.ask(fmt.Sprintf("c07 %s %s", a, b)); err == nil && kv(r3)["eq"] == "1" {
					tag = "csd_array_length"
				} else {
					csd = false
				}
			} else {
				csd = false
			}
		}
		r.specFail(tag, fmt.Sprintf("generation %d and %d differ at slot.message.field %s", gen, gen+1, m["diff"]),
			in.replay(map[string]interface{}{"generation": gen, "diff": m["diff"], "file": trunc(before, 20000), "decoded": trunc(impl.Files[0], 20000)}))
		if !csd {
			return f2, false, nil
		}
	}
	return f2, true, nil
}

func implDecodeKeep(data []byte) (f *fit.File, impl decOut) {
	defer func() {
		if r := recover(); r != nil {
			impl = decOut{Panic: fmt.Sprint(r)}
		}
	}()
	f, err := fit.Decode(bytes.NewReader(data))
	impl.ErrClass = errClass(err)
	impl.Files = []string{canonFile(f)}
	if err != nil {
		impl.ErrText = err.Error()
	}
	return f, impl
}

// c07Case runs the three generations for one input.
func c07Case(r *report, w *world, in *c07Input, useModel bool, idx int) error {
	var f1 *fit.File
	var impl, model decOut
	var err error
	if useModel {
		f1, impl, model, err = w.decodeKeep(in.Data)
		if err != nil {
			return err
		}
		if impl.observable() != model.observable() {
			r.corrFail("decode_model", "model Decode of the input differs from the implementation's",
				in.replay(map[string]interface{}{"impl": trunc(impl.observable(), 2000), "model": trunc(model.observable(), 2000)}))
		}
	} else {
		f1, impl = implDecodeKeep(in.Data)
	}
	if impl.Panic != "" || impl.ErrClass != 0 || f1 == nil {
		r.count(in.Name, false)
		r.hist("input_rejected")
		return nil
	}
	r.hist("input_accepted")
	g1 := canonFile(f1)
	r.count(g1+beFlag(in.BE), strings.Count(g1, "[") > 1)
	if hasValidCsd(f1) {
		r.hist("input_with_csd")
		if !useModel {
			r.hist("csd_input_without_model")
			r.Notes = append(r.Notes, "input "+in.Name+" carries compressed_speed_distance and was not run through the model: the model's accumulator state no longer follows the process")
		}
	}
	if !stringsOK(f1) {
		r.hist("input_with_unencodable_string")
	}
	f2, ok, err := reencodeStep(r, w, in, f1, 1, useModel)
	if err != nil || !ok {
		return err
	}
	_, ok, err = reencodeStep(r, w, in, f2, 2, useModel)
	if err != nil || !ok {
		return err
	}
	r.Traces++
	if idx < 4 {
		r.sample(map[string]interface{}{"input": in.Name, "bytes": len(in.Data), "big_endian": in.BE, "generations": 3})
	}
	return nil
}

// mutateStream flips bytes inside the record section and re-frames the stream
// (correct data size and CRCs), so that Decode gets as far as the records.
func mutateStream(rg *rng, s *stream) []byte {
	data := s.dataBytes()
	if len(data) == 0 {
		return s.bytes()
	}
	k := 1 + rg.intn(3)
	for i := 0; i < k; i++ {
		p := rg.intn(len(data))
		switch rg.intn(3) {
		case 0:
			data[p] ^= 1 << uint(rg.intn(8))
		case 1:
			data[p] = byte(rg.intn(256))
		default:
			data[p] = []byte{0, 0xFF, 0x7F, 0x80}[rg.intn(4)]
		}
	}
	return frame(s.HdrSize, s.Proto, s.Profile, s.HdrCRC, data)
}

func runC07(args []string) int {
	o := parseRunOpts("c07", args)
	r := newReport("C07", o)
	r.Rule = "inputs: device files under testdata (both byte orders), generated streams (profile-aware: all file types, over-long arrays and strings, " +
		"invalid values, compressed headers, developer fields, unknown messages), mutated streams that Decode accepts; per accepted input: " +
		"Decode -> Encode -> CheckIntegrity -> Decode -> Encode -> Decode with the extracted content_eq7 between generations; model decoder and " +
		"encoder compared at every step; non-trivial = accepted input with at least one message besides file_id; distinct by decoded content + byte order"
	d, err := startDriver(o.driver)
	if err != nil {
		fmt.Println("driver:", err)
		return 2
	}
	defer d.close()
	w := newWorld(d)
	rg := newRng(o.seed)

	// --- device files
	var paths []string
	filepath.Walk(filepath.Join(repoRoot, "testdata"), func(p string, info os.FileInfo, err error) error {
		if err == nil && !info.IsDir() && strings.HasSuffix(p, ".fit") {
			paths = append(paths, p)
		}
		return nil
	})
	sort.Strings(paths)
	// the decoder model costs seconds on files of some 10 kB: in the quick tier
	// larger files run on the implementation and the spec oracle only, and the
	// largest are left to the thorough tier
	modelLimit, sizeLimit := 6000, 160000
	if o.tier == "thorough" {
		modelLimit, sizeLimit = 30000, 1<<30
	}
	t0 := time.Now()
	for i, p := range paths {
		tf := time.Now()
		data, err := os.ReadFile(p)
		if err != nil {
			continue
		}
		rel, _ := filepath.Rel(repoRoot, p)
		if len(data) > sizeLimit {
			r.hist("testdata_skipped_large")
			continue
		}
		r.hist("testdata_files")
		for _, be := range []bool{false, true} {
			in := &c07Input{Name: rel, Data: data, BE: be}
			useModel := len(data) <= modelLimit
			if !useModel {
				r.hist("testdata_impl_only")
			}
			if err := c07Case(r, w, in, useModel, i); err != nil {
				fmt.Println("driver:", err)
				return 2
			}
		}
		if os.Getenv("VERIF_C07_TIMING") != "" {
			fmt.Printf("%-60s %8d bytes %6.2fs\n", rel, len(data), time.Since(tf).Seconds())
		}
	}
	r.Extra["testdata_seconds"] = time.Since(t0).Seconds()

	// --- the witnesses of the recorded compressed_speed_distance findings (corpus/known/C07-*.json): judged like any
	// other input, so each must still be explained by its finding and by nothing else
	for _, name := range []string{"C07-csd-array-length.json", "C07-csd-mixed-lengths.json"} {
		raw, err := os.ReadFile(filepath.Join(verifRoot, "corpus", "known", name))
		if err != nil {
			continue
		}
		var wit struct {
			Case struct {
				InputHex  string `json:"input_hex"`
				BigEndian bool   `json:"big_endian"`
			} `json:"case"`
		}
		if json.Unmarshal(raw, &wit) != nil || wit.Case.InputHex == "" {
			continue
		}
		data, err := hex.DecodeString(wit.Case.InputHex)
		if err != nil {
			continue
		}
		r.hist("known_finding_witnesses")
		if err := c07Case(r, w, &c07Input{Name: "corpus/known/" + name, Data: data, BE: wit.Case.BigEndian}, true, 90); err != nil {
			fmt.Println("driver:", err)
			return 2
		}
	}

	// --- generated and mutated streams
	n := 6000
	if o.tier == "thorough" {
		n = 300000
	}
	n *= o.boost
	cfg := defaultCfg()
	cfg.illFormed = 10
	st := genStats{}
	for i := 0; i < n; i++ {
		s := genStream(rg, &cfg, st)
		var data []byte
		name := fmt.Sprintf("generated stream #%d", i)
		if i%4 == 3 {
			data = mutateStream(rg, s)
			name = fmt.Sprintf("mutated stream #%d", i)
			r.hist("mutated_streams")
		} else {
			data = s.bytes()
			r.hist("generated_streams")
		}
		in := &c07Input{Name: name, Data: data, BE: rg.bool()}
		if err := c07Case(r, w, in, true, 100+i); err != nil {
			fmt.Println("driver:", err)
			return 2
		}
	}
	// --- a second file_id record of another type after the first one: Decode
	// accepts, FileId.Type no longer names the container (known finding of C03)
	for i := 0; i < 25*o.boost; i++ {
		s := genStream(rg, &cfg, st)
		p := profile()
		d2, m2 := fileIdRecords(rg, &cfg, st, p.validFts[rg.intn(len(p.validFts))])
		if rg.chance(1, 4) {
			d2, m2 = fileIdRecords(rg, &cfg, st, byte(rg.intn(256)))
		}
		s.Records = append(s.Records, d2, m2)
		s.fillHex()
		r.hist("second_file_id_streams")
		in := &c07Input{Name: fmt.Sprintf("stream with a second file_id #%d", i), Data: s.bytes(), BE: rg.bool()}
		if err := c07Case(r, w, in, true, 100000+i); err != nil {
			fmt.Println("driver:", err)
			return 2
		}
	}
	return r.finish()
}

// maskShortCsdPair masks, in both generations, Distance/Speed/EnhancedSpeed/compressed_speed_distance of the
// record messages (matched by position) whose compressed_speed_distance array is short in either generation.
func maskShortCsdPair(a, b string) (string, string) {
	tag := strconv.Itoa(int(fit.MesgNumRecord)) + "["
	mask := func(x string, which map[int]bool) string {
		n := 0
		var out strings.Builder
		rest := x
		for {
			k := strings.Index(rest, tag)
			for k > 0 && rest[k-1] != ':' && rest[k-1] != '&' {
				m := strings.Index(rest[k+1:], tag)
				if m < 0 {
					k = -1
					break
				}
				k += 1 + m
			}
			if k < 0 {
				out.WriteString(rest)
				return out.String()
			}
			end := strings.IndexByte(rest[k:], ']')
			if end < 0 {
				out.WriteString(rest)
				return out.String()
			}
			msg := rest[k : k+end+1]
			if which[n] {
				msg = maskAccumTextL(msg[:0]+":"+msg, true, true)[1:]
				// force the masks also when this generation's array is already padded to 3 bytes
				msg = forceCsdMask(msg)
			}
			out.WriteString(rest[:k])
			out.WriteString(msg)
			rest = rest[k+end+1:]
			n++
		}
	}
	short := map[int]bool{}
	for _, x := range []string{a, b} {
		n := 0
		rest := x
		for {
			k := strings.Index(rest, tag)
			for k > 0 && rest[k-1] != ':' && rest[k-1] != '&' {
				m := strings.Index(rest[k+1:], tag)
				if m < 0 {
					k = -1
					break
				}
				k += 1 + m
			}
			if k < 0 {
				break
			}
			end := strings.IndexByte(rest[k:], ']')
			if end < 0 {
				break
			}
			if hasShortCsd(":" + rest[k:k+end+1]) {
				short[n] = true
			}
			rest = rest[k+end+1:]
			n++
		}
	}
	return mask(a, short), mask(b, short)
}

func forceCsdMask(msg string) string {
	rt := reflect.TypeOf(fit.RecordMsg{})
	tag := strconv.Itoa(int(fit.MesgNumRecord)) + "["
	if !strings.HasPrefix(msg, tag) || !strings.HasSuffix(msg, "]") {
		return msg
	}
	fs := strings.Split(msg[len(tag):len(msg)-1], ";")
	if len(fs) != rt.NumField() {
		return msg
	}
	for i := 0; i < rt.NumField(); i++ {
		switch rt.Field(i).Name {
		case "Distance", "Speed", "EnhancedSpeed":
			fs[i] = "u0"
		case "CompressedSpeedDistance":
			fs[i] = "n"
		}
	}
	return tag + strings.Join(fs, ";") + "]"
}
