package main

import (
	"bytes"
	"encoding/binary"
	"encoding/hex"
	"encoding/json"
	"fmt"
	"os"
	"path/filepath"
	"sort"
	"strconv"
	"strings"
	"syscall"

	"github.com/tormoder/fit"
	"github.com/tormoder/fit/dyncrc16"
)

// C04: corruption is detected; CRC verdicts are sound and agree across entry
// points.
//
// Decisive checks on the implementation (spec failures):
//   accept   Decode ok => CheckIntegrity ok; Encode output => CheckIntegrity ok
//   burst    a valid file with a burst of <= 16 contiguous bits (stream bit k =
//            bit k mod 8, LSB first, of byte k div 8) outside byte 0 and bytes
//            4..7: Decode and CheckIntegrity must both return an error
//   header   stored non-zero header CRC that mismatches: CheckIntegrity(true),
//            CheckIntegrity(false), DecodeHeader, Decode and Header.CheckIntegrity
//            all reject; matching with legal fields: all accept
// Correspondence (model/spec vs implementation): error class (nil / error /
// IntegrityError) of the extracted spec verdict (Spec/Integrity.v with the
// bitwise CRC-16/ARC) and of the extracted decoder model on the same bytes;
// the corrupted bytes themselves (checksum of the whole string); the domain
// predicate of the burst.

func init() { register("c04", runC04) }

type c04File struct {
	Origin string
	Name   string
	Data   []byte
}

// verdicts of the real entry points on a byte string
func c04Decode(b []byte, sched []int) (cls int, pan string) {
	defer func() {
		if r := recover(); r != nil {
			cls, pan = 3, fmt.Sprint(r)
		}
	}()
	if sched == nil {
		_, err := fit.Decode(bytes.NewReader(b))
		return errClass(err), ""
	}
	_, err := fit.Decode(&schedReader{data: append([]byte{}, b...), sched: append([]int{}, sched...)})
	return errClass(err), ""
}

func c04Integrity(b []byte, headerOnly bool, sched []int) (cls int, pan string) {
	defer func() {
		if r := recover(); r != nil {
			cls, pan = 3, fmt.Sprint(r)
		}
	}()
	if sched == nil {
		return errClass(fit.CheckIntegrity(bytes.NewReader(b), headerOnly)), ""
	}
	return errClass(fit.CheckIntegrity(&schedReader{data: append([]byte{}, b...), sched: append([]int{}, sched...)}, headerOnly)), ""
}

func c04DecodeHeader(b []byte) (cls int, h fit.Header, pan string) {
	defer func() {
		if r := recover(); r != nil {
			cls, pan = 3, fmt.Sprint(r)
		}
	}()
	h, err := fit.DecodeHeader(bytes.NewReader(b))
	return errClass(err), h, ""
}

func c04HeaderCheck(h fit.Header) (cls int, pan string) {
	defer func() {
		if r := recover(); r != nil {
			cls, pan = 3, fmt.Sprint(r)
		}
	}()
	return errClass(h.CheckIntegrity()), ""
}

// frameLen is header size + data size + 2 as the header states them.
func c04FrameLen(b []byte) int {
	if len(b) < 8 {
		return 0
	}
	return int(b[0]) + int(binary.LittleEndian.Uint32(b[4:8])) + 2
}

// burstBytes returns the error string of length n with pattern p at stream bit
// offset off (LSB-first numbering), and whether it lies inside the n bytes.
func burstBytes(n int, off int, p uint32) ([]byte, bool) {
	e := make([]byte, n)
	for i := 0; i < 16; i++ {
		if p>>uint(i)&1 == 1 {
			k := off + i
			if k/8 >= n {
				return nil, false
			}
			e[k/8] |= 1 << uint(k%8)
		}
	}
	return e, true
}

func burstInDomain(e []byte) bool {
	for _, i := range []int{0, 4, 5, 6, 7} {
		if i < len(e) && e[i] != 0 {
			return false
		}
	}
	return true
}

func applyErr(b, e []byte) []byte {
	out := append([]byte{}, b...)
	for i := range e {
		out[i] ^= e[i]
	}
	return out
}

type c04Burst struct {
	off int
	p   uint32
	fam string
}

type c04Ctx struct {
	r  *report
	d  *driver
	rg *rng
	o  runOpts
}

func className(c int) string {
	switch c {
	case 0:
		return "nil"
	case 1:
		return "error"
	case 2:
		return "IntegrityError"
	}
	return "panic"
}

// checkAccept: Decode ok => CheckIntegrity ok (and the spec verdict agrees).
func (c *c04Ctx) checkAccept(f c04File, fromEncode bool) (bool, error) {
	r := c.r
	sched := makeSched(c.rg, c.rg.intn(9), len(f.Data))
	dc, dp := c04Decode(f.Data, nil)
	ic, ip := c04Integrity(f.Data, false, nil)
	ic2, _ := c04Integrity(f.Data, false, sched)
	dc2, _ := c04Decode(f.Data, sched)
	rep := map[string]interface{}{"kind": "accept", "origin": f.Origin, "name": f.Name, "file_hex": hexs(f.Data), "sched": sched,
		"decode": className(dc), "check_integrity": className(ic)}
	r.count("acc"+f.Origin+f.Name+hexs(f.Data[:min(len(f.Data), 64)])+strconv.Itoa(len(f.Data)), dc == 0 && len(f.Data) > 30)
	r.hist("accept_" + f.Origin + "_decode_" + className(dc))
	if dp != "" || ip != "" {
		r.specFail("panic_valid", fmt.Sprintf("panic on %s %s: %s%s", f.Origin, f.Name, dp, ip), rep)
		return false, nil
	}
	if dc == 0 && ic != 0 {
		r.specFail("decode_ok_integrity_fail", fmt.Sprintf("Decode accepts %s %s (%d bytes) but CheckIntegrity returns %s", f.Origin, f.Name, len(f.Data), className(ic)), rep)
	}
	if fromEncode && ic != 0 {
		r.specFail("encode_integrity_fail", fmt.Sprintf("CheckIntegrity returns %s on the %d bytes Encode wrote (%s)", className(ic), len(f.Data), f.Name), rep)
	}
	if (dc == 2) != (ic == 2) && !(dc == 1 && ic == 2) {
		// an IntegrityError from Decode is a CRC verdict: CheckIntegrity must return it too
		r.specFail("integrity_verdicts_disagree", fmt.Sprintf("CRC verdicts disagree on %s %s (%d bytes): Decode %s, CheckIntegrity %s", f.Origin, f.Name, len(f.Data), className(dc), className(ic)), rep)
	}
	if ic2 != ic || dc2 != dc {
		r.specFail("schedule_dependent", fmt.Sprintf("verdicts depend on the chunk schedule: Decode %s/%s CheckIntegrity %s/%s", className(dc), className(dc2), className(ic), className(ic2)), rep)
	}
	// spec verdict of CheckIntegrity on these bytes
	resp, err := c.d.ask("c04_verdict " + hexOrDash(f.Data))
	if err != nil {
		return false, err
	}
	w := strings.Fields(resp)
	if len(w) != 3 {
		return false, fmt.Errorf("driver: %.200s on c04_verdict of %s %s (%d bytes)", resp, f.Origin, f.Name, len(f.Data))
	}
	if int(w[0][0]-'0') != ic {
		r.corrFail("verdict_valid", fmt.Sprintf("CheckIntegrity returns %s on %s %s, the spec verdict is %s", className(ic), f.Origin, f.Name, w[0]), rep)
	}
	if w[0] != w[1] {
		r.corrFail("arc_vs_table", fmt.Sprintf("verdict with the bitwise CRC (%s) differs from the verdict with the table checksum (%s)", w[0], w[1]), rep)
	}
	if fl, _ := strconv.Atoi(w[2]); fl != c04FrameLen(f.Data) {
		r.corrFail("frame_len", fmt.Sprintf("frame_len: spec %s, harness %d", w[2], c04FrameLen(f.Data)), rep)
	}
	r.Traces++
	return dc == 0 && ic == 0, nil
}

// one burst on one valid file: both entry points must return an error
func (c *c04Ctx) implBurst(f c04File, b c04Burst, e []byte, sched []int) (dc, ic int, cor []byte) {
	r := c.r
	cor = applyErr(f.Data, e)
	dc, dp := c04Decode(cor, sched)
	ic, ip := c04Integrity(cor, false, sched)
	rep := func() map[string]interface{} {
		return map[string]interface{}{"kind": "burst", "origin": f.Origin, "name": f.Name, "file_hex": hexs(f.Data), "bit_offset": b.off,
			"pattern": b.p, "family": b.fam, "numbering": "stream bit k = bit (k mod 8), LSB first, of byte (k div 8)",
			"corrupted_hex": hexs(cor), "sched": sched, "decode": className(dc), "check_integrity": className(ic),
			"expected": "both return a non-nil error"}
	}
	r.Evaluations++
	if len(r.distinct) < 3000000 {
		h := uint64(len(f.Data))*0x9E3779B97F4A7C15 ^ uint64(f.Data[len(f.Data)-1])<<48 ^ uint64(f.Data[len(f.Data)-2])<<40 ^ uint64(b.off)<<17 ^ uint64(b.p)
		r.distinct[h*0xD6E8FEB86659FD93] = struct{}{}
	}
	r.Hist["burst_"+b.fam]++
	r.Hist["burst_decode_"+className(dc)]++
	r.Hist["burst_integrity_"+className(ic)]++
	if dp != "" || ip != "" {
		r.specFail("burst_panic", fmt.Sprintf("panic on a corrupted file (bit %d pattern %#x of %s): %s%s", b.off, b.p, f.Name, dp, ip), rep())
		return
	}
	if dc == 2 && ic != 2 {
		r.specFail("integrity_verdicts_disagree", fmt.Sprintf("CRC verdicts disagree on a corrupted file (bit %d, pattern %#x of %s): Decode IntegrityError, CheckIntegrity %s", b.off, b.p, f.Name, className(ic)), rep())
	}
	if dc == 0 {
		r.specFail("burst_undetected_decode", fmt.Sprintf("Decode returns nil after corrupting bits %d.. with pattern %#x (LSB-first) of %s %s (%d bytes)", b.off, b.p, f.Origin, f.Name, len(f.Data)), rep())
	}
	if ic == 0 {
		r.specFail("burst_undetected_integrity", fmt.Sprintf("CheckIntegrity returns nil after corrupting bits %d.. with pattern %#x (LSB-first) of %s %s (%d bytes)", b.off, b.p, f.Origin, f.Name, len(f.Data)), rep())
	}
	return
}

// burst families for a frame of n bytes
func (c *c04Ctx) burstsFor(n int, randPerOff int, fullWindows int) []c04Burst {
	var out []c04Burst
	bits := 8 * n
	add := func(off int, p uint32, fam string) {
		e, ok := burstBytes(n, off, p)
		if !ok || !burstInDomain(e) {
			return
		}
		out = append(out, c04Burst{off, p, fam})
	}
	for off := 0; off < bits; off++ {
		add(off, 1, "1bit")
		for k := 1; k < 16; k++ {
			add(off, 1|1<<uint(k), "2bit")
		}
		for j := 0; j < randPerOff; j++ {
			p := uint32(c.rg.intn(65536)) | 1
			switch c.rg.intn(4) {
			case 0:
				p |= 0x8000 // full 16-bit span
			case 1:
				p &= 0xFF // inside one or two bytes
			}
			add(off, p, "random")
		}
	}
	for w := 0; w < fullWindows; w++ {
		off := 8 + c.rg.intn(bits-8)
		for p := uint32(1); p < 65536; p++ {
			add(off, p, "window65535")
		}
	}
	return out
}

// runBursts applies the bursts to f; every specEvery-th burst is also sent to
// the extracted spec, every modelEvery-th of those to the decoder model.
func (c *c04Ctx) runBursts(f c04File, bursts []c04Burst, specEvery, modelEvery int) error {
	r := c.r
	n := c04FrameLen(f.Data)
	// aimed bursts first: the ones that turn a stored checksum into 0x0000 ("no checksum" for headers, never for
	// the file), wholly or starting in the byte before it
	if n >= 16 && n <= len(f.Data) {
		aim := func(off int, p uint32) {
			if p == 0 || p > 0xFFFF {
				return
			}
			if e, ok := burstBytes(n, off, p); ok && burstInDomain(e) {
				bursts = append([]c04Burst{{off, p, "aimed_zero_crc"}}, bursts...)
			}
		}
		fc := uint32(f.Data[n-2]) | uint32(f.Data[n-1])<<8
		aim(8*(n-2), fc)
		for sh := 1; sh < 8; sh++ {
			// the same zeroing with up to 7 more (flipped) bits of the last data byte in front
			if p := fc<<uint(sh) | 1; p <= 0xFFFF && fc<<uint(sh)>>uint(sh) == fc {
				aim(8*(n-2)-sh, p)
			}
		}
		if f.Data[0] == 14 {
			aim(8*12, uint32(f.Data[12])|uint32(f.Data[13])<<8)
		}
	}
	type pend struct {
		b      c04Burst
		dc, ic int
		sum    uint16
		model  bool
	}
	flush := func(mode string, ps []pend) error {
		if len(ps) == 0 {
			return nil
		}
		var sb strings.Builder
		for i, p := range ps {
			if i > 0 {
				sb.WriteByte(',')
			}
			fmt.Fprintf(&sb, "%d:%d", p.b.off, p.b.p)
		}
		resp, err := c.d.ask("c04_bursts " + mode + " " + hexs(f.Data) + " " + sb.String())
		if err != nil {
			return err
		}
		ws := strings.Fields(resp)
		if len(ws) != len(ps) {
			return fmt.Errorf("driver: %.200s", resp)
		}
		for i, p := range ps {
			parts := strings.Split(ws[i], ",")
			rep := map[string]interface{}{"kind": "burst", "origin": f.Origin, "name": f.Name, "file_hex": hexs(f.Data), "bit_offset": p.b.off,
				"pattern": p.b.p, "family": p.b.fam, "decode": className(p.dc), "check_integrity": className(p.ic), "spec": ws[i]}
			if len(parts) < 3 {
				return fmt.Errorf("driver: %.200s", ws[i])
			}
			if parts[0] != "1" {
				r.corrFail("burst_domain", fmt.Sprintf("burst (bit %d, pattern %#x) is in the harness's domain but not in the spec's (burst16 / outside_size_fields)", p.b.off, p.b.p), rep)
			}
			if sum, _ := strconv.ParseUint(parts[2], 16, 16); uint16(sum) != p.sum {
				r.corrFail("burst_bytes", fmt.Sprintf("the spec's corrupted string differs from the harness's (bit %d, pattern %#x): checksums %s / %04x", p.b.off, p.b.p, parts[2], p.sum), rep)
			}
			sc := int(parts[1][0] - '0')
			r.Hist["spec_verdict_"+parts[1][2:]]++
			if sc != p.ic {
				r.corrFail("burst_verdict_integrity", fmt.Sprintf("CheckIntegrity returns %s on the corrupted file (bit %d, pattern %#x), the spec verdict is %s", className(p.ic), p.b.off, p.b.p, parts[1]), rep)
			}
			if p.model && len(parts) == 4 && len(parts[3]) == 2 {
				md, mi := parts[3][0], parts[3][1]
				if int(md-'0') != p.dc || md == 'P' || md == 'X' {
					r.corrFail("burst_verdict_decode_model", fmt.Sprintf("Decode returns %s on the corrupted file (bit %d, pattern %#x), the decoder model %c", className(p.dc), p.b.off, p.b.p, md), rep)
				}
				if int(mi-'0') != p.ic {
					r.corrFail("burst_verdict_integrity_model", fmt.Sprintf("CheckIntegrity returns %s on the corrupted file (bit %d, pattern %#x), the decoder model %c", className(p.ic), p.b.off, p.b.p, mi), rep)
				}
				r.Hist["model_decode_runs"]++
			}
			r.Traces++
		}
		return nil
	}
	var specQ, modelQ []pend
	for i, b := range bursts {
		e, _ := burstBytes(n, b.off, b.p)
		var sched []int
		if i%7 == 3 {
			sched = makeSched(c.rg, 1+c.rg.intn(8), len(f.Data))
		}
		dc, ic, cor := c.implBurst(f, b, e, sched)
		if specEvery > 0 && i%specEvery == 0 {
			p := pend{b: b, dc: dc, ic: ic, sum: dyncrc16.Checksum(cor)}
			if modelEvery > 0 && (i/specEvery)%modelEvery == 0 {
				p.model = true
				modelQ = append(modelQ, p)
			} else {
				specQ = append(specQ, p)
			}
		}
		if len(specQ) >= 2000 {
			if err := flush("a", specQ); err != nil {
				return err
			}
			specQ = specQ[:0]
		}
		if len(modelQ) >= 500 {
			if err := flush("M", modelQ); err != nil {
				return err
			}
			modelQ = modelQ[:0]
		}
	}
	if err := flush("a", specQ); err != nil {
		return err
	}
	return flush("M", modelQ)
}

// ---------------------------------------------------------------- headers

type hdrCase struct {
	hdr  []byte // 12 or 14 bytes as they go on the wire
	desc string
}

func (c *c04Ctx) checkHeader(hc hdrCase, records []byte) error {
	r := c.r
	h := hc.hdr
	// the file: header, records, file checksum over both (so that the rest of the file is valid)
	file := append(append([]byte{}, h...), records...)
	sum := dyncrc16.Checksum(file)
	file = append(file, byte(sum), byte(sum>>8))
	sz := int(h[0])
	stored := 0
	if sz == 14 && len(h) >= 14 {
		stored = int(h[12]) | int(h[13])<<8
	}
	crc12 := int(dyncrc16.Checksum(h[:12]))
	hv := fit.Header{Size: h[0], ProtocolVersion: h[1], ProfileVersion: binary.LittleEndian.Uint16(h[2:4]), DataSize: binary.LittleEndian.Uint32(h[4:8]), CRC: uint16(stored)}
	copy(hv.DataType[:], h[8:12])

	a1, p1 := c04Integrity(file, true, nil)
	a2, dh, p2 := c04DecodeHeader(file)
	a3, p3 := c04Decode(file, nil)
	a4, p4 := c04Integrity(file, false, nil)
	a5, p5 := c04HeaderCheck(hv)
	a6 := -1
	if a2 == 0 {
		a6, _ = c04HeaderCheck(dh) // on the Header DecodeHeader returned
	}
	resp, err := c.d.ask("c04_hdr " + hexs(file))
	if err != nil {
		return err
	}
	w := strings.Fields(resp)
	if len(w) != 2 {
		return fmt.Errorf("driver: %.200s", resp)
	}
	specStage := int(w[0][0] - '0')
	specHci, _ := strconv.Atoi(w[1])
	rep := map[string]interface{}{"kind": "header", "desc": hc.desc, "header_hex": hexs(h), "file_hex": hexs(file), "stored_crc": stored, "crc_of_first_12": crc12,
		"CheckIntegrity(r,true)": className(a1), "DecodeHeader": className(a2), "Decode": className(a3), "CheckIntegrity(r,false)": className(a4),
		"Header.CheckIntegrity": className(a5), "spec_header_stage": w[0], "spec_header_check": specHci}
	key := "hdr" + hexs(h)
	r.count(key, stored != 0)
	r.Hist["hdr_stage_"+w[0][2:]]++
	if p1+p2+p3+p4+p5 != "" {
		r.specFail("header_panic", "panic in a header-checking API: "+p1+p2+p3+p4+p5, rep)
		return nil
	}
	legal := h[1]>>4 <= byte(fit.CurrentProtocolVersion().Major()) && string(h[8:12]) == ".FIT"
	touchesSize := false
	_ = touchesSize
	names := []string{"CheckIntegrity(r,true)", "DecodeHeader", "Decode", "CheckIntegrity(r,false)", "Header.CheckIntegrity"}
	got := []int{a1, a2, a3, a4, a5}
	switch {
	case sz == 14 && stored != 0 && stored != crc12:
		r.Hist["hdr_mismatch"]++
		for i, a := range got {
			if a == 0 {
				r.specFail("hdrcrc_mismatch_accepted", fmt.Sprintf("%s accepts a header whose stored checksum %#04x does not match its contents (%#04x): %x", names[i], stored, crc12, h), rep)
			}
		}
	case legal:
		r.Hist["hdr_match_or_absent_legal"]++
		for i, a := range got {
			if a != 0 {
				r.specFail("hdrcrc_match_rejected", fmt.Sprintf("%s returns %s for a legal header with matching or absent checksum: %x (%s)", names[i], className(a), h, hc.desc), rep)
			}
		}
	default:
		r.Hist["hdr_illegal_fields"]++
	}
	// agreement of the APIs with each other
	if a1 != a2 {
		r.specFail("header_apis_disagree", fmt.Sprintf("CheckIntegrity(r,true) %s, DecodeHeader %s for header %x", className(a1), className(a2), h), rep)
	}
	if a5 != a1 {
		r.specFail("header_apis_disagree", fmt.Sprintf("Header.CheckIntegrity %s, CheckIntegrity(r,true) %s for header %x", className(a5), className(a1), h), rep)
	}
	if a6 >= 0 && a6 != 0 {
		r.specFail("header_apis_disagree", fmt.Sprintf("Header.CheckIntegrity rejects (%s) the Header DecodeHeader returned for %x", className(a6), h), rep)
	}
	if a1 != 0 && (a3 != a1 || a4 != a1) {
		r.specFail("header_apis_disagree", fmt.Sprintf("header rejected by CheckIntegrity(r,true) with %s, but Decode %s, CheckIntegrity(r,false) %s for header %x", className(a1), className(a3), className(a4), h), rep)
	}
	// correspondence with the spec
	if specStage != a1 {
		r.corrFail("header_stage", fmt.Sprintf("header stage: implementation %s, spec %s for header %x", className(a1), w[0], h), rep)
	}
	if specHci != a5 {
		r.corrFail("header_check", fmt.Sprintf("Header.CheckIntegrity: implementation %s, model %s for header %x", className(a5), className(specHci), h), rep)
	}
	r.Traces++
	return nil
}

func (c *c04Ctx) headerCases(n int) []hdrCase {
	var out []hdrCase
	rg := c.rg
	mk := func(sz byte, proto byte, profile uint16, dsize int, crcMode string) []byte {
		h := []byte{sz, proto, byte(profile), byte(profile >> 8), 0, 0, 0, 0, '.', 'F', 'I', 'T'}
		binary.LittleEndian.PutUint32(h[4:8], uint32(dsize))
		if sz == 14 {
			v := uint16(0)
			switch crcMode {
			case "ok":
				v = dyncrc16.Checksum(h)
			case "random":
				v = uint16(rg.intn(65536))
			}
			h = append(h, byte(v), byte(v>>8))
		}
		return h
	}
	protos := []byte{0x10, 0x20, 0x00, 0x1F, 0x2F}
	for _, proto := range protos {
		for _, mode := range []string{"ok", "zero", "random"} {
			base := mk(14, proto, uint16(rg.intn(65536)), n, mode)
			out = append(out, hdrCase{base, "14/" + mode})
			// every single-bit corruption of each of the 14 bytes, stored checksum kept
			for bit := 0; bit < 14*8; bit++ {
				if bit/8 == 0 || (bit/8 >= 4 && bit/8 <= 7) {
					continue // size and data-size fields change the frame: done separately below
				}
				h := append([]byte{}, base...)
				h[bit/8] ^= 1 << uint(bit%8)
				out = append(out, hdrCase{h, fmt.Sprintf("14/%s/flip%d", mode, bit)})
				if bit/8 < 12 {
					// the same corruption with the checksum recomputed: matching checksum, possibly illegal fields
					h2 := append([]byte{}, h[:12]...)
					v := dyncrc16.Checksum(h2)
					out = append(out, hdrCase{append(h2, byte(v), byte(v>>8)), fmt.Sprintf("14/recomputed/flip%d", bit)})
				}
			}
		}
		b12 := mk(12, proto, uint16(rg.intn(65536)), n, "")
		out = append(out, hdrCase{b12, "12"})
		for bit := 8; bit < 12*8; bit++ {
			if bit/8 >= 4 && bit/8 <= 7 {
				continue
			}
			h := append([]byte{}, b12...)
			h[bit/8] ^= 1 << uint(bit%8)
			out = append(out, hdrCase{h, fmt.Sprintf("12/flip%d", bit)})
		}
	}
	// all protocol version bytes, all stored checksums near the right one, random headers
	for p := 0; p < 256; p++ {
		out = append(out, hdrCase{mk(14, byte(p), 2134, n, "ok"), "14/ok/proto"})
		out = append(out, hdrCase{mk(14, byte(p), 2134, n, "random"), "14/random/proto"})
	}
	return out
}

// size / data-size bytes: corrupting them changes the frame; the header stage must still agree across the APIs
func (c *c04Ctx) sizeFieldCases(n int) []hdrCase {
	var out []hdrCase
	for _, mode := range []string{"ok", "zero"} {
		h := []byte{14, 0x10, 0x34, 0x08, 0, 0, 0, 0, '.', 'F', 'I', 'T'}
		binary.LittleEndian.PutUint32(h[4:8], uint32(n))
		v := uint16(0)
		if mode == "ok" {
			v = dyncrc16.Checksum(h)
		}
		h = append(h, byte(v), byte(v>>8))
		for _, by := range []int{0, 4, 5, 6, 7} {
			for bit := 0; bit < 8; bit++ {
				g := append([]byte{}, h...)
				g[by] ^= 1 << uint(bit)
				out = append(out, hdrCase{g, fmt.Sprintf("14/%s/sizeflip%d.%d", mode, by, bit)})
			}
		}
	}
	return out
}

// checkSizeFieldHeader: only the header-stage APIs are compared (the frame changed)
func (c *c04Ctx) checkSizeFieldHeader(hc hdrCase, records []byte) error {
	r := c.r
	h := hc.hdr
	file := append(append([]byte{}, h...), records...)
	sum := dyncrc16.Checksum(file)
	file = append(file, byte(sum), byte(sum>>8))
	a1, _ := c04Integrity(file, true, nil)
	a2, _, _ := c04DecodeHeader(file)
	a3, _ := c04Decode(file, nil)
	a4, _ := c04Integrity(file, false, nil)
	resp, err := c.d.ask("c04_hdr " + hexs(file))
	if err != nil {
		return err
	}
	w := strings.Fields(resp)
	rep := map[string]interface{}{"kind": "header_size_field", "desc": hc.desc, "header_hex": hexs(h), "file_hex": hexs(file),
		"CheckIntegrity(r,true)": className(a1), "DecodeHeader": className(a2), "Decode": className(a3), "CheckIntegrity(r,false)": className(a4), "spec_header_stage": w[0]}
	r.count("hdrsz"+hexs(h), true)
	r.Hist["hdr_sizefield_"+w[0][2:]]++
	if a1 != a2 {
		r.specFail("header_apis_disagree", fmt.Sprintf("CheckIntegrity(r,true) %s, DecodeHeader %s for header %x", className(a1), className(a2), h), rep)
	}
	if a1 != 0 && (a3 != a1 || a4 != a1) {
		r.specFail("header_apis_disagree", fmt.Sprintf("header rejected with %s, but Decode %s, CheckIntegrity(r,false) %s for header %x", className(a1), className(a3), className(a4), h), rep)
	}
	if int(w[0][0]-'0') != a1 {
		r.corrFail("header_stage", fmt.Sprintf("header stage: implementation %s, spec %s for header %x", className(a1), w[0], h), rep)
	}
	// the whole-file verdict of CheckIntegrity against the spec (the extracted spec counts the frame
	// length in unary: skipped when the corrupted data size is astronomically large)
	if c04FrameLen(file) < 1<<20 {
		resp2, err := c.d.ask("c04_verdict " + hexs(file))
		if err != nil {
			return err
		}
		if w2 := strings.Fields(resp2); len(w2) == 3 && int(w2[0][0]-'0') != a4 {
			r.corrFail("verdict_sizefield", fmt.Sprintf("CheckIntegrity returns %s, the spec verdict is %s for header %x", className(a4), w2[0], h), rep)
		}
	} else if a4 == 0 {
		r.specFail("sizefield_accepted", fmt.Sprintf("CheckIntegrity accepts a file whose header claims %d bytes of data: %x", c04FrameLen(file), h), rep)
	}
	r.Traces++
	return nil
}

// ---------------------------------------------------------------- hand-made Header values

// checkHeaderValue calls Header.CheckIntegrity on a Header value built by hand (any Size), under recover, and
// compares it with the model; for sizes other than 12 and 14 it also runs the decoding entry points on bytes
// starting with that size byte: all must reject with a non-integrity error.
func (c *c04Ctx) checkHeaderValue(hv fit.Header, desc string) error {
	r := c.r
	cls, pan := c04HeaderCheck(hv)
	b12 := []byte{hv.Size, hv.ProtocolVersion, byte(hv.ProfileVersion), byte(hv.ProfileVersion >> 8), 0, 0, 0, 0}
	binary.LittleEndian.PutUint32(b12[4:8], hv.DataSize)
	b12 = append(b12, hv.DataType[:]...)
	crc12 := dyncrc16.Checksum(b12)
	resp, err := c.d.ask(fmt.Sprintf("c04_hval %d %d %d %d %s %d", hv.Size, hv.ProtocolVersion, hv.ProfileVersion, hv.DataSize, hexs(hv.DataType[:]), hv.CRC))
	if err != nil {
		return err
	}
	model, _ := strconv.Atoi(resp)
	rep := map[string]interface{}{"kind": "header_value", "desc": desc, "Size": int(hv.Size), "ProtocolVersion": int(hv.ProtocolVersion), "ProfileVersion": int(hv.ProfileVersion),
		"DataSize": int(hv.DataSize), "DataType_hex": hexs(hv.DataType[:]), "CRC": int(hv.CRC), "crc_of_first_12": int(crc12),
		"Header.CheckIntegrity": className(cls), "panic": pan, "model": className(model)}
	r.count(fmt.Sprintf("hval%d|%d|%d|%x|%d", hv.Size, hv.ProtocolVersion, hv.DataSize, hv.DataType, hv.CRC), hv.CRC != 0)
	badSize := hv.Size != 12 && hv.Size != 14
	if badSize {
		r.Hist["hval_size_other"]++
	} else {
		r.Hist[fmt.Sprintf("hval_size_%d", hv.Size)]++
	}
	r.Hist["hval_"+className(cls)]++
	if pan != "" {
		r.specFail("header_check_panics", fmt.Sprintf("Header.CheckIntegrity panics on Header{Size: %d, ProtocolVersion: %#x, DataType: %q, CRC: %#04x}: %s", hv.Size, hv.ProtocolVersion, string(hv.DataType[:]), hv.CRC, pan), rep)
		return nil
	}
	if hv.CRC != 0 && hv.CRC != crc12 && hv.Size != 12 && cls == 0 {
		r.specFail("hdrcrc_mismatch_accepted", fmt.Sprintf("Header.CheckIntegrity accepts Header{Size: %d, CRC: %#04x} whose contents have checksum %#04x", hv.Size, hv.CRC, crc12), rep)
	}
	if hv.Size == 14 && hv.CRC == crc12 && cls == 2 {
		r.specFail("hdrcrc_match_rejected", fmt.Sprintf("Header.CheckIntegrity reports a checksum failure for Header{Size: 14, DataSize: %d, CRC: %#04x} whose stored checksum is the checksum of its first 12 bytes (the one DecodeHeader accepts)", hv.DataSize, hv.CRC), rep)
	}
	if badSize && cls != 1 {
		r.specFail("header_bad_size", fmt.Sprintf("Header.CheckIntegrity returns %s for Size %d (neither 12 nor 14); the decoder rejects that size with a format error", className(cls), hv.Size), rep)
	}
	if cls != model {
		r.corrFail("header_value", fmt.Sprintf("Header.CheckIntegrity on Header{Size: %d, ...}: implementation %s, model %s", hv.Size, className(cls), className(model)), rep)
	}
	if badSize {
		// the decoding entry points on bytes starting with that size byte
		file := append(append([]byte{}, b12...), byte(hv.CRC), byte(hv.CRC>>8), 0x40, 0, 0, 0, 0, 0)
		a1, _ := c04Integrity(file, true, nil)
		a2, _, _ := c04DecodeHeader(file)
		a3, _ := c04Decode(file, nil)
		a4, _ := c04Integrity(file, false, nil)
		if a1 != 1 || a2 != 1 || a3 != 1 || a4 != 1 {
			r.specFail("header_apis_disagree", fmt.Sprintf("size byte %d: CheckIntegrity(r,true) %s, DecodeHeader %s, Decode %s, CheckIntegrity(r,false) %s, Header.CheckIntegrity %s",
				hv.Size, className(a1), className(a2), className(a3), className(a4), className(cls)), rep)
		}
	}
	r.Traces++
	return nil
}

// headerValues: every Size 0..255 x CRC zero / non-zero (1, random, the matching one) x legal / illegal other fields
func (c *c04Ctx) headerValues() []struct {
	h    fit.Header
	desc string
} {
	var out []struct {
		h    fit.Header
		desc string
	}
	// Size 13 (between the two legal sizes) first, then every other value
	sizes := []int{13}
	for sz := 0; sz < 256; sz++ {
		if sz != 13 {
			sizes = append(sizes, sz)
		}
	}
	for _, sz := range sizes {
		for _, other := range []string{"legal", "proto", "dtype"} {
			h := fit.Header{Size: byte(sz), ProtocolVersion: 0x20, ProfileVersion: 2134, DataSize: uint32(c.rg.intn(1 << 16))}
			switch c.rg.intn(3) { // every byte of the size field takes part in the checksum
			case 0:
				h.DataSize = uint32(c.rg.intn(1<<16))<<16 | uint32(c.rg.intn(1<<16))
			case 1:
				h.DataSize = 1 << uint(c.rg.intn(32))
			}
			copy(h.DataType[:], ".FIT")
			switch other {
			case "proto":
				h.ProtocolVersion = 0x30 + byte(c.rg.intn(0xD0))
			case "dtype":
				h.DataType[c.rg.intn(4)] ^= 1 << uint(c.rg.intn(8))
			}
			b12 := []byte{h.Size, h.ProtocolVersion, byte(h.ProfileVersion), byte(h.ProfileVersion >> 8), 0, 0, 0, 0}
			binary.LittleEndian.PutUint32(b12[4:8], h.DataSize)
			b12 = append(b12, h.DataType[:]...)
			for _, crc := range []struct {
				v uint16
				d string
			}{{0, "crc0"}, {1, "crc1"}, {uint16(1 + c.rg.intn(65535)), "crcrandom"}, {dyncrc16.Checksum(b12), "crcmatching"}} {
				g := h
				g.CRC = crc.v
				out = append(out, struct {
					h    fit.Header
					desc string
				}{g, fmt.Sprintf("size%d/%s/%s", sz, other, crc.d)})
			}
		}
	}
	// the two legal sizes with every single bit of the size field and random 32-bit sizes: each of the
	// twelve bytes takes part in the checksum
	for _, sz := range []byte{12, 14} {
		var dss []uint32
		for k := 0; k < 32; k++ {
			dss = append(dss, 1<<uint(k))
		}
		for k := 0; k < 16; k++ {
			dss = append(dss, uint32(c.rg.intn(1<<16))<<16|uint32(c.rg.intn(1<<16)))
		}
		for _, ds := range dss {
			h := fit.Header{Size: sz, ProtocolVersion: []byte{0x10, 0x20}[c.rg.intn(2)], ProfileVersion: uint16(c.rg.intn(1 << 16)), DataSize: ds}
			copy(h.DataType[:], ".FIT")
			b12 := []byte{h.Size, h.ProtocolVersion, byte(h.ProfileVersion), byte(h.ProfileVersion >> 8), 0, 0, 0, 0}
			binary.LittleEndian.PutUint32(b12[4:8], h.DataSize)
			b12 = append(b12, h.DataType[:]...)
			for _, crc := range []struct {
				v uint16
				d string
			}{{uint16(1 + c.rg.intn(65535)), "crcrandom"}, {dyncrc16.Checksum(b12), "crcmatching"}} {
				g := h
				g.CRC = crc.v
				out = append(out, struct {
					h    fit.Header
					desc string
				}{g, fmt.Sprintf("size%d/datasize%#x/%s", sz, ds, crc.d)})
			}
		}
	}
	return out
}

// ---------------------------------------------------------------- file sources

func c04SmallStream(rg *rng, st genStats, maxRecords int) c04File {
	cfg := defaultCfg()
	cfg.maxRecords = maxRecords
	cfg.illFormed = 0
	cfg.secondFid = 0
	s := genStream(rg, &cfg, st)
	return c04File{Origin: "genstream", Name: fmt.Sprintf("hdr%d/%s/records%d", s.HdrSize, s.HdrCRC, len(s.Records)), Data: s.bytes()}
}

// c04AlignedStream builds a valid stream whose data size is exactly target: a generated stream padded with
// records of a message outside the profile (one byte-array field).
func c04AlignedStream(rg *rng, st genStats, target int) (c04File, bool) {
	for tries := 0; tries < 200; tries++ {
		cfg := defaultCfg()
		cfg.maxRecords = 20 + rg.intn(200)
		cfg.illFormed, cfg.secondFid, cfg.zeroFields = 0, 0, 0
		s := genStream(rg, &cfg, st)
		rem := target - len(s.dataBytes())
		if rem < 20 {
			continue
		}
		s.Records = append(s.Records, record{Kind: "D", Local: 14, Gmn: 0xFF01, Fields: []fieldDefS{{1, 200, 0x0D}}})
		rem -= 9
		for rem-201 >= 11 {
			s.Records = append(s.Records, record{Kind: "M", Local: 14, Pay: rg.bytes(200)})
			rem -= 201
		}
		k := rem - 10
		s.Records = append(s.Records, record{Kind: "D", Local: 15, Gmn: 0xFF02, Fields: []fieldDefS{{1, byte(k), 0x0D}}},
			record{Kind: "M", Local: 15, Pay: rg.bytes(k)})
		s.fillHex()
		if len(s.dataBytes()) != target {
			continue
		}
		data := s.bytes()
		if dc, _ := c04Decode(data, nil); dc != 0 {
			continue // a generator accident (e.g. an array field defined with zero elements): take another stream
		}
		return c04File{Origin: "genstream", Name: fmt.Sprintf("hdr%d/%s/datasize%d", s.HdrSize, s.HdrCRC, target), Data: data}, true
	}
	return c04File{}, false
}

func c04Encoded(rg *rng, st genStats, maxPer int) (c04File, bool) {
	cfg := &fileGenCfg{inDomain: true, allowCsd: false, maxPerSlt: maxPer}
	fc := genFile(rg, cfg, st)
	out := implEncode(fc.File, fc.arch())
	if out.class() != "O" {
		return c04File{}, false
	}
	return c04File{Origin: "encode", Name: fmt.Sprintf("type%d/hdr%d/be%v", fc.File.FileId.Type, fc.File.Header.Size, fc.BE), Data: out.Bytes}, true
}

func c04Corpus() []c04File {
	var out []c04File
	root := filepath.Join(repoRoot, "testdata")
	filepath.Walk(root, func(p string, info os.FileInfo, err error) error {
		if err != nil || info.IsDir() || !strings.HasSuffix(strings.ToLower(p), ".fit") {
			return nil
		}
		b, err := os.ReadFile(p)
		if err != nil {
			return nil
		}
		rel, _ := filepath.Rel(root, p)
		out = append(out, c04File{Origin: "corpus", Name: rel, Data: b})
		return nil
	})
	sort.Slice(out, func(i, j int) bool { return out[i].Name < out[j].Name })
	return out
}

// ---------------------------------------------------------------- run

func runC04(args []string) int {
	o := parseRunOpts("c04", args)
	r := newReport("C04", o)
	r.Rule = "accept: generated streams (both header sizes, stored/absent header checksum), Files written by the real Encode (both byte orders) and the corpus files " +
		"Decode accepts -> Decode ok implies CheckIntegrity ok, verdicts independent of the chunk schedule, spec verdict equal; " +
		"burst: per small valid file every bit position x {1 bit, all 2-bit patterns within 16 bits, random <=16-bit patterns} and all 65535 patterns at sampled " +
		"positions (LSB-first stream numbering), excluding patterns touching byte 0 and bytes 4..7 -> real Decode and CheckIntegrity must both return an error; " +
		"a sample is compared with the extracted spec verdict (bitwise CRC-16/ARC) and the extracted decoder model; header: 14 header bytes x single-bit flips x " +
		"stored checksum correct/zero/random/recomputed, 12-byte headers, all protocol bytes, and hand-made Header values with every Size 0..255 x CRC zero/non-zero x legal/illegal fields through CheckIntegrity(true/false), DecodeHeader, Decode, Header.CheckIntegrity; " +
		"evaluations = corrupted decodes + accepted files + header cases; non-trivial = file accepted and longer than 30 bytes / burst applied / stored checksum non-zero"
	// the extracted list functions recurse once per byte: give the co-process a deep stack for the large corpus files
	var rl syscall.Rlimit
	if syscall.Getrlimit(syscall.RLIMIT_STACK, &rl) == nil {
		want := uint64(4 << 30)
		if rl.Max < want {
			want = rl.Max
		}
		if rl.Cur < want {
			rl.Cur = want
			syscall.Setrlimit(syscall.RLIMIT_STACK, &rl)
		}
	}
	d, err := startDriver(o.driver)
	if err != nil {
		fmt.Println("driver:", err)
		return 2
	}
	defer d.close()
	c := &c04Ctx{r: r, d: d, rg: newRng(o.seed), o: o}
	fail := func(err error) int {
		fmt.Println("driver:", err)
		return 2
	}
	if o.replay != "" {
		return c.replay(o.replay)
	}
	thorough := o.tier == "thorough"
	st := genStats{}

	// ---- the MSB-first witness of burst16_msbfirst_refuted, replayed on the implementation:
	// CRC-16/ARC cannot see 01 C1 C0; recorded so that nobody mistakes it for a defect
	{
		resp, err := d.ask("c04_msb 3 6 1799")
		if err != nil {
			return fail(err)
		}
		if resp != "01c1c0 0" {
			r.corrFail("msbfirst_witness", "burst_msb 3 6 0x707 is not 01 C1 C0 with checksum 0 in the extracted spec: "+resp, nil)
		}
		if dyncrc16.Checksum([]byte{0x01, 0xC1, 0xC0}) != 0 {
			r.corrFail("msbfirst_witness", "dyncrc16.Checksum(01 C1 C0) is not 0: the checksum is not CRC-16/ARC", map[string]interface{}{"kind": "msbfirst"})
		}
		r.Hist["msbfirst_witness_checksum_zero"]++
	}

	// ---- (1) accepted files
	var small []c04File // accepted files short enough for exhaustive bit positions
	var medium []c04File
	nStream, nEnc := 300, 150
	if thorough {
		nStream, nEnc = 20000, 10000
	}
	nStream *= o.boost
	nEnc *= o.boost
	for i := 0; i < nStream; i++ {
		maxRec := 1 + c.rg.intn(6)
		if i%5 == 0 {
			maxRec = 24
		}
		f := c04SmallStream(c.rg, st, maxRec)
		ok, err := c.checkAccept(f, false)
		if err != nil {
			return fail(err)
		}
		if ok {
			r.Hist["valid_len_"+bucket(len(f.Data))]++
			if len(f.Data) <= 90 {
				small = append(small, f)
			} else if len(f.Data) <= 1500 {
				medium = append(medium, f)
			}
		}
	}
	var large []c04File
	nLarge := 12
	if thorough {
		nLarge = 300
	}
	for tries := 0; len(large) < nLarge*o.boost && tries < 60*nLarge*o.boost; tries++ {
		// streams crossing the decoder's 4096-byte buffer (the generator's rare zero-size fields make long streams fail more often: retry)
		f := c04SmallStream(c.rg, st, 300+c.rg.intn(900))
		if len(f.Data) < 4200 {
			continue
		}
		dc, _ := c04Decode(f.Data, nil)
		ic, _ := c04Integrity(f.Data, false, nil)
		if dc == 1 && ic == 0 {
			continue // a generator accident (zero-size field): framing intact, records rejected
		}
		ok, err := c.checkAccept(f, false)
		if err != nil {
			return fail(err)
		}
		if ok {
			r.Hist["valid_len_"+bucket(len(f.Data))]++
			large = append(large, f)
		}
	}
	// data sizes aimed at the block sizes of the readers involved (the decoder's 4096-byte buffer, io.CopyN's
	// 32 KiB buffer): exactly on, just below and just above a multiple
	targets := []int{4096, 8192, 4095, 4097, 12288, 32768, 32769}
	if thorough {
		for k := 1; k <= 20; k++ {
			targets = append(targets, 4096*k, 4096*k+1, 4096*k-1)
		}
		targets = append(targets, 65536, 65535, 65537)
	}
	for _, tg := range targets {
		f, ok := c04AlignedStream(c.rg, st, tg)
		if !ok {
			continue
		}
		ok, err := c.checkAccept(f, false)
		if err != nil {
			return fail(err)
		}
		r.Hist["aimed_data_size_files"]++
		if ok {
			r.Hist["valid_len_"+bucket(len(f.Data))]++
			large = append(large, f)
		} else {
			r.corrFail("aimed_size_rejected", fmt.Sprintf("a generated file with data size %d is not accepted", tg), map[string]interface{}{"input_hex": hexs(f.Data)})
		}
	}
	for i := 0; i < nEnc; i++ {
		f, ok := c04Encoded(c.rg, st, 3)
		if !ok {
			continue
		}
		ok, err := c.checkAccept(f, true)
		if err != nil {
			return fail(err)
		}
		if ok {
			r.Hist["valid_len_"+bucket(len(f.Data))]++
			if len(f.Data) <= 90 {
				small = append(small, f)
			} else if len(f.Data) <= 1500 {
				medium = append(medium, f)
			}
		}
	}
	var corpus []c04File
	for _, f := range c04Corpus() {
		ok, err := c.checkAccept(f, false)
		if err != nil {
			return fail(err)
		}
		if ok {
			corpus = append(corpus, f)
		}
	}
	r.Hist["corpus_files_accepted"] = len(corpus)
	if len(small) == 0 {
		r.corrFail("no_valid_files", "no generated file was accepted by Decode and CheckIntegrity: nothing to corrupt", nil)
		return r.finish()
	}

	// ---- (2) bursts
	// exhaustive bit positions on small files (both header sizes and origins), sampled on medium and corpus files
	nSmall, nWindows, nMedium, perMedium, perCorpus := 14, 2, 30, 600, 150
	if thorough {
		nSmall, nWindows, nMedium, perMedium, perCorpus = 700, 200, 3000, 1500, 20000
	}
	nSmall *= o.boost
	nWindows *= o.boost
	// pick small files round-robin over (origin, header size)
	byKind := map[string][]c04File{}
	var kinds []string
	for _, f := range small {
		k := fmt.Sprintf("%s/%d", f.Origin, f.Data[0])
		if _, ok := byKind[k]; !ok {
			kinds = append(kinds, k)
		}
		byKind[k] = append(byKind[k], f)
	}
	sort.Strings(kinds)
	var chosen []c04File
	for i := 0; len(chosen) < nSmall && i < 10*nSmall; i++ {
		k := kinds[i%len(kinds)]
		if j := i / len(kinds); j < len(byKind[k]) {
			chosen = append(chosen, byKind[k][j])
		}
	}
	for i, f := range chosen {
		r.Hist["burst_file_"+fmt.Sprintf("%s_hdr%d", f.Origin, f.Data[0])]++
		bs := c.burstsFor(c04FrameLen(f.Data), 6, 0)
		if err := c.runBursts(f, bs, 2, 12); err != nil {
			return fail(err)
		}
		if i < 2 {
			r.sample(map[string]interface{}{"kind": "burst_file", "origin": f.Origin, "name": f.Name, "bytes": len(f.Data), "bursts": len(bs), "file_hex": hexs(f.Data)})
		}
	}
	for w := 0; w < nWindows && w < len(chosen); w++ {
		f := chosen[(w*5+1)%len(chosen)]
		n := c04FrameLen(f.Data)
		var bs []c04Burst
		off := 8 + c.rg.intn(8*n-24)
		for p := uint32(1); p < 65536; p++ {
			if e, ok := burstBytes(n, off, p); ok && burstInDomain(e) {
				bs = append(bs, c04Burst{off, p, "window65535"})
			}
		}
		r.Hist["full_windows"]++
		if err := c.runBursts(f, bs, 16, 8); err != nil {
			return fail(err)
		}
	}
	sampleBursts := func(f c04File, count int) []c04Burst {
		n := c04FrameLen(f.Data)
		var bs []c04Burst
		for len(bs) < count {
			off := c.rg.intn(8 * n)
			var p uint32
			switch c.rg.intn(4) {
			case 0:
				p = 1
			case 1:
				p = 1 | 1<<uint(1+c.rg.intn(15))
			default:
				p = uint32(c.rg.intn(65536)) | 1
			}
			if e, ok := burstBytes(n, off, p); ok && burstInDomain(e) {
				bs = append(bs, c04Burst{off, p, "sampled"})
			}
		}
		return bs
	}
	for i := 0; i < nMedium && i < len(medium); i++ {
		f := medium[i]
		r.Hist["burst_file_medium"]++
		if err := c.runBursts(f, sampleBursts(f, perMedium), 6, 10); err != nil {
			return fail(err)
		}
	}
	for _, f := range large {
		r.Hist["burst_file_large"]++
		if err := c.runBursts(f, sampleBursts(f, perMedium), 40, 5); err != nil {
			return fail(err)
		}
	}
	for _, f := range corpus {
		if len(f.Data) > 300000 && !thorough {
			continue
		}
		r.Hist["burst_file_corpus"]++
		every := 0
		if len(f.Data) < 20000 {
			every = 25
		}
		if err := c.runBursts(f, sampleBursts(f, perCorpus), every, 0); err != nil {
			return fail(err)
		}
	}

	// ---- (3) headers
	recs := chosen[0].Data[int(chosen[0].Data[0]) : len(chosen[0].Data)-2]
	hcs := c.headerCases(len(recs))
	for i, hc := range hcs {
		if err := c.checkHeader(hc, recs); err != nil {
			return fail(err)
		}
		if i == 1 {
			r.sample(map[string]interface{}{"kind": "header", "desc": hc.desc, "header_hex": hexs(hc.hdr)})
		}
	}
	nRandHdr := 2000
	if thorough {
		nRandHdr = 200000
	}
	for i := 0; i < nRandHdr*o.boost; i++ {
		h := []byte{14, byte(c.rg.intn(0x30)), byte(c.rg.intn(256)), byte(c.rg.intn(256)), 0, 0, 0, 0, '.', 'F', 'I', 'T'}
		binary.LittleEndian.PutUint32(h[4:8], uint32(len(recs)))
		if c.rg.chance(1, 10) {
			h[8+c.rg.intn(4)] = byte(c.rg.intn(256))
		}
		v := dyncrc16.Checksum(h)
		switch c.rg.intn(4) {
		case 0:
			v = uint16(c.rg.intn(65536))
		case 1:
			v ^= 1 << uint(c.rg.intn(16))
		case 2:
			if c.rg.chance(1, 4) {
				v = 0
			}
		}
		if err := c.checkHeader(hdrCase{append(h, byte(v), byte(v>>8)), "random"}, recs); err != nil {
			return fail(err)
		}
	}
	for _, hc := range c.sizeFieldCases(len(recs)) {
		if err := c.checkSizeFieldHeader(hc, recs); err != nil {
			return fail(err)
		}
	}
	for _, hv := range c.headerValues() {
		if err := c.checkHeaderValue(hv.h, hv.desc); err != nil {
			return fail(err)
		}
	}
	for k, v := range st {
		if strings.HasPrefix(k, "filetype_") || strings.HasPrefix(k, "header_") || k == "big_endian" || k == "little_endian" {
			r.Hist["gen_"+k] = v
		}
	}
	r.Extra["corrupted_decodes"] = r.Hist["burst_1bit"] + r.Hist["burst_2bit"] + r.Hist["burst_random"] + r.Hist["burst_window65535"] + r.Hist["burst_sampled"]
	return r.finish()
}

// replay re-runs one recorded case.
func (c *c04Ctx) replay(path string) int {
	r := c.r
	b, err := os.ReadFile(path)
	if err != nil {
		fmt.Println("replay:", err)
		return 2
	}
	var doc struct {
		Case  map[string]interface{} `json:"case"`
		First map[string]interface{} `json:"first_disagreeing_case"`
	}
	if err := json.Unmarshal(b, &doc); err != nil {
		fmt.Println("replay:", err)
		return 2
	}
	cs := doc.Case
	if cs == nil {
		cs = doc.First
	}
	if cs == nil {
		fmt.Println("replay: no case in file")
		return 2
	}
	str := func(k string) string { s, _ := cs[k].(string); return s }
	num := func(k string) int { f, _ := cs[k].(float64); return int(f) }
	data, _ := hex.DecodeString(str("file_hex"))
	f := c04File{Origin: str("origin"), Name: str("name"), Data: data}
	switch str("kind") {
	case "accept":
		if _, err := c.checkAccept(f, f.Origin == "encode"); err != nil {
			fmt.Println("driver:", err)
			return 2
		}
	case "burst":
		bu := c04Burst{num("bit_offset"), uint32(num("pattern")), "replay"}
		if err := c.runBursts(f, []c04Burst{bu}, 1, 1); err != nil {
			fmt.Println("driver:", err)
			return 2
		}
	case "header", "header_size_field":
		h, _ := hex.DecodeString(str("header_hex"))
		recs := data[len(h) : len(data)-2]
		var err error
		if str("kind") == "header" {
			err = c.checkHeader(hdrCase{h, str("desc")}, recs)
		} else {
			err = c.checkSizeFieldHeader(hdrCase{h, str("desc")}, recs)
		}
		if err != nil {
			fmt.Println("driver:", err)
			return 2
		}
	case "header_value":
		hv := fit.Header{Size: byte(num("Size")), ProtocolVersion: byte(num("ProtocolVersion")), ProfileVersion: uint16(num("ProfileVersion")),
			DataSize: uint32(num("DataSize")), CRC: uint16(num("CRC"))}
		dt, _ := hex.DecodeString(str("DataType_hex"))
		copy(hv.DataType[:], dt)
		if err := c.checkHeaderValue(hv, str("desc")); err != nil {
			fmt.Println("driver:", err)
			return 2
		}
	default:
		fmt.Println("replay: unknown case kind", str("kind"))
		return 2
	}
	return r.finish()
}

func min(a, b int) int {
	if a < b {
		return a
	}
	return b
}
