package main

import (
	"bytes"
	"encoding/binary"
	"encoding/hex"
	"encoding/json"
	"fmt"
	"os"
	"os/exec"
	"path/filepath"
	"runtime"
	"sort"
	"strings"
	"sync"
	"time"

	"github.com/tormoder/fit"
)

// C09: concurrent use on independent inputs is race-free and equals
// sequential use.
//
// `vh c09` builds the harness again with the race detector
// (go build -race -tags verif, from the current tree of $VERIF_REPO) and runs
// it twice as `vh-race c09-race`:
//   phase domain : pools of goroutines call Decode / DecodeChained /
//     CheckIntegrity / DecodeHeader / DecodeHeaderAndFileID / Encode at the
//     same time, each on its own reader, writer and File, over inputs INSIDE
//     the domain of C09_noninterference (the extracted model, run fresh,
//     leaves the accumulators nil).  Required: no race report, and every
//     result equal to the sequential baseline taken before.
//   phase witness: goroutines decode the witnesses of C09_race_refuted (records
//     carrying compressed_speed_distance, and cycles).  A race report here is
//     the known finding accum_race, printed only while it still occurs.
// The race detector run is a test of the runtime half that the Coq model
// does not cover (Go memory model, runtime, standard library internals).

func init() {
	register("c09", runC09)
	register("c09-race", runC09Race)
}

type c09RaceOut struct {
	Phase      string         `json:"phase"`
	Calls      int            `json:"calls"`
	Nontrivial int            `json:"nontrivial"`
	Hist       map[string]int `json:"hist"`
	Mismatches []c09Mismatch  `json:"mismatches"`
	Pool       int            `json:"pool"`
	Excluded   int            `json:"excluded_outside_domain"`
	Samples    []string       `json:"samples"`
	Err        string         `json:"error,omitempty"`
}

type c09Mismatch struct {
	Mix        string  `json:"mix"`
	Goroutine  int     `json:"goroutine"`
	Call       c08Call `json:"call"`
	Sequential string  `json:"sequential"`
	Concurrent string  `json:"concurrent"`
	Procs      int     `json:"gomaxprocs"`
}

func runC09(args []string) int {
	o := parseRunOpts("c09", args)
	r := newReport("C09", o)
	r.Rule = "a call is nontrivial if it returned nil error; every concurrent result is compared with the sequential baseline; the race detector must stay silent on inputs inside the theorem's domain"
	// the race-enabled harness, rebuilt from the current tree
	bin := filepath.Join(verifRoot, "build", "vh-race")
	t0 := time.Now()
	cmd := exec.Command("go", "build", "-race", "-tags", "verif", "-o", bin, ".")
	cmd.Dir = filepath.Join(verifRoot, "harness")
	cmd.Env = append(os.Environ(), "CGO_ENABLED=1", "GOFLAGS=-mod=mod", "GOPROXY=off", "GOSUMDB=off", "GOTOOLCHAIN=local")
	if out, err := cmd.CombinedOutput(); err != nil {
		fmt.Printf("c09: building the race-enabled harness failed: %v\n%s\n", err, out)
		return 2
	}
	r.Extra["race_build_seconds"] = time.Since(t0).Seconds()
	runDir := filepath.Join(verifRoot, "build", "run")
	os.MkdirAll(runDir, 0o755)

	lastStderr := ""
	runPhase := func(phase string) (*c09RaceOut, string, int, error) {
		logBase := filepath.Join(runDir, "c09race-"+phase)
		old, _ := filepath.Glob(logBase + ".*")
		for _, f := range old {
			os.Remove(f)
		}
		outJSON := filepath.Join(runDir, "c09-"+phase+".json")
		os.Remove(outJSON)
		c := exec.Command(bin, "c09-race", "--tier", o.tier, "--seed", fmt.Sprint(o.seed), "--driver", o.driver, "--boost", fmt.Sprint(o.boost), "--out", outJSON, "--replay", phase)
		c.Dir = verifRoot
		c.Env = append(os.Environ(), "GORACE=exitcode=66 halt_on_error=0 log_path="+logBase)
		var stderr strings.Builder
		c.Stderr = &stderr
		c.Stdout = os.Stdout
		err := c.Run()
		lastStderr = stderr.String()
		code := 0
		if ee, ok := err.(*exec.ExitError); ok {
			code = ee.ExitCode()
		} else if err != nil {
			return nil, "", 0, err
		}
		var ro c09RaceOut
		b, rerr := os.ReadFile(outJSON)
		if rerr != nil {
			if code != 0 {
				// the process died (e.g. "fatal error: concurrent map writes")
				return &c09RaceOut{Phase: phase, Err: "crashed"}, "", code, nil
			}
			return nil, "", code, fmt.Errorf("phase %s wrote no result (exit %d)", phase, code)
		}
		if err := json.Unmarshal(b, &ro); err != nil {
			return nil, "", code, err
		}
		var logs strings.Builder
		files, _ := filepath.Glob(logBase + ".*")
		sort.Strings(files)
		for _, f := range files {
			lb, _ := os.ReadFile(f)
			logs.Write(lb)
		}
		return &ro, logs.String(), code, nil
	}

	// ------------------------------------------------------------ the pool, prepared here
	poolPath := filepath.Join(runDir, "c09-pool.json")
	if err := c09PreparePool(o, poolPath); err != nil {
		fmt.Println("c09: preparing the pool:", err)
		return 2
	}
	os.Setenv("C09_POOL", poolPath)

	// ------------------------------------------------------------ inside the domain
	dom, domLog, domCode, err := runPhase("domain")
	if err != nil {
		fmt.Println("c09:", err)
		return 2
	}
	if dom.Err == "crashed" {
		head := crashHead(lastStderr)
		r.specFail("concurrent_crash", fmt.Sprintf("the process died (exit %d) while goroutines used the entry points on independent inputs inside the domain of C09_noninterference\n%s", domCode, indent(head, "    ")),
			map[string]interface{}{"phase": "domain", "seed": o.seed, "tier": o.tier, "exit": domCode, "stderr_head": head})
		return r.finish()
	}
	if dom.Err != "" {
		fmt.Println("c09: domain phase:", dom.Err)
		return 2
	}
	r.Evaluations += dom.Calls
	for k, v := range dom.Hist {
		r.Hist[k] += v
	}
	for i := 0; i < dom.Nontrivial; i++ {
		r.distinct[uint64(i)] = struct{}{}
	}
	r.Traces = dom.Calls
	r.Extra["domain_pool"] = dom.Pool
	r.Extra["domain_pool_excluded_outside_domain"] = dom.Excluded
	for _, s := range dom.Samples {
		r.sample(s)
	}
	nRaces := strings.Count(domLog, "WARNING: DATA RACE")
	r.Extra["domain_race_reports"] = nRaces
	if nRaces > 0 || domCode == 66 {
		first := raceSummary(domLog)
		r.specFail("race", fmt.Sprintf("the race detector reports %d data race(s) while goroutines use the entry points on independent inputs inside the domain of C09_noninterference\n%s", nRaces, indent(first, "    ")),
			map[string]interface{}{"phase": "domain", "seed": o.seed, "tier": o.tier, "race_reports": nRaces, "first_report": first, "rerun": "./check C09 (the domain phase is deterministic in its inputs; the schedule is the runtime's)"})
	} else if domCode != 0 {
		fmt.Printf("c09: domain phase exited with status %d\n", domCode)
		return 2
	}
	for _, m := range dom.Mismatches {
		r.specFail("concurrent_result", fmt.Sprintf("a call returned something else under concurrency than alone (%s %s on %s, mix %s, goroutine %d, GOMAXPROCS %d)\n    alone     : %.300s\n    concurrent: %.300s",
			m.Call.Entry, m.Call.Opts, m.Call.In.ID, m.Mix, m.Goroutine, m.Procs, diffAt(m.Sequential, m.Concurrent), diffAt(m.Concurrent, m.Sequential)), m)
	}

	// ------------------------------------------------------------ the refutation witnesses
	wit, witLog, witCode, err := runPhase("witness")
	if err != nil {
		fmt.Println("c09:", err)
		return 2
	}
	r.Evaluations += wit.Calls
	for k, v := range wit.Hist {
		r.Hist["witness_"+k] += v
	}
	wRaces := strings.Count(witLog, "WARNING: DATA RACE")
	r.Extra["witness_race_reports"] = wRaces
	r.Extra["witness_result_mismatches"] = len(wit.Mismatches)
	if wRaces > 0 || witCode == 66 {
		first := raceSummary(witLog)
		inAccum := strings.Contains(witLog, "expandComponents") || strings.Contains(witLog, "accumulate")
		tag := "accum_race"
		if !inAccum {
			tag = "race"
		}
		r.specFail(tag, fmt.Sprintf("witness of C09_race_refuted (corpus/known/C09-accum-race.json): %d data race report(s), %d result(s) differing from the call run alone\n%s", wRaces, len(wit.Mismatches), indent(first, "    ")),
			map[string]interface{}{"phase": "witness", "race_reports": wRaces, "first_report": first, "mismatches": len(wit.Mismatches)})
	} else {
		r.Notes = append(r.Notes, "the witnesses of C09_race_refuted no longer make the race detector report a race")
	}
	return r.finish()
}

// crashHead: the fatal error line and the first frames inside the library.
func crashHead(stderr string) string {
	var out []string
	lines := strings.Split(stderr, "\n")
	for k, l := range lines {
		t := strings.TrimSpace(l)
		if strings.HasPrefix(t, "fatal error") || strings.HasPrefix(t, "panic:") || strings.HasPrefix(t, "WARNING: DATA RACE") {
			out = append(out, t)
		} else if strings.HasPrefix(t, "github.com/tormoder/fit") && !strings.Contains(t, "verifharness") && k+1 < len(lines) {
			loc := strings.TrimSpace(lines[k+1])
			if sp := strings.LastIndex(loc, " +0x"); sp > 0 {
				loc = loc[:sp]
			}
			out = append(out, "  "+t+"  "+strings.Replace(loc, repoRoot+"/", "", 1))
		}
		if len(out) > 12 {
			break
		}
	}
	if len(out) == 0 {
		return clip(strings.TrimSpace(stderr), 800)
	}
	return strings.Join(out, "\n")
}

func indent(s, pre string) string {
	return pre + strings.ReplaceAll(strings.TrimRight(s, "\n"), "\n", "\n"+pre)
}

// raceSummary: the first report, reduced to its headline lines and the top
// frames inside the library.
func raceSummary(log string) string {
	i := strings.Index(log, "WARNING: DATA RACE")
	if i < 0 {
		return strings.TrimSpace(clip(log, 600))
	}
	rest := log[i:]
	if j := strings.Index(rest[1:], "=================="); j >= 0 {
		rest = rest[:j+1]
	}
	var out []string
	lines := strings.Split(rest, "\n")
	for k, l := range lines {
		t := strings.TrimSpace(l)
		switch {
		case strings.HasPrefix(t, "WARNING"), strings.HasPrefix(t, "Read at"), strings.HasPrefix(t, "Write at"),
			strings.HasPrefix(t, "Previous read"), strings.HasPrefix(t, "Previous write"):
			out = append(out, t)
		case strings.HasPrefix(t, "github.com/tormoder/fit") && !strings.Contains(t, "verifharness"):
			loc := ""
			if k+1 < len(lines) {
				loc = strings.TrimSpace(lines[k+1])
				if sp := strings.LastIndex(loc, " +0x"); sp > 0 {
					loc = loc[:sp]
				}
				loc = strings.Replace(loc, repoRoot+"/", "", 1)
			}
			out = append(out, "  "+t+"  "+loc)
		}
		if len(out) > 14 {
			break
		}
	}
	return strings.Join(out, "\n")
}

type c09Spec struct {
	Streams  []c08Input `json:"streams"`
	Files    []c08Input `json:"files"` // kind filestream: bytes whose Decode yields the File to encode
	Excluded int        `json:"excluded_outside_domain"`
}

// c09PreparePool runs in the parent (`vh c09`, no race detector): it generates
// the inputs, keeps those the model classifies as inside the domain of
// C09_noninterference (run fresh, the model leaves every accumulator nil) and
// writes them as plain bytes.
func c09PreparePool(o runOpts, path string) error {
	d, err := startDriver(o.driver)
	if err != nil {
		return err
	}
	defer d.close()
	rg := newRng(o.seed)
	st := genStats{}
	var spec c09Spec
	inDomain := func(data []byte, needOK bool) bool {
		rs := readerSpec{Data: data}
		resp, err := d.ask(fmt.Sprintf("decode C %s %s %s", optSet{}.String(), rs.driverArgs(), "-/-/-"))
		if err != nil {
			return false
		}
		m, err := parseModel("C", resp)
		if err != nil || (m.G != "-/-/-" && m.G != "") || m.Panic != "" {
			return false
		}
		return !needOK || m.ErrClass == 0
	}
	add := func(id, origin string, data []byte) {
		if !inDomain(data, false) {
			spec.Excluded++
			return
		}
		spec.Streams = append(spec.Streams, c08Input{ID: id, Kind: "stream", Hex: hex.EncodeToString(data), Origin: origin, data: data})
	}
	b, _ := hex.DecodeString(c08PlainHex)
	add("witness_plain", "witness", b)
	nGen := 60
	if o.tier == "thorough" {
		nGen = 400
	}
	for i := 0; i < nGen; i++ {
		cfg := defaultCfg()
		if i%5 == 0 {
			cfg.illFormed = 60
		}
		s := genStream(rg.fork(), &cfg, st)
		add(fmt.Sprintf("gen%d", i), "generated", s.bytes())
	}
	for i := 0; i < 6; i++ {
		s := c08ComponentStream(rg.fork(), false, false, false)
		add(fmt.Sprintf("records%d", i), "component", s.bytes())
	}
	filepath.Walk(filepath.Join(repoRoot, "testdata"), func(p string, info os.FileInfo, err error) error {
		if err != nil || info.IsDir() || !strings.HasSuffix(p, ".fit") || info.Size() > c08ModelMax {
			return nil
		}
		data, err := os.ReadFile(p)
		if err == nil {
			rel, _ := filepath.Rel(repoRoot, p)
			add("testdata:"+rel, "testdata", data)
		}
		return nil
	})
	// truncated inputs: the error a call returns (text and chain included) is part of what it returns; cuts inside
	// the header at different lengths, inside the data and inside the checksum, of several streams
	if n := len(spec.Streams); n > 0 {
		for k := 0; k < 6 && k < n; k++ {
			src := spec.Streams[(k*7)%n]
			for _, at := range []int{1, 2, 5, 7, 11, 12, 13, len(src.data) / 2, len(src.data) - 3, len(src.data) - 1} {
				if at > 0 && at < len(src.data) {
					add(fmt.Sprintf("cut(%s,%d)", src.ID, at), "truncated", append([]byte{}, src.data[:at]...))
				}
			}
		}
	}
	if n := len(spec.Streams); n > 3 {
		for i := 0; i < 8; i++ {
			a, c := spec.Streams[rg.intn(n)], spec.Streams[rg.intn(n)]
			if len(a.data)+len(c.data) <= c08ModelMax {
				add("chain("+a.ID+"+"+c.ID+")", "chained", append(append([]byte{}, a.data...), c.data...))
			}
		}
	}
	// Files, as the bytes Encode writes for them here
	for i, tries := 0, 0; i < 16 && tries < 64; tries++ {
		in := c08Input{ID: fmt.Sprintf("file%d", i), Kind: "file", FileSeed: rg.u64(), AllowCsd: false, BE: i%2 == 1}
		main, data := c08Encode(c08GenFile(in))
		if !strings.HasPrefix(main, "err=0") || len(data) == 0 || len(data) > c08ModelMax || !inDomain(data, true) {
			continue
		}
		spec.Files = append(spec.Files, c08Input{ID: in.ID, Kind: "filestream", Hex: hex.EncodeToString(data), BE: in.BE, Origin: "generated File, encoded by the parent"})
		i++
	}
	out, _ := json.Marshal(spec)
	return os.WriteFile(path, out, 0o644)
}

// ---------------------------------------------------------------- race binary side

// the File generator of the harness keeps process-wide statistics: building
// the File is serialised, the Encode call on it is not
var c09GenMu sync.Mutex

func c09Call(c c08Call) string {
	switch c.Entry {
	case "E":
		if c.In.Kind == "filestream" {
			// the File is obtained by decoding bytes prepared by the parent
			// process: nothing but entry points of the library is called
			out := "PANIC"
			func() {
				defer func() {
					if r := recover(); r != nil {
						out = fmt.Sprint("PANIC ", r)
					}
				}()
				f, err := fit.Decode(bytes.NewReader(c.In.data))
				if err != nil || f == nil {
					out = fmt.Sprintf("decode of the prepared stream failed: %v", err)
					return
				}
				var arch binary.ByteOrder = binary.LittleEndian
				if c.In.BE {
					arch = binary.BigEndian
				}
				var buf bytes.Buffer
				err = fit.Encode(&buf, f, arch)
				out = fmt.Sprintf("err=%d bytes=%s hdr=%s crc=%d", errClass(err), hex.EncodeToString(buf.Bytes()), canonHeader(f.Header), f.CRC)
			}()
			return out
		}
		c09GenMu.Lock()
		fc := c08GenFile(c.In)
		c09GenMu.Unlock()
		main, _ := c08Encode(fc)
		return main
	case "D", "C":
		if c.Opts.UnkF || c.Opts.UnkM {
			// the option values are shared by all goroutines (an option value
			// is not one of the inputs the property requires to be independent)
			return c09Decode(c.Entry, c09SharedOpts, c.In.data)
		}
		return implDecode(c.Entry, c.Opts, readerSpec{Data: c.In.data}).withError()
	default:
		return implDecode(c.Entry, c.Opts, readerSpec{Data: c.In.data}).withError()
	}
}

// c09SharedOpts: WithUnknownFields, WithUnknownMessages, created once per process.
var c09SharedOpts []fit.DecodeOption

// c09Decode is Decode / DecodeChained with the given (shared) option values.
func c09Decode(entry string, opts []fit.DecodeOption, data []byte) string {
	var res decOut
	func() {
		defer func() {
			if r := recover(); r != nil {
				res = decOut{Panic: fmt.Sprint(r)}
			}
		}()
		rd := readerSpec{Data: data}.reader()
		res.Hdr = "-"
		if entry == "D" {
			f, err := fit.Decode(rd, opts...)
			res.ErrClass = errClass(err)
			if err != nil {
				res.ErrText, res.ErrChain = err.Error(), errChain(err)
			}
			res.Files = []string{canonFile(f)}
		} else {
			fs, err := fit.DecodeChained(rd, opts...)
			res.ErrClass = errClass(err)
			if err != nil {
				res.ErrText, res.ErrChain = err.Error(), errChain(err)
			}
			for _, f := range fs {
				res.Files = append(res.Files, canonFile(f))
			}
		}
		res.Pos = rd.pos
	}()
	return res.withError()
}

func runC09Race(args []string) int {
	o := parseRunOpts("c09-race", args)
	phase := o.replay // "domain" | "witness"
	out := c09RaceOut{Phase: phase, Hist: map[string]int{}}
	write := func() {
		b, _ := json.MarshalIndent(out, "", " ")
		os.MkdirAll(filepath.Dir(o.out), 0o755)
		os.WriteFile(o.out, b, 0o644)
	}
	fail := func(err error) int {
		out.Err = err.Error()
		write()
		return 2
	}
	rg := newRng(o.seed)
	var mu sync.Mutex

	runMix := func(mix string, calls []c08Call, baseline map[string]string, goroutines, perG, procs int) {
		old := runtime.GOMAXPROCS(procs)
		defer runtime.GOMAXPROCS(old)
		var wg sync.WaitGroup
		start := make(chan struct{})
		for g := 0; g < goroutines; g++ {
			wg.Add(1)
			lr := rg.fork()
			go func(g int, lr *rng) {
				defer wg.Done()
				<-start
				localHist := map[string]int{}
				var mism []c09Mismatch
				n, nt := 0, 0
				for i := 0; i < perG; i++ {
					c := calls[lr.intn(len(calls))]
					got := c09Call(c)
					n++
					if strings.HasPrefix(got, "err=0") {
						nt++
					}
					localHist["call_"+c.Entry]++
					if want := baseline[c.key()]; got != want {
						mism = append(mism, c09Mismatch{Mix: mix, Goroutine: g, Call: c, Sequential: clip(want, 2000), Concurrent: clip(got, 2000), Procs: procs})
					}
				}
				mu.Lock()
				out.Calls += n
				out.Nontrivial += nt
				for k, v := range localHist {
					out.Hist[k] += v
				}
				out.Hist["mix_"+mix] += n
				if len(out.Mismatches) < 40 {
					out.Mismatches = append(out.Mismatches, mism...)
				}
				mu.Unlock()
			}(g, lr)
		}
		close(start)
		wg.Wait()
	}

	if phase == "witness" {
		var calls []c08Call
		for _, wv := range []struct{ id, hx string }{{"witness_csd", c08WitnessHex}, {"witness_cycles", c08CyclesHex}} {
			b, _ := hex.DecodeString(wv.hx)
			calls = append(calls, c08Call{Entry: "D", In: c08Input{ID: wv.id, Kind: "stream", Hex: wv.hx, data: b}})
		}
		// the results of the calls run alone, first in this process
		baseline := map[string]string{}
		for _, c := range calls {
			baseline[c.key()] = c09Call(c)
		}
		runMix("witness", calls, baseline, 8, 40, 4)
		write()
		return 0
	}

	// phase domain: the pool was prepared by the parent process (stream bytes,
	// and per File the bytes of a stream whose Decode yields it), so that this
	// process touches the library for the very first time from many
	// goroutines at once (cold round below)
	var spec c09Spec
	{
		b, err := os.ReadFile(os.Getenv("C09_POOL"))
		if err != nil {
			return fail(err)
		}
		if err := json.Unmarshal(b, &spec); err != nil {
			return fail(err)
		}
	}
	c09SharedOpts = optSet{UnkF: true, UnkM: true}.options()
	streams, files := spec.Streams, spec.Files
	for i := range streams {
		streams[i].data, _ = hex.DecodeString(streams[i].Hex)
	}
	for i := range files {
		files[i].data, _ = hex.DecodeString(files[i].Hex)
	}
	out.Excluded = spec.Excluded
	out.Pool = len(streams) + len(files)
	var decCalls, encCalls []c08Call
	for _, s := range streams {
		for _, e := range []string{"D", "C", "I", "J", "H", "F"} {
			decCalls = append(decCalls, c08Call{Entry: e, In: s})
		}
		decCalls = append(decCalls, c08Call{Entry: "D", Opts: optSet{UnkF: true, UnkM: true}, In: s})
	}
	for _, f := range files {
		encCalls = append(encCalls, c08Call{Entry: "E", In: f})
	}
	all := append(append([]c08Call{}, decCalls...), encCalls...)
	// cold round: the very first calls of this process are made concurrently,
	// so that lazily initialised package-level state is first touched under
	// concurrency; its results are compared with the sequential baseline
	// taken right after (inside the domain a result does not depend on what
	// ran before: C08)
	type coldRes struct {
		g   int
		c   c08Call
		got string
	}
	var cold []coldRes
	{
		var wg sync.WaitGroup
		start := make(chan struct{})
		for g := 0; g < 16; g++ {
			wg.Add(1)
			lr := rg.fork()
			go func(g int, lr *rng) {
				defer wg.Done()
				<-start
				var mine []coldRes
				for i := 0; i < 40; i++ {
					c := all[lr.intn(len(all))]
					if (i+g)%2 == 0 {
						c = encCalls[lr.intn(len(encCalls))]
					}
					mine = append(mine, coldRes{g, c, c09Call(c)})
				}
				mu.Lock()
				cold = append(cold, mine...)
				mu.Unlock()
			}(g, lr)
		}
		close(start)
		wg.Wait()
	}
	// sequential baseline
	baseline := map[string]string{}
	for _, c := range all {
		baseline[c.key()] = c09Call(c)
	}
	for _, cr := range cold {
		out.Calls++
		out.Hist["mix_cold"]++
		out.Hist["call_"+cr.c.Entry]++
		if strings.HasPrefix(cr.got, "err=0") {
			out.Nontrivial++
		}
		if want := baseline[cr.c.key()]; cr.got != want && len(out.Mismatches) < 40 {
			out.Mismatches = append(out.Mismatches, c09Mismatch{Mix: "cold", Goroutine: cr.g, Call: cr.c, Sequential: clip(want, 2000), Concurrent: clip(cr.got, 2000), Procs: runtime.GOMAXPROCS(0)})
		}
	}
	out.Samples = append(out.Samples, fmt.Sprintf("%d decoding calls and %d Encode calls over %d streams / %d Files", len(decCalls), len(encCalls), len(streams), len(files)))
	goroutines, perG := 16, 200
	procsList := []int{runtime.NumCPU()}
	if procsList[0] < 4 {
		procsList[0] = 4
	}
	deadline := time.Now()
	if o.tier == "thorough" {
		procsList = []int{1, 2, 4, 16}
		deadline = time.Now().Add(30 * time.Minute)
	}
	for round := 0; ; round++ {
		for _, procs := range procsList {
			runMix("decode", decCalls, baseline, goroutines, perG, procs)
			runMix("encode", encCalls, baseline, goroutines, perG, procs)
			runMix("mixed", all, baseline, goroutines, perG, procs)
		}
		if !time.Now().Before(deadline) || len(out.Mismatches) > 0 {
			break
		}
	}
	write()
	return 0
}
