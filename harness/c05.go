package main

import (
	"bytes"
	"encoding/binary"
	"fmt"
	"io"
	"strconv"
	"strings"

	"github.com/tormoder/fit"
)

// C05: Encode emits a well-formed, self-describing FIT stream.
// Spec oracle: the extracted grammar recogniser (Spec/Grammar.v) and wire
// comparison run on the bytes the real Encode wrote; the File's header data
// size, header CRC and file CRC after the call are compared with those bytes.
// Correspondence: the extracted encoder model (Model/Encode.v) must produce
// identical bytes, the identical File after the call and the same
// ok / error / panic verdict.

func init() { register("c05", runC05) }

type encOut struct {
	Panic string
	Err   error
	Bytes []byte
}

// implEncode calls the real fit.Encode into a bytes.Buffer.
func implEncode(f *fit.File, arch binary.ByteOrder) (out encOut) {
	defer func() {
		if r := recover(); r != nil {
			out = encOut{Panic: fmt.Sprint(r)}
		}
	}()
	var buf bytes.Buffer
	err := fit.Encode(&buf, f, arch)
	return encOut{Err: err, Bytes: buf.Bytes()}
}

// onlyWriter implements io.Writer and nothing else.
type onlyWriter struct{ b []byte }

func (w *onlyWriter) Write(p []byte) (int, error) { w.b = append(w.b, p...); return len(p), nil }

func (o encOut) class() string {
	switch {
	case o.Panic != "":
		return "P"
	case o.Err != nil:
		return "E"
	}
	return "O"
}

// kv parses "k=v k=v ..." responses.
func kv(resp string) map[string]string {
	m := map[string]string{}
	for _, w := range strings.Fields(resp) {
		if i := strings.IndexByte(w, '='); i > 0 {
			m[w[:i]] = w[i+1:]
		}
	}
	return m
}

func beFlag(be bool) string {
	if be {
		return "1"
	}
	return "0"
}

func encReplay(c *fileCase, canonBefore string, extra map[string]interface{}) map[string]interface{} {
	r := map[string]interface{}{"entry": "fit.Encode", "big_endian": c.BE, "file": canonBefore}
	for k, v := range extra {
		r[k] = v
	}
	return r
}

// checkC05Case runs one File through the implementation, the spec oracle and
// the model.  It returns the bytes the implementation wrote (nil on error).
func checkC05Case(r *report, d *driver, c *fileCase, idx int) ([]byte, error) {
	f := c.File
	before := canonFile(f)
	out := implEncode(f, c.arch())
	after := canonFile(f)
	realHex := "-"
	if out.class() == "O" {
		realHex = hexOrDash(out.Bytes)
	}
	resp, err := d.ask(fmt.Sprintf("c05 %s %s %s", beFlag(c.BE), before, realHex))
	if err != nil {
		return nil, err
	}
	if strings.HasPrefix(resp, "ERR") {
		return nil, fmt.Errorf("driver: %.300s", resp)
	}
	m := kv(resp)
	nmsgs := strings.Count(before, "[")
	r.count(before+beFlag(c.BE), out.class() == "O" && nmsgs > 1)
	r.hist("impl_" + out.class())
	rep := encReplay(c, before, map[string]interface{}{"impl": out.class(), "model": m["enc"]})

	if m["wf"] != "1" {
		r.corrFail("wf_file", "a File built through the public API is not wf_file for the model", rep)
	}
	// correspondence: verdict
	menc := m["enc"]
	if menc[:1] != out.class() {
		what := fmt.Sprintf("Encode: implementation %s (%v %s), model %s", out.class(), out.Err, out.Panic, menc)
		if out.class() == "P" {
			r.specFail("encode_panic", "Encode panics on a File built through the public API: "+out.Panic, rep)
		}
		r.corrFail("verdict", what, rep)
		return nil, nil
	}
	if out.class() == "P" {
		r.specFail("encode_panic", "Encode panics on a File built through the public API: "+out.Panic, rep)
		return nil, nil
	}
	if out.class() == "E" {
		r.hist("encode_error_" + strings.TrimPrefix(menc, "E:"))
		if after != before {
			r.corrFail("file_after_error", "Encode returned an error and changed the File", rep)
		}
		return nil, nil
	}
	// spec oracle on the real bytes
	if !strings.HasPrefix(m["gram"], "ok") {
		r.specFail("grammar", fmt.Sprintf("the bytes Encode wrote do not parse under the FIT grammar (%s)", m["gram"]),
			encReplay(c, before, map[string]interface{}{"bytes_hex": hexs(out.Bytes), "grammar": m["gram"]}))
	} else if m["wire"] != "ok" {
		r.specFail("wire_values", fmt.Sprintf("values on the wire differ from the values in the File (record %s)", m["wire"]),
			encReplay(c, before, map[string]interface{}{"bytes_hex": hexs(out.Bytes), "wire": m["wire"]}))
	}
	dsize, _ := strconv.Atoi(m["dsize"])
	hcrc, _ := strconv.Atoi(m["hcrc"])
	fcrc, _ := strconv.Atoi(m["fcrc"])
	hsize, _ := strconv.Atoi(m["hsize"])
	if int(f.Header.DataSize) != dsize {
		r.specFail("writeback_datasize", fmt.Sprintf("File.Header.DataSize = %d after Encode, the stream says %d", f.Header.DataSize, dsize), rep)
	}
	if len(out.Bytes) != hsize+dsize+2 {
		r.specFail("datasize", fmt.Sprintf("header data size %d, but %d record bytes follow", dsize, len(out.Bytes)-hsize-2), rep)
	}
	if int(f.CRC) != fcrc {
		r.specFail("writeback_crc", fmt.Sprintf("File.CRC = %d after Encode, the stream ends with %d", f.CRC, fcrc), rep)
	}
	if hsize == 14 && int(f.Header.CRC) != hcrc {
		r.specFail("writeback_hdrcrc", fmt.Sprintf("File.Header.CRC = %d after Encode, the header written carries %d", f.Header.CRC, hcrc), rep)
	}
	// correspondence: bytes and File after the call
	if m["mhex"] != realHex {
		i := firstDiff(m["mhex"], realHex) / 2
		r.corrFail("bytes", fmt.Sprintf("model bytes differ from the bytes Encode wrote at offset %d (model %d bytes, impl %d)", i, len(m["mhex"])/2, len(out.Bytes)),
			encReplay(c, before, map[string]interface{}{"bytes_hex": hexs(out.Bytes), "model_hex": m["mhex"]}))
	}
	if m["mfile"] != after {
		r.corrFail("file_after", "the File after Encode differs from the model's", encReplay(c, before, map[string]interface{}{"after": after, "model_after": m["mfile"]}))
	}
	// a second call writes the same bytes
	out2 := implEncode(f, c.arch())
	if out2.class() != "O" || !bytes.Equal(out2.Bytes, out.Bytes) {
		r.specFail("encode_twice", "a second Encode of the same File wrote different bytes", rep)
	}
	// the bytes Encode writes are what the io.Writer receives: they may depend neither on the dynamic type of the
	// writer nor on what it holds already (a *bytes.Buffer with earlier content -- a frame prefix, a previous file --,
	// a writer that only has Write); the File fields written back must be the same as well
	{
		prefix := []byte{0xA5, 0x00, 0xFF, byte(idx), 0x2E, 0x46, 0x49, 0x54, byte(idx >> 8)}[:1+idx%9]
		pre := bytes.NewBuffer(append([]byte{}, prefix...))
		var plain onlyWriter
		for _, v := range []struct {
			name string
			w    io.Writer
			got  func() []byte
		}{
			{"a *bytes.Buffer that already holds " + fmt.Sprint(len(prefix)) + " bytes", pre, func() []byte {
				if b := pre.Bytes(); len(b) >= len(prefix) && bytes.Equal(b[:len(prefix)], prefix) {
					return b[len(prefix):]
				}
				return nil
			}},
			{"a writer offering nothing but Write", &plain, func() []byte { return plain.b }},
		} {
			var e error
			pan := ""
			func() {
				defer func() {
					if x := recover(); x != nil {
						pan = fmt.Sprint(x)
					}
				}()
				e = fit.Encode(v.w, f, c.arch())
			}()
			if pan != "" || e != nil || !bytes.Equal(v.got(), out.Bytes) || canonFile(f) != after {
				r.specFail("writer_dependent", fmt.Sprintf("Encode into %s: panic=%q err=%v, the bytes received differ from those a fresh bytes.Buffer receives (or the earlier content was touched, or the File written back differs)", v.name, pan, e),
					encReplay(c, before, map[string]interface{}{"writer": v.name, "prefix_hex": hexs(prefix), "fresh_buffer_hex": hexs(out.Bytes), "received_hex": hexs(v.got())}))
			}
			r.hist("writer_kinds_compared")
		}
	}
	r.Traces++
	if idx < 3 {
		r.sample(map[string]interface{}{"file": trunc(before, 400), "big_endian": c.BE, "bytes": len(out.Bytes), "grammar": m["gram"]})
	}
	r.hist("records_" + bucket(atoiAfter(m["gram"], "ok:")))
	return out.Bytes, nil
}

func atoiAfter(s, prefix string) int {
	n, _ := strconv.Atoi(strings.TrimPrefix(s, prefix))
	return n
}

func trunc(s string, n int) string {
	if len(s) > n {
		return s[:n] + "..."
	}
	return s
}

func runC05(args []string) int {
	o := parseRunOpts("c05", args)
	r := newReport("C05", o)
	r.Rule = "Files built through the public API (17 file types x hosted messages x random subsets of set fields x boundary values x arrays/strings " +
		"inside and outside the profile lengths x both byte orders x 12/14-byte headers); per File: real Encode -> extracted grammar recogniser and " +
		"wire comparison on the real bytes, header/CRC write-back, model bytes = real bytes, second Encode identical; non-trivial = Encode succeeded " +
		"and the File holds at least one message besides file_id; distinct by canonical File + byte order"
	d, err := startDriver(o.driver)
	if err != nil {
		fmt.Println("driver:", err)
		return 2
	}
	defer d.close()
	rg := newRng(o.seed)
	n := 3000
	if o.tier == "thorough" {
		n = 300000
	}
	n *= o.boost
	st := genStats{}
	cfgAll := &fileGenCfg{inDomain: false, allowCsd: true, maxPerSlt: 40}
	cfgDom := &fileGenCfg{inDomain: true, allowCsd: false, maxPerSlt: 40}
	// array fields that are prefixes of backing arrays shared between the messages of the File (spare capacity)
	cfgShare := &fileGenCfg{inDomain: true, allowCsd: false, maxPerSlt: 12, shareArr: true}
	for i := 0; i < n; i++ {
		cfg := cfgAll
		if i%3 == 0 {
			cfg = cfgDom
		}
		if i%6 == 1 {
			cfg = cfgShare
		}
		c := genFile(rg, cfg, st)
		if _, err := checkC05Case(r, d, c, i); err != nil {
			fmt.Println("driver:", err)
			return 2
		}
	}
	// FileId.Type changed after NewFile: the container init created is not the
	// one Encode asks for.  Outside wf_file; the model predicts the outcome.
	for i := 0; i < 40*o.boost; i++ {
		c := genFile(rg, cfgDom, st)
		p := profile()
		c.File.FileId.Type = fit.FileType(p.validFts[rg.intn(len(p.validFts))])
		if rg.chance(1, 4) {
			c.File.FileId.Type = fit.FileType(rg.intn(256))
		}
		before := canonFile(c.File)
		out := implEncode(c.File, c.arch())
		resp, err := d.ask(fmt.Sprintf("enc %s %s", beFlag(c.BE), before))
		if err != nil {
			fmt.Println("driver:", err)
			return 2
		}
		r.count("retyped"+before, false)
		r.hist("retyped_" + out.class())
		if resp[:1] != out.class() {
			r.corrFail("verdict_retyped", fmt.Sprintf("FileId.Type changed after NewFile: implementation %s (%v %s), model %.40s", out.class(), out.Err, out.Panic, resp),
				encReplay(c, before, nil))
		}
	}
	for k, v := range st {
		r.Hist["gen_"+k] = v
	}
	r.Extra["fields_set_at_least_once"] = len(fieldHits)
	return r.finish()
}
