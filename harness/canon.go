package main

import (
	"errors"
	"fmt"
	"math"
	"reflect"
	"strconv"
	"strings"
	"time"

	"github.com/tormoder/fit"
)

// Canonical rendering of the implementation's results, identical to what the
// OCaml driver prints for the model (driver/handlers.ml).

func canonVal(b *strings.Builder, v reflect.Value) {
	switch x := v.Interface().(type) {
	case time.Time:
		b.WriteString("t")
		b.WriteString(strconv.FormatInt(x.Unix()-fitEpoch.Unix(), 10))
		b.WriteString(".")
		b.WriteString(strconv.Itoa(x.Nanosecond()))
		b.WriteString(".")
		if x.Location() == time.UTC {
			b.WriteString("u")
		} else {
			_, off := x.Zone()
			b.WriteString(strconv.Itoa(off))
		}
		return
	case fit.Latitude:
		b.WriteString("a")
		b.WriteString(strconv.FormatInt(int64(x.Semicircles()), 10))
		return
	case fit.Longitude:
		b.WriteString("o")
		b.WriteString(strconv.FormatInt(int64(x.Semicircles()), 10))
		return
	}
	switch v.Kind() {
	case reflect.Uint8, reflect.Uint16, reflect.Uint32, reflect.Uint64:
		b.WriteString("u")
		b.WriteString(strconv.FormatUint(v.Uint(), 10))
	case reflect.Int8, reflect.Int16, reflect.Int32, reflect.Int64:
		b.WriteString("i")
		b.WriteString(strconv.FormatInt(v.Int(), 10))
	case reflect.Float32:
		b.WriteString("f")
		b.WriteString(strconv.FormatUint(uint64(math.Float32bits(float32(v.Float()))), 10))
	case reflect.Float64:
		b.WriteString("f")
		b.WriteString(strconv.FormatUint(math.Float64bits(v.Float()), 10))
	case reflect.String:
		b.WriteString("s")
		b.WriteString(hexs([]byte(v.String())))
	case reflect.Slice:
		if v.IsNil() {
			b.WriteString("n")
			return
		}
		b.WriteString("l(")
		for i := 0; i < v.Len(); i++ {
			if i > 0 {
				b.WriteString(",")
			}
			canonVal(b, v.Index(i))
		}
		b.WriteString(")")
	default:
		b.WriteString("x")
	}
}

func canonMsg(b *strings.Builder, m reflect.Value) {
	mn := fit.VerifGetGlobalMesgNum(m.Type())
	b.WriteString(strconv.Itoa(int(mn)))
	b.WriteString("[")
	for i := 0; i < m.NumField(); i++ {
		if i > 0 {
			b.WriteString(";")
		}
		canonVal(b, m.Field(i))
	}
	b.WriteString("]")
}

func canonHeader(h fit.Header) string {
	return fmt.Sprintf("%d,%d,%d,%d,%s,%d", h.Size, h.ProtocolVersion, h.ProfileVersion, h.DataSize, hexOrDash(h.DataType[:]), h.CRC)
}

func canonFile(f *fit.File) string {
	if f == nil {
		return "nil"
	}
	var b strings.Builder
	b.WriteString("H")
	b.WriteString(canonHeader(f.Header))
	b.WriteString(";C")
	b.WriteString(strconv.Itoa(int(f.CRC)))
	b.WriteString(";T")
	cname, slots := fileSlots(f)
	if cname == "" {
		b.WriteString("-")
	} else {
		b.WriteString(cname)
	}
	b.WriteString(";S")
	for i, s := range slots {
		b.WriteString("|")
		b.WriteString(strconv.Itoa(i))
		b.WriteString(":")
		for j, m := range slotMsgs(s) {
			if j > 0 {
				b.WriteString("&")
			}
			canonMsg(&b, m)
		}
	}
	b.WriteString(";UM")
	if f.UnknownMessages == nil {
		b.WriteString("nil")
	} else {
		b.WriteString("(")
		for i, u := range f.UnknownMessages {
			if i > 0 {
				b.WriteString(",")
			}
			fmt.Fprintf(&b, "%d:%d", u.MesgNum, u.Count)
		}
		b.WriteString(")")
	}
	b.WriteString(";UF")
	if f.UnknownFields == nil {
		b.WriteString("nil")
	} else {
		b.WriteString("(")
		for i, u := range f.UnknownFields {
			if i > 0 {
				b.WriteString(",")
			}
			fmt.Fprintf(&b, "%d.%d:%d", u.MesgNum, u.FieldNum, u.Count)
		}
		b.WriteString(")")
	}
	return b.String()
}

// errClass: 0 nil, 1 error, 2 IntegrityError
func errClass(err error) int {
	if err == nil {
		return 0
	}
	var ie fit.IntegrityError
	if errors.As(err, &ie) {
		return 2
	}
	return 1
}
