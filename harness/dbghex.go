package main

import (
	"encoding/hex"
	"fmt"
	"os"
	"strings"
)

// dbghex <file-with-hex> [entry]: one input through implementation and model, first difference.
func init() { register("dbghex", runDbgHex) }

func runDbgHex(args []string) int {
	o := parseRunOpts("dbghex", nil)
	d, err := startDriver(o.driver)
	if err != nil {
		fmt.Println(err)
		return 2
	}
	defer d.close()
	w := newWorld(d)
	raw, _ := os.ReadFile(args[0])
	data, err := hex.DecodeString(strings.TrimSpace(string(raw)))
	if err != nil {
		fmt.Println(err)
		return 2
	}
	entry := "D"
	if len(args) > 1 {
		entry = args[1]
	}
	impl, model, err := w.decode(entry, optSet{}, readerSpec{Data: data})
	if err != nil {
		fmt.Println(err)
		return 2
	}
	a, b := impl.observable(), model.observable()
	if a == b {
		fmt.Println("equal")
		return 0
	}
	i := 0
	for i < len(a) && i < len(b) && a[i] == b[i] {
		i++
	}
	lo := i - 200
	if lo < 0 {
		lo = 0
	}
	fmt.Printf("differ at %d\n impl : %.400s\n model: %.400s\n", i, a[lo:], b[lo:])
	return 1
}
