package main

import (
	"errors"
	"fmt"
	"io"
	"reflect"
	"strconv"
	"strings"
	"sync"
	"time"

	"github.com/tormoder/fit"
)

// Lock-step execution of one decoding call on the implementation and on the
// extracted model, with the model's copy of the package-level accumulator
// state threaded from call to call exactly as the process-wide Go variables
// evolve.

type decOut struct {
	Panic    string      // non-empty: the call panicked (or hung)
	ErrClass int         // 0 nil, 1 error, 2 IntegrityError
	ErrText  string      // implementation: err.Error(); model: error constructor
	ErrChain string      // implementation: dynamic type and text of every error in the Unwrap chain
	Pos      int         // bytes consumed from the reader
	Hdr      string      // canonical header ("-" when not reported)
	Files    []string    // canonical Files ("nil" entries for absent ones)
	G        string      // model only: accumulator state after the call
	Quirks   []int       // model only: quirk tags raised
	Raw      []*fit.File `json:"-"` // implementation only: the Files returned
}

func (o decOut) observable() string {
	if o.Panic != "" {
		return "PANIC"
	}
	return fmt.Sprintf("err=%d pos=%d hdr=%s files=%s", o.ErrClass, o.Pos, o.Hdr, strings.Join(o.Files, " ## "))
}

// errChain renders everything a caller can learn from the error value: dynamic type and text of err and of every
// error errors.Unwrap reaches.
func errChain(err error) string {
	var parts []string
	for e, i := err, 0; e != nil && i < 16; e, i = errors.Unwrap(e), i+1 {
		parts = append(parts, fmt.Sprintf("%T{%s}", e, e.Error()))
	}
	return strings.Join(parts, " <- ")
}

// withError is the observable extended by the error value (text and chain): what C09 compares between a call run
// alone and the same call run beside others.
func (o decOut) withError() string {
	return o.observable() + " errtext=" + o.ErrText + " errchain=" + o.ErrChain
}

type world struct {
	d *driver
	g string // model gstate mirroring the process-wide accumulators
}

func newWorld(d *driver) *world { return &world{d: d, g: "-/-/-"} }

type optSet struct{ Logger, UnkF, UnkM bool }

func (o optSet) String() string {
	b := func(x bool) string {
		if x {
			return "1"
		}
		return "0"
	}
	return b(o.Logger) + b(o.UnkF) + b(o.UnkM)
}

type nullLogger struct{}

func (nullLogger) Print(...interface{})          {}
func (nullLogger) Printf(string, ...interface{}) {}
func (nullLogger) Println(...interface{})        {}

// option VALUES are created once per option set and reused by every call of the (sequential) harness: a
// DecodeOption is configuration, and results must not depend on whether the caller builds it anew for each call
var optionValues = map[optSet][]fit.DecodeOption{}
var optionValuesMu sync.Mutex // the race-enabled C09 binary calls options() from many goroutines

func (o optSet) options() []fit.DecodeOption {
	optionValuesMu.Lock()
	defer optionValuesMu.Unlock()
	if v, ok := optionValues[o]; ok {
		return v
	}
	v := o.freshOptions()
	optionValues[o] = v
	return v
}

func (o optSet) freshOptions() []fit.DecodeOption {
	var out []fit.DecodeOption
	if o.Logger {
		out = append(out, fit.WithLogger(nullLogger{}))
	}
	if o.UnkF {
		out = append(out, fit.WithUnknownFields())
	}
	if o.UnkM {
		out = append(out, fit.WithUnknownMessages())
	}
	return out
}

const implDeadline = 20 * time.Second

// implDecode runs one entry point of the real library.
func implDecode(entry string, o optSet, rs readerSpec) (out decOut) {
	done := make(chan decOut, 1)
	go func() {
		var res decOut
		defer func() {
			if r := recover(); r != nil {
				res = decOut{Panic: fmt.Sprint(r)}
			}
			done <- res
		}()
		sr := rs.reader()
		var rd io.Reader = sr
		// the library may look at what ELSE the reader can do (io.ByteReader, Len, ...): with an unconstrained
		// schedule, a clean EOF and no fault the scheduled reader behaves like a bytes.Reader; every other such
		// call gets a reader that also offers the optional interfaces of one
		rich := len(rs.Sched) == 0 && !rs.Fault && !rs.Ewd && (len(rs.Data)+richReaderSalt)%2 == 0
		if rich {
			rd = &richReader{sr}
		}
		switch entry {
		case "D":
			f, err := fit.Decode(rd, o.options()...)
			res.ErrClass = errClass(err)
			res.Files = []string{canonFile(f)}
			res.Raw = []*fit.File{f}
			res.Hdr = "-"
			if err != nil {
				res.ErrText, res.ErrChain = err.Error(), errChain(err)
			}
		case "C":
			fs, err := fit.DecodeChained(rd, o.options()...)
			res.ErrClass = errClass(err)
			for _, f := range fs {
				res.Files = append(res.Files, canonFile(f))
			}
			res.Raw = fs
			res.Hdr = "-"
			if err != nil {
				res.ErrText, res.ErrChain = err.Error(), errChain(err)
			}
		case "I", "J":
			err := fit.CheckIntegrity(rd, entry == "J")
			res.ErrClass = errClass(err)
			res.Hdr = "-"
			if err != nil {
				res.ErrText, res.ErrChain = err.Error(), errChain(err)
			}
		case "H":
			h, err := fit.DecodeHeader(rd)
			res.ErrClass = errClass(err)
			res.Hdr = "-"
			if err == nil {
				res.Hdr = canonHeader(h)
			} else {
				res.ErrText, res.ErrChain = err.Error(), errChain(err)
				if !reflect.DeepEqual(h, fit.Header{}) {
					res.Hdr = "nonzero-header-with-error"
				}
			}
		case "F":
			h, fid, err := fit.DecodeHeaderAndFileID(rd)
			res.ErrClass = errClass(err)
			res.Hdr = "-"
			if err == nil {
				res.Hdr = canonHeader(h)
				tmp := &fit.File{Header: h, FileId: fid}
				res.Files = []string{canonFile(tmp)}
			} else {
				res.ErrText, res.ErrChain = err.Error(), errChain(err)
			}
		}
		res.Pos = sr.pos
	}()
	select {
	case r := <-done:
		return r
	case <-time.After(implDeadline):
		return decOut{Panic: "HANG: no return within " + implDeadline.String()}
	}
}

// parseModel parses the driver's response to a decode request and projects it
// on the observables of the given entry point.
func parseModel(entry string, resp string) (decOut, error) {
	var o decOut
	if strings.HasPrefix(resp, "P ") {
		o.Panic = "model panic " + resp[2:]
		return o, nil
	}
	if resp == "X" {
		o.Panic = "model out of fuel"
		return o, nil
	}
	if !strings.HasPrefix(resp, "R ") {
		return o, fmt.Errorf("bad model response: %.200s", resp)
	}
	rest := resp[2:]
	// fields up to the first " file=" are space separated key=value
	head := rest
	var files []string
	if i := strings.Index(rest, " file="); i >= 0 {
		head = rest[:i]
		for _, f := range strings.Split(rest[i+1:], " file=") {
			files = append(files, strings.TrimPrefix(f, "file="))
		}
	}
	hdr := "-"
	for _, kv := range strings.Fields(head) {
		switch {
		case strings.HasPrefix(kv, "err="):
			v := kv[4:]
			o.ErrClass, _ = strconv.Atoi(v[:1])
			if len(v) > 2 {
				o.ErrText = v[2:]
			}
		case strings.HasPrefix(kv, "pos="):
			o.Pos, _ = strconv.Atoi(kv[4:])
		case strings.HasPrefix(kv, "hdr="):
			hdr = kv[4:]
		case strings.HasPrefix(kv, "g="):
			o.G = kv[2:]
		case strings.HasPrefix(kv, "q="):
			for _, q := range strings.Split(kv[2:], ",") {
				if q != "" {
					n, _ := strconv.Atoi(q)
					o.Quirks = append(o.Quirks, n)
				}
			}
		}
	}
	o.Hdr = "-"
	switch entry {
	case "D":
		if len(files) == 0 {
			files = []string{"nil"}
		}
		o.Files = files
	case "C":
		o.Files = files
	case "I", "J":
	case "H":
		if o.ErrClass == 0 {
			o.Hdr = hdr
		}
	case "F":
		if o.ErrClass == 0 {
			o.Hdr = hdr
			o.Files = files
		}
	}
	return o, nil
}

// decode runs implementation and model in lock step.
func (w *world) decode(entry string, o optSet, rs readerSpec) (impl, model decOut, err error) {
	impl = implDecode(entry, o, rs)
	req := fmt.Sprintf("decode %s %s %s %s", entry, o.String(), rs.driverArgs(), w.g)
	resp, err := w.d.ask(req)
	if err != nil {
		return impl, model, err
	}
	model, err = parseModel(entry, resp)
	if err != nil {
		return impl, model, err
	}
	if model.G != "" {
		w.g = model.G
	}
	return impl, model, nil
}

// decodeModelOnly advances the model (and its accumulator mirror) for an
// implementation call made outside world.decode.
func (w *world) decodeModelOnly(entry string, o optSet, rs readerSpec) (decOut, decOut, error) {
	req := fmt.Sprintf("decode %s %s %s %s", entry, o.String(), rs.driverArgs(), w.g)
	resp, err := w.d.ask(req)
	if err != nil {
		return decOut{}, decOut{}, err
	}
	model, err := parseModel(entry, resp)
	if err == nil && model.G != "" {
		w.g = model.G
	}
	return decOut{}, model, err
}

// maskAccumText rewrites a canonical File text so that the Distance of every
// record message that carries a valid compressed_speed_distance reads u0.
// That value continues a process-wide running sum (known findings
// accum_history / accum_per_process, judged by C08 and C18): checks whose
// property does not concern accumulated values compare modulo it, so that an
// implementation-only call made in between (which moves the library's
// accumulators but not the model's mirror) cannot raise a false alarm.
func maskAccumText(canon string) string { return maskAccumTextX(canon, false) }

// maskAccumTextX: with alsoSpeed the fields derived from the compressed speed one expansion pass late
// (EnhancedSpeed; recorded with the same finding for C07) are masked too.
func maskAccumTextX(canon string, alsoSpeed bool) string {
	return maskAccumTextL(canon, alsoSpeed, false)
}

// hasShortCsd: some record message carries a compressed_speed_distance array of fewer than 3 bytes.
func hasShortCsd(canon string) bool {
	return maskAccumTextL(canon, true, true) != maskAccumTextL(canon, true, false)
}

// maskAccumTextL: with shortCsd, records whose compressed_speed_distance array has fewer than 3 bytes also get
// Speed masked (re-encoding pads the array to 3 bytes with 0xFF, which expandComponents then takes for a valid
// source: known finding csd_array_length).
func maskAccumTextL(canon string, alsoSpeed, shortCsd bool) string {
	rt := reflect.TypeOf(fit.RecordMsg{})
	di, ci, ei, si := -1, -1, -1, -1
	for i := 0; i < rt.NumField(); i++ {
		switch rt.Field(i).Name {
		case "Distance":
			di = i
		case "CompressedSpeedDistance":
			ci = i
		case "EnhancedSpeed":
			ei = i
		case "Speed":
			si = i
		}
	}
	tag := strconv.Itoa(int(fit.MesgNumRecord)) + "["
	if di < 0 || ci < 0 || !strings.Contains(canon, tag) {
		return canon
	}
	var out strings.Builder
	rest := canon
	for {
		k := strings.Index(rest, tag)
		// a record message starts after ':' or '&' (slot separator / message separator)
		for k > 0 && rest[k-1] != ':' && rest[k-1] != '&' {
			n := strings.Index(rest[k+1:], tag)
			if n < 0 {
				k = -1
				break
			}
			k += 1 + n
		}
		if k < 0 {
			out.WriteString(rest)
			break
		}
		end := strings.IndexByte(rest[k:], ']')
		if end < 0 {
			out.WriteString(rest)
			break
		}
		body := rest[k+len(tag) : k+end]
		fs := strings.Split(body, ";")
		if len(fs) == rt.NumField() && fs[ci] != "n" && fs[ci] != "l(u255,u255,u255)" {
			fs[di] = "u0"
			if alsoSpeed && ei >= 0 {
				fs[ei] = "u0"
			}
			if shortCsd && si >= 0 && strings.Count(fs[ci], ",") != 2 {
				fs[si], fs[ci] = "u0", "n"
				if ei >= 0 {
					fs[ei] = "u0"
				}
			}
		}
		out.WriteString(rest[:k+len(tag)])
		out.WriteString(strings.Join(fs, ";"))
		rest = rest[k+end:]
	}
	return out.String()
}

// observableMasked is observable() modulo the accumulated record Distance.
func (o decOut) observableMasked() string {
	if o.Panic != "" {
		return "PANIC"
	}
	fs := make([]string, len(o.Files))
	for i, f := range o.Files {
		fs[i] = maskAccumText(f)
	}
	return fmt.Sprintf("err=%d pos=%d hdr=%s files=%s", o.ErrClass, o.Pos, o.Hdr, strings.Join(fs, " ## "))
}

// richReader offers, besides Read, the optional interfaces of bytes.Reader
// that a library could test for: io.ByteReader/io.ByteScanner and Len.
type richReader struct{ *schedReader }

var richReaderSalt = 0

func (r *richReader) Len() int { return len(r.data) }
func (r *richReader) ReadByte() (byte, error) {
	var b [1]byte
	n, err := r.schedReader.Read(b[:])
	if n == 1 {
		return b[0], nil
	}
	return 0, err
}
