package main

import (
	"fmt"
	"reflect"
	"strconv"
	"strings"

	"github.com/tormoder/fit"
)

// C18: component expansion and accumulation.
// (1) the real expandComponents (hook) on messages of the expanding types with
//     boundary and random source patterns, against the extracted model
//     (correspondence, accumulator state threaded) and against the property's
//     spec (oracle on the implementation);
// (2) activity/course/segment streams of component-bearing records through the
//     real Decode, several files one after another in this process, with the
//     accumulated destinations checked against the per-file running sums the
//     property prescribes.
// Deviations that the faithful model reproduces and that are listed in
// KNOWN_FINDINGS.txt are printed as KNOWN-FINDING; anything else is a violation.

func init() { register("c18", runC18) }

func msgString(v reflect.Value) string {
	var sb strings.Builder
	canonMsg(&sb, v)
	return sb.String()
}

func setU(v reflect.Value, name string, x uint64) {
	f := v.FieldByName(name)
	if f.IsValid() {
		f.SetUint(x)
	}
}

func getU(v reflect.Value, name string) uint64 { return v.FieldByName(name).Uint() }

func pattern16(rg *rng) uint64 {
	switch rg.intn(8) {
	case 0:
		return 0xFFFF
	case 1:
		return 0
	case 2:
		return 0xFFFE
	case 3:
		return 0x8000
	case 4:
		return 0x7FFF
	default:
		return uint64(rg.intn(65536))
	}
}

func runC18(args []string) int {
	o := parseRunOpts("c18", args)
	r := newReport("C18", o)
	r.Rule = "messages: real expandComponents on session/lap/record/event/segment_lap/segment_point messages with boundary and random source bit patterns (model + spec); " +
		"files: streams of records carrying compressed_speed_distance/cycles/compressed_accumulated_power decoded one after another in one process, accumulated destinations against per-file running sums; " +
		"non-trivial = at least one component source valid; distinct by message content / stream bytes"
	d, err := startDriver(o.driver)
	if err != nil {
		fmt.Println("driver:", err)
		return 2
	}
	defer d.close()
	w := newWorld(d)
	rg := newRng(o.seed)

	nmsg := 6000
	nfiles := 150
	if o.tier == "thorough" {
		nmsg, nfiles = 400000, 8000
	}
	nmsg *= o.boost
	nfiles *= o.boost

	type pair struct{ src, dst string }
	enh := map[int][]pair{
		int(fit.MesgNumSession):      {{"AvgSpeed", "EnhancedAvgSpeed"}, {"MaxSpeed", "EnhancedMaxSpeed"}, {"AvgAltitude", "EnhancedAvgAltitude"}, {"MaxAltitude", "EnhancedMaxAltitude"}, {"MinAltitude", "EnhancedMinAltitude"}},
		int(fit.MesgNumLap):          {{"AvgSpeed", "EnhancedAvgSpeed"}, {"MaxSpeed", "EnhancedMaxSpeed"}, {"AvgAltitude", "EnhancedAvgAltitude"}, {"MaxAltitude", "EnhancedMaxAltitude"}, {"MinAltitude", "EnhancedMinAltitude"}},
		int(fit.MesgNumSegmentLap):   {{"AvgAltitude", "EnhancedAvgAltitude"}, {"MaxAltitude", "EnhancedMaxAltitude"}, {"MinAltitude", "EnhancedMinAltitude"}},
		int(fit.MesgNumRecord):       {{"Altitude", "EnhancedAltitude"}, {"Speed", "EnhancedSpeed"}},
		int(fit.MesgNumSegmentPoint): {{"Altitude", "EnhancedAltitude"}},
	}
	kinds := []int{int(fit.MesgNumSession), int(fit.MesgNumLap), int(fit.MesgNumSegmentLap), int(fit.MesgNumRecord), int(fit.MesgNumSegmentPoint), int(fit.MesgNumEvent)}

	// ---------------- (1) direct expansion
	for i := 0; i < nmsg; i++ {
		mn := kinds[rg.intn(len(kinds))]
		pv, _ := fit.VerifNewMesg(mn)
		v := pv.Elem()
		nontrivial := false
		for _, p := range enh[mn] {
			x := pattern16(rg)
			setU(v, p.src, x)
			if x != 0xFFFF {
				nontrivial = true
			}
			if rg.chance(1, 3) {
				setU(v, p.dst, uint64(rg.intn(1<<20))) // destination already holds something
			}
		}
		var csd []byte
		if mn == int(fit.MesgNumRecord) {
			switch rg.intn(6) {
			case 0:
				csd = []byte{0xFF, 0xFF, 0xFF}
			case 1:
				csd = rg.bytes(rg.intn(5)) // wrong length
			case 2:
				csd = nil
			default:
				csd = rg.bytes(3)
				if rg.chance(1, 2) {
					csd[2] &= 0x0F // distance below 2^8: inside the side condition of csd_distance_partial
				}
				nontrivial = true
			}
			if csd != nil {
				v.FieldByName("CompressedSpeedDistance").SetBytes(csd)
			}
			if rg.chance(1, 2) {
				setU(v, "Cycles", uint64(rg.intn(256)))
			}
			if rg.chance(1, 2) {
				setU(v, "CompressedAccumulatedPower", pattern16(rg))
			}
		}
		if mn == int(fit.MesgNumEvent) {
			ev := []uint64{uint64(fit.EventSportPoint), uint64(fit.EventFrontGearChange), uint64(fit.EventRearGearChange), uint64(rg.intn(256)), 0xFF}[rg.intn(5)]
			setU(v, "Event", ev)
			setU(v, "Data16", pattern16(rg))
			switch rg.intn(4) {
			case 0:
				setU(v, "Data", 0xFFFFFFFF)
			case 1:
				setU(v, "Data", uint64(rg.u64()&0xFFFFFFFF))
				nontrivial = true
			}
		}
		before := reflect.New(v.Type()).Elem()
		before.Set(v)
		beforeS := msgString(before)
		// model first (state before the call), then the implementation
		resp, err := d.ask("expand " + w.g + " " + beforeS)
		if err != nil {
			fmt.Println("driver:", err)
			return 2
		}
		ok := fit.VerifExpandComponents(pv.Interface())
		afterS := msgString(v)
		rep := map[string]interface{}{"entry": "expandComponents", "mesgnum": mn, "message_before": beforeS, "model_accumulators_before": w.g}
		r.count(beforeS, nontrivial)
		r.hist(fmt.Sprintf("expand_msg_%d", mn))
		if !ok || resp == "none" {
			r.corrFail("expand_missing", fmt.Sprintf("message %d: expandComponents present=%v, model=%s", mn, ok, resp), rep)
			continue
		}
		sp := strings.SplitN(resp, " ", 2)
		modelAfter := sp[1]
		gBefore := w.g
		w.g = sp[0]
		if modelAfter != afterS {
			r.corrFail("expand", fmt.Sprintf("message %d: model and implementation differ after expandComponents\n    before: %s\n    impl  : %s\n    model : %s", mn, beforeS, afterS, modelAfter), rep)
		}
		// spec oracle on the implementation
		for _, p := range enh[mn] {
			src, dst0, dst1 := getU(before, p.src), getU(before, p.dst), getU(v, p.dst)
			want := dst0
			if src != 0xFFFF {
				want = src
			}
			if mn == int(fit.MesgNumRecord) && p.src == "Speed" {
				// x.Speed itself may be rewritten from compressed_speed_distance afterwards; the enhanced field follows the field as decoded
			}
			if dst1 != want {
				r.specFail("enhanced", fmt.Sprintf("message %d: %s=%#x, %s was %#x and is %#x after expansion, expected %#x", mn, p.src, src, p.dst, dst0, dst1, want), rep)
			}
		}
		if mn == int(fit.MesgNumEvent) {
			d16, data0 := getU(before, "Data16"), getU(before, "Data")
			data := data0
			if d16 != 0xFFFF {
				data = d16
			}
			if getU(v, "Data") != data {
				r.specFail("event_data16", fmt.Sprintf("event: data16=%#x data=%#x -> data=%#x, expected %#x", d16, data0, getU(v, "Data"), data), rep)
			}
			ev := getU(before, "Event")
			type ex struct {
				name string
				want uint64
			}
			var exps []ex
			if data != 0xFFFFFFFF && ev == uint64(fit.EventSportPoint) {
				exps = []ex{{"Score", data & 0xFFFF}, {"OpponentScore", (data >> 16) & 0xFFFF}}
			} else if data != 0xFFFFFFFF && (ev == uint64(fit.EventFrontGearChange) || ev == uint64(fit.EventRearGearChange)) {
				exps = []ex{{"RearGearNum", data & 0xFF}, {"RearGear", (data >> 8) & 0xFF}, {"FrontGearNum", (data >> 16) & 0xFF}, {"FrontGear", (data >> 24) & 0xFF}}
			}
			touched := map[string]bool{"Data": true}
			for _, e := range exps {
				touched[e.name] = true
				if getU(v, e.name) != e.want {
					r.specFail("event_slices", fmt.Sprintf("event %d data %#x: %s=%#x, expected %#x", ev, data, e.name, getU(v, e.name), e.want), rep)
				}
			}
			for _, n := range []string{"Score", "OpponentScore", "RearGearNum", "RearGear", "FrontGearNum", "FrontGear"} {
				if !touched[n] && getU(v, n) != getU(before, n) {
					r.specFail("event_untouched", fmt.Sprintf("event %d: %s changed although its source is invalid or the event kind does not define it", ev, n), rep)
				}
			}
		}
		if mn == int(fit.MesgNumRecord) {
			valid := len(csd) == 3 && !(csd[0] == 0xFF && csd[1] == 0xFF && csd[2] == 0xFF)
			if valid {
				sc, _ := d.ask(fmt.Sprintf("spec_csd %d %d %d", csd[0], csd[1], csd[2]))
				f := strings.Fields(sc)
				wantSpeed, _ := strconv.Atoi(f[0])
				if int(getU(v, "Speed")) != wantSpeed {
					r.specFail("csd_speed", fmt.Sprintf("record: compressed_speed_distance %x gives speed %d, expected %d", csd, getU(v, "Speed"), wantSpeed), rep)
				}
			} else if getU(v, "Speed") != getU(before, "Speed") || getU(v, "Distance") != getU(before, "Distance") {
				r.specFail("csd_invalid_untouched", fmt.Sprintf("record: invalid compressed_speed_distance %x changed speed/distance", csd), rep)
			}
			if getU(before, "Cycles") == 0xFF && getU(v, "TotalCycles") != getU(before, "TotalCycles") {
				r.specFail("cycles_invalid_untouched", "record: invalid cycles changed total_cycles", rep)
			}
			if getU(before, "CompressedAccumulatedPower") == 0xFFFF && getU(v, "AccumulatedPower") != getU(before, "AccumulatedPower") {
				r.specFail("power_invalid_untouched", "record: invalid compressed_accumulated_power changed accumulated_power", rep)
			}
		}
		_ = gBefore
		if i < 3 {
			r.sample(map[string]interface{}{"kind": "expand", "before": beforeS, "after": afterS})
		}
	}

	// ---------------- (2) files decoded one after another
	fileTypes := []byte{4, 6} // activity, course: both hold records
	for k := 0; k < nfiles; k++ {
		ft := fileTypes[rg.intn(len(fileTypes))]
		be := rg.bool()
		arch := byte(0)
		if be {
			arch = 1
		}
		s := &stream{HdrSize: 14, Proto: 0x20, Profile: 2115, HdrCRC: "ok"}
		s.Records = append(s.Records,
			record{Kind: "D", Local: 0, Gmn: 0, Fields: []fieldDefS{{0, 1, 0}}},
			record{Kind: "M", Local: 0, Pay: []byte{ft}})
		// record: compressed_speed_distance(8, byte[3]), cycles(18, uint8), compressed_accumulated_power(28, uint16)
		useCsd, useCyc, usePow := rg.chance(2, 3), rg.chance(1, 2), rg.chance(1, 2)
		if !useCsd && !useCyc && !usePow {
			useCsd = true
		}
		def := record{Kind: "D", Local: 1, Arch: arch, Gmn: uint16(fit.MesgNumRecord)}
		if useCsd {
			def.Fields = append(def.Fields, fieldDefS{8, 3, 0x0D})
		}
		if useCyc {
			def.Fields = append(def.Fields, fieldDefS{18, 1, 0x02})
		}
		if usePow {
			def.Fields = append(def.Fields, fieldDefS{28, 2, 0x84})
		}
		s.Records = append(s.Records, def)
		n := 1 + rg.intn(12)
		type src struct {
			csd        []byte
			cyc, power int // -1 invalid
		}
		var srcs []src
		dist := rg.intn(4096)
		smallDist := rg.chance(1, 2) // keep raw distances below 256 (b2 < 16)
		if smallDist {
			dist = rg.intn(256)
		}
		cyc, pow := rg.intn(256), rg.intn(65536)
		for i := 0; i < n; i++ {
			var pay []byte
			x := src{cyc: -1, power: -1}
			if useCsd {
				if rg.chance(1, 8) {
					x.csd = []byte{0xFF, 0xFF, 0xFF}
				} else {
					step := rg.intn(300)
					if smallDist {
						dist = (dist + rg.intn(40)) % 256 // rollover inside the low byte is not a 12-bit rollover: keep increasing mostly
					} else {
						dist = (dist + step) % 4096
					}
					sp := rg.intn(4096)
					x.csd = []byte{byte(sp), byte(sp>>8) | byte(dist&0xF)<<4, byte(dist >> 4)}
				}
				pay = append(pay, x.csd...)
			}
			if useCyc {
				if rg.chance(1, 8) {
					pay = append(pay, 0xFF)
				} else {
					cyc = (cyc + rg.intn(60)) % 256
					if cyc == 255 {
						cyc = 0
					}
					x.cyc = cyc
					pay = append(pay, byte(cyc))
				}
			}
			if usePow {
				if rg.chance(1, 8) {
					pay = append(pay, 0xFF, 0xFF)
				} else {
					pow = (pow + rg.intn(20000)) % 65535
					x.power = pow
					if be {
						pay = append(pay, byte(pow>>8), byte(pow))
					} else {
						pay = append(pay, byte(pow), byte(pow>>8))
					}
				}
			}
			srcs = append(srcs, x)
			s.Records = append(s.Records, record{Kind: "M", Local: 1, Pay: pay})
		}
		s.fillHex()
		rs := readerSpec{Data: s.bytes()}
		gBefore := w.g
		impl, model, err := w.decode("D", optSet{}, rs)
		if err != nil {
			fmt.Println("driver:", err)
			return 2
		}
		r.Traces++
		rep := map[string]interface{}{"entry": "Decode", "stream": s, "input_hex": hexs(rs.Data), "files_decoded_before_in_process": k, "model_accumulators_before": gBefore}
		modelAgrees := impl.observable() == model.observable()
		if !modelAgrees {
			r.corrFail("decode_components", fmt.Sprintf("model and implementation differ on a component stream\n    impl : %.400s\n    model: %.400s", impl.observable(), model.observable()), rep)
		}
		r.count(hexs(rs.Data), true)
		r.hist(fmt.Sprintf("file_csd%v_cyc%v_pow%v", useCsd, useCyc, usePow))
		// spec: per-file running sums
		f, derr := fit.Decode(rs.reader())
		w.decodeModelOnly("D", optSet{}, rs)
		if derr != nil {
			r.specFail("decode_error", "decode of a well-formed component stream fails: "+derr.Error(), rep)
			continue
		}
		var recs []*fit.RecordMsg
		if a, e := f.Activity(); e == nil {
			recs = a.Records
		} else if c, e := f.Course(); e == nil {
			recs = c.Records
		}
		if len(recs) != n {
			r.specFail("record_count", fmt.Sprintf("%d records decoded, %d sent", len(recs), n), rep)
			continue
		}
		var raws, cycs, pows []string
		for _, x := range srcs {
			if len(x.csd) == 3 && !(x.csd[0] == 0xFF && x.csd[1] == 0xFF && x.csd[2] == 0xFF) {
				sc, _ := d.ask(fmt.Sprintf("spec_csd %d %d %d", x.csd[0], x.csd[1], x.csd[2]))
				raws = append(raws, strings.Fields(sc)[1])
			}
			if x.cyc >= 0 {
				cycs = append(cycs, strconv.Itoa(x.cyc))
			}
			if x.power >= 0 {
				pows = append(pows, strconv.Itoa(x.power))
			}
		}
		specList := func(bits int, vals []string) []uint32 {
			if len(vals) == 0 {
				return nil
			}
			resp, _ := d.ask(fmt.Sprintf("spec_acc %d %s", bits, strings.Join(vals, ",")))
			var out []uint32
			for _, x := range strings.Split(resp, ",") {
				n, _ := strconv.ParseUint(x, 10, 32)
				out = append(out, uint32(n))
			}
			return out
		}
		wantD, wantC, wantP := specList(12, raws), specList(8, cycs), specList(16, pows)
		di, ci, pi := 0, 0, 0
		highNibble := false
		for _, x := range srcs {
			if len(x.csd) == 3 && x.csd[2] >= 16 && x.csd[2] != 0xFF {
				highNibble = true
			}
		}
		for i, x := range srcs {
			if len(x.csd) == 3 && !(x.csd[0] == 0xFF && x.csd[1] == 0xFF && x.csd[2] == 0xFF) {
				if recs[i].Distance != wantD[di] {
					tag := "distance"
					if modelAgrees {
						switch {
						case highNibble:
							tag = "csd_high_nibble"
						case gBefore != "-/-/-" && !strings.HasPrefix(gBefore, "-/"):
							tag = "accum_per_process"
						}
					}
					r.specFail(tag, fmt.Sprintf("record %d of file %d in this process: distance %d, the running sum of rollover-corrected 12-bit deltas since the start of the file is %d", i, k+1, recs[i].Distance, wantD[di]), rep)
					di = len(wantD) // one report per file
					break
				}
				di++
			}
		}
		for i, x := range srcs {
			if x.cyc >= 0 {
				if recs[i].TotalCycles != wantC[ci] {
					tag := "total_cycles"
					if modelAgrees {
						tag = "accum_mask0"
					}
					r.specFail(tag, fmt.Sprintf("record %d: total_cycles %d, running sum of 8-bit deltas is %d", i, recs[i].TotalCycles, wantC[ci]), rep)
					break
				}
				ci++
			}
		}
		for i, x := range srcs {
			if x.power >= 0 {
				if recs[i].AccumulatedPower != wantP[pi] {
					tag := "accumulated_power"
					if modelAgrees {
						tag = "accum_mask0"
					}
					r.specFail(tag, fmt.Sprintf("record %d: accumulated_power %d, running sum of 16-bit deltas is %d", i, recs[i].AccumulatedPower, wantP[pi]), rep)
					break
				}
				pi++
			}
		}
		if k < 2 {
			r.sample(map[string]interface{}{"kind": "file", "stream": s.specArgs(), "distances": func() []uint32 {
				var o []uint32
				for _, x := range recs {
					o = append(o, x.Distance)
				}
				return o
			}()})
		}
	}
	// ---------------- (3) every container that holds a component-bearing message type stores it EXPANDED
	// (the real expandComponents, judged against the spec in part 1, is the reference here)
	for _, ft := range profile().validFts {
		f0, err := fitNewFile(ft)
		if err != nil {
			continue
		}
		_, slots0 := fileSlots(f0)
		for _, sl := range slots0 {
			if sl.msg < 0 {
				continue
			}
			probe, ok := newFilled(sl.msg, 5)
			if !ok {
				continue
			}
			if _, has := expandedCopy(probe); !has {
				continue
			}
			// the property names record, lap, session, segment_lap and event; segment_point also has an
			// expandComponents method that SegmentFile.add never calls -- outside the property, noted in DESIGN.md
			switch fit.MesgNum(sl.msg) {
			case fit.MesgNumRecord, fit.MesgNumLap, fit.MesgNumSession, fit.MesgNumSegmentLap, fit.MesgNumEvent:
			default:
				r.hist("container_expansion_not_in_property_msg_" + strconv.Itoa(sl.msg))
				continue
			}
			for k := 0; k < 6; k++ {
				m, _ := newFilled(sl.msg, rg.intn(1<<16))
				f, _ := fitNewFile(ft)
				addCopy(f, m)
				_, slots := fileSlots(f)
				var stored []reflect.Value
				for _, s2 := range slots {
					if s2.name == sl.name {
						stored = slotMsgs(s2)
					}
				}
				rep := map[string]interface{}{"entry": "File.add", "filetype": ft, "mesgnum": sl.msg, "slot": sl.name, "message": markerOfMsg(m)}
				r.count(fmt.Sprintf("container|%d|%d|%d", ft, sl.msg, k), true)
				r.hist("container_expansion_probes")
				if len(stored) != 1 {
					r.specFail("container_store", fmt.Sprintf("file type %d: a message of type %d added to an empty file is not in slot %s", ft, sl.msg, sl.name), rep)
					continue
				}
				ok, exp, det := msgEq(stored[0], m)
				if !ok {
					r.specFail("container_expand", fmt.Sprintf("file type %d slot %s: the stored message is neither the message added nor its expansion", ft, sl.name), rep)
				} else if det && !exp {
					r.specFail("container_no_expand", fmt.Sprintf("file type %d slot %s: the message (type %d) is stored without its components expanded: %s", ft, sl.name, sl.msg, markerOfMsg(stored[0])), rep)
				}
			}
		}
	}
	return r.finish()
}

func markerOfMsg(v reflect.Value) string {
	var sb strings.Builder
	canonMsg(&sb, v)
	return sb.String()
}
