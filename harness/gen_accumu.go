package main

import (
	"fmt"
	"go/ast"
	"go/constant"
	"go/importer"
	"go/parser"
	"go/token"
	"go/types"
	"path/filepath"
	"strings"
)

// genAccumu TRANSLATES accumu.go into Gallina (Gen/AccumuFuncs.v): the struct
// of uint32 fields becomes a record over N, a constructor function returning
// &T{...} becomes a function to the record, a pointer-receiver method becomes a
// state transformer (result, new state).  uint32 arithmetic is written out:
// + and << reduce mod 2^32, x - y is (x + 2^32 - y) mod 2^32, & | are
// N.land / N.lor.  Proofs/C18Accumu.v proves the translation equal to the
// hand-written accumulator of Model/Components.v, the one the C18 theorems
// (accumulate_spec, stream_distance, ...) are about.
//
// Fragment (anything else is an error, i.e. a broken tie): one struct type whose
// fields are all uint32; functions `func f(params) *T { return &T{k: e, ...} }`;
// methods `func (a *T) m(params uint32...) uint32` whose body is a sequence of
// `a.f = e`, `a.f op= e` (op in + - & |) and a final `return e`; expressions over
// parameters, a.f, constants, + - & | << and parentheses; a shift count may be a
// parameter of type uint.

func init() { extraGens = append(extraGens, genAccumu) }

type accTr struct {
	info   *types.Info
	recv   string            // receiver name inside a method ("" in functions)
	state  map[string]string // field -> current Gallina variable
	fields []string
}

func isU32(t types.Type) bool {
	b, ok := t.Underlying().(*types.Basic)
	return ok && b.Kind() == types.Uint32
}

func (t *accTr) expr(e ast.Expr) (string, error) {
	if tv, ok := t.info.Types[e]; ok && tv.Value != nil {
		v := constant.ToInt(tv.Value)
		if v.Kind() != constant.Int || constant.Sign(v) < 0 {
			return "", fmt.Errorf("constant %s is outside the translated fragment", tv.Value)
		}
		return v.ExactString(), nil
	}
	switch x := e.(type) {
	case *ast.ParenExpr:
		return t.expr(x.X)
	case *ast.Ident:
		if obj, ok := t.info.Uses[x].(*types.Var); ok && !obj.IsField() {
			b, _ := obj.Type().Underlying().(*types.Basic)
			if b == nil || (b.Kind() != types.Uint32 && b.Kind() != types.Uint) {
				return "", fmt.Errorf("variable %s of type %s is outside the translated fragment", x.Name, obj.Type())
			}
			return "v_" + x.Name, nil
		}
		return "", fmt.Errorf("identifier %s is outside the translated fragment", x.Name)
	case *ast.SelectorExpr:
		if id, ok := x.X.(*ast.Ident); ok && id.Name == t.recv && t.recv != "" {
			if cur, ok := t.state[x.Sel.Name]; ok {
				return cur, nil
			}
		}
		return "", fmt.Errorf("selector %s is outside the translated fragment", x.Sel.Name)
	case *ast.BinaryExpr:
		if !isU32(t.info.Types[x].Type) {
			return "", fmt.Errorf("operator %s at type %s is outside the translated fragment", x.Op, t.info.Types[x].Type)
		}
		a, err := t.expr(x.X)
		if err != nil {
			return "", err
		}
		b, err := t.expr(x.Y)
		if err != nil {
			return "", err
		}
		switch x.Op {
		case token.ADD:
			return "(u32_add " + a + " " + b + ")", nil
		case token.SUB:
			return "(u32_sub " + a + " " + b + ")", nil
		case token.AND:
			return "(N.land " + a + " " + b + ")", nil
		case token.OR:
			return "(N.lor " + a + " " + b + ")", nil
		case token.SHL:
			return "(u32_shl " + a + " " + b + ")", nil
		}
		return "", fmt.Errorf("uint32 operator %s is outside the translated fragment", x.Op)
	}
	return "", fmt.Errorf("expression %T is outside the translated fragment", e)
}

func genAccumu() (*coqFile, error) {
	fset := token.NewFileSet()
	f, err := parser.ParseFile(fset, filepath.Join(repoRoot, "accumu.go"), nil, 0)
	if err != nil {
		return nil, err
	}
	info := &types.Info{Types: map[ast.Expr]types.TypeAndValue{}, Uses: map[*ast.Ident]types.Object{}, Defs: map[*ast.Ident]types.Object{}}
	conf := types.Config{Importer: importer.ForCompiler(fset, "source", nil)}
	if _, err := conf.Check("fit", fset, []*ast.File{f}, info); err != nil {
		return nil, fmt.Errorf("type-checking accumu.go: %v", err)
	}
	c := &coqFile{name: "AccumuFuncs.v"}
	c.p(genHeader)
	c.p("(* accumu.go translated (harness/gen_accumu.go): uint32 as N below 2^32, arithmetic reduced mod 2^32 *)\n")
	c.p("From Coq Require Import NArith.\nLocal Open Scope N_scope.\n\n")
	c.p("Definition u32_add (x y : N) : N := (x + y) mod 2 ^ 32.\nDefinition u32_sub (x y : N) : N := (x + 2 ^ 32 - y) mod 2 ^ 32.\nDefinition u32_shl (x n : N) : N := N.shiftl x n mod 2 ^ 32.\n\n")
	var tname string
	var fields []string
	var out []string
	for _, d := range f.Decls {
		switch d := d.(type) {
		case *ast.GenDecl:
			if d.Tok == token.IMPORT {
				continue
			}
			if d.Tok != token.TYPE || len(d.Specs) != 1 || tname != "" {
				return nil, fmt.Errorf("accumu.go: declaration outside the translated fragment (%s)", d.Tok)
			}
			ts := d.Specs[0].(*ast.TypeSpec)
			st, ok := ts.Type.(*ast.StructType)
			if !ok {
				return nil, fmt.Errorf("accumu.go: type %s is not a struct", ts.Name.Name)
			}
			tname = ts.Name.Name
			for _, fl := range st.Fields.List {
				if !isU32(info.Types[fl.Type].Type) || len(fl.Names) == 0 {
					return nil, fmt.Errorf("accumu.go: a field of %s is not a named uint32 field", tname)
				}
				for _, n := range fl.Names {
					fields = append(fields, n.Name)
				}
			}
			var fs []string
			for _, n := range fields {
				fs = append(fs, fmt.Sprintf("go_%s : N", n))
			}
			c.p("Record go_%s := mk_go_%s { %s }.\n", tname, tname, strings.Join(fs, "; "))
		case *ast.FuncDecl:
			if tname == "" {
				return nil, fmt.Errorf("accumu.go: function before the struct type")
			}
			var params []string
			if d.Type.Params != nil {
				for _, fl := range d.Type.Params.List {
					b, _ := info.Types[fl.Type].Type.Underlying().(*types.Basic)
					if b == nil || (b.Kind() != types.Uint32 && b.Kind() != types.Uint) {
						return nil, fmt.Errorf("%s: parameter type %s is outside the translated fragment", d.Name.Name, info.Types[fl.Type].Type)
					}
					for _, n := range fl.Names {
						params = append(params, fmt.Sprintf("(v_%s : N)", n.Name))
					}
				}
			}
			t := &accTr{info: info, state: map[string]string{}, fields: fields}
			if d.Recv == nil {
				// constructor: return &T{...}
				if len(d.Body.List) != 1 {
					return nil, fmt.Errorf("%s: body is not a single return", d.Name.Name)
				}
				ret, ok := d.Body.List[0].(*ast.ReturnStmt)
				if !ok || len(ret.Results) != 1 {
					return nil, fmt.Errorf("%s: body is not a single return", d.Name.Name)
				}
				un, ok := ret.Results[0].(*ast.UnaryExpr)
				if !ok || un.Op != token.AND {
					return nil, fmt.Errorf("%s: does not return &%s{...}", d.Name.Name, tname)
				}
				cl, ok := un.X.(*ast.CompositeLit)
				if !ok {
					return nil, fmt.Errorf("%s: does not return &%s{...}", d.Name.Name, tname)
				}
				if id, ok := cl.Type.(*ast.Ident); !ok || id.Name != tname {
					return nil, fmt.Errorf("%s: composite literal of another type", d.Name.Name)
				}
				vals := map[string]string{}
				for _, el := range cl.Elts {
					kv, ok := el.(*ast.KeyValueExpr)
					if !ok {
						return nil, fmt.Errorf("%s: unkeyed composite literal", d.Name.Name)
					}
					s, err := t.expr(kv.Value)
					if err != nil {
						return nil, fmt.Errorf("%s: %v", d.Name.Name, err)
					}
					vals[kv.Key.(*ast.Ident).Name] = s
				}
				var args []string
				for _, n := range fields {
					if v, ok := vals[n]; ok {
						args = append(args, v)
					} else {
						args = append(args, "0")
					}
				}
				out = append(out, "go_"+d.Name.Name)
				c.p("Definition go_%s %s : go_%s :=\n  mk_go_%s %s.\n", d.Name.Name, strings.Join(params, " "), tname, tname, strings.Join(args, " "))
				continue
			}
			// method with pointer receiver
			if len(d.Recv.List) != 1 || len(d.Recv.List[0].Names) != 1 {
				return nil, fmt.Errorf("%s: receiver outside the translated fragment", d.Name.Name)
			}
			if st, ok := d.Recv.List[0].Type.(*ast.StarExpr); !ok || st.X.(*ast.Ident).Name != tname {
				return nil, fmt.Errorf("%s: receiver is not *%s", d.Name.Name, tname)
			}
			if d.Type.Results == nil || len(d.Type.Results.List) != 1 || !isU32(info.Types[d.Type.Results.List[0].Type].Type) {
				return nil, fmt.Errorf("%s: result is not a single uint32", d.Name.Name)
			}
			t.recv = d.Recv.List[0].Names[0].Name
			for _, n := range fields {
				t.state[n] = fmt.Sprintf("(go_%s s)", n)
			}
			var lets []string
			result := ""
			for i, st := range d.Body.List {
				switch st := st.(type) {
				case *ast.AssignStmt:
					if len(st.Lhs) != 1 || len(st.Rhs) != 1 {
						return nil, fmt.Errorf("%s: multiple assignment", d.Name.Name)
					}
					sel, ok := st.Lhs[0].(*ast.SelectorExpr)
					if !ok {
						return nil, fmt.Errorf("%s: assignment to something other than a receiver field", d.Name.Name)
					}
					if id, ok := sel.X.(*ast.Ident); !ok || id.Name != t.recv {
						return nil, fmt.Errorf("%s: assignment to something other than a receiver field", d.Name.Name)
					}
					rhs, err := t.expr(st.Rhs[0])
					if err != nil {
						return nil, fmt.Errorf("%s: %v", d.Name.Name, err)
					}
					cur := t.state[sel.Sel.Name]
					switch st.Tok {
					case token.ASSIGN:
					case token.ADD_ASSIGN:
						rhs = "(u32_add " + cur + " " + rhs + ")"
					case token.SUB_ASSIGN:
						rhs = "(u32_sub " + cur + " " + rhs + ")"
					case token.AND_ASSIGN:
						rhs = "(N.land " + cur + " " + rhs + ")"
					case token.OR_ASSIGN:
						rhs = "(N.lor " + cur + " " + rhs + ")"
					default:
						return nil, fmt.Errorf("%s: assignment operator %s is outside the translated fragment", d.Name.Name, st.Tok)
					}
					nv := fmt.Sprintf("s%d_%s", i, sel.Sel.Name)
					lets = append(lets, fmt.Sprintf("let %s := %s in", nv, rhs))
					t.state[sel.Sel.Name] = nv
				case *ast.ReturnStmt:
					if i != len(d.Body.List)-1 || len(st.Results) != 1 {
						return nil, fmt.Errorf("%s: return is not the last statement", d.Name.Name)
					}
					r, err := t.expr(st.Results[0])
					if err != nil {
						return nil, fmt.Errorf("%s: %v", d.Name.Name, err)
					}
					result = r
				default:
					return nil, fmt.Errorf("%s: statement %T is outside the translated fragment", d.Name.Name, st)
				}
			}
			if result == "" {
				return nil, fmt.Errorf("%s: no return", d.Name.Name)
			}
			var fin []string
			for _, n := range fields {
				fin = append(fin, t.state[n])
			}
			out = append(out, "go_"+tname+"_"+d.Name.Name)
			c.p("Definition go_%s_%s (s : go_%s) %s : N * go_%s :=\n  %s\n  (%s, mk_go_%s %s).\n", tname, d.Name.Name, tname, strings.Join(params, " "), tname,
				strings.Join(lets, "\n  "), result, tname, strings.Join(fin, " "))
		}
	}
	for _, need := range []string{"go_uint32NewAccumulator", "go_uint32Accumulator_accumulate"} {
		found := false
		for _, o := range out {
			found = found || o == need
		}
		if !found {
			return nil, fmt.Errorf("accumu.go does not declare %s", strings.TrimPrefix(need, "go_"))
		}
	}
	return c, nil
}
