package main

import (
	"bufio"
	"fmt"
	"io"
	"os"
	"os/exec"
	"strings"
)

// driver is the OCaml co-process holding the extracted Coq model and spec.
// Protocol: one request per line, one response line per request.
type driver struct {
	cmd *exec.Cmd
	in  *bufio.Writer
	out *bufio.Reader
	inc io.WriteCloser
}

func startDriver(path string) (*driver, error) {
	cmd := exec.Command(path)
	cmd.Stderr = os.Stderr
	in, err := cmd.StdinPipe()
	if err != nil {
		return nil, err
	}
	out, err := cmd.StdoutPipe()
	if err != nil {
		return nil, err
	}
	if err := cmd.Start(); err != nil {
		return nil, err
	}
	return &driver{cmd: cmd, in: bufio.NewWriterSize(in, 1<<20), out: bufio.NewReaderSize(out, 1<<20), inc: in}, nil
}

func (d *driver) close() {
	d.in.Flush()
	d.inc.Close()
	d.cmd.Wait()
}

// ask sends one request and waits for its response.
func (d *driver) ask(req string) (string, error) {
	r, err := d.batch([]string{req})
	if err != nil {
		return "", err
	}
	return r[0], nil
}

// batch pipelines many requests.
func (d *driver) batch(reqs []string) ([]string, error) {
	errc := make(chan error, 1)
	go func() {
		for _, r := range reqs {
			if strings.ContainsAny(r, "\n\r") {
				errc <- fmt.Errorf("request contains newline")
				return
			}
			if _, err := d.in.WriteString(r); err != nil {
				errc <- err
				return
			}
			if err := d.in.WriteByte('\n'); err != nil {
				errc <- err
				return
			}
		}
		errc <- d.in.Flush()
	}()
	out := make([]string, 0, len(reqs))
	for range reqs {
		line, err := d.out.ReadString('\n')
		if err != nil {
			return out, fmt.Errorf("driver died: %v", err)
		}
		out = append(out, strings.TrimRight(line, "\n"))
	}
	if err := <-errc; err != nil {
		return out, err
	}
	return out, nil
}
