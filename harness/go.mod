module github.com/tormoder/fit/verifharness

go 1.23

require github.com/tormoder/fit v0.0.0

replace github.com/tormoder/fit => /root/work/c04/repo
