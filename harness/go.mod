module github.com/tormoder/fit/verifharness

go 1.23

require (
	github.com/tormoder/fit v0.0.0
	golang.org/x/tools v0.21.1-0.20240508182429-e35e4ccd0d2d
)

require (
	golang.org/x/mod v0.17.0 // indirect
	golang.org/x/sync v0.7.0 // indirect
)

replace github.com/tormoder/fit => /repo
