package main

import (
	"fmt"
	"strings"

	"github.com/tormoder/fit"
)

// C02, C12, C13, C16: generated streams through the real Decode in lock step
// with the model, with the reference semantics (Spec/FitSyntax.v, extracted)
// as the property oracle on what the implementation returned.

func init() {
	register("c02", runC02)
	register("c12", runC12)
	register("c13", runC13)
	register("c16", runC16)
}

type streamCase struct {
	s  *stream
	rs readerSpec
}

// decodeAndJudge runs one stream through Decode (implementation + model),
// records correspondence, evaluates the reference semantics and reports.
func decodeAndJudge(r *report, w *world, c streamCase, o optSet, tagPrefix string, requireSuccess bool) (impl, model decOut, sr specResult, ok bool) {
	impl, model, err := w.decode("D", o, c.rs)
	if err != nil {
		fmt.Println("driver:", err)
		return impl, model, sr, false
	}
	r.Traces++
	rep := map[string]interface{}{"entry": "Decode", "options": o.String(), "stream": c.s, "records": c.s.specArgs(), "input_hex": hexs(c.rs.Data), "sched": c.rs.Sched, "eof_with_data": c.rs.Ewd}
	agrees := impl.observable() == model.observable()
	if !agrees {
		r.corrFail(tagPrefix+"decode", fmt.Sprintf("model and implementation differ\n    records: %.600s\n    impl : %.600s\n    model: %.600s", c.s.specArgs(), impl.observable(), model.observable()), rep)
	}
	sr, err = askSpec(w.d, c.s)
	if err != nil {
		fmt.Println("driver:", err)
		return impl, model, sr, false
	}
	if impl.Panic != "" {
		r.specFail("panic", "Decode panics: "+impl.Panic, rep)
		return impl, model, sr, true
	}
	if !sr.InDomain {
		r.hist("outside_domain")
		return impl, model, sr, true
	}
	r.hist("in_domain")
	if impl.ErrClass != 0 {
		if requireSuccess {
			r.specFail(tagPrefix+"rejects_wellformed", fmt.Sprintf("Decode rejects a well-formed stream compatible with the profile: %s\n    records: %.600s", impl.ErrText, c.s.specArgs()), rep)
		}
		return impl, model, sr, true
	}
	if len(impl.Raw) == 1 && impl.Raw[0] != nil {
		if diff := compareFileWithSpec(impl.Raw[0], sr); diff != "" {
			r.specFail(tagPrefix+"value", diff+fmt.Sprintf("\n    records: %.600s", c.s.specArgs()), rep)
		}
	}
	return impl, model, sr, true
}

func sizes(tier string, boost int, quick, thorough int) int {
	n := quick
	if tier == "thorough" {
		n = thorough
	}
	return n * boost
}

func mergeStats(r *report, st genStats) {
	for k, v := range st {
		r.Hist[k] += v
	}
}

// ---------------------------------------------------------------- C02
func runC02(args []string) int {
	o := parseRunOpts("c02", args)
	if o.replay != "" {
		return replayStream("C02", o, false, true, false)
	}
	r := newReport("C02", o)
	r.Rule = "well-formed record streams generated from the profile table (all messages, listed/unlisted fields, compatible definition types narrower or equal, arrays, strings, both byte orders, shuffled field orders, unknown/developer content interleaved) x random chunkings; " +
		"non-trivial = in the domain of the reference semantics with at least one data record of a known message; distinct by stream bytes. histogram cell_* = (kind, array, profile base type, definition base type, elements, byte order) hit counts"
	d, err := startDriver(o.driver)
	if err != nil {
		fmt.Println("driver:", err)
		return 2
	}
	defer d.close()
	w := newWorld(d)
	rg := newRng(o.seed)
	n := sizes(o.tier, o.boost, 12000, 1200000)
	cfg := defaultCfg()
	cfg.illFormed = 0
	cfg.maxRecords = 20
	st := genStats{}
	for i := 0; i < n; i++ {
		if i%7 == 3 {
			cfg.narrow, cfg.bigEndian = 900, 700
		} else {
			cfg.narrow, cfg.bigEndian = 300, 400
		}
		s := genStream(rg, &cfg, st)
		data := s.bytes()
		rs := readerSpec{Data: data, Sched: makeSched(rg, rg.intn(9), len(data)), Ewd: rg.bool()}
		// "Decode" is Decode under any options: a third of the streams is decoded with a logger and / or the
		// unknown-item options (what the options add is C16's subject; the values must be the wire's here too)
		var os optSet
		if i%3 == 1 {
			os = optSet{Logger: rg.chance(2, 3), UnkF: rg.bool(), UnkM: rg.bool()}
			r.hist("decoded_with_options_" + os.String())
		}
		impl, _, sr, ok := decodeAndJudge(r, w, streamCase{s, rs}, os, "", true)
		if !ok {
			return 2
		}
		r.count(hexs(data), sr.InDomain && len(sr.Msgs) > 1 && impl.ErrClass == 0)
		if i < 2 {
			r.sample(map[string]interface{}{"records": s.specArgs(), "decoded": fmt.Sprintf("%.400s", impl.observable())})
		}
	}
	cells := 0
	for k := range st {
		if strings.HasPrefix(k, "cell_") {
			cells++
		}
	}
	r.Extra["distinct_cells"] = cells
	mergeStats(r, st)
	return r.finish()
}

// ---------------------------------------------------------------- C12
func put32(be bool, v uint32) []byte {
	if be {
		return []byte{byte(v >> 24), byte(v >> 16), byte(v >> 8), byte(v)}
	}
	return []byte{byte(v), byte(v >> 8), byte(v >> 16), byte(v >> 24)}
}

// genTimeStream: explicit timestamps, compressed-timestamp records (all 32
// offsets, rollovers, long runs) and local timestamps, both byte orders.
// genTimeStream: time sequences. Timestamp 0, power-on-relative references, local timestamps without a reference
// and references that wrap 2^32 (the paths of the two C12 defects repaired by ac9b0b0 / 2f21531) are ordinary
// members of the domain and are produced in the one stream there is.
func genTimeStream(rg *rng, st genStats) *stream {
	s := &stream{HdrSize: 14, Proto: 0x20, Profile: 2115, HdrCRC: "ok"}
	be := rg.bool()
	arch := byte(0)
	if be {
		arch = 1
	}
	// the file_id message may carry time_created (a date_time that is NOT field 253: it must never become the reference)
	if rg.bool() {
		tc := uint32(0x30000000 + rg.intn(1<<24))
		s.Records = append(s.Records,
			record{Kind: "D", Local: 5, Arch: arch, Gmn: 0, Fields: []fieldDefS{{0, 1, 0}, {4, 4, 0x86}}},
			record{Kind: "M", Local: 5, Pay: append([]byte{4}, put32(be, tc)...)})
		st["file_id_with_time_created"]++
	} else {
		s.Records = append(s.Records,
			record{Kind: "D", Local: 5, Gmn: 0, Fields: []fieldDefS{{0, 1, 0}}},
			record{Kind: "M", Local: 5, Pay: []byte{4}})
	}
	// local 3 variants: activity with local_timestamp only (0), or a message WITHOUT a timestamp field that compressed
	// headers can address -- file_creator (1) or a message outside the profile (2): its compressed headers still advance the reference
	l3 := 0
	if rg.chance(1, 3) {
		l3 = 1 + rg.intn(2)
	}
	s.Records = append(s.Records,
		// local 0: record with timestamp + heart_rate; local 1: record with heart_rate only (for compressed headers)
		record{Kind: "D", Local: 0, Arch: arch, Gmn: uint16(fit.MesgNumRecord), Fields: []fieldDefS{{253, 4, 0x86}, {3, 1, 2}}},
		record{Kind: "D", Local: 1, Arch: arch, Gmn: uint16(fit.MesgNumRecord), Fields: []fieldDefS{{3, 1, 2}}},
		// local 2: activity with timestamp + local_timestamp(5); local 3: activity with local_timestamp only
		record{Kind: "D", Local: 2, Arch: arch, Gmn: uint16(fit.MesgNumActivity), Fields: []fieldDefS{{253, 4, 0x86}, {5, 4, 0x86}}},
		map[int]record{
			0: {Kind: "D", Local: 3, Arch: arch, Gmn: uint16(fit.MesgNumActivity), Fields: []fieldDefS{{5, 4, 0x86}}},
			1: {Kind: "D", Local: 3, Arch: arch, Gmn: uint16(fit.MesgNumFileCreator), Fields: []fieldDefS{{0, 2, 0x84}}},
			2: {Kind: "D", Local: 3, Arch: arch, Gmn: 0xFF00, Fields: []fieldDefS{{1, 2, 0x84}}}}[l3],
		// local 6: an unknown message addressed with compressed headers is not possible (local < 4); event with timestamp on local 7
		record{Kind: "D", Local: 7, Arch: arch, Gmn: uint16(fit.MesgNumEvent), Fields: []fieldDefS{{253, 4, 0x86}, {0, 1, 0}}})
	ts := uint32(0x30000000 + rg.intn(1<<24))
	haveRef := false
	nearWrap := false
	n := 1 + rg.intn(40)
	off := rg.intn(32)
	for i := 0; i < n; i++ {
		switch c := rg.intn(10); {
		case c < 3: // explicit timestamp
			v := ts
			switch rg.intn(12) {
			case 0:
				v = 0xFFFFFFFF
			case 1:
				v = 0
				st["timestamp_zero"]++
			case 2:
				v = uint32(1 + rg.intn(0x0FFFFFFF)) // seconds since power on
				st["power_on_relative_references"]++
			case 3:
				// a reference within 64 s of 2^32: the compressed records that follow wrap it, sometimes to exactly 0
				v = uint32(0xFFFFFFFF - 1 - rg.intn(63))
				nearWrap = true
			}
			if v != 0xFFFFFFFF {
				haveRef = true
				ts = v
			}
			l := byte(0)
			if rg.chance(1, 4) {
				l = 7
			}
			s.Records = append(s.Records, record{Kind: "M", Local: l, Pay: append(put32(be, v), byte(rg.intn(200)))})
			st["explicit_timestamps"]++
			if nearWrap {
				nearWrap = false
				st["near_wrap_references"]++
				// walk the offsets forward so that the reference crosses 2^32; half of the time aim the first step at 0
				o2 := int(v % 32)
				if rg.bool() {
					s.Records = append(s.Records, record{Kind: "Z", Local: 1, Offset: 0, Pay: []byte{byte(rg.intn(200))}})
					o2 = 0
				}
				for k, run := 0, 2+rg.intn(8); k < run; k++ {
					o2 = (o2 + 1 + rg.intn(20)) % 32
					s.Records = append(s.Records, record{Kind: "Z", Local: 1, Offset: byte(o2), Pay: []byte{byte(rg.intn(200))}})
				}
				off = o2
			}
			ts += uint32(rg.intn(40))
		case c < 8: // run of compressed records
			if !haveRef && rg.chance(9, 10) {
				continue
			}
			run := 1 + rg.intn(6)
			if rg.chance(1, 15) {
				run = 50 + rg.intn(150)
			}
			for k := 0; k < run; k++ {
				switch rg.intn(4) {
				case 0:
					off = (off + 1) % 32
				case 1:
					off = (off + 31) % 32 // almost a full rollover
				case 2:
					off = rg.intn(32)
				}
				if l3 != 0 && rg.chance(1, 4) {
					s.Records = append(s.Records, record{Kind: "Z", Local: 3, Offset: byte(off), Pay: []byte{byte(rg.intn(200)), 0}})
					st["compressed_records_of_msg_without_timestamp_field"]++
				} else if rg.chance(1, 8) {
					// a compressed-timestamp record that itself carries time fields: an explicit timestamp (which is
					// the record's time and the new reference) and/or a local timestamp (related to the record's time)
					tv := ts + uint32(rg.intn(100))
					lv := tv + uint32(rg.intn(7200)) - 3600
					switch k := rg.intn(3); {
					case k == 0:
						s.Records = append(s.Records, record{Kind: "Z", Local: 0, Offset: byte(off), Pay: append(put32(be, tv), byte(rg.intn(200)))})
						ts = tv
					case k == 1 || l3 != 0:
						s.Records = append(s.Records, record{Kind: "Z", Local: 2, Offset: byte(off), Pay: append(put32(be, tv), put32(be, lv)...)})
						ts = tv
					default:
						s.Records = append(s.Records, record{Kind: "Z", Local: 3, Offset: byte(off), Pay: put32(be, lv)})
					}
					st["compressed_records_carrying_time_fields"]++
				} else {
					s.Records = append(s.Records, record{Kind: "Z", Local: 1, Offset: byte(off), Pay: []byte{byte(rg.intn(200))}})
				}
				st[fmt.Sprintf("compressed_offset_%02d", off)]++
			}
			st["compressed_runs_"+bucket(run)]++
		default: // local timestamp
			if !haveRef {
				st["local_timestamps_without_reference"]++
			}
			lv := ts + uint32(rg.intn(7200)) - 3600
			if rg.chance(1, 10) {
				lv = 0xFFFFFFFF
			}
			if rg.bool() && l3 == 0 {
				s.Records = append(s.Records, record{Kind: "M", Local: 3, Pay: put32(be, lv)})
			} else {
				s.Records = append(s.Records, record{Kind: "M", Local: 2, Pay: append(put32(be, ts), put32(be, lv)...)})
				haveRef = true
			}
			st["local_timestamps"]++
		}
	}
	s.fillHex()
	return s
}

func runC12(args []string) int {
	o := parseRunOpts("c12", args)
	if o.replay != "" {
		return replayStream("C12", o, true, true, false)
	}
	r := newReport("C12", o)
	r.Rule = "sequences mixing explicit timestamps, compressed-timestamp records (all 32 offsets, rollovers, runs up to 200) and local timestamps, both byte orders, including timestamp 0, power-on-relative references, local timestamps without reference and references wrapping 2^32 (the paths of the two repaired defects); " +
		"non-trivial = at least one compressed or local timestamp decoded; distinct by stream bytes"
	d, err := startDriver(o.driver)
	if err != nil {
		fmt.Println("driver:", err)
		return 2
	}
	defer d.close()
	w := newWorld(d)
	rg := newRng(o.seed)
	n := sizes(o.tier, o.boost, 3000, 600000)
	st := genStats{}
	// regression list: the witnesses of the two repaired defects (corpus/regression/C12-*.json) run first and are judged
	// like any other stream: a recurrence is a VIOLATION
	for _, wit := range []string{"D:5:0:0:0.1.0:0:- M:5:04:- D:1:0:20:3.1.2:0:- D:3:0:34:5.4.134:0:- M:3:00000030:- Z:1:5:64:-",
		"D:5:0:0:0.1.0:0:- M:5:04:- D:0:0:20:253.4.134,3.1.2:0:- D:1:0:20:3.1.2:0:- M:0:0000000064:- Z:1:5:64:-",
		// 32-bit wrap-around: reference 0xFFFFFFFE, compressed offset 0 lands on 0, the next record must be stamped with 5
		"D:5:0:0:0.1.0:0:- M:5:04:- D:0:0:20:253.4.134,3.1.2:0:- D:1:0:20:3.1.2:0:- M:0:feffffff64:- Z:1:0:64:- Z:1:5:64:-"} {
		s := parseRecords(wit)
		decodeAndJudge(r, w, streamCase{s, readerSpec{Data: s.bytes()}}, optSet{}, "", true)
	}
	for i := 0; i < n; i++ {
		s := genTimeStream(rg, st)
		data := s.bytes()
		rs := readerSpec{Data: data, Sched: makeSched(rg, rg.intn(9), len(data))}
		impl, model, sr, ok := decodeAndJudge(r, w, streamCase{s, rs}, optSet{}, "", true)
		if !ok {
			return 2
		}
		if len(model.Quirks) > 0 {
			r.Notes = append(r.Notes, "the model raised a quirk tag (none exists any more)")
		}
		r.count(hexs(data), sr.InDomain && impl.ErrClass == 0 && (st["compressed_runs_1-3"]+st["local_timestamps"] > 0))
		if i < 2 {
			r.sample(map[string]interface{}{"records": s.specArgs(), "decoded": fmt.Sprintf("%.300s", impl.observable())})
		}
	}
	// the time rules are per file: in a chain (DecodeChained) every file starts without a reference, whatever the
	// files before it set
	for i := 0; i < n/12; i++ {
		ss := []*stream{genTimeStream(rg, st), genTimeStream(rg, st)}
		if rg.chance(1, 3) {
			ss = append(ss, genTimeStream(rg, st))
		}
		var data []byte
		for _, s := range ss {
			data = append(data, s.bytes()...)
		}
		impl, model, err := w.decode("C", optSet{}, readerSpec{Data: data, Sched: makeSched(rg, rg.intn(9), len(data))})
		if err != nil {
			return 2
		}
		r.Traces++
		rep := map[string]interface{}{"entry": "DecodeChained", "input_hex": hexs(data), "records_per_file": []string{ss[0].specArgs(), ss[1].specArgs()}}
		if impl.observable() != model.observable() {
			r.corrFail("chained_decode", "model and implementation differ on a chain of time streams", rep)
		}
		if impl.Panic != "" || impl.ErrClass != 0 || len(impl.Raw) != len(ss) {
			r.specFail("chained_time", fmt.Sprintf("DecodeChained on %d well-formed time streams: %d Files, error %q %s", len(ss), len(impl.Raw), impl.ErrText, impl.Panic), rep)
			continue
		}
		for k, s := range ss {
			sr, err := askSpec(w.d, s)
			if err != nil {
				return 2
			}
			if !sr.InDomain {
				continue
			}
			if diff := compareFileWithSpec(impl.Raw[k], sr); diff != "" {
				r.specFail("chained_time", fmt.Sprintf("file #%d of a chain: %s\n    records: %.400s", k+1, diff, s.specArgs()), rep)
				break
			}
		}
		r.count("chain"+hexs(data[:32])+fmt.Sprint(len(data)), true)
		r.hist("chained_time_streams")
	}
	// date_time decoding itself through the hook: epoch + seconds, 0xFFFFFFFF is left invalid by the decoder
	for _, u := range []uint32{0, 1, 0x0FFFFFFF, 0x10000000, 0x7FFFFFFF, 0x80000000, 0xFFFFFFFE} {
		t := fit.VerifDecodeDateTime(u)
		if t.Unix()-fitEpoch.Unix() != int64(u) || t.Nanosecond() != 0 {
			r.specFail("date_time", fmt.Sprintf("decodeDateTime(%d) = %v, expected 1989-12-31T00:00:00Z + %d s", u, t, u), map[string]interface{}{"u": u})
		}
		r.count(fmt.Sprintf("dt%d", u), true)
	}
	mergeStats(r, st)
	return r.finish()
}

// ---------------------------------------------------------------- C13
func runC13(args []string) int {
	o := parseRunOpts("c13", args)
	if o.replay != "" {
		return replayStream("C13", o, false, true, false)
	}
	r := newReport("C13", o)
	r.Rule = "interleavings of definition and data records over all 16 local types (0-3 also through compressed headers) with redefinitions switching message, field list, sizes and byte order; data records of undefined local types; " +
		"plus the metamorphic test: inserting a redefinition of one local type (and dropping its later data records) must not change how records of the other local types decode; non-trivial = at least one redefinition followed by data; distinct by stream bytes"
	d, err := startDriver(o.driver)
	if err != nil {
		fmt.Println("driver:", err)
		return 2
	}
	defer d.close()
	w := newWorld(d)
	rg := newRng(o.seed)
	n := sizes(o.tier, o.boost, 8000, 800000)
	cfg := defaultCfg()
	cfg.illFormed = 0
	cfg.maxRecords = 50
	cfg.unknownMsg = 60
	cfg.dev = 40
	st := genStats{}
	for i := 0; i < n; i++ {
		cfg.illFormed = 0
		undefinedLocal := i%10 == 9
		s := genStream(rg, &cfg, st)
		if undefinedLocal {
			// a data record for a local type that was never defined: must be an error
			used := map[byte]bool{}
			for _, rec := range s.Records {
				if rec.Kind == "D" {
					used[rec.Local] = true
				}
			}
			var free []byte
			for l := byte(0); l < 16; l++ {
				if !used[l] {
					free = append(free, l)
				}
			}
			if len(free) > 0 && rg.chance(1, 4) {
				// the very first data record (the file_id message) on a local type that has no definition
				s.Records[1].Local = free[rg.intn(len(free))]
				s.fillHex()
				r.hist("first_data_record_on_undefined_local")
			} else if len(free) > 0 {
				l := free[rg.intn(len(free))]
				pos := 2 + rg.intn(len(s.Records)-1)
				rec := record{Kind: "M", Local: l, Pay: rg.bytes(rg.intn(6))}
				if l < 4 && rg.bool() {
					rec = record{Kind: "Z", Local: l, Offset: byte(rg.intn(32)), Pay: rec.Pay}
				}
				s.Records = append(s.Records[:pos], append([]record{rec}, s.Records[pos:]...)...)
				s.fillHex()
			} else {
				undefinedLocal = false
			}
		}
		data := s.bytes()
		rs := readerSpec{Data: data, Sched: makeSched(rg, rg.intn(9), len(data))}
		impl, _, sr, ok := decodeAndJudge(r, w, streamCase{s, rs}, optSet{}, "", true)
		if !ok {
			return 2
		}
		rep := map[string]interface{}{"entry": "Decode", "stream": s, "records": s.specArgs(), "input_hex": hexs(data)}
		if undefinedLocal && impl.ErrClass == 0 && impl.Panic == "" {
			r.specFail("undefined_local_accepted", "a data record whose local message type has no definition was accepted\n    records: "+s.specArgs(), rep)
		}
		// definitions do not survive a file boundary: in a chain, a later file that uses a local type only an
		// EARLIER file defined must be rejected like the same file decoded alone
		if i%25 == 7 && impl.ErrClass == 0 && !undefinedLocal {
			var l byte
			found := false
			for _, rec := range s.Records[2:] {
				if rec.Kind == "D" && rec.Local != s.Records[0].Local {
					l, found = rec.Local, true
				}
			}
			if found {
				var dl *record
				for k := range s.Records {
					if s.Records[k].Kind == "D" && s.Records[k].Local == l {
						dl = &s.Records[k]
					}
				}
				pay, dev := genPayload(rg, st, dl)
				s2 := &stream{HdrSize: 14, Proto: 0x10, Profile: 2115, HdrCRC: "ok", Records: []record{s.Records[0], s.Records[1], {Kind: "M", Local: l, Pay: pay, DevPay: dev}}}
				s2.fillHex()
				chain := append(append([]byte{}, data...), s2.bytes()...)
				ic, mc, err := w.decode("C", optSet{}, readerSpec{Data: chain})
				if err != nil {
					return 2
				}
				repc := map[string]interface{}{"entry": "DecodeChained", "input_hex": hexs(chain), "records_file1": s.specArgs(), "records_file2": s2.specArgs()}
				if ic.observable() != mc.observable() {
					r.corrFail("chained_decode", "model and implementation differ on a chain", repc)
				}
				if ic.Panic == "" && ic.ErrClass == 0 {
					r.specFail("undefined_local_accepted", fmt.Sprintf("DecodeChained accepts a second file whose data record uses local type %d, which only the FIRST file of the chain defined", l), repc)
				}
				r.hist("chained_second_file_uses_first_files_definition")
			}
		}
		redefs := 0
		seen := map[byte]bool{}
		for _, rec := range s.Records {
			if rec.Kind == "D" {
				if seen[rec.Local] {
					redefs++
				}
				seen[rec.Local] = true
			}
		}
		r.hist(fmt.Sprintf("redefinitions_%s", bucket(redefs)))
		r.count(hexs(data), redefs > 0 && sr.InDomain && impl.ErrClass == 0)

		// metamorphic: redefine one local type in the middle
		if !undefinedLocal && impl.ErrClass == 0 && sr.InDomain && len(s.Records) > 4 && i%3 == 0 {
			cut := 2 + rg.intn(len(s.Records)-2)
			l := byte(rg.intn(16))
			if s.Records[0].Local == l {
				continue
			}
			p := profile()
			nd := genDefinition(rg, &cfg, st, l, p.known[1+rg.intn(len(p.known)-1)])
			s2 := &stream{HdrSize: s.HdrSize, Proto: s.Proto, Profile: s.Profile, HdrCRC: s.HdrCRC}
			s1 := &stream{HdrSize: s.HdrSize, Proto: s.Proto, Profile: s.Profile, HdrCRC: s.HdrCRC}
			for k, rec := range s.Records {
				if k == cut {
					s2.Records = append(s2.Records, *nd)
				}
				if k >= cut && rec.Local == l {
					continue // both variants drop the later records of local type l
				}
				// compressed records depend on the time reference, which records of l may have set: keep them out
				if rec.Kind == "Z" {
					continue
				}
				s1.Records = append(s1.Records, rec)
				s2.Records = append(s2.Records, rec)
			}
			s1.fillHex()
			s2.fillHex()
			i1, _, e1 := w.decode("D", optSet{}, readerSpec{Data: s1.bytes()})
			i2, _, e2 := w.decode("D", optSet{}, readerSpec{Data: s2.bytes()})
			if e1 != nil || e2 != nil {
				return 2
			}
			strip := func(o decOut) string {
				// everything but header and CRC (the data size differs by the inserted definition)
				if len(o.Files) == 0 {
					return ""
				}
				f := o.Files[0]
				if k := strings.Index(f, ";T"); k >= 0 {
					return fmt.Sprintf("err=%d %s", o.ErrClass, f[k:])
				}
				return f
			}
			// local timestamps depend on the reference too; component accumulators on history
			if i1.ErrClass == 0 && i2.ErrClass == 0 && !strings.Contains(strip(i1), ".0.-") && strip(i1) != strip(i2) && !hasAccumulating(s1) {
				r.specFail("slots_not_independent", fmt.Sprintf("redefining local type %d changed how other local types decode\n    without: %.500s\n    with   : %.500s", l, strip(i1), strip(i2)),
					map[string]interface{}{"entry": "Decode", "records_without": s1.specArgs(), "records_with": s2.specArgs()})
			}
			r.hist("metamorphic_pairs")
		}
		if i < 2 {
			r.sample(map[string]interface{}{"records": s.specArgs(), "decoded": fmt.Sprintf("%.300s", impl.observable())})
		}
	}
	mergeStats(r, st)
	return r.finish()
}

// hasAccumulating: the stream holds record messages (whose accumulated
// destinations depend on the process-wide accumulators, C18)
func hasAccumulating(s *stream) bool {
	for _, rec := range s.Records {
		if rec.Kind == "D" && rec.Gmn == uint16(fit.MesgNumRecord) {
			return true
		}
	}
	return false
}

// ---------------------------------------------------------------- C16
func runC16(args []string) int {
	o := parseRunOpts("c16", args)
	if o.replay != "" {
		return replayStream("C16", o, false, false, true)
	}
	r := newReport("C16", o)
	r.Rule = "streams mixing known and unknown messages and listed and unlisted fields, including streams that fail part-way (truncated, corrupted checksum, ill-formed record), each decoded under all 8 option combinations; " +
		"non-trivial = at least one unknown message or unlisted field counted; distinct by stream bytes"
	d, err := startDriver(o.driver)
	if err != nil {
		fmt.Println("driver:", err)
		return 2
	}
	defer d.close()
	w := newWorld(d)
	rg := newRng(o.seed)
	n := sizes(o.tier, o.boost, 2500, 250000)
	cfg := defaultCfg()
	cfg.unknownMsg = 300
	cfg.unknownFld = 400
	cfg.maxRecords = 30
	st := genStats{}
	allOpts := []optSet{}
	for k := 0; k < 8; k++ {
		allOpts = append(allOpts, optSet{k&4 != 0, k&2 != 0, k&1 != 0})
	}
	for i := 0; i < n; i++ {
		cfg.illFormed = 0
		if i%4 == 3 {
			cfg.illFormed = 40
		}
		s := genStream(rg, &cfg, st)
		data := s.bytes()
		mode := "ok"
		switch i % 6 {
		case 4: // truncated
			if len(data) > 16 {
				data = data[:14+rg.intn(len(data)-14)]
				mode = "truncated"
			}
		case 5: // corrupted file checksum
			data = append([]byte{}, data...)
			data[len(data)-1] ^= 0x5A
			mode = "badcrc"
		}
		r.hist("mode_" + mode)
		// the part-way failure oracle applies when truncation / the corrupted checksum is the only
		// reason to fail: the unmodified stream must decode
		originalOK := true
		if mode != "ok" {
			i0, _, e0 := w.decode("D", optSet{}, readerSpec{Data: s.bytes()})
			if e0 != nil {
				return 2
			}
			originalOK = i0.ErrClass == 0 && i0.Panic == ""
		}
		rs := readerSpec{Data: data, Sched: makeSched(rg, rg.intn(9), len(data))}
		var base decOut
		var sr specResult
		for k, op := range allOpts {
			c := streamCase{s, rs}
			var impl, model decOut
			var ok bool
			if mode == "ok" {
				impl, model, sr, ok = decodeAndJudge(r, w, c, op, "", false)
				if !ok {
					return 2
				}
			} else {
				var err error
				impl, model, err = w.decode("D", op, rs)
				if err != nil {
					return 2
				}
				r.Traces++
				if impl.observable() != model.observable() {
					r.corrFail("decode_opts", fmt.Sprintf("model and implementation differ (%s, options %s)\n    impl : %.500s\n    model: %.500s", mode, op, impl.observable(), model.observable()),
						map[string]interface{}{"entry": "Decode", "options": op.String(), "input_hex": hexs(data), "records": s.specArgs()})
				}
			}
			rep := map[string]interface{}{"entry": "Decode", "options": op.String(), "stream": s, "records": s.specArgs(), "input_hex": hexs(data), "mode": mode}
			// options never change messages, error, bytes consumed
			proj := func(o decOut) string {
				f := ""
				if len(o.Files) > 0 {
					f = o.Files[0]
					if k := strings.Index(f, ";UM"); k >= 0 {
						f = f[:k]
					}
					// the eight decodes of one stream run in one process: the Distance accumulated from
					// compressed_speed_distance continues from run to run (known finding of C08/C18, not an
					// effect of the options)
					f = maskAccumText(f)
				}
				return fmt.Sprintf("panic=%v err=%d pos=%d %s", o.Panic != "", o.ErrClass, o.Pos, f)
			}
			if k == 0 {
				base = impl
			} else if proj(impl) != proj(base) {
				r.specFail("options_change_result", fmt.Sprintf("options %s change the decoded messages, the error or the bytes consumed\n    none: %.400s\n    with: %.400s", op, proj(base), proj(impl)), rep)
			}
			if len(impl.Raw) == 1 && impl.Raw[0] != nil {
				f := impl.Raw[0]
				// lists present iff requested
				if (f.UnknownMessages != nil) != op.UnkM || (f.UnknownFields != nil) != op.UnkF {
					r.specFail("lists_presence", fmt.Sprintf("options %s: UnknownMessages nil=%v UnknownFields nil=%v", op, f.UnknownMessages == nil, f.UnknownFields == nil), rep)
				}
				for a := 1; a < len(f.UnknownMessages); a++ {
					if !(f.UnknownMessages[a-1].MesgNum < f.UnknownMessages[a].MesgNum) {
						r.specFail("lists_sorted", "UnknownMessages is not strictly sorted by message number", rep)
					}
				}
				for a := 1; a < len(f.UnknownFields); a++ {
					x, y := f.UnknownFields[a-1], f.UnknownFields[a]
					if !(x.MesgNum < y.MesgNum || (x.MesgNum == y.MesgNum && x.FieldNum < y.FieldNum)) {
						r.specFail("lists_sorted", "UnknownFields is not strictly sorted by (message, field)", rep)
					}
				}
				um, uf := canonUnknown(f)
				if mode == "ok" && impl.ErrClass == 0 && sr.InDomain {
					if op.UnkM && um != sr.UM {
						r.specFail("unknown_message_counts", fmt.Sprintf("unknown-message counts %s, the stream has %s\n    records: %.500s", um, sr.UM, s.specArgs()), rep)
					}
					if op.UnkF && uf != sr.UF {
						r.specFail("unknown_field_counts", fmt.Sprintf("unknown-field counts %s, the stream has %s\n    records: %.500s", uf, sr.UF, s.specArgs()), rep)
					}
				}
				if impl.ErrClass != 0 && (op.UnkM || op.UnkF) && originalOK && mode != "ok" {
					// part-way failure: the lists account for every completed record: compare with the
					// reference semantics of the longest prefix of whole records that fits the bytes read
					lo, hi := prefixCounts(w.d, s, len(data))
					if lo.InDomain {
						if op.UnkM && !countsBetween(um, lo.UM, hi.UM) {
							r.specFail("unknown_counts_on_failure", fmt.Sprintf("after a part-way failure the unknown-message counts %s do not account for the completed records (%s .. %s)", um, lo.UM, hi.UM), rep)
						}
						if op.UnkF && !countsBetween(uf, lo.UF, hi.UF) {
							r.specFail("unknown_counts_on_failure", fmt.Sprintf("after a part-way failure the unknown-field counts %s do not account for the completed records (%s .. %s)", uf, lo.UF, hi.UF), rep)
						}
					}
				}
				if k == 7 {
					r.count(hexs(data), um != "()" || uf != "()")
				}
			} else if k == 7 {
				r.count(hexs(data), false)
			}
		}
		if i < 2 {
			r.sample(map[string]interface{}{"records": s.specArgs(), "mode": mode})
		}
	}
	// the lists are returned on DecodeChained's error path too: a chain whose LAST file fails part-way returns that
	// file's partial File with the same lists Decode returns for it alone (same option values)
	for i := 0; i < n/25; i++ {
		cfg.illFormed = 0
		s1 := genStream(rg, &cfg, st)
		s2 := genStream(rg, &cfg, st)
		d2 := s2.bytes()
		if len(d2) < 40 {
			continue
		}
		d2 = d2[:20+rg.intn(len(d2)-22)] // cut inside the data or the checksum
		opts := optSet{false, true, true}
		solo, msolo, err := w.decode("D", opts, readerSpec{Data: d2})
		if err != nil {
			return 2
		}
		i1, m1, err := w.decode("D", opts, readerSpec{Data: s1.bytes()})
		if err != nil {
			return 2
		}
		if i1.ErrClass != 0 || solo.ErrClass == 0 || len(solo.Raw) != 1 || solo.Raw[0] == nil {
			continue
		}
		chain := append(append([]byte{}, s1.bytes()...), d2...)
		ic, mc, err := w.decode("C", opts, readerSpec{Data: chain})
		if err != nil {
			return 2
		}
		rep := map[string]interface{}{"entry": "DecodeChained", "options": opts.String(), "input_hex": hexs(chain), "records_file1": s1.specArgs(), "records_file2_truncated": s2.specArgs(), "file2_bytes": len(d2)}
		if solo.observableMasked() != msolo.observableMasked() || i1.observableMasked() != m1.observableMasked() || ic.observableMasked() != mc.observableMasked() {
			r.corrFail("decode_opts_chain", "model and implementation differ on a chain whose last file is cut", rep)
		}
		if ic.ErrClass == 0 || len(ic.Raw) != 2 || ic.Raw[1] == nil {
			continue // judged by C11
		}
		um1, uf1 := canonUnknown(solo.Raw[0])
		um2, uf2 := canonUnknown(ic.Raw[1])
		if um1 != um2 || uf1 != uf2 || (ic.Raw[1].UnknownMessages == nil) != (solo.Raw[0].UnknownMessages == nil) || (ic.Raw[1].UnknownFields == nil) != (solo.Raw[0].UnknownFields == nil) {
			r.specFail("lists_on_chained_failure", fmt.Sprintf("DecodeChained returns the partial File of a failing last file with unknown lists %s %s (nil: %v %v); Decode on that file alone returns %s %s", um2, uf2, ic.Raw[1].UnknownMessages == nil, ic.Raw[1].UnknownFields == nil, um1, uf1), rep)
		}
		r.count("chainfail"+fmt.Sprint(i), true)
		r.hist("chained_failure_lists")
	}
	mergeStats(r, st)
	return r.finish()
}

func canonUnknown(f *fit.File) (string, string) {
	var a, b []string
	for _, u := range f.UnknownMessages {
		a = append(a, fmt.Sprintf("%d:%d", u.MesgNum, u.Count))
	}
	for _, u := range f.UnknownFields {
		b = append(b, fmt.Sprintf("%d.%d:%d", u.MesgNum, u.FieldNum, u.Count))
	}
	return "(" + strings.Join(a, ",") + ")", "(" + strings.Join(b, ",") + ")"
}

// prefixCounts: reference counts for the records wholly contained in the
// first n bytes of the framed stream (lower bound) and for those plus the
// record in flight (upper bound).
func prefixCounts(d *driver, s *stream, n int) (specResult, specResult) {
	off := int(s.HdrSize)
	k := 0
	for k < len(s.Records) {
		l := len(s.Records[k].bytes())
		if off+l > n {
			break
		}
		off += l
		k++
	}
	lo := &stream{Records: s.Records[:k]}
	hiN := k + 1
	if hiN > len(s.Records) {
		hiN = len(s.Records)
	}
	hi := &stream{Records: s.Records[:hiN]}
	a, _ := askSpec(d, lo)
	b, _ := askSpec(d, hi)
	if !b.InDomain {
		b = a
	}
	return a, b
}

func parseCounts(s string) map[string]int {
	out := map[string]int{}
	s = strings.Trim(s, "()")
	if s == "" {
		return out
	}
	for _, e := range strings.Split(s, ",") {
		kv := strings.Split(e, ":")
		n := 0
		fmt.Sscanf(kv[1], "%d", &n)
		out[kv[0]] = n
	}
	return out
}

func countsBetween(got, lo, hi string) bool {
	g, l, h := parseCounts(got), parseCounts(lo), parseCounts(hi)
	for k, v := range l {
		if g[k] < v {
			return false
		}
	}
	for k, v := range g {
		if v > h[k] {
			return false
		}
	}
	return true
}
