package main

import (
	"bytes"
	"fmt"
	"io"
	"strconv"
	"strings"
	"testing/iotest"

	"github.com/tormoder/fit/dyncrc16"
)

// C14: the checksum is CRC-16/ARC and does not depend on how data is fed.
// Correspondence: the real updateByte (hook) against the extracted model, row
// by row; spec oracle: the bitwise CRC-16/ARC evaluated against the real
// code; streaming interface under random partitions, Reset, residue.

func init() { register("c14", runC14) }

func runC14(args []string) int {
	o := parseRunOpts("c14", args)
	r := newReport("C14", o)
	r.Rule = "transitions: rows of 256 (state c, byte d) pairs of the real updateByte compared with the extracted model and the bitwise spec; " +
		"streams: random byte strings x random partitions through New/Write/Sum16/Reset/Checksum; non-trivial = result differs from the input state (transition) or string non-empty (stream); distinct by (c,d) / by content+partition"
	d, err := startDriver(o.driver)
	if err != nil {
		fmt.Println("driver:", err)
		return 2
	}
	defer d.close()
	rg := newRng(o.seed)

	// --- transitions
	var rows []int
	if o.tier == "thorough" || o.boost > 1 {
		for c := 0; c < 65536; c++ {
			rows = append(rows, c)
		}
		r.Exhaustive = true
	} else {
		seen := map[int]bool{}
		add := func(c int) {
			if !seen[c] {
				seen[c] = true
				rows = append(rows, c)
			}
		}
		for c := 0; c < 65536; c += 37 { // stride
			add(c)
		}
		for i := 0; i < 16; i++ { // basis vectors of the linear map
			add(1 << i)
		}
		add(0)
		add(65535)
		for i := 0; i < 3000; i++ {
			add(rg.intn(65536))
		}
	}
	reqM := make([]string, len(rows))
	reqS := make([]string, len(rows))
	for i, c := range rows {
		reqM[i] = "crc_row " + strconv.Itoa(c)
		reqS[i] = "crc_arcrow " + strconv.Itoa(c)
	}
	respM, err := d.batch(reqM)
	if err != nil {
		fmt.Println("driver:", err)
		return 2
	}
	respS, err := d.batch(reqS)
	if err != nil {
		fmt.Println("driver:", err)
		return 2
	}
	for i, c := range rows {
		var sb strings.Builder
		for dd := 0; dd < 256; dd++ {
			v := dyncrc16.VerifUpdateByte(uint16(c), byte(dd))
			fmt.Fprintf(&sb, "%04x", v)
			r.count(fmt.Sprintf("t%d,%d", c, dd), int(v) != c)
		}
		impl := sb.String()
		r.hist("transition_rows")
		if impl != respS[i] {
			dd := firstDiff(impl, respS[i]) / 4
			got, _ := strconv.ParseUint(impl[dd*4:dd*4+4], 16, 16)
			want := "?"
			if len(respS[i]) >= dd*4+4 {
				want = respS[i][dd*4 : dd*4+4]
			}
			r.specFail("update_byte", fmt.Sprintf("updateByte(0x%04x, 0x%02x) = 0x%04x, CRC-16/ARC step gives 0x%s", c, dd, got, want),
				map[string]interface{}{"entry": "dyncrc16.updateByte", "c": c, "d": dd, "observed": got, "expected_hex": want})
		}
		if impl != respM[i] {
			dd := firstDiff(impl, respM[i]) / 4
			r.corrFail("update_byte", fmt.Sprintf("model update_byte differs from updateByte at c=0x%04x d=0x%02x", c, dd),
				map[string]interface{}{"entry": "dyncrc16.updateByte", "c": c, "d": dd})
		}
		if i < 2 {
			r.sample(map[string]interface{}{"kind": "transition_row", "c": c, "impl_first8": impl[:32]})
		}
	}

	// --- streams
	nstreams := 3000
	if o.tier == "thorough" {
		nstreams = 200000
	}
	nstreams *= o.boost
	golden := [][]byte{[]byte("123456789"), {}, {0}, {0xff}, []byte("The quick brown fox jumps over the lazy dog")}
	type streamCase struct {
		data  []byte
		parts [][]byte
		junk  []byte
	}
	var cases []streamCase
	bigLeft := 5
	if o.tier == "thorough" {
		bigLeft = 40
	}
	for i := 0; i < nstreams; i++ {
		var data []byte
		if i < len(golden) {
			data = golden[i]
		} else {
			var n int
			switch rg.intn(10) {
			case 0:
				n = rg.intn(4)
				if bigLeft > 0 {
					// single writes around and beyond 2^16 bytes (length counters narrower than int)
					bigLeft--
					n = []int{65535, 65536, 65537, 131072, 196613}[bigLeft%5]
				}
			case 1:
				n = 4090 + rg.intn(20)
			default:
				n = rg.intn(300)
			}
			data = rg.bytes(n)
			if rg.chance(1, 8) { // low-entropy strings
				for j := range data {
					data[j] &= 1
				}
			}
		}
		var parts [][]byte
		rest := data
		for len(rest) > 0 {
			k := 1 + rg.intn(len(rest))
			if rg.chance(1, 3) {
				k = 1 + rg.intn(3)
				if k > len(rest) {
					k = len(rest)
				}
			}
			if rg.chance(1, 10) {
				parts = append(parts, []byte{}) // empty write
			}
			parts = append(parts, rest[:k])
			rest = rest[k:]
		}
		cases = append(cases, streamCase{data, parts, rg.bytes(rg.intn(20))})
	}
	var reqs []string
	for _, c := range cases {
		ps := make([]string, len(c.parts))
		for i, p := range c.parts {
			ps[i] = hexOrDash(p)
		}
		reqs = append(reqs, "crc_parts "+strings.Join(ps, " "))
		reqs = append(reqs, "crc_arcsum "+hexOrDash(c.data))
	}
	resp, err := d.batch(reqs)
	if err != nil {
		fmt.Println("driver:", err)
		return 2
	}
	for i, c := range cases {
		whole := dyncrc16.Checksum(c.data)
		h := dyncrc16.New()
		for pi, p := range c.parts {
			h.Write(p)
			// observing the running sum between writes must not disturb it (the streaming state is just the register)
			if (pi+len(c.data))%3 == 0 {
				before := h.Sum16()
				got := h.Sum([]byte{0xAB})
				h.Size()
				h.BlockSize()
				if len(got) != 3 || got[0] != 0xAB || got[1] != byte(before>>8) || got[2] != byte(before) || h.Sum16() != before {
					r.specFail("observer", fmt.Sprintf("Sum/Size/BlockSize between writes disturb or misreport the running sum (0x%04x before, Sum gives %x, 0x%04x after)", before, got, h.Sum16()),
						map[string]interface{}{"entry": "dyncrc16.Write/Sum", "data_hex": hexs(c.data), "partition": partLens(c.parts), "after_write": pi})
				}
			}
		}
		parts := h.Sum16()
		// fed through io.Copy / io.CopyN from readers with different Read behaviours (if the hasher implements
		// io.ReaderFrom, io.Copy uses it): whole reads, one byte at a time, half reads, data together with io.EOF
		if i%4 == 0 {
			for fi, mk := range []func([]byte) io.Reader{
				func(b []byte) io.Reader { return bytes.NewReader(b) },
				func(b []byte) io.Reader { return iotest.OneByteReader(bytes.NewReader(b)) },
				func(b []byte) io.Reader { return iotest.HalfReader(bytes.NewReader(b)) },
				func(b []byte) io.Reader { return iotest.DataErrReader(bytes.NewReader(b)) },
			} {
				hc := dyncrc16.New()
				var err error
				if fi%2 == 0 {
					_, err = io.Copy(hc, mk(c.data))
				} else {
					_, err = io.CopyN(hc, mk(c.data), int64(len(c.data)))
				}
				if err != nil || hc.Sum16() != whole {
					r.specFail("feeder", fmt.Sprintf("io.Copy/io.CopyN of %d bytes into the hasher (reader kind %d) gives 0x%04x (err %v), a single write gives 0x%04x", len(c.data), fi, hc.Sum16(), err, whole),
						map[string]interface{}{"entry": "io.Copy(dyncrc16.New(), reader)", "data_hex": hexs(c.data), "reader_kind": fi})
				}
			}
			// and through io.WriteString (a hasher may implement io.StringWriter)
			hs := dyncrc16.New()
			if _, err := io.WriteString(hs, string(c.data)); err != nil || hs.Sum16() != whole {
				r.specFail("feeder", fmt.Sprintf("io.WriteString of %d bytes into the hasher gives 0x%04x (err %v), a single write gives 0x%04x", len(c.data), hs.Sum16(), err, whole),
					map[string]interface{}{"entry": "io.WriteString(dyncrc16.New(), s)", "data_hex": hexs(c.data)})
			}
			r.hist("fed_through_io_copy")
		}
		h2 := dyncrc16.New()
		h2.Write(c.junk)
		h2.Reset()
		h2.Write(c.data)
		afterReset := h2.Sum16()
		residue := dyncrc16.Checksum(append(append([]byte{}, c.data...), byte(whole), byte(whole>>8)))
		modelParts, _ := strconv.Atoi(resp[2*i])
		specSum, _ := strconv.Atoi(resp[2*i+1])
		key := fmt.Sprintf("s%x|%d", c.data, len(c.parts))
		r.count(key, len(c.data) > 0)
		r.hist(fmt.Sprintf("stream_len_%s", bucket(len(c.data))))
		r.hist(fmt.Sprintf("stream_parts_%s", bucket(len(c.parts))))
		rep := map[string]interface{}{"entry": "dyncrc16.New/Write/Sum16/Reset/Checksum", "data_hex": hexs(c.data), "partition": partLens(c.parts), "junk_hex": hexs(c.junk)}
		if int(whole) != specSum {
			r.specFail("checksum", fmt.Sprintf("Checksum(%x) = 0x%04x, CRC-16/ARC is 0x%04x", c.data, whole, specSum), rep)
		}
		if parts != whole {
			r.specFail("partition", fmt.Sprintf("writes %v of %x sum to 0x%04x, single write gives 0x%04x", partLens(c.parts), c.data, parts, whole), rep)
		}
		if afterReset != whole {
			r.specFail("reset", fmt.Sprintf("after Reset the sum of %x is 0x%04x, expected 0x%04x", c.data, afterReset, whole), rep)
		}
		if residue != 0 {
			r.specFail("residue", fmt.Sprintf("Checksum(data ++ le(sum)) = 0x%04x for data %x, expected 0", residue, c.data), rep)
		}
		if int(parts) != modelParts {
			r.corrFail("partition", fmt.Sprintf("model Write sequence gives 0x%04x, implementation 0x%04x for %x", modelParts, parts, c.data), rep)
		}
		if i >= len(golden) && i < len(golden)+2 {
			r.sample(map[string]interface{}{"kind": "stream", "data_hex": hexs(c.data), "partition": partLens(c.parts), "sum": whole})
		}
		r.Traces++
	}
	// --- very large single pieces (0.25 .. 8 MB, odd and even lengths, lengths that are and are not multiples of
	// 8 and of the block sizes a parallel or word-at-a-time implementation would use): one Write and the one-shot
	// Checksum against the same bytes fed in pieces of at most 4 kB (the path compared with the model above) and
	// against a bit-at-a-time CRC-16/ARC computed here; too large to send through the model co-process
	bigSizes := []int{262143, 262144, 262145, 300000, 300001, 524287, 524288, 524289, 1000003, 1 << 20, 1<<20 + 1}
	if o.tier == "thorough" || o.boost > 1 {
		bigSizes = append(bigSizes, 1<<21+1, 1<<22, 1<<22+3, 1<<23+5, 3*(1<<20)+7)
	}
	for k := 0; k < 4; k++ {
		bigSizes = append(bigSizes, 250000+rg.intn(900000))
	}
	for _, n := range bigSizes {
		data := rg.bytes(n)
		ref := uint16(0)
		for _, b := range data {
			ref ^= uint16(b)
			for j := 0; j < 8; j++ {
				if ref&1 != 0 {
					ref = ref>>1 ^ 0xA001
				} else {
					ref >>= 1
				}
			}
		}
		whole := dyncrc16.Checksum(data)
		h1 := dyncrc16.New()
		h1.Write(data)
		hp := dyncrc16.New()
		for rest := data; len(rest) > 0; {
			m := 1 + rg.intn(4096)
			if m > len(rest) {
				m = len(rest)
			}
			hp.Write(rest[:m])
			rest = rest[m:]
		}
		residue := dyncrc16.Checksum(append(append([]byte{}, data...), byte(whole), byte(whole>>8)))
		rep := map[string]interface{}{"entry": "dyncrc16.Checksum / Write of one large piece", "length": n, "data_first_32_hex": hexs(data[:32]), "data_is": "pseudo-random bytes; any content of this length shows the difference",
			"checksum": whole, "single_write": h1.Sum16(), "pieces_up_to_4096": hp.Sum16(), "crc16_arc": ref}
		r.count(fmt.Sprintf("big%d|%x", n, data[:16]), true)
		r.hist("large_single_pieces")
		if whole != ref {
			r.specFail("checksum", fmt.Sprintf("Checksum of %d bytes = 0x%04x, CRC-16/ARC is 0x%04x", n, whole, ref), rep)
		}
		if h1.Sum16() != hp.Sum16() || h1.Sum16() != ref {
			r.specFail("partition", fmt.Sprintf("one Write of %d bytes sums to 0x%04x, the same bytes in pieces of at most 4096 give 0x%04x (CRC-16/ARC 0x%04x)", n, h1.Sum16(), hp.Sum16(), ref), rep)
		}
		if residue != 0 {
			r.specFail("residue", fmt.Sprintf("Checksum(data ++ le(sum)) = 0x%04x for %d bytes of data, expected 0", residue, n), rep)
		}
		r.Traces++
	}
	return r.finish()
}

func firstDiff(a, b string) int {
	n := len(a)
	if len(b) < n {
		n = len(b)
	}
	for i := 0; i < n; i++ {
		if a[i] != b[i] {
			return i
		}
	}
	return n
}

func hexOrDash(b []byte) string {
	if len(b) == 0 {
		return "-"
	}
	return hexs(b)
}

func partLens(p [][]byte) []int {
	out := make([]int, len(p))
	for i := range p {
		out[i] = len(p[i])
	}
	return out
}

func bucket(n int) string {
	switch {
	case n == 0:
		return "0"
	case n <= 3:
		return "1-3"
	case n <= 15:
		return "4-15"
	case n <= 255:
		return "16-255"
	case n <= 4095:
		return "256-4095"
	default:
		return "4096+"
	}
}
