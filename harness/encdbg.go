package main

import (
	"fmt"
	"os"
	"time"
)

// encdbg <file.fit>: development aid -- time each driver request of one C07 chain.
func init() { register("encdbg", runEncDbg) }

func runEncDbg(args []string) int {
	o := parseRunOpts("encdbg", args[1:])
	d, err := startDriver(o.driver)
	if err != nil {
		fmt.Println(err)
		return 2
	}
	defer d.close()
	w := newWorld(d)
	data, err := os.ReadFile(args[0])
	if err != nil {
		fmt.Println(err)
		return 2
	}
	t := time.Now()
	f1, impl, model, err := w.decodeKeep(data)
	fmt.Printf("decode impl+model %.2fs err=%v agree=%v\n", time.Since(t).Seconds(), err, impl.observable() == model.observable())
	if f1 == nil {
		return 0
	}
	before := canonFile(f1)
	fmt.Println("canon bytes", len(before))
	t = time.Now()
	resp, _ := d.ask("enc 0 " + before)
	fmt.Printf("enc model %.2fs resp=%d\n", time.Since(t).Seconds(), len(resp))
	out := implEncode(f1, (&fileCase{}).arch())
	t = time.Now()
	f2, impl2, _, _ := w.decodeKeep(out.Bytes)
	fmt.Printf("decode2 %.2fs\n", time.Since(t).Seconds())
	_ = f2
	t = time.Now()
	resp, _ = d.ask("c07 " + before + " " + impl2.Files[0])
	fmt.Printf("c07 %.2fs %s\n", time.Since(t).Seconds(), resp)
	t = time.Now()
	resp, _ = d.ask("fecho " + before)
	fmt.Printf("fecho %.2fs same=%v\n", time.Since(t).Seconds(), resp == before)
	return 0
}
