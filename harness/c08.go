package main

import (
	"bytes"
	"encoding/binary"
	"encoding/hex"
	"encoding/json"
	"fmt"
	"os"
	"os/exec"
	"path/filepath"
	"reflect"
	"sort"
	"strings"
	"sync"

	"github.com/tormoder/fit"
	"github.com/tormoder/fit/internal/types"
)

// C08: results do not depend on call history.
//
// Histories: random sequences of Decode / DecodeChained / Encode calls over a
// pool of inputs, run in THIS process.  Every result (canonical form; for
// Encode the bytes written and the decoded content of those bytes) is compared
//   - with the same call made FIRST in a FRESH process (`vh c08-child`, one
//     process per distinct call, cached): the property itself;
//   - with the model's history semantics (the extracted decoder, accumulator
//     state threaded from call to call): correspondence.
// A difference from the fresh result is a violation unless the model, run
// fresh, says the input has a compressed_speed_distance source (outside the
// domain of C08_history_free) AND the model run with the threaded state
// reproduces what the implementation returned: then it is the known finding
// accum_history.  Encode is additionally repeated 50 times per File for byte
// identity.  The witness of C08_history_dependence_refuted is replayed in a
// fresh process at the end.

func init() {
	register("c08", runC08)
	register("c08-child", runC08Child)
}

type c08Input struct {
	ID       string `json:"id"`
	Kind     string `json:"kind"` // stream | file
	Hex      string `json:"data_hex,omitempty"`
	FileSeed uint64 `json:"file_seed,omitempty"`
	AllowCsd bool   `json:"allow_csd,omitempty"`
	BE       bool   `json:"big_endian,omitempty"`
	OverLong bool   `json:"over_long,omitempty"` // strings / arrays longer than the profile length, invalid UTF-8, NUL (Encode truncates or fails)
	Origin   string `json:"origin,omitempty"`
	data     []byte
}

type c08Call struct {
	Entry string   `json:"entry"` // D Decode, C DecodeChained, E Encode
	Opts  optSet   `json:"opts"`
	In    c08Input `json:"input"`
}

func (c c08Call) key() string { return c.Entry + "|" + c.Opts.String() + "|" + c.In.ID }

// c08Obs is what a caller can observe of one call.
type c08Obs struct {
	Main    string `json:"main"`              // Decode*: error class, position, Files; Encode: error class and bytes
	Decoded string `json:"decoded,omitempty"` // Encode: Decode of the bytes written
	EncHex  string `json:"-"`
}

// obsWithShape: the observable of a decoding call plus, for "deeply equal", which slices of the returned Files are
// nil and which are empty but allocated (the canonical text does not tell them apart): compared between the
// implementation in a history and the implementation in a fresh process only.
func obsWithShape(o decOut) string {
	var sb strings.Builder
	sb.WriteString(o.observable())
	sb.WriteString(" shape=")
	for _, f := range o.Raw {
		sb.WriteString(nilShape(f))
		sb.WriteByte('/')
	}
	return sb.String()
}

func nilShape(f *fit.File) (out string) {
	if f == nil {
		return "nil"
	}
	defer func() {
		if rec := recover(); rec != nil {
			out += "!panic"
		}
	}()
	var sb strings.Builder
	var walk func(v reflect.Value, depth int)
	walk = func(v reflect.Value, depth int) {
		switch v.Kind() {
		case reflect.Ptr:
			if !v.IsNil() && depth < 4 {
				walk(v.Elem(), depth+1)
			}
		case reflect.Struct:
			if v.Type().String() == "time.Time" {
				return
			}
			for i := 0; i < v.NumField(); i++ {
				if v.Type().Field(i).PkgPath == "" {
					walk(v.Field(i), depth)
				}
			}
		case reflect.Slice:
			switch {
			case v.IsNil():
				sb.WriteByte('n')
			case v.Len() == 0:
				sb.WriteByte('e')
			default:
				sb.WriteByte('s')
				if k := v.Type().Elem().Kind(); k == reflect.Ptr || k == reflect.Struct {
					for i := 0; i < v.Len(); i++ {
						walk(v.Index(i), depth+1)
					}
				}
			}
		}
	}
	walk(reflect.ValueOf(f).Elem(), 0)
	if c := containerOf(f); c.IsValid() {
		walk(c, 0)
	}
	return sb.String()
}

func c08GenFile(in c08Input) *fileCase {
	cfg := &fileGenCfg{inDomain: !in.OverLong, allowCsd: in.AllowCsd, maxPerSlt: 5}
	fc := genFile(newRng(in.FileSeed), cfg, genStats{})
	fc.BE = in.BE
	// deterministic in the seed: most Files name a product (so that Files
	// share a populated string field); over-long Files get strings and arrays
	// stretched beyond the profile length (Encode cuts them)
	rg := newRng(in.FileSeed ^ 0x5bd1e995)
	if fc.File.FileId.ProductName == "" && rg.chance(2, 3) {
		fc.File.FileId.ProductName = "p" + string(rune('a'+rg.intn(26)))
	}
	if in.OverLong {
		c08Stretch(fc.File, rg)
	}
	return fc
}

// c08Stretch lengthens populated strings and arrays of the File's messages
// beyond the length the profile gives their field.
func c08Stretch(f *fit.File, rg *rng) {
	stretch := func(v reflect.Value) {
		if v.Kind() == reflect.Ptr {
			if v.IsNil() {
				return
			}
			v = v.Elem()
		}
		if v.Kind() != reflect.Struct {
			return
		}
		mn := uint16(fit.VerifGetGlobalMesgNum(v.Type()))
		for i := 0; i < v.NumField(); i++ {
			fv := v.Field(i)
			if !fv.CanSet() {
				continue
			}
			pf := pfieldBySindex(mn, i)
			if pf == nil {
				continue
			}
			L := int(pf.Length)
			switch {
			case fv.Kind() == reflect.String && fv.Len() > 0 && rg.chance(1, 2):
				b := []byte(fv.String())
				for n := L + rg.intn(30); len(b) <= n; {
					b = append(b, byte('a'+rg.intn(26)))
				}
				fv.SetString(string(b))
			case fv.Kind() == reflect.Slice && fv.Len() > 0 && fv.Type().Elem().Kind() != reflect.String && rg.chance(1, 3):
				for n := L + 1 + rg.intn(8); fv.Len() < n && fv.Len() < 255; {
					fv.Set(reflect.Append(fv, fv.Index(rg.intn(fv.Len()))))
				}
			}
		}
	}
	stretch(reflect.ValueOf(&f.FileId))
	stretch(reflect.ValueOf(f.FileCreator))
	stretch(reflect.ValueOf(f.TimestampCorrelation))
	cont := containerOf(f)
	if !cont.IsValid() || cont.IsNil() {
		return
	}
	cv := cont.Elem()
	for i := 0; i < cv.NumField(); i++ {
		fld := cv.Field(i)
		switch fld.Kind() {
		case reflect.Ptr:
			stretch(fld)
		case reflect.Slice:
			for j := 0; j < fld.Len(); j++ {
				stretch(fld.Index(j))
			}
		}
	}
}

func c08Encode(fc *fileCase) (string, []byte) {
	var out string
	var data []byte
	func() {
		defer func() {
			if r := recover(); r != nil {
				out = "PANIC"
			}
		}()
		var buf bytes.Buffer
		var arch binary.ByteOrder = binary.LittleEndian
		if fc.BE {
			arch = binary.BigEndian
		}
		err := fit.Encode(&buf, fc.File, arch)
		data = buf.Bytes()
		out = fmt.Sprintf("err=%d bytes=%s hdr=%s crc=%d", errClass(err), hex.EncodeToString(data), canonHeader(fc.File.Header), fc.File.CRC)
	}()
	return out, data
}

// c08ImplCall runs one call on the implementation only (used by the child).
func c08ImplCall(c c08Call) c08Obs {
	switch c.Entry {
	case "D", "C":
		o := implDecode(c.Entry, c.Opts, readerSpec{Data: c.In.data})
		return c08Obs{Main: obsWithShape(o)}
	case "E":
		main, data := c08Encode(c08GenFile(c.In))
		o := implDecode("D", optSet{}, readerSpec{Data: data})
		return c08Obs{Main: main, Decoded: obsWithShape(o), EncHex: hex.EncodeToString(data)}
	}
	return c08Obs{Main: "bad entry"}
}

// child: {"history":[calls]} on stdin; runs them in order in this fresh
// process and prints the observation of each.
func runC08Child(args []string) int {
	var req struct {
		History []c08Call `json:"history"`
	}
	if err := json.NewDecoder(os.Stdin).Decode(&req); err != nil {
		fmt.Fprintln(os.Stderr, "c08-child:", err)
		return 2
	}
	var out []c08Obs
	for _, c := range req.History {
		c.In.data, _ = hex.DecodeString(c.In.Hex)
		out = append(out, c08ImplCall(c))
	}
	json.NewEncoder(os.Stdout).Encode(out)
	return 0
}

func c08RunChild(history []c08Call) ([]c08Obs, error) {
	self, err := os.Executable()
	if err != nil {
		return nil, err
	}
	b, _ := json.Marshal(map[string]interface{}{"history": history})
	cmd := exec.Command(self, "c08-child")
	cmd.Stdin = bytes.NewReader(b)
	cmd.Stderr = os.Stderr
	outb, err := cmd.Output()
	if err != nil {
		return nil, fmt.Errorf("c08-child: %v", err)
	}
	var out []c08Obs
	if err := json.Unmarshal(outb, &out); err != nil {
		return nil, err
	}
	if len(out) != len(history) {
		return nil, fmt.Errorf("c08-child returned %d results for %d calls", len(out), len(history))
	}
	return out, nil
}

// componentStream: an activity or course file whose record messages carry the
// accumulated component sources chosen.
func c08ComponentStream(rg *rng, useCsd, useCyc, usePow bool) *stream {
	ft := []byte{4, 6}[rg.intn(2)]
	s := &stream{HdrSize: 14, Proto: 0x20, Profile: 2115, HdrCRC: "ok"}
	s.Records = append(s.Records,
		record{Kind: "D", Local: 0, Gmn: 0, Fields: []fieldDefS{{0, 1, 0}}},
		record{Kind: "M", Local: 0, Pay: []byte{ft}})
	def := record{Kind: "D", Local: 1, Gmn: uint16(fit.MesgNumRecord)}
	def.Fields = append(def.Fields, fieldDefS{3, 1, 0x02}) // heart_rate
	if useCsd {
		def.Fields = append(def.Fields, fieldDefS{8, 3, 0x0D})
	}
	if useCyc {
		def.Fields = append(def.Fields, fieldDefS{18, 1, 0x02})
	}
	if usePow {
		def.Fields = append(def.Fields, fieldDefS{28, 2, 0x84})
	}
	s.Records = append(s.Records, def)
	n := 2 + rg.intn(6)
	dist := rg.intn(4096)
	for i := 0; i < n; i++ {
		pay := []byte{byte(60 + rg.intn(120))}
		if useCsd {
			if rg.chance(1, 8) {
				pay = append(pay, 0xFF, 0xFF, 0xFF)
			} else {
				dist = (dist + 1 + rg.intn(300)) % 4096
				sp := rg.intn(4096)
				pay = append(pay, byte(sp), byte(sp>>8)|byte(dist&0xF)<<4, byte(dist>>4))
			}
		}
		if useCyc {
			pay = append(pay, byte(rg.intn(255)))
		}
		if usePow {
			p := rg.intn(65535)
			pay = append(pay, byte(p), byte(p>>8))
		}
		s.Records = append(s.Records, record{Kind: "M", Local: 1, Pay: pay})
	}
	s.fillHex()
	return s
}

var c08WitnessHex = "0c105c081c0000002e464954400000000001000100000441000014000108030d011020030110400662af"
var c08CyclesHex = "0c105c08180000002e46495440000000000100010000044100001400011201020105010996d7"
var c08PlainHex = "0c105c081c0000002e464954400000000001000100000441000014000108030d01ffffff01ffffffbe9d"

const c08ModelMax = 6200 // bytes: larger inputs are run on the implementation only

func runC08(args []string) int {
	o := parseRunOpts("c08", args)
	r := newReport("C08", o)
	r.Rule = "a call is nontrivial if it returned at least one File (Decode/DecodeChained) or wrote bytes (Encode); histories are sequences of calls in one process, each result compared with the same call made first in a fresh process and with the model's threaded-state semantics"
	d, err := startDriver(o.driver)
	if err != nil {
		fmt.Println("driver:", err)
		return 2
	}
	defer d.close()
	rg := newRng(o.seed)
	st := genStats{}

	if o.replay != "" {
		return c08Replay(o, r)
	}

	// ------------------------------------------------------------ the pool
	var streams []c08Input
	addStream := func(id, origin string, data []byte) {
		streams = append(streams, c08Input{ID: id, Kind: "stream", Hex: hex.EncodeToString(data), Origin: origin, data: data})
	}
	for _, w := range []struct{ id, hx string }{{"witness_csd", c08WitnessHex}, {"witness_cycles", c08CyclesHex}, {"witness_plain", c08PlainHex}} {
		b, _ := hex.DecodeString(w.hx)
		addStream(w.id, "witness", b)
	}
	nGen, nComp, nFiles := 40, 14, 24
	if o.tier == "thorough" {
		nGen, nComp, nFiles = 300, 60, 60
	}
	for i := 0; i < nGen; i++ {
		cfg := defaultCfg()
		if i%4 == 0 {
			cfg.illFormed = 60
		}
		s := genStream(rg.fork(), &cfg, st)
		addStream(fmt.Sprintf("gen%d", i), "generated", s.bytes())
	}
	for i := 0; i < nComp; i++ {
		useCsd, useCyc, usePow := i%2 == 0, rg.chance(1, 2), rg.chance(1, 3)
		s := c08ComponentStream(rg.fork(), useCsd, useCyc, usePow)
		addStream(fmt.Sprintf("comp%d_csd%v_cyc%v_pow%v", i, useCsd, useCyc, usePow), "component", s.bytes())
	}
	// bare files: a file_id message and nothing else, one per file type -- every container slice stays as File.init
	// left it, whatever earlier calls returned
	for _, ft := range profile().validFts {
		s := &stream{HdrSize: 14, Proto: 0x20, Profile: 2115, HdrCRC: "ok"}
		s.Records = []record{{Kind: "D", Local: 0, Gmn: 0, Fields: []fieldDefS{{0, 1, 0}}}, {Kind: "M", Local: 0, Pay: []byte{ft}}}
		addStream(fmt.Sprintf("bare_filetype%d", ft), "bare", s.bytes())
	}
	// messages whose numbers agree in the low byte (n and n+256): the same field number defined with the type the
	// one admits and the other may not -- a decision remembered under a truncated key would leak between them
	{
		p := profile()
		nAl := 0
		for _, a := range p.msgs {
			for _, b := range p.msgs {
				if a.Num == b.Num || a.Num&0xFF != b.Num&0xFF {
					continue
				}
				for _, fa := range a.Fields {
					for _, fb := range b.Fields {
						if fa.Num != fb.Num || fa.T.BaseType() == fb.T.BaseType() || fa.T.Array() || nAl >= 60 {
							continue
						}
						bt := fa.T.BaseType()
						size := bt.Size()
						if bt == types.BaseString {
							size = 4
						}
						pay := []byte{1, 2, 3, 0, 5, 6, 7, 8}[:size]
						addStream(fmt.Sprintf("alias_m%d_f%d_own", a.Num, fa.Num), "aliased", singleFieldStream(hostFt(a.Num), false, a.Num, fa.Num, byte(size), byte(bt), pay))
						addStream(fmt.Sprintf("alias_m%d_f%d_as_m%d", b.Num, fa.Num, a.Num), "aliased", singleFieldStream(hostFt(b.Num), false, b.Num, fa.Num, byte(size), byte(bt), pay))
						nAl += 2
					}
				}
			}
		}
		r.Extra["pool_aliased_message_numbers"] = nAl
	}
	var large []c08Input
	filepath.Walk(filepath.Join(repoRoot, "testdata"), func(p string, info os.FileInfo, err error) error {
		if err != nil || info.IsDir() || !strings.HasSuffix(p, ".fit") {
			return nil
		}
		b, err := os.ReadFile(p)
		if err != nil {
			return nil
		}
		rel, _ := filepath.Rel(repoRoot, p)
		in := c08Input{ID: "testdata:" + rel, Kind: "stream", Hex: hex.EncodeToString(b), Origin: "testdata", data: b}
		if len(b) <= c08ModelMax {
			streams = append(streams, in)
		} else {
			large = append(large, in)
		}
		return nil
	})
	// chained inputs: concatenations of pool streams
	nChain := 12
	for i := 0; i < nChain; i++ {
		k := 2 + rg.intn(2)
		var b []byte
		var ids []string
		for j := 0; j < k; j++ {
			s := streams[rg.intn(len(streams))]
			if len(b)+len(s.data) > c08ModelMax {
				continue
			}
			b = append(b, s.data...)
			ids = append(ids, s.ID)
		}
		addStream("chain("+strings.Join(ids, "+")+")", "chained", b)
	}
	var files []c08Input
	for i := 0; i < nFiles; i++ {
		// half of the Files carry strings and arrays longer than the profile
		// length (Encode cuts them) and strings Encode rejects: legal inputs
		// of the purity clause
		files = append(files, c08Input{ID: fmt.Sprintf("file%d", i), Kind: "file", FileSeed: rg.u64(), AllowCsd: i%3 == 0, BE: i%2 == 1, OverLong: i%4 >= 2})
	}
	r.Extra["pool_streams"] = len(streams)
	r.Extra["pool_files"] = len(files)
	r.Extra["pool_large_testdata"] = len(large)

	// ------------------------------------------------------------ histories
	nHist, meanLen := 300, 20
	if o.tier == "thorough" {
		nHist = 20000
	}
	if o.boost > 1 {
		nHist *= 3 // a proof obligation broke: search harder, but stop at the first violation found
	}
	type hist []c08Call
	var hists []hist
	distinct := map[string]c08Call{}
	for h := 0; h < nHist; h++ {
		n := meanLen/2 + rg.intn(meanLen+1)
		var hs hist
		for i := 0; i < n; i++ {
			var c c08Call
			switch x := rg.intn(10); {
			case x < 5:
				c.Entry = "D"
			case x < 8:
				c.Entry = "C"
			default:
				c.Entry = "E"
			}
			if c.Entry == "E" {
				c.In = files[rg.intn(len(files))]
			} else {
				c.In = streams[rg.intn(len(streams))]
				if rg.chance(1, 4) {
					c.Opts = optSet{UnkF: true, UnkM: true}
				}
			}
			hs = append(hs, c)
			distinct[c.key()] = c
		}
		hists = append(hists, hs)
	}
	for _, in := range large {
		c := c08Call{Entry: "D", In: in}
		distinct[c.key()] = c
	}

	// baselines: each distinct call made first in a fresh process
	baseline := map[string]c08Obs{}
	{
		var keys []string
		for k := range distinct {
			keys = append(keys, k)
		}
		sort.Strings(keys)
		var mu sync.Mutex
		var wg sync.WaitGroup
		sem := make(chan struct{}, 8)
		var firstErr error
		for _, k := range keys {
			wg.Add(1)
			sem <- struct{}{}
			go func(k string) {
				defer wg.Done()
				defer func() { <-sem }()
				out, err := c08RunChild([]c08Call{distinct[k]})
				mu.Lock()
				defer mu.Unlock()
				if err != nil {
					firstErr = err
					return
				}
				baseline[k] = out[0]
			}(k)
		}
		wg.Wait()
		if firstErr != nil {
			fmt.Println("baseline:", firstErr)
			return 2
		}
		r.Extra["fresh_process_baselines"] = len(baseline)
	}

	// is the call inside the domain of C08_history_free?  (model, fresh state)
	domain := map[string]bool{}
	inDomain := func(c c08Call, data []byte) (bool, error) {
		k := c.Entry + "|" + hex.EncodeToString(data[:min(len(data), 64)]) + fmt.Sprint(len(data)) + c.In.ID
		if v, ok := domain[k]; ok {
			return v, nil
		}
		e := c.Entry
		if e == "E" {
			e = "D"
		}
		rs := readerSpec{Data: data}
		resp, err := d.ask(fmt.Sprintf("decode %s %s %s %s", e, c.Opts.String(), rs.driverArgs(), "-/-/-"))
		if err != nil {
			return false, err
		}
		m, err := parseModel(e, resp)
		if err != nil {
			return false, err
		}
		v := strings.HasPrefix(m.G, "-/") || m.G == ""
		domain[k] = v
		return v, nil
	}

	w := newWorld(d)
	check := func(c c08Call, hs hist, idx int, got, want string, part string, data []byte, impl, model decOut, modelRan bool) {
		if got == want {
			return
		}
		dom, _ := inDomain(c, data)
		rep := map[string]interface{}{"history": hs[:idx+1], "failing_index": idx, "part": part, "expected_fresh_process": clip(want, 3000), "observed_in_history": clip(got, 3000), "in_theorem_domain": dom}
		what := fmt.Sprintf("call %d of a history (%s %s on %s) returned a %s different from the same call made first in a fresh process\n    fresh  : %.300s\n    history: %.300s",
			idx, c.Entry, c.Opts, c.In.ID, part, diffAt(want, got), diffAt(got, want))
		if !dom && modelRan && impl.observable() == model.observable() {
			r.specFail("accum_history", what, rep)
			return
		}
		// shrink: drop earlier calls while the last one still differs
		small := append(hist{}, hs[:idx+1]...)
		maxTries := 24
		if r.nSpec["history"] >= 2 {
			maxTries = 0
		}
		for i, tries := 0, 0; i < len(small)-1 && tries < maxTries; tries++ {
			cand := append(append(hist{}, small[:i]...), small[i+1:]...)
			out, err := c08RunChild(cand)
			last := ""
			if err == nil {
				last = out[len(out)-1].Main
				if part == "decoded content" {
					last = out[len(out)-1].Decoded
				}
			}
			if err == nil && last != want {
				small = cand
			} else {
				i++
			}
		}
		rep["history"] = small
		rep["failing_index"] = len(small) - 1
		r.specFail("history", what, rep)
	}

	for hi, hs := range hists {
		for idx, c := range hs {
			base := baseline[c.key()]
			switch c.Entry {
			case "D", "C":
				rs := readerSpec{Data: c.In.data}
				impl, model, err := w.decode(c.Entry, c.Opts, rs)
				if err != nil {
					fmt.Println("driver:", err)
					return 2
				}
				r.Traces++
				nontrivial := impl.ErrClass == 0 || (len(impl.Files) > 0 && impl.Files[0] != "nil")
				r.count(fmt.Sprintf("%d/%d", hi, idx), nontrivial)
				r.hist("call_" + c.Entry + "_" + c.In.Origin)
				r.hist(fmt.Sprintf("errclass_%d", impl.ErrClass))
				if impl.observable() != model.observable() {
					r.corrFail("history_model", fmt.Sprintf("model (threaded accumulators) and implementation differ on call %d (%s on %s)\n    impl : %.300s\n    model: %.300s",
						idx, c.Entry, c.In.ID, diffAt(impl.observable(), model.observable()), diffAt(model.observable(), impl.observable())),
						map[string]interface{}{"history": hs[:idx+1], "failing_index": idx})
				}
				check(c, hs, idx, obsWithShape(impl), base.Main, "result", c.In.data, impl, model, true)
			case "E":
				fc := c08GenFile(c.In)
				main, data := c08Encode(fc)
				r.count(fmt.Sprintf("%d/%d", hi, idx), len(data) > 0)
				r.hist("call_E")
				if c.In.OverLong {
					r.hist("call_E_over_long_file")
				}
				r.hist("encode_" + main[:5])
				if main != base.Main {
					rep := map[string]interface{}{"history": hs[:idx+1], "failing_index": idx, "part": "bytes", "expected_fresh_process": clip(base.Main, 3000), "observed_in_history": clip(main, 3000)}
					r.specFail("encode_history", fmt.Sprintf("Encode of %s (call %d of a history) wrote bytes different from the same call made first in a fresh process\n    fresh  : %.300s\n    history: %.300s",
						c.In.ID, idx, diffAt(base.Main, main), diffAt(main, base.Main)), rep)
				}
				rs := readerSpec{Data: data}
				impl, model, err := w.decode("D", optSet{}, rs)
				if err != nil {
					fmt.Println("driver:", err)
					return 2
				}
				r.Traces++
				if impl.observable() != model.observable() {
					r.corrFail("history_model", fmt.Sprintf("model and implementation differ on the Decode of Encode's output (call %d, %s)\n    impl : %.300s\n    model: %.300s",
						idx, c.In.ID, diffAt(impl.observable(), model.observable()), diffAt(model.observable(), impl.observable())),
						map[string]interface{}{"history": hs[:idx+1], "failing_index": idx})
				}
				check(c, hs, idx, obsWithShape(impl), base.Decoded, "decoded content", data, impl, model, true)
			}
		}
		// a violation with a replay is in hand: no need to run the remaining histories
		if r.nSpec["history"]+r.nSpec["encode_history"] > 0 && hi >= 20 {
			r.Notes = append(r.Notes, fmt.Sprintf("stopped after %d histories: violation found", hi+1))
			r.Extra["histories"] = hi + 1
			hists = hists[:hi+1]
			break
		}
		if hi < 2 {
			var ids []string
			for _, c := range hs {
				ids = append(ids, c.Entry+":"+c.In.ID)
			}
			r.sample(map[string]interface{}{"history": ids})
		}
	}
	r.Extra["histories"] = len(hists)

	// ------------------------------------------------------------ large corpus files (implementation only)
	for _, in := range large {
		c := c08Call{Entry: "D", In: in}
		for rep := 0; rep < 2; rep++ {
			impl := implDecode("D", optSet{}, readerSpec{Data: in.data})
			r.count(in.ID+fmt.Sprint(rep), impl.ErrClass == 0)
			r.hist("call_D_testdata_large")
			if obsWithShape(impl) != baseline[c.key()].Main {
				csd := len(impl.Raw) > 0 && impl.Raw[0] != nil && hasValidCsd(impl.Raw[0])
				repl := map[string]interface{}{"entry": "Decode", "input": in.ID, "repeat": rep, "has_valid_compressed_speed_distance": csd}
				what := fmt.Sprintf("Decode of %s in a used process differs from the fresh process\n    fresh  : %.300s\n    history: %.300s", in.ID,
					diffAt(baseline[c.key()].Main, obsWithShape(impl)), diffAt(obsWithShape(impl), baseline[c.key()].Main))
				if csd {
					r.specFail("accum_history", what, repl)
				} else {
					r.specFail("history", what, repl)
				}
			}
		}
	}
	// the process-wide accumulators moved outside world.decode: resynchronise is not needed, w is not used below

	// ------------------------------------------------------------ Encode x 50
	nRep := 50
	for _, in := range files {
		first := ""
		fcSame := c08GenFile(in)
		for k := 0; k < nRep; k++ {
			m1, _ := c08Encode(c08GenFile(in)) // an identical File, built again
			m2, _ := c08Encode(fcSame)         // the same File object again
			if first == "" {
				first = m1
			}
			for which, m := range []string{m1, m2} {
				if m != first {
					r.specFail("encode_bytes_vary", fmt.Sprintf("Encode wrote different bytes for identical Files (%s, repetition %d, %s)\n    first: %.300s\n    now  : %.300s",
						in.ID, k, []string{"rebuilt File", "same File object"}[which], diffAt(first, m), diffAt(m, first)),
						map[string]interface{}{"entry": "Encode", "input": in, "repetition": k})
				}
			}
			r.count(fmt.Sprintf("enc50/%s/%d", in.ID, k), k == 0)
		}
		r.hist("encode_x50_files")
	}

	// ------------------------------------------------------------ the refutation witness, in a fresh process
	{
		b, _ := hex.DecodeString(c08WitnessHex)
		wc := c08Call{Entry: "D", In: c08Input{ID: "witness_csd", Kind: "stream", Hex: c08WitnessHex, data: b}}
		out, err := c08RunChild([]c08Call{wc, wc})
		if err != nil {
			fmt.Println("witness:", err)
			return 2
		}
		r.Extra["witness_first"] = clip(out[0].Main, 400)
		r.Extra["witness_second"] = clip(out[1].Main, 400)
		if out[0].Main != out[1].Main {
			r.specFail("accum_history", "witness of C08_history_dependence_refuted (corpus/known/C08-accum-history.json): the second Decode of the same 42-byte stream in one process returns other Distances than the first",
				map[string]interface{}{"history": []c08Call{wc, wc}, "failing_index": 1, "first": out[0].Main, "second": out[1].Main})
		} else {
			r.Notes = append(r.Notes, "the witness of C08_history_dependence_refuted no longer shows history dependence in the implementation")
		}
	}
	for k, v := range st {
		if strings.HasPrefix(k, "filetype_") {
			r.Hist["gen_"+k] += v
		}
	}
	return r.finish()
}

func clip(s string, n int) string {
	if len(s) > n {
		return s[:n] + "..."
	}
	return s
}

// diffAt shows a around the first position where it differs from b.
func diffAt(a, b string) string {
	i := 0
	for i < len(a) && i < len(b) && a[i] == b[i] {
		i++
	}
	lo := i - 60
	if lo < 0 {
		lo = 0
	}
	hi := i + 160
	if hi > len(a) {
		hi = len(a)
	}
	return fmt.Sprintf("[@%d] %s", i, a[lo:hi])
}

// replay: run the recorded history in a fresh process and compare its last
// call with the same call made first in another fresh process.
func c08Replay(o runOpts, r *report) int {
	b, err := os.ReadFile(o.replay)
	if err != nil {
		fmt.Println("replay:", err)
		return 2
	}
	var rp struct {
		Case struct {
			History []c08Call `json:"history"`
			Part    string    `json:"part"`
		} `json:"case"`
		History []c08Call `json:"history"`
	}
	if err := json.Unmarshal(b, &rp); err != nil {
		fmt.Println("replay:", err)
		return 2
	}
	h := rp.Case.History
	if len(h) == 0 {
		h = rp.History
	}
	if len(h) == 0 {
		fmt.Println("replay: no history in", o.replay)
		return 2
	}
	out, err := c08RunChild(h)
	if err != nil {
		fmt.Println("replay:", err)
		return 2
	}
	fresh, err := c08RunChild(h[len(h)-1:])
	if err != nil {
		fmt.Println("replay:", err)
		return 2
	}
	last := out[len(out)-1]
	r.count("replay", true)
	if last.Main != fresh[0].Main || last.Decoded != fresh[0].Decoded {
		tag := "history"
		c := h[len(h)-1]
		if c.Entry != "E" {
			data, _ := hex.DecodeString(c.In.Hex)
			if f, err := fit.Decode(bytes.NewReader(data)); f != nil && err == nil && hasValidCsd(f) {
				tag = "accum_history"
			}
		}
		r.specFail(tag, fmt.Sprintf("replayed history of %d calls: the last call differs from the same call made first in a fresh process\n    fresh  : %.300s\n    history: %.300s",
			len(h), diffAt(fresh[0].Main+fresh[0].Decoded, last.Main+last.Decoded), diffAt(last.Main+last.Decoded, fresh[0].Main+fresh[0].Decoded)),
			map[string]interface{}{"history": h, "failing_index": len(h) - 1})
	} else {
		fmt.Println("replay: the last call of the history returns what it returns in a fresh process")
	}
	return r.finish()
}
