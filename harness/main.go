// Command vh is the Go side of the verification machinery for tormoder/fit:
// translators (gen) that regenerate the Coq tables under /verif/coq/Gen from
// the compiled library, and per-property correspondence / spec-oracle runs that
// drive the real implementation and the extracted Coq model on the same
// inputs.  Built with -tags verif against /repo (see go.mod replace).
package main

import (
	"fmt"
	"os"
)

type command struct {
	name string
	run  func(args []string) int
}

var commands []command

func register(name string, run func(args []string) int) {
	commands = append(commands, command{name, run})
}

func main() {
	if len(os.Args) < 2 {
		fmt.Fprintln(os.Stderr, "usage: vh <command> [flags]")
		for _, c := range commands {
			fmt.Fprintln(os.Stderr, "  ", c.name)
		}
		os.Exit(2)
	}
	for _, c := range commands {
		if c.name == os.Args[1] {
			os.Exit(c.run(os.Args[2:]))
		}
	}
	fmt.Fprintln(os.Stderr, "unknown command", os.Args[1])
	os.Exit(2)
}
