package main

import (
	"errors"
	"io"
	"strconv"
	"strings"
)

var errFault = errors.New("verif: injected read fault")

// schedReader mirrors Model/IO.v rd_read: it delivers data in chunks capped
// by a schedule, then answers io.EOF or a non-EOF error forever; with ewd the
// last chunk is returned together with that condition.
type schedReader struct {
	data  []byte
	sched []int
	fault bool
	ewd   bool
	pos   int
	reads int
}

func (r *schedReader) Read(p []byte) (int, error) {
	r.reads++
	term := io.EOF
	if r.fault {
		term = errFault
	}
	if len(r.data) == 0 {
		return 0, term
	}
	cap := len(p)
	if len(r.sched) > 0 {
		if r.sched[0] < cap {
			cap = r.sched[0]
		}
		r.sched = r.sched[1:]
	}
	n := copy(p[:cap], r.data)
	r.data = r.data[n:]
	r.pos += n
	if len(r.data) == 0 && r.ewd {
		return n, term
	}
	return n, nil
}

type readerSpec struct {
	Data  []byte `json:"-"`
	Hex   string `json:"data_hex"`
	Sched []int  `json:"sched"`
	Fault bool   `json:"fault"`
	Ewd   bool   `json:"eof_with_data"`
}

func (s readerSpec) reader() *schedReader {
	return &schedReader{data: append([]byte{}, s.Data...), sched: append([]int{}, s.Sched...), fault: s.Fault, ewd: s.Ewd}
}

// driverArgs renders "<datahex> <term> <ewd> <sched>"
func (s readerSpec) driverArgs() string {
	var sb strings.Builder
	sb.WriteString(hexOrDash(s.Data))
	if s.Fault {
		sb.WriteString(" f ")
	} else {
		sb.WriteString(" e ")
	}
	if s.Ewd {
		sb.WriteString("1 ")
	} else {
		sb.WriteString("0 ")
	}
	if len(s.Sched) == 0 {
		sb.WriteString("-")
	} else {
		for i, c := range s.Sched {
			if i > 0 {
				sb.WriteString(",")
			}
			sb.WriteString(strconv.Itoa(c))
		}
	}
	return sb.String()
}

// schedule families used by the checks
func makeSched(rg *rng, family int, n int) []int {
	var out []int
	switch family {
	case 0: // one big read
		return nil
	case 1: // 1-byte reads
		for i := 0; i < n; i++ {
			out = append(out, 1)
		}
	case 2:
		for i := 0; i < n/2+1; i++ {
			out = append(out, 2)
		}
	case 3:
		for i := 0; i < n/3+1; i++ {
			out = append(out, 3)
		}
	case 4:
		for i := 0; i < n/7+1; i++ {
			out = append(out, 7)
		}
	case 5:
		for i := 0; i < n/4095+1; i++ {
			out = append(out, 4095)
		}
	case 6:
		for i := 0; i < n/4097+1; i++ {
			out = append(out, 4097)
		}
	default: // random sizes with occasional empty reads
		left := n
		for left > 0 {
			var c int
			switch rg.intn(6) {
			case 0:
				c = 0
			case 1:
				c = 1
			case 2:
				c = 1 + rg.intn(16)
			case 3:
				c = 4090 + rg.intn(12)
			default:
				c = 1 + rg.intn(300)
			}
			out = append(out, c)
			left -= c
		}
	}
	return out
}
