package main

import (
	"encoding/binary"
	"fmt"
	"math"
	"reflect"
	"time"
	"unicode/utf8"

	"github.com/tormoder/fit"
	"github.com/tormoder/fit/internal/types"
)

// Generator of *fit.File values built through the public API: NewFile with a
// NewHeader, the container reached through its accessor, messages from their
// NewXMsg constructors (looked up by reflection over the container struct
// types; the constructor table is reached through VerifNewMesg, which calls
// the same NewXMsg functions), exported fields set by reflection.  Everything
// is drawn from the run's rng.

type fileGenCfg struct {
	inDomain  bool // only values inside the representable domain of C06
	allowCsd  bool // records may carry a valid compressed_speed_distance
	maxPerSlt int  // cap on messages per slice slot
	wrapArr   bool // arrays of 256 and more elements (byte(Len) wraps; candidate finding, off by default)
	shareArr  bool // some array fields of one File are prefixes of one backing array (spare capacity, shared memory)
	pool      map[reflect.Type]reflect.Value
}

type fileCase struct {
	File *fit.File
	BE   bool
	Desc string // generation choices, for replay files
}

func (c *fileCase) arch() binary.ByteOrder {
	if c.BE {
		return binary.BigEndian
	}
	return binary.LittleEndian
}

// containerOf returns the typed container through the public accessor.
func containerOf(f *fit.File) reflect.Value {
	fv := reflect.ValueOf(f)
	ft := fv.Type()
	errT := reflect.TypeOf((*error)(nil)).Elem()
	for i := 0; i < ft.NumMethod(); i++ {
		m := ft.Method(i)
		if m.Type.NumIn() == 1 && m.Type.NumOut() == 2 && m.Type.Out(1) == errT && m.Type.Out(0).Kind() == reflect.Ptr {
			out := fv.Method(i).Call(nil)
			if out[1].IsNil() && !out[0].IsNil() {
				return out[0]
			}
		}
	}
	return reflect.Value{}
}

// pfieldBySindex: the profile entry that owns struct field i of message mn.
func pfieldBySindex(mn uint16, i int) *pfieldInfo {
	mi := profile().byNum[mn]
	if mi == nil {
		return nil
	}
	for k := range mi.Fields {
		if mi.Fields[k].Sindex == i {
			return &mi.Fields[k]
		}
	}
	return nil
}

func newMsgPtr(t reflect.Type) (reflect.Value, uint16, bool) {
	mn := fit.VerifGetGlobalMesgNum(t)
	pv, ok := fit.VerifNewMesg(int(mn))
	if !ok || pv.Type() != reflect.PtrTo(t) {
		return reflect.Value{}, 0, false
	}
	return pv, uint16(mn), true
}

func genUint(rg *rng, bits int, invalid uint64) uint64 {
	max := uint64(1)<<uint(bits) - 1
	switch rg.intn(10) {
	case 0:
		return invalid
	case 1:
		return 0
	case 2:
		return 1
	case 3:
		return max
	case 4:
		return max - 1
	case 5:
		return max >> 1
	case 6:
		return (max >> 1) + 1
	case 7:
		return uint64(rg.intn(256)) & max
	default:
		return rg.u64() & max
	}
}

func genInt(rg *rng, bits int) int64 {
	min := -(int64(1) << uint(bits-1))
	max := int64(1)<<uint(bits-1) - 1
	switch rg.intn(9) {
	case 0:
		return max // the invalid value
	case 1:
		return min
	case 2:
		return -1
	case 3:
		return 0
	case 4:
		return max - 1
	case 5:
		return int64(rg.intn(200)) - 100
	default:
		return int64(rg.u64()>>uint(64-bits)) + min
	}
}

var utf8Samples = []string{"é", "ö", "✓", "日本語", "テキスト", "𝄞", "€", "ß"}
var utf8Edges = []string{"\uFFFD", "\u0080", "\u07FF", "\u0800", "\uFFFF", "\U00010000", "\U0010FFFF", "\u007F"}

// genString: in-domain strings are valid UTF-8 without NUL and fit in L-1 bytes.
func genString(rg *rng, L int, inDomain bool, st genStats) string {
	room := L - 1
	if room < 0 {
		room = 0
	}
	ascii := func(n int) string {
		b := make([]byte, n)
		for i := range b {
			b[i] = byte('a' + rg.intn(26))
		}
		return string(b)
	}
	mixed := func(n int) string { // valid UTF-8 of at most n bytes
		var s string
		for len(s) < n {
			var piece string
			if rg.chance(1, 3) {
				piece = utf8Samples[rg.intn(len(utf8Samples))]
			} else {
				piece = string(rune('A' + rg.intn(26)))
			}
			if len(s)+len(piece) > n {
				break
			}
			s += piece
		}
		if rg.chance(1, 4) { // end in a code point at the edge of an encoding length, or in U+FFFD itself
			e := utf8Edges[rg.intn(len(utf8Edges))]
			if len(e) <= n {
				for len(s)+len(e) > n {
					_, size := utf8.DecodeLastRuneInString(s)
					s = s[:len(s)-size]
				}
				s += e
			}
		}
		return s
	}
	if inDomain {
		switch rg.intn(6) {
		case 0:
			st["str_empty"]++
			return ""
		case 1:
			st["str_exact"]++
			return ascii(room)
		case 2:
			st["str_one"]++
			if room >= 1 {
				return ascii(1)
			}
			return ""
		case 3:
			st["str_utf8"]++
			return mixed(room)
		default:
			st["str_short"]++
			return ascii(rg.intn(room + 1))
		}
	}
	switch rg.intn(8) {
	case 0:
		st["str_toolong1"]++
		return ascii(L) // one too long: the terminator does not fit
	case 1:
		st["str_toolong"]++
		return ascii(L + 1 + rg.intn(40))
	case 2:
		st["str_badutf8"]++
		b := []byte(ascii(rg.intn(room + 1)))
		if len(b) > 0 {
			b[rg.intn(len(b))] = byte(0x80 + rg.intn(0x80))
		}
		return string(b)
	case 3:
		st["str_runesplit"]++
		// a multi-byte rune straddling the cut at L-1
		if room >= 1 {
			return ascii(room-1) + utf8Samples[rg.intn(len(utf8Samples))] + ascii(3)
		}
		return "é"
	case 4:
		st["str_nul"]++
		b := []byte(ascii(1 + rg.intn(room+1)))
		b[rg.intn(len(b))] = 0
		return string(b)
	case 5:
		st["str_utf8_long"]++
		return mixed(L + rg.intn(20))
	default:
		return genString(rg, L, true, st)
	}
}

func genTime(rg *rng, kind types.Kind, inDomain bool, st genStats) time.Time {
	secs := func() int64 {
		switch rg.intn(8) {
		case 0:
			return 1
		case 1:
			return 1<<32 - 2
		case 2:
			return 0x10000000
		case 3:
			return 0x10000000 - 1
		case 4:
			return int64(rg.intn(1 << 20))
		default:
			return 1 + int64(rg.u64()%uint64(1<<32-2))
		}
	}
	if kind == types.TimeLocal {
		off := (rg.intn(2*14*4+1) - 14*4) * 900 // quarter hours, +-14 h
		if rg.chance(1, 4) {
			off = 0
		}
		wall := secs()
		if inDomain {
			st["time_local"]++
			return fitEpoch.Add(time.Duration(wall-int64(off)) * time.Second).In(time.FixedZone("L", off))
		}
		switch rg.intn(4) {
		case 0:
			st["time_local_subsec"]++
			return fitEpoch.Add(time.Duration(wall-int64(off))*time.Second + time.Duration(1+rg.intn(999999999))).In(time.FixedZone("L", off))
		case 1:
			st["time_local_utc"]++
			return fitEpoch.Add(time.Duration(wall) * time.Second) // UTC location in a local field
		case 2:
			st["time_local_neg"]++
			return fitEpoch.Add(-time.Duration(1+rg.intn(100000)) * time.Second).In(time.FixedZone("L", off))
		default:
			st["time_local"]++
			return fitEpoch.Add(time.Duration(wall-int64(off)) * time.Second).In(time.FixedZone("L", off))
		}
	}
	if inDomain {
		if rg.chance(1, 8) {
			st["time_utc_zoned"]++
			return fitEpoch.Add(time.Duration(secs()) * time.Second).In(time.FixedZone("Z", 3600*(rg.intn(25)-12)))
		}
		if rg.chance(1, 10) {
			st["time_base"]++
			return fitEpoch // the invalid value
		}
		st["time_utc"]++
		return fitEpoch.Add(time.Duration(secs()) * time.Second)
	}
	switch rg.intn(7) {
	case 0:
		st["time_subsec"]++
		return fitEpoch.Add(time.Duration(secs())*time.Second + time.Duration(1+rg.intn(999999999)))
	case 1:
		st["time_before_epoch"]++
		return fitEpoch.Add(-time.Duration(1+rg.intn(1<<30)) * time.Second)
	case 2:
		st["time_before_epoch_subsec"]++
		return fitEpoch.Add(-time.Duration(1+rg.intn(1<<30))*time.Second - time.Duration(1+rg.intn(999999999)))
	case 3:
		st["time_after_range"]++
		return fitEpoch.Add(time.Duration(int64(1)<<32+int64(rg.intn(1<<20))) * time.Second)
	case 4:
		st["time_zero_value"]++
		return time.Time{}
	case 5:
		st["time_ffffffff"]++
		return fitEpoch.Add(time.Duration(int64(1)<<32-1) * time.Second)
	default:
		st["time_far_future"]++
		return time.Date(2400+rg.intn(500), 1, 1, 0, 0, 0, 0, time.UTC)
	}
}

func genLat(rg *rng) fit.Latitude {
	switch rg.intn(8) {
	case 0:
		return fit.NewLatitudeInvalid()
	case 1:
		return fit.NewLatitude(math.MinInt32 / 2)
	case 2:
		return fit.NewLatitude(math.MaxInt32 / 2)
	case 3:
		return fit.NewLatitude(0)
	case 4:
		return fit.NewLatitudeDegrees(float64(rg.intn(180000)-90000) / 1000)
	case 5:
		return fit.NewLatitude(int32(rg.u64())) // out of range values become invalid
	default:
		return fit.NewLatitude(int32(rg.intn(1<<31)) - 1<<30)
	}
}

func genLng(rg *rng) fit.Longitude {
	switch rg.intn(8) {
	case 0:
		return fit.NewLongitudeInvalid()
	case 1:
		return fit.NewLongitude(math.MinInt32)
	case 2:
		return fit.NewLongitude(math.MaxInt32 - 1)
	case 3:
		return fit.NewLongitude(0)
	case 4:
		return fit.NewLongitudeDegrees(float64(rg.intn(360000)-180000) / 1000)
	default:
		return fit.NewLongitude(int32(rg.u64()))
	}
}

func invalidUint(pf *pfieldInfo, bits int) uint64 {
	if pf != nil {
		switch v := pf.T.BaseType().Invalid().(type) {
		case uint8:
			return uint64(v)
		case uint16:
			return uint64(v)
		case uint32:
			return uint64(v)
		case uint64:
			return v
		}
	}
	return uint64(1)<<uint(bits) - 1
}

// setScalar stores one generated value of the field's Go type.
func setScalar(rg *rng, fv reflect.Value, pf *pfieldInfo, cfg *fileGenCfg, st genStats) {
	switch fv.Interface().(type) {
	case time.Time:
		k := types.TimeUTC
		if pf != nil {
			k = pf.T.Kind()
		}
		fv.Set(reflect.ValueOf(genTime(rg, k, cfg.inDomain || rg.chance(2, 3), st)))
		return
	case fit.Latitude:
		fv.Set(reflect.ValueOf(genLat(rg)))
		return
	case fit.Longitude:
		fv.Set(reflect.ValueOf(genLng(rg)))
		return
	}
	switch fv.Kind() {
	case reflect.Uint8, reflect.Uint16, reflect.Uint32, reflect.Uint64:
		bits := fv.Type().Bits()
		fv.SetUint(genUint(rg, bits, invalidUint(pf, bits)))
	case reflect.Int8, reflect.Int16, reflect.Int32, reflect.Int64:
		fv.SetInt(genInt(rg, fv.Type().Bits()))
	case reflect.Float32, reflect.Float64:
		fv.SetFloat(float64(rg.intn(1000)) / 8)
	case reflect.String:
		L := 1
		if pf != nil {
			L = int(pf.Length)
		}
		fv.SetString(genString(rg, L, cfg.inDomain || rg.chance(2, 3), st))
	}
}

func setSlice(rg *rng, fv reflect.Value, pf *pfieldInfo, cfg *fileGenCfg, st genStats, isCsd bool) {
	et := fv.Type().Elem()
	if et.Kind() == reflect.String {
		return // string arrays: no container hosts such a message; left nil
	}
	L := 1
	if pf != nil {
		L = int(pf.Length)
	}
	var n int
	switch rg.intn(8) {
	case 0:
		n = 0 // empty, non-nil
		st["arr_empty"]++
	case 1:
		n = 1
		st["arr_one"]++
	case 2:
		n = L - 1
		st["arr_Lm1"]++
	case 3, 4:
		n = L
		st["arr_L"]++
	case 5:
		n = rg.intn(L + 1)
		st["arr_rand"]++
	default:
		if cfg.inDomain {
			n = L
			st["arr_L"]++
		} else {
			switch rg.intn(4) {
			case 0:
				n = L + 1
			case 1:
				n = L + 1 + rg.intn(8)
			case 2:
				n = 255
			default:
				n = L + rg.intn(40)
			}
			if cfg.wrapArr && rg.chance(1, 3) {
				n = 256 + rg.intn(40)
			}
			st["arr_long"]++
		}
	}
	if n < 0 {
		n = 0
	}
	if n > L && cfg.inDomain {
		n = L
	}
	inv := uint64(0xFF)
	if pf != nil {
		inv = invalidUint(pf, et.Bits())
	}
	if cfg.shareArr && !isCsd && n > 0 && n < 60 && rg.chance(1, 3) {
		// a prefix of a backing array that other messages of this File use too: the caller's slices may have
		// spare capacity and may overlap; Encode must neither write to them nor depend on that
		if cfg.pool == nil {
			cfg.pool = map[reflect.Type]reflect.Value{}
		}
		base, ok := cfg.pool[fv.Type()]
		if !ok {
			base = reflect.MakeSlice(fv.Type(), 64, 64)
			for j := 0; j < 64; j++ {
				e := base.Index(j)
				switch e.Kind() {
				case reflect.Uint8, reflect.Uint16, reflect.Uint32, reflect.Uint64:
					v := genUint(rg, et.Bits(), inv)
					if v == inv || (et.Bits() < 64 && v == (uint64(1)<<uint(et.Bits()))-1) || v == 0 {
						v = uint64(1 + j)
					}
					e.SetUint(v)
				case reflect.Int8, reflect.Int16, reflect.Int32, reflect.Int64:
					e.SetInt(int64(1 + j))
				case reflect.Float32, reflect.Float64:
					e.SetFloat(float64(1 + j))
				}
			}
			cfg.pool[fv.Type()] = base
		}
		st["arr_shared_backing"]++
		fv.Set(base.Slice(0, n))
		return
	}
	s := reflect.MakeSlice(fv.Type(), n, n)
	mode := rg.intn(6) // 0: all invalid, 1: trailing invalid, 2: invalid in the middle, else values
	for j := 0; j < n; j++ {
		e := s.Index(j)
		switch e.Kind() {
		case reflect.Uint8, reflect.Uint16, reflect.Uint32, reflect.Uint64:
			v := genUint(rg, et.Bits(), inv)
			if mode == 0 || (mode == 1 && j >= n/2) || (mode == 2 && j == n/2) {
				v = inv
			}
			if isCsd && !cfg.allowCsd {
				v = 0xFF
			}
			e.SetUint(v)
		case reflect.Int8, reflect.Int16, reflect.Int32, reflect.Int64:
			v := genInt(rg, et.Bits())
			if mode == 0 || (mode == 1 && j >= n/2) || (mode == 2 && j == n/2) {
				v = int64(1)<<uint(et.Bits()-1) - 1
			}
			e.SetInt(v)
		case reflect.Float32, reflect.Float64:
			e.SetFloat(float64(rg.intn(100)))
		}
	}
	if isCsd && cfg.allowCsd && n > 0 {
		st["csd_valid"]++
	}
	fv.Set(s)
}

// fillGenMsg sets a random subset of the exported fields of the message *mp.
func fillGenMsg(rg *rng, mp reflect.Value, mn uint16, cfg *fileGenCfg, st genStats, keep map[int]bool) {
	v := mp.Elem()
	t := v.Type()
	var p int // per-mille of fields set
	switch rg.intn(8) {
	case 0:
		p = 0
		st["msg_none_set"]++
	case 1:
		p = 1000
		st["msg_all_set"]++
	case 2:
		p = 50
	case 3:
		p = 900
	default:
		p = 100 + rg.intn(500)
	}
	for i := 0; i < v.NumField(); i++ {
		if keep[i] || !rg.chance(p, 1000) {
			continue
		}
		fv := v.Field(i)
		if !fv.CanSet() {
			continue
		}
		pf := pfieldBySindex(mn, i)
		st["field_set"]++
		if fv.Kind() == reflect.Slice {
			setSlice(rg, fv, pf, cfg, st, t.Name() == "RecordMsg" && t.Field(i).Name == "CompressedSpeedDistance")
		} else {
			setScalar(rg, fv, pf, cfg, st)
		}
		fieldHits[fmt.Sprintf("%d.%d", mn, i)]++
	}
}

// fieldHits counts, per (message, struct field), how often the generators of
// this process set it.
var fieldHits = map[string]int{}

// genFile builds one File.
func genFile(rg *rng, cfg *fileGenCfg, st genStats) *fileCase {
	p := profile()
	if cfg.shareArr {
		cfg.pool = nil // one set of backing arrays per File
	}
	ft := p.validFts[rg.intn(len(p.validFts))]
	ver := fit.V10
	if rg.bool() {
		ver = fit.V20
	}
	withCRC := rg.chance(2, 3)
	f, err := fit.NewFile(fit.FileType(ft), fit.NewHeader(ver, withCRC))
	if err != nil {
		panic(err)
	}
	st[fmt.Sprintf("filetype_%d", ft)]++
	if withCRC {
		st["header_14"]++
	} else {
		st["header_12"]++
	}
	// stale values in the fields Encode is documented to overwrite
	if rg.chance(1, 3) {
		f.Header.DataSize = uint32(rg.u64())
		f.Header.CRC = uint16(rg.u64())
		f.CRC = uint16(rg.u64())
		st["stale_header_fields"]++
	}
	// FileId
	fid := fit.NewFileIdMsg()
	fid.Type = fit.FileType(ft)
	fillGenMsg(rg, reflect.ValueOf(fid), uint16(fit.MesgNumFileId), cfg, st, map[int]bool{0: true})
	f.FileId = *fid
	if rg.chance(1, 2) {
		m := fit.NewFileCreatorMsg()
		fillGenMsg(rg, reflect.ValueOf(m), uint16(fit.MesgNumFileCreator), cfg, st, nil)
		f.FileCreator = m
		st["file_creator"]++
	}
	if rg.chance(1, 3) {
		m := fit.NewTimestampCorrelationMsg()
		fillGenMsg(rg, reflect.ValueOf(m), uint16(fit.MesgNumTimestampCorrelation), cfg, st, nil)
		f.TimestampCorrelation = m
		st["timestamp_correlation"]++
	}
	cont := containerOf(f)
	if !cont.IsValid() {
		panic("no container for file type")
	}
	cv := cont.Elem()
	total := 0
	// weight: most files small, some with one slot heavily populated
	heavy := -1
	if rg.chance(1, 6) {
		heavy = rg.intn(cv.NumField())
	}
	for i := 0; i < cv.NumField(); i++ {
		fld := cv.Field(i)
		ftp := fld.Type()
		switch {
		case ftp.Kind() == reflect.Ptr && ftp.Elem().Kind() == reflect.Struct:
			if rg.chance(1, 2) {
				mp, mn, ok := newMsgPtr(ftp.Elem())
				if !ok {
					continue
				}
				fillGenMsg(rg, mp, mn, cfg, st, nil)
				fld.Set(mp)
				total++
				st["ptr_slot_set"]++
			}
		case ftp.Kind() == reflect.Slice && ftp.Elem().Kind() == reflect.Ptr && ftp.Elem().Elem().Kind() == reflect.Struct:
			var n int
			switch rg.intn(6) {
			case 0, 1:
				n = 0
			case 2:
				n = 1
			case 3:
				n = 2
			default:
				n = rg.intn(5)
			}
			if i == heavy {
				n = 5 + rg.intn(cfg.maxPerSlt)
			}
			if n > cfg.maxPerSlt {
				n = cfg.maxPerSlt
			}
			if rg.chance(1, 20) {
				// empty but non-nil slice
				fld.Set(reflect.MakeSlice(ftp, 0, 0))
			}
			for j := 0; j < n; j++ {
				mp, mn, ok := newMsgPtr(ftp.Elem().Elem())
				if !ok {
					break
				}
				fillGenMsg(rg, mp, mn, cfg, st, nil)
				fld.Set(reflect.Append(fld, mp))
				total++
			}
			if n > 0 {
				st["slice_slot_set"]++
			}
		}
	}
	st["msgs_"+bucket(total)]++
	c := &fileCase{File: f, BE: rg.bool()}
	if c.BE {
		st["big_endian"]++
	} else {
		st["little_endian"]++
	}
	return c
}

// stringsOK reports whether every string of the File is encodable: valid
// UTF-8 after the cut at the profile length (the side condition of C07).
func stringsOK(f *fit.File) bool {
	ok := true
	_, slots := fileSlots(f)
	for si, s := range slots {
		if si == 3 || si == 4 {
			continue
		}
		for _, m := range slotMsgs(s) {
			mn := uint16(fit.VerifGetGlobalMesgNum(m.Type()))
			for i := 0; i < m.NumField(); i++ {
				if m.Field(i).Kind() != reflect.String {
					continue
				}
				pf := pfieldBySindex(mn, i)
				if pf == nil {
					continue
				}
				str := m.Field(i).String()
				n := len(str)
				if n > int(pf.Length)-1 {
					n = int(pf.Length) - 1
				}
				if n < 0 || !utf8.ValidString(str[:n]) {
					ok = false
				}
			}
		}
	}
	return ok
}

// hasValidCsd reports whether some record carries a compressed_speed_distance
// that expandComponents would feed to the process-wide accumulator.
func hasValidCsd(f *fit.File) bool {
	_, slots := fileSlots(f)
	for _, s := range slots {
		for _, m := range slotMsgs(s) {
			if m.Type().Name() != "RecordMsg" {
				continue
			}
			csd := m.FieldByName("CompressedSpeedDistance")
			if !csd.IsValid() || csd.Kind() != reflect.Slice {
				continue
			}
			for j := 0; j < csd.Len() && j < 3; j++ {
				if csd.Index(j).Uint() != 0xFF {
					return true
				}
			}
		}
	}
	return false
}
