package main

import (
	"bufio"
	"encoding/hex"
	"encoding/json"
	"fmt"
	"go/ast"
	"go/parser"
	"go/token"
	"io"
	"os"
	"os/exec"
	"path/filepath"
	"sort"
	"strconv"
	"strings"
	"sync"
	"sync/atomic"
	"time"

	"github.com/tormoder/fit"
	"github.com/tormoder/fit/dyncrc16"
	"github.com/tormoder/fit/internal/types"
)

// C01: decoding entry points are total.
//
// The theorem (Props/C01.v) is about the model; this run ties the model to
// the implementation in the one direction a safety theorem needs, and looks
// for a concrete input on which the implementation panics or hangs:
//  (a) validator sweep: the real validateFieldDef (hook) against the model's
//      validate_field_def: every definition the implementation accepts must be
//      one the model accepts;
//  (b) every accepted single-field definition of a listed field (and a sample
//      for unlisted fields and unknown messages), both byte orders, three
//      payloads, through the real Decode as a complete valid stream;
//  (c) generated, mutated, historical-crasher and testdata streams through all
//      entry points under several reader behaviours.
// The implementation runs in child processes (`vh c01run`) supervised with a
// deadline, so that a panic that escapes recover, a fatal runtime error or a
// hang is attributed to the case that caused it.

func init() {
	register("c01", runC01)
	register("c01run", runC01Child)
}

// ---------------------------------------------------------------- child side

// one case per line: <entry> <opts> <datahex|-> <e|f> <0|1> <sched|->
// one answer per line: "r <errclass> <pos>" | "p <panic text>"
func runC01Child(args []string) int {
	in := bufio.NewReaderSize(os.Stdin, 1<<20)
	out := bufio.NewWriterSize(os.Stdout, 1<<16)
	defer out.Flush()
	for {
		line, err := in.ReadString('\n')
		line = strings.TrimRight(line, "\n")
		if line != "" {
			c, perr := parseCaseLine(line)
			if perr != nil {
				fmt.Fprintf(out, "p bad case line: %v\n", perr)
			} else {
				cls, pos, ptxt := runEntryDirect(c)
				if ptxt != "" {
					fmt.Fprintf(out, "p %s\n", strings.ReplaceAll(strings.ReplaceAll(ptxt, "\n", " "), "\r", " "))
				} else {
					fmt.Fprintf(out, "r %d %d\n", cls, pos)
				}
			}
			out.Flush()
		}
		if err != nil {
			return 0
		}
	}
}

type c01Case struct {
	Entry string     `json:"entry"` // D C I J H F
	Opts  string     `json:"options"`
	RS    readerSpec `json:"reader"`
	// bookkeeping
	Origin string `json:"origin"`
	Note   string `json:"note,omitempty"`
}

func (c c01Case) line() string { return c.Entry + " " + c.Opts + " " + c.RS.driverArgs() }

func parseCaseLine(line string) (c01Case, error) {
	f := strings.Fields(line)
	if len(f) != 6 {
		return c01Case{}, fmt.Errorf("want 6 fields, got %d", len(f))
	}
	c := c01Case{Entry: f[0], Opts: f[1]}
	if f[2] != "-" {
		b, err := hex.DecodeString(f[2])
		if err != nil {
			return c, err
		}
		c.RS.Data = b
	}
	c.RS.Fault = f[3] == "f"
	c.RS.Ewd = f[4] == "1"
	if f[5] != "-" {
		for _, s := range strings.Split(f[5], ",") {
			n, err := strconv.Atoi(s)
			if err != nil {
				return c, err
			}
			c.RS.Sched = append(c.RS.Sched, n)
		}
	}
	return c, nil
}

func optsOf(s string) optSet {
	o := optSet{}
	if len(s) == 3 {
		o.Logger, o.UnkF, o.UnkM = s[0] == '1', s[1] == '1', s[2] == '1'
	}
	return o
}

// runEntryDirect calls one entry point of the real library under recover.
func runEntryDirect(c c01Case) (cls int, pos int, panicText string) {
	rd := c.RS.reader()
	defer func() {
		if r := recover(); r != nil {
			panicText = fmt.Sprint(r)
			if panicText == "" {
				panicText = "panic"
			}
			pos = rd.pos
		}
	}()
	o := optsOf(c.Opts)
	var err error
	switch c.Entry {
	case "D":
		_, err = fit.Decode(rd, o.options()...)
	case "C":
		_, err = fit.DecodeChained(rd, o.options()...)
	case "I":
		err = fit.CheckIntegrity(rd, false)
	case "J":
		err = fit.CheckIntegrity(rd, true)
	case "H":
		_, err = fit.DecodeHeader(rd)
	case "F":
		_, _, err = fit.DecodeHeaderAndFileID(rd)
	default:
		return 0, 0, "unknown entry " + c.Entry
	}
	return errClass(err), rd.pos, ""
}

// ---------------------------------------------------------------- parent side

type implRes struct {
	Class string // ok | err | integrity | panic | hang | crash
	Pos   int
	Text  string
}

func (r implRes) returned() bool {
	return r.Class == "ok" || r.Class == "err" || r.Class == "integrity"
}

func (r implRes) errClass() int {
	switch r.Class {
	case "ok":
		return 0
	case "err":
		return 1
	case "integrity":
		return 2
	}
	return -1
}

const c01Silence = 10 * time.Second // no answer for this long: the current case hangs

// once this many cases of one batch have hung or killed their process the rest of the batch is skipped:
// every further hang costs c01Silence, and the verdict is already decided
const c01MaxFatal = 6

var c01Fatal int32

// runChildSeq runs cases[lo:hi] in child processes, restarting after a hang or crash.
func runChildSeq(self string, cases []c01Case, lo, hi int, res []implRes) {
	i := lo
	for i < hi {
		if atomic.LoadInt32(&c01Fatal) >= c01MaxFatal {
			for ; i < hi; i++ {
				res[i] = implRes{Class: "skipped"}
			}
			return
		}
		cmd := exec.Command(self, "c01run")
		cmd.Env = append(os.Environ(), "GOMEMLIMIT=1GiB")
		stdin, _ := cmd.StdinPipe()
		stdout, _ := cmd.StdoutPipe()
		var errBuf strings.Builder
		cmd.Stderr = &limitedWriter{w: &errBuf, left: 4000}
		if err := cmd.Start(); err != nil {
			for ; i < hi; i++ {
				res[i] = implRes{Class: "crash", Text: "cannot start child: " + err.Error()}
			}
			return
		}
		start := i
		go func() {
			w := bufio.NewWriterSize(stdin, 1<<20)
			for k := start; k < hi; k++ {
				if _, err := w.WriteString(cases[k].line() + "\n"); err != nil {
					break
				}
			}
			w.Flush()
			stdin.Close()
		}()
		lines := make(chan string, 1024)
		go func() {
			br := bufio.NewReaderSize(stdout, 1<<16)
			for {
				l, err := br.ReadString('\n')
				if l != "" {
					lines <- strings.TrimRight(l, "\n")
				}
				if err != nil {
					close(lines)
					return
				}
			}
		}()
		alive := true
		for alive && i < hi {
			select {
			case l, ok := <-lines:
				if !ok {
					// the child died on case i
					cmd.Wait()
					res[i] = implRes{Class: "crash", Text: "child process died: " + tail(errBuf.String(), 600)}
					atomic.AddInt32(&c01Fatal, 1)
					i++
					alive = false
					break
				}
				switch {
				case strings.HasPrefix(l, "r "):
					var cls, pos int
					fmt.Sscanf(l[2:], "%d %d", &cls, &pos)
					res[i] = implRes{Class: []string{"ok", "err", "integrity"}[cls%3], Pos: pos}
				default:
					res[i] = implRes{Class: "panic", Text: strings.TrimPrefix(l, "p ")}
				}
				i++
			case <-time.After(c01Silence):
				cmd.Process.Kill()
				cmd.Wait()
				res[i] = implRes{Class: "hang", Text: "no return within " + c01Silence.String()}
				atomic.AddInt32(&c01Fatal, 1)
				i++
				alive = false
			}
		}
		if alive {
			cmd.Wait()
		}
	}
}

type limitedWriter struct {
	w    io.Writer
	left int
}

func (l *limitedWriter) Write(p []byte) (int, error) {
	n := len(p)
	if l.left > 0 {
		q := p
		if len(q) > l.left {
			q = q[:l.left]
		}
		l.w.Write(q)
		l.left -= len(q)
	}
	return n, nil
}

func tail(s string, n int) string {
	s = strings.ReplaceAll(s, "\n", " | ")
	if len(s) > n {
		return s[:n]
	}
	return s
}

// runImpl runs all cases on the implementation, in parallel child processes.
func runImpl(cases []c01Case, par int) []implRes {
	res := make([]implRes, len(cases))
	atomic.StoreInt32(&c01Fatal, 0)
	self, err := os.Executable()
	if err != nil {
		self = os.Args[0]
	}
	if par < 1 {
		par = 1
	}
	chunk := (len(cases) + par - 1) / par
	var wg sync.WaitGroup
	for lo := 0; lo < len(cases); lo += chunk {
		hi := lo + chunk
		if hi > len(cases) {
			hi = len(cases)
		}
		wg.Add(1)
		go func(lo, hi int) {
			defer wg.Done()
			runChildSeq(self, cases, lo, hi, res)
		}(lo, hi)
	}
	wg.Wait()
	return res
}

// the model's outcome for a batch of cases: class ("ok|err|integrity|panic|fuel") and position
type modelRes struct {
	Class string
	Pos   int
	Text  string
}

func runModel(d *driver, cases []c01Case) ([]modelRes, error) {
	reqs := make([]string, len(cases))
	for i, c := range cases {
		reqs[i] = "decode " + c.Entry + " " + c.Opts + " " + c.RS.driverArgs() + " -/-/-"
	}
	resp, err := d.batch(reqs)
	if err != nil {
		return nil, err
	}
	out := make([]modelRes, len(cases))
	for i, r := range resp {
		switch {
		case strings.HasPrefix(r, "P "):
			out[i] = modelRes{Class: "panic", Text: r}
		case r == "X":
			out[i] = modelRes{Class: "fuel", Text: r}
		case strings.HasPrefix(r, "R "):
			m, perr := parseModel(cases[i].Entry, r)
			if perr != nil {
				return nil, perr
			}
			out[i] = modelRes{Class: []string{"ok", "err", "integrity"}[m.ErrClass%3], Pos: m.Pos, Text: m.ErrText}
		default:
			return nil, fmt.Errorf("bad model response: %.200s", r)
		}
	}
	return out, nil
}

// the model builds unary numbers of the header's data size: keep it away from absurd sizes
func modelCanRun(data []byte) bool {
	if len(data) > 70000 {
		return false
	}
	if len(data) >= 8 {
		ds := uint32(data[4]) | uint32(data[5])<<8 | uint32(data[6])<<16 | uint32(data[7])<<24
		if ds > 1<<17 {
			return false
		}
	}
	// chained input: a later header may carry a huge size as well
	for i := 0; i+12 <= len(data); i++ {
		if data[i+8] == '.' && data[i+9] == 'F' && data[i+10] == 'I' && data[i+11] == 'T' {
			ds := uint32(data[i+4]) | uint32(data[i+5])<<8 | uint32(data[i+6])<<16 | uint32(data[i+7])<<24
			if ds > 1<<17 {
				return false
			}
		}
	}
	return true
}

func (c c01Case) replay() map[string]interface{} {
	c.RS.Hex = hexs(c.RS.Data)
	return map[string]interface{}{"kind": "stream", "entry": c.Entry, "options": c.Opts, "input_hex": c.RS.Hex, "sched": c.RS.Sched,
		"fault": c.RS.Fault, "eof_with_data": c.RS.Ewd, "origin": c.Origin, "note": c.Note}
}

var c01EntryName = map[string]string{"D": "Decode", "C": "DecodeChained", "I": "CheckIntegrity(false)", "J": "CheckIntegrity(true)", "H": "DecodeHeader", "F": "DecodeHeaderAndFileID"}

// judge records the verdicts of one batch. withModel[i] says whether ms[i] is meaningful.
func judgeBatch(r *report, tag string, cases []c01Case, is []implRes, ms []modelRes, withModel []bool) {
	for i, c := range cases {
		im := is[i]
		r.hist(tag + "_impl_" + im.Class)
		if im.Class == "skipped" {
			continue
		}
		r.hist("entry_" + c.Entry)
		switch im.Class {
		case "panic":
			r.specFail("panic", fmt.Sprintf("%s panics on a %d-byte input (%s): %.300s", c01EntryName[c.Entry], len(c.RS.Data), c.Origin, im.Text), c.replay())
		case "hang":
			r.specFail("hang", fmt.Sprintf("%s does not return on a %d-byte input (%s): %s", c01EntryName[c.Entry], len(c.RS.Data), c.Origin, im.Text), c.replay())
		case "crash":
			r.specFail("crash", fmt.Sprintf("%s kills the process on a %d-byte input (%s): %.300s", c01EntryName[c.Entry], len(c.RS.Data), c.Origin, im.Text), c.replay())
		}
		if ms == nil || !withModel[i] {
			continue
		}
		r.Traces++
		m := ms[i]
		switch {
		case m.Class == "panic" || m.Class == "fuel":
			// the theorem says this cannot happen; if it does the model in the driver is not the proved one
			r.corrFail("model_not_total", fmt.Sprintf("the extracted model does not return on this input: %s", m.Text), c.replay())
		case im.returned() && (im.errClass() != errClassOf(m.Class) || im.Pos != m.Pos):
			r.corrFail(tag+"_outcome", fmt.Sprintf("%s: implementation %s pos=%d, model %s pos=%d (%s) on %s", c01EntryName[c.Entry], im.Class, im.Pos, m.Class, m.Pos, m.Text, c.Origin), c.replay())
		case !im.returned():
			r.corrFail(tag+"_outcome", fmt.Sprintf("%s: implementation %s, model returns %s (%s)", c01EntryName[c.Entry], im.Class, m.Class, c.Origin), c.replay())
		}
	}
}

func errClassOf(s string) int {
	switch s {
	case "ok":
		return 0
	case "err":
		return 1
	case "integrity":
		return 2
	}
	return -1
}

// ---------------------------------------------------------------- (a) validator sweep

type vkey struct {
	gmn     uint16
	num, bt byte
}

// implRow evaluates the real validator for all 256 sizes: 'o' accepted, 'e' rejected, 'p' panic
func implRow(gmn uint16, num, bt byte) (row [256]byte, ptxt string) {
	for s := 0; s < 256; s++ {
		func() {
			defer func() {
				if rec := recover(); rec != nil {
					row[s] = 'p'
					if ptxt == "" {
						ptxt = fmt.Sprintf("size %d: %v", s, rec)
					}
				}
			}()
			if err := fit.VerifValidateFieldDef(fit.MesgNum(gmn), num, byte(s), bt); err == nil {
				row[s] = 'o'
			} else {
				row[s] = 'e'
			}
		}()
	}
	return
}

// descriptor class of a (message, field number): what the validator may look at
func descClass(known map[fit.MesgNum]bool, gmn uint16, num byte) (cls string) {
	defer func() {
		if rec := recover(); rec != nil {
			cls = fmt.Sprintf("panic-in-getField(%d,%d)", gmn, num)
		}
	}()
	if !known[fit.MesgNum(gmn)] {
		return "none"
	}
	f, ok := fit.VerifGetField(fit.MesgNum(gmn), num)
	if !ok {
		return "none"
	}
	t := types.Fit(f.T)
	return fmt.Sprintf("arr=%v,base=0x%02x", t.Array(), byte(t.BaseType()))
}

func sizeClassOf(size int, bs int) string {
	switch {
	case size == 0:
		return "0"
	case size < bs:
		return "<base"
	case size == bs:
		return "=base"
	case bs > 0 && size%bs == 0:
		return "multiple"
	default:
		return "other"
	}
}

func baseLabel(bt byte) (s string) {
	defer func() {
		if rec := recover(); rec != nil {
			s = fmt.Sprintf("0x%02x(panic)", bt)
		}
	}()
	b := types.Base(bt)
	if b.Known() {
		if bt&0x60 != 0 {
			return strings.TrimPrefix(b.String(), "Base") + "+reserved_bits"
		}
		return strings.TrimPrefix(b.String(), "Base")
	}
	return "unknown"
}

func baseSize(bt byte) (n int) {
	defer func() {
		if rec := recover(); rec != nil {
			n = 0
		}
	}()
	if types.Base(bt).Known() {
		return types.Base(bt).Size()
	}
	return 0
}

// singleFieldStream builds a complete valid FIT stream: file_id, then one
// definition with one field on local type 1, then one data record.
func singleFieldStream(ft byte, be bool, gmn uint16, num, size, bt byte, payload []byte) []byte {
	arch := byte(0)
	if be {
		arch = 1
	}
	s := &stream{HdrSize: 14, Proto: 0x20, Profile: 2115, HdrCRC: "ok"}
	s.Records = []record{
		{Kind: "D", Local: 0, Gmn: 0, Fields: []fieldDefS{{0, 1, 0}}},
		{Kind: "M", Local: 0, Pay: []byte{ft}},
		{Kind: "D", Local: 1, Arch: arch, Gmn: gmn, Fields: []fieldDefS{{num, size, bt}}},
		{Kind: "M", Local: 1, Pay: payload},
	}
	return s.bytes()
}

var hostCache = map[uint16]byte{}

func hostFt(mn uint16) byte {
	if ft, ok := hostCache[mn]; ok {
		return ft
	}
	ft, ok := fileTypeHosting(mn)
	if !ok {
		ft = 4
	}
	hostCache[mn] = ft
	return ft
}

type accDef struct {
	gmn           uint16
	num, size, bt byte
	listed        bool
}

func runC01(args []string) int {
	o := parseRunOpts("c01", args)
	r := newReport("C01", o)
	r.Rule = "(a) the real validateFieldDef (hook) for every known message x every listed field number + sampled unlisted numbers and unknown messages (thorough: all 256 field numbers) x 256 base-type bytes x 256 sizes, compared with the model's validate_field_def per descriptor class (array flag, profile base type | none) and base-type byte, one representative row per class and one row per (message, field) at its profile base type; one-directional: everything the implementation accepts the model must accept; " +
		"(b) every accepted single-field definition of every listed field (sample for unlisted/unknown), both byte orders, payload all-zero / all-ones / random, as a complete valid stream through the real Decode in a supervised child process, compared with the model's outcome class and bytes consumed; " +
		"(c) profile-generated streams with ill-formed choices, byte/bit mutations, truncations, the historical crashers of fuzz_test.go and the testdata files (original, bit-flipped, truncated) through Decode, DecodeChained, CheckIntegrity, DecodeHeader, DecodeHeaderAndFileID under one-read, 1-byte, prime-sized, >4096, empty-read, data+EOF and faulting readers; observed: returned / panic / hang / crash. " +
		"non-trivial = (a) rows with at least one accepted size, (b) all, (c) inputs decoded past the header; distinct by input bytes + entry + reader"
	if o.replay != "" {
		return replayC01(r, o)
	}
	d, err := startDriver(o.driver)
	if err != nil {
		fmt.Println("driver:", err)
		return 2
	}
	defer d.close()
	rg := newRng(o.seed)
	p := profile()
	known := fit.VerifKnownMsgNums()
	thorough := o.tier == "thorough"
	par := 8

	// ------------------------------------------------ (a)
	type pair struct {
		gmn    uint16
		num    byte
		listed bool
	}
	var pairs []pair
	for _, mi := range p.msgs {
		listed := map[byte]bool{}
		for _, f := range mi.Fields {
			listed[f.Num] = true
		}
		if thorough {
			for n := 0; n < 256; n++ {
				pairs = append(pairs, pair{mi.Num, byte(n), listed[byte(n)]})
			}
			continue
		}
		for _, f := range mi.Fields {
			pairs = append(pairs, pair{mi.Num, f.Num, true})
		}
		picked := map[byte]bool{}
		cand := []byte{255, 254, 250, byte(rg.intn(256)), byte(rg.intn(256))}
		for n := 0; n < 256 && len(cand) < 6; n++ {
			if !listed[byte(n)] {
				cand = append(cand, byte(n))
			}
		}
		for _, n := range cand {
			if !listed[n] && !picked[n] && len(picked) < 4 {
				picked[n] = true
				pairs = append(pairs, pair{mi.Num, n, false})
			}
		}
	}
	for _, u := range p.unknown {
		for _, n := range []byte{0, 3, 253, 255, byte(rg.intn(256))} {
			pairs = append(pairs, pair{u, n, false})
		}
	}
	type rowRes struct {
		row  [256]byte
		ptxt string
	}
	// group by class; collect model queries (each keeps its copy of the implementation's row)
	type mq struct {
		pair int
		bt   int
		why  string
		irow [256]byte
	}
	reps := map[string][256]byte{}
	var queries []mq
	classes := map[string]int{}
	var accepted []accDef // listed fields: all; unlisted fields / unknown messages: a reservoir sample
	var unlistedRes []accDef
	unlistedBudget := sizes(o.tier, o.boost, 3000, 60000)
	nUnlisted := 0
	fullRows := thorough || o.boost > 1 // every row of every listed field goes to the model
	hAcc, hRej, hPan := 0, 0, 0
	accBase := map[byte]int{}
	accSize := map[string]int{}
	const chunkPairs = 512
	for lo := 0; lo < len(pairs); lo += chunkPairs {
		hi := lo + chunkPairs
		if hi > len(pairs) {
			hi = len(pairs)
		}
		rows := make([][256]rowRes, hi-lo) // [pair][bt]
		{
			var wg sync.WaitGroup
			work := make(chan int, 64)
			for w := 0; w < 16; w++ {
				wg.Add(1)
				go func() {
					defer wg.Done()
					for i := range work {
						for bt := 0; bt < 256; bt++ {
							row, ptxt := implRow(pairs[i].gmn, pairs[i].num, byte(bt))
							rows[i-lo][bt] = rowRes{row, ptxt}
						}
					}
				}()
			}
			for i := lo; i < hi; i++ {
				work <- i
			}
			close(work)
			wg.Wait()
		}
		for i := lo; i < hi; i++ {
			pr := pairs[i]
			cls := descClass(known, pr.gmn, pr.num)
			classes[cls]++
			for bt := 0; bt < 256; bt++ {
				rr := &rows[i-lo][bt]
				key := cls + "|bt=" + strconv.Itoa(bt)
				nAcc := 0
				bs := baseSize(byte(bt))
				for s := 0; s < 256; s++ {
					switch rr.row[s] {
					case 'o':
						nAcc++
						hAcc++
						accBase[byte(bt)]++
						accSize[sizeClassOf(s, bs)]++
						a := accDef{pr.gmn, pr.num, byte(s), byte(bt), pr.listed}
						if pr.listed {
							accepted = append(accepted, a)
						} else {
							nUnlisted++
							if len(unlistedRes) < unlistedBudget {
								unlistedRes = append(unlistedRes, a)
							} else if j := rg.intn(nUnlisted); j < unlistedBudget {
								unlistedRes[j] = a
							}
						}
					case 'e':
						hRej++
					case 'p':
						hPan++
					}
				}
				r.Evaluations += 256
				if nAcc > 0 {
					r.count("v"+strconv.Itoa(int(pr.gmn))+"."+strconv.Itoa(int(pr.num))+"."+strconv.Itoa(bt), true)
					r.Evaluations-- // count() adds one
				}
				if rr.ptxt != "" {
					// a concrete stream that reaches the validator with this definition
					sz := 0
					for s := 0; s < 256; s++ {
						if rr.row[s] == 'p' {
							sz = s
							break
						}
					}
					c := c01Case{Entry: "D", Opts: "000", Origin: "validator sweep", Note: fmt.Sprintf("definition mesg=%d field=%d size=%d basetype=0x%02x", pr.gmn, pr.num, sz, bt),
						RS: readerSpec{Data: singleFieldStream(hostFt(pr.gmn), false, pr.gmn, pr.num, byte(sz), byte(bt), make([]byte, sz))}}
					rep := c.replay()
					rep["validator"] = map[string]interface{}{"mesgnum": pr.gmn, "fieldnum": pr.num, "size": sz, "basetype": bt}
					r.specFail("panic", fmt.Sprintf("validateFieldDef panics for message %d field %d base type 0x%02x %s", pr.gmn, pr.num, bt, rr.ptxt), rep)
				}
				if rep, ok := reps[key]; !ok {
					reps[key] = rr.row
					queries = append(queries, mq{i, bt, "class representative", rr.row})
				} else if rep != rr.row {
					r.Hist["validator_row_deviates_from_class"]++
					queries = append(queries, mq{i, bt, "deviates from its class", rr.row})
				} else if fullRows && pr.listed && len(queries) < 400000 {
					queries = append(queries, mq{i, bt, "full sweep of listed fields", rr.row})
				}
			}
			// one row per pair at the profile base type (ties the class assignment to the model's tables)
			bt := 2
			if f, ok := safeGetField(pr.gmn, pr.num); ok && known[fit.MesgNum(pr.gmn)] {
				bt = int(byte(types.Fit(f.T).BaseType()))
			}
			queries = append(queries, mq{i, bt, "per-field row", rows[i-lo][bt].row})
		}
	}
	r.Hist["validator_accepted"] = hAcc
	r.Hist["validator_rejected"] = hRej
	r.Hist["validator_panics"] = hPan
	for b, n := range accBase {
		r.Hist["accepted_base_"+baseLabel(b)] += n
	}
	for k, n := range accSize {
		r.Hist["accepted_size_"+k] += n
	}
	nListed := len(accepted)
	accepted = append(accepted, unlistedRes...)
	{
		reqs := make([]string, len(queries))
		for k, q := range queries {
			reqs[k] = fmt.Sprintf("validate_row %d %d %d", pairs[q.pair].gmn, pairs[q.pair].num, q.bt)
		}
		resp, err := d.batch(reqs)
		if err != nil {
			fmt.Println("driver:", err)
			return 2
		}
		for k, q := range queries {
			pr := pairs[q.pair]
			irow := q.irow
			mrow := resp[k]
			if len(mrow) != 256 {
				fmt.Println("driver: bad validate_row response:", mrow)
				return 2
			}
			r.Traces++
			for s := 0; s < 256; s++ {
				switch {
				case irow[s] == 'o' && mrow[s] != 'o':
					c := c01Case{Entry: "D", Opts: "000", Origin: "validator sweep", RS: readerSpec{Data: singleFieldStream(hostFt(pr.gmn), false, pr.gmn, pr.num, byte(s), byte(q.bt), make([]byte, s))}}
					rep := c.replay()
					rep["validator"] = map[string]interface{}{"mesgnum": pr.gmn, "fieldnum": pr.num, "size": s, "basetype": q.bt, "impl": "accepts", "model": string(mrow[s])}
					r.corrFail("validator_accepts_more", fmt.Sprintf("validateFieldDef accepts message %d field %d base type 0x%02x size %d; the model's validator answers %q (e=rejects, p=panics) [%s]", pr.gmn, pr.num, q.bt, s, string(mrow[s]), q.why), rep)
				case irow[s] == 'e' && mrow[s] == 'o':
					r.Hist["validator_impl_stricter_than_model"]++
				case irow[s] == 'e' && mrow[s] == 'p':
					r.Hist["validator_model_panics_impl_rejects"]++
				}
			}
		}
		r.Extra["validator_model_rows_compared"] = len(queries)
	}
	r.Extra["validator_pairs"] = len(pairs)
	r.Extra["validator_descriptor_classes"] = classes
	r.Extra["validator_impl_cells"] = len(pairs) * 65536

	// ------------------------------------------------ (b)
	var bcases []c01Case
	var bmodel []bool
	listedBudget := sizes(o.tier, o.boost, 150000, 3000000)
	// the unchanged library accepts about 48000 definitions of listed fields: all of them are run. If a change of
	// the validator makes that explode, each (message, field, base type) row keeps its smallest and largest
	// accepted size and a random sample.
	sampleListed := nListed > listedBudget
	r.Extra["accepted_listed_definitions"] = nListed
	r.Extra["accepted_listed_sampled"] = sampleListed
	k := 0
	for ai, a := range accepted {
		if a.listed && sampleListed {
			first := ai == 0 || accepted[ai-1].gmn != a.gmn || accepted[ai-1].num != a.num || accepted[ai-1].bt != a.bt
			last := ai == len(accepted)-1 || accepted[ai+1].gmn != a.gmn || accepted[ai+1].num != a.num || accepted[ai+1].bt != a.bt
			if !first && !last && rg.intn(nListed) >= listedBudget/2 {
				continue
			}
		}
		ft := hostFt(a.gmn)
		for _, be := range []bool{false, true} {
			for pk := 0; pk < 3; pk++ {
				pay := make([]byte, a.size)
				switch pk {
				case 1:
					for j := range pay {
						pay[j] = 0xFF
					}
				case 2:
					pay = rg.bytes(int(a.size))
				}
				data := singleFieldStream(ft, be, a.gmn, a.num, a.size, a.bt, pay)
				opts := []string{"000", "011", "111"}[k%3]
				rs := readerSpec{Data: data}
				if k%5 == 4 {
					rs.Sched = makeSched(rg, 1+rg.intn(8), len(data))
					rs.Ewd = rg.bool()
				}
				bcases = append(bcases, c01Case{Entry: "D", Opts: opts, RS: rs, Origin: "accepted definition",
					Note: fmt.Sprintf("mesg=%d field=%d size=%d basetype=0x%02x bigendian=%v payload=%d listed=%v", a.gmn, a.num, a.size, a.bt, be, pk, a.listed)})
				// the model on every accepted definition once (thorough / boosted: on every case)
				bmodel = append(bmodel, thorough || o.boost > 1 || (pk == 2 && be == (k%2 == 0)) || k%16 == 0)
				k++
			}
		}
	}
	if code := runAndJudge(r, d, "accepted", bcases, bmodel, par); code != 0 {
		return code
	}
	// ------------------------------------------------ (b2) the same field bytes under another message number:
	// a local type defined for message A and then redefined, with the very same (number, size, base type)
	// triples, for message B whose field of that number may not admit them; with and without a data record
	// of A in between.  Outcome class and consumption compared with the model.
	{
		type key struct{ num, size, bt byte }
		byKey := map[key]map[uint16]bool{}
		var listedAcc []accDef
		for _, a := range accepted {
			if !a.listed {
				continue
			}
			k := key{a.num, a.size, a.bt}
			if byKey[k] == nil {
				byKey[k] = map[uint16]bool{}
			}
			byKey[k][a.gmn] = true
			listedAcc = append(listedAcc, a)
		}
		withNum := map[byte][]uint16{}
		for _, mi := range p.msgs {
			for _, f := range mi.Fields {
				withNum[f.Num] = append(withNum[f.Num], mi.Num)
			}
		}
		var rcases []c01Case
		var rmodel []bool
		nre := sizes(o.tier, o.boost, 6000, 200000)
		for i := 0; i < nre && len(listedAcc) > 0; i++ {
			a := listedAcc[rg.intn(len(listedAcc))]
			gA, gB := a.gmn, a.gmn
			cands := withNum[a.num]
			if len(cands) > 0 {
				gB = cands[rg.intn(len(cands))]
			}
			kind := "listed->listed"
			switch rg.intn(4) {
			case 0: // first an unknown message (every definition is admitted), then the known one
				gA = p.unknown[rg.intn(len(p.unknown))]
				kind = "unknown->listed"
			case 1: // the other way round
				gA, gB = gB, a.gmn
				kind = "listed->listed (swapped)"
			}
			bothAccept := byKey[key{a.num, a.size, a.bt}][gB] && (kind == "unknown->listed" || byKey[key{a.num, a.size, a.bt}][gA])
			r.hist(fmt.Sprintf("redefinition_%s_second_admitted=%v", kind, bothAccept))
			be := rg.bool()
			arch := byte(0)
			if be {
				arch = 1
			}
			pay := rg.bytes(int(a.size))
			if rg.chance(1, 4) {
				for j := range pay {
					pay[j] = 0
				}
			}
			st := &stream{HdrSize: 14, Proto: 0x20, Profile: 2115, HdrCRC: "ok"}
			st.Records = []record{
				{Kind: "D", Local: 0, Gmn: 0, Fields: []fieldDefS{{0, 1, 0}}},
				{Kind: "M", Local: 0, Pay: []byte{hostFt(gB)}},
				{Kind: "D", Local: 1, Arch: arch, Gmn: gA, Fields: []fieldDefS{{a.num, a.size, a.bt}}},
			}
			if rg.bool() {
				st.Records = append(st.Records, record{Kind: "M", Local: 1, Pay: rg.bytes(int(a.size))})
			}
			st.Records = append(st.Records,
				record{Kind: "D", Local: 1, Arch: arch, Gmn: gB, Fields: []fieldDefS{{a.num, a.size, a.bt}}},
				record{Kind: "M", Local: 1, Pay: pay})
			data := st.bytes()
			rs := readerSpec{Data: data}
			if i%5 == 4 {
				rs.Sched = makeSched(rg, 1+rg.intn(8), len(data))
			}
			rcases = append(rcases, c01Case{Entry: []string{"D", "D", "C"}[i%3], Opts: []string{"000", "011", "111"}[i%3], RS: rs, Origin: "redefinition with the same field bytes",
				Note: fmt.Sprintf("first mesg=%d second mesg=%d field=%d size=%d basetype=0x%02x bigendian=%v (%s)", gA, gB, a.num, a.size, a.bt, be, kind)})
			rmodel = append(rmodel, true)
		}
		if code := runAndJudge(r, d, "redefinition", rcases, rmodel, par); code != 0 {
			return code
		}
		r.Extra["redefinition_streams"] = len(rcases)
	}
	// ------------------------------------------------ (b3) two records of ONE message carrying different fields:
	// for every message and every ordered pair (A, B) of its listed fields where B admits several sizes (arrays,
	// byte and string fields), a record with A alone and then a record with B alone, in the file type hosting the
	// message.  What a container does with a message when it is added (component expansion, and whatever else
	// file_types.go grows) may depend on what earlier messages of the type left behind and on the length of B.
	{
		byMF := map[uint16]map[byte][]accDef{}
		for _, a := range accepted {
			if !a.listed {
				continue
			}
			if byMF[a.gmn] == nil {
				byMF[a.gmn] = map[byte][]accDef{}
			}
			byMF[a.gmn][a.num] = append(byMF[a.gmn][a.num], a)
		}
		var gmns []int
		for g := range byMF {
			gmns = append(gmns, int(g))
		}
		sort.Ints(gmns)
		perPair := sizes(o.tier, 1, 3, 12) // systematic over the pairs: not multiplied by the boost
		var pcases []c01Case
		var pmodel []bool
		for _, gi := range gmns {
			g := uint16(gi)
			var nums []int
			for n := range byMF[g] {
				nums = append(nums, int(n))
			}
			sort.Ints(nums)
			for _, nb := range nums {
				defsB := byMF[g][byte(nb)]
				if len(defsB) < 3 {
					continue // B has no variable size
				}
				for _, na := range nums {
					if na == nb {
						continue
					}
					defsA := byMF[g][byte(na)]
					for k := 0; k < perPair; k++ {
						a, b := defsA[rg.intn(len(defsA))], defsB[rg.intn(len(defsB))]
						if k == 0 {
							// small sizes first: 1..13 covers every residue of the usual element and group sizes
							small := defsB[:0:0]
							for _, d := range defsB {
								if d.size >= 1 && d.size <= 13 {
									small = append(small, d)
								}
							}
							if len(small) > 0 {
								b = small[rg.intn(len(small))]
							}
						}
						be := rg.bool()
						arch := byte(0)
						if be {
							arch = 1
						}
						st := &stream{HdrSize: 14, Proto: 0x20, Profile: 2115, HdrCRC: "ok"}
						st.Records = []record{
							{Kind: "D", Local: 0, Gmn: 0, Fields: []fieldDefS{{0, 1, 0}}},
							{Kind: "M", Local: 0, Pay: []byte{hostFt(g)}},
							{Kind: "D", Local: 1, Arch: arch, Gmn: g, Fields: []fieldDefS{{a.num, a.size, a.bt}}},
							{Kind: "M", Local: 1, Pay: rg.bytes(int(a.size))},
							{Kind: "D", Local: 2, Arch: arch, Gmn: g, Fields: []fieldDefS{{b.num, b.size, b.bt}}},
							{Kind: "M", Local: 2, Pay: rg.bytes(int(b.size))},
						}
						data := st.bytes()
						pcases = append(pcases, c01Case{Entry: []string{"D", "C"}[k%2], Opts: "000", RS: readerSpec{Data: data}, Origin: "two records of one message with different fields",
							Note: fmt.Sprintf("mesg=%d first field=%d size=%d basetype=0x%02x, then field=%d size=%d basetype=0x%02x bigendian=%v", g, a.num, a.size, a.bt, b.num, b.size, b.bt, be)})
						pmodel = append(pmodel, true)
					}
				}
			}
		}
		if code := runAndJudge(r, d, "field_pairs", pcases, pmodel, par); code != 0 {
			return code
		}
		r.Extra["field_pair_streams"] = len(pcases)
	}
	r.Extra["accepted_definitions"] = hAcc
	r.Extra["accepted_unlisted_definitions"] = nUnlisted
	r.Extra["accepted_unlisted_sampled"] = len(unlistedRes)
	r.Extra["accepted_definition_streams"] = len(bcases)

	// ------------------------------------------------ (c)
	var ccases []c01Case
	var cmodel []bool
	nStreamCases := 0
	var streamSample *c01Case
	flushCode := 0
	// cases are run in batches so that the thorough tier stays within a few hundred MB
	flush := func(force bool) {
		if flushCode != 0 || len(ccases) == 0 || (!force && len(ccases) < 100000) {
			return
		}
		if streamSample == nil {
			c := ccases[len(ccases)/3]
			streamSample = &c
		}
		nStreamCases += len(ccases)
		flushCode = runAndJudge(r, d, "streams", ccases, cmodel, par)
		ccases, cmodel = ccases[:0], cmodel[:0]
	}
	entries := []string{"D", "D", "D", "D", "D", "D", "D", "D", "C", "C", "C", "F", "F", "I", "I", "J", "H", "H"}
	addCase := func(entry string, data []byte, origin string, fam int, withModel bool) {
		rs := readerSpec{Data: data}
		switch fam {
		case 0: // one read
		case 1, 4, 6: // 1-byte, prime-sized, > 4096
			rs.Sched = makeSched(rg, fam, len(data))
		case 7: // random sizes with empty reads
			rs.Sched = makeSched(rg, 9, len(data))
		case 8: // data + EOF in the same Read
			rs.Ewd = true
			if rg.bool() {
				rs.Sched = makeSched(rg, 4, len(data))
			}
		case 9: // faulting reader
			rs.Fault = true
			rs.Ewd = rg.bool()
			rs.Sched = makeSched(rg, rg.intn(8), len(data))
		default:
			rs.Sched = makeSched(rg, fam, len(data))
		}
		opts := "000"
		if entry == "D" || entry == "C" {
			opts = []string{"000", "011", "111", "010", "001", "100"}[rg.intn(6)]
		}
		r.hist(fmt.Sprintf("reader_family_%d", fam))
		ccases = append(ccases, c01Case{Entry: entry, Opts: opts, RS: rs, Origin: origin})
		cmodel = append(cmodel, withModel && modelCanRun(data))
		flush(false)
	}
	fams := []int{0, 1, 4, 6, 7, 8, 9, 2, 3, 5}
	// generated + mutated
	nGen := sizes(o.tier, o.boost, 20000, 2000000)
	cfg := defaultCfg()
	cfg.illFormed = 250
	cfg.secondFid = 50
	st := genStats{}
	// the generator calls exported methods of the library's types package: if one of them panics (that is a defect
	// the validator sweep reports), the stream is skipped
	genPanics := 0
	safeGen := func() (s *stream) {
		defer func() {
			if rec := recover(); rec != nil {
				genPanics++
				if genPanics == 1 {
					r.Notes = append(r.Notes, fmt.Sprintf("the stream generator panicked inside a library method: %v", rec))
				}
				s = nil
			}
		}()
		return genStream(rg, &cfg, st)
	}
	for i := 0; i < nGen; i++ {
		if i%3 == 0 {
			cfg.illFormed = 0
		} else {
			cfg.illFormed = 250
		}
		s := safeGen()
		if s == nil {
			continue
		}
		data := s.bytes()
		origin := "generated"
		if i%2 == 1 {
			data, origin = mutateBytes(rg, data)
		}
		if i%11 == 10 {
			// chained: append another file (or garbage)
			s2 := safeGen()
			if s2 == nil {
				continue
			}
			d2 := s2.bytes()
			if rg.intn(3) == 0 {
				d2, _ = mutateBytes(rg, d2)
			}
			data = append(append([]byte{}, data...), d2...)
			origin += "+chained"
		}
		addCase(entries[rg.intn(len(entries))], data, origin, fams[rg.intn(len(fams))], true)
	}
	r.Hist["generator_panics"] = genPanics
	for k, v := range st {
		if !strings.HasPrefix(k, "cell_") && !strings.HasPrefix(k, "filetype_") {
			r.Hist["gen_"+k] += v
		}
	}
	// pure noise and short inputs
	for i := 0; i < sizes(o.tier, o.boost, 1500, 50000); i++ {
		var data []byte
		switch i % 3 {
		case 0:
			data = rg.bytes(rg.intn(40))
		case 1:
			data = append(validHeaderBytes(rg, uint32(rg.intn(64))), rg.bytes(rg.intn(80))...)
		default:
			data = append(validHeaderBytes(rg, uint32(rg.u64())), rg.bytes(rg.intn(80))...)
		}
		addCase(entries[rg.intn(len(entries))], data, "noise", fams[rg.intn(len(fams))], true)
	}
	// every value at every position of two small valid streams (12- and 14-byte header), as is and with the
	// file CRC repaired so that decoding runs to the end
	for hi, hs := range []byte{12, 14} {
		base := &stream{HdrSize: hs, Proto: 0x20, Profile: 2115, HdrCRC: "ok"}
		base.Records = []record{
			{Kind: "D", Local: 0, Gmn: 0, Fields: []fieldDefS{{0, 1, 0}}},
			{Kind: "M", Local: 0, Pay: []byte{4}},
			{Kind: "D", Local: 1, Arch: byte(hi), Gmn: 20, Fields: []fieldDefS{{253, 4, 0x86}, {3, 1, 2}, {6, 2, 0x84}}},
			{Kind: "M", Local: 1, Pay: []byte{1, 2, 3, 0x40, 150, 7, 8}},
			{Kind: "Z", Local: 1, Offset: 9, Pay: []byte{1, 2, 3, 0x40, 151, 7, 8}},
		}
		bb := base.bytes()
		step := 1
		if !thorough && o.boost == 1 {
			step = 3 // quick: every third value (offset by position), all values for the first 16 bytes
		}
		for pos := 0; pos < len(bb); pos++ {
			for v := pos % step; v < 256; v += step {
				if byte(v) == bb[pos] {
					continue
				}
				md := append([]byte{}, bb...)
				md[pos] = byte(v)
				e := "D"
				if v%7 == 6 {
					e = []string{"C", "F", "I", "H", "J"}[(v/7)%5]
				}
				addCase(e, md, fmt.Sprintf("byte %d of a small valid stream set to 0x%02x", pos, v), fams[(pos+v)%len(fams)], true)
				if pos >= int(hs) && pos < len(bb)-2 {
					m2 := append([]byte{}, md...)
					c := crcOf(m2[:len(m2)-2])
					m2[len(m2)-2], m2[len(m2)-1] = byte(c), byte(c>>8)
					addCase("D", m2, fmt.Sprintf("byte %d of a small valid stream set to 0x%02x, CRC repaired", pos, v), 0, true)
				}
			}
		}
		// the header bytes exhaustively, through every entry point
		for pos := 0; pos < int(hs); pos++ {
			for v := 0; v < 256; v++ {
				if byte(v) == bb[pos] {
					continue
				}
				md := append([]byte{}, bb...)
				md[pos] = byte(v)
				addCase([]string{"D", "C", "I", "J", "H", "F"}[(pos+v)%6], md, fmt.Sprintf("header byte %d set to 0x%02x", pos, v), []int{0, 1, 8}[v%3], true)
			}
		}
	}
	// the historical crashers
	crashers, cerr := loadCrashers()
	if cerr != nil {
		r.Notes = append(r.Notes, "fuzz_test.go crashers not extracted: "+cerr.Error())
	}
	r.Extra["crashers_extracted"] = len(crashers)
	for ci, cr := range crashers {
		for _, e := range []string{"D", "C", "I", "J", "H", "F"} {
			for _, fam := range []int{0, 1, 4, 6, 8} {
				addCase(e, cr, fmt.Sprintf("fuzz_test.go crasher #%d", ci+1), fam, true)
			}
		}
		for m := 0; m < sizes(o.tier, o.boost, 6, 200); m++ {
			md, how := mutateBytes(rg, cr)
			addCase(entries[rg.intn(len(entries))], md, fmt.Sprintf("fuzz_test.go crasher #%d %s", ci+1, how), fams[rg.intn(len(fams))], true)
		}
	}
	// testdata files
	tfiles := listTestdata()
	r.Extra["testdata_files"] = len(tfiles)
	for _, tf := range tfiles {
		data, err := os.ReadFile(tf)
		if err != nil {
			continue
		}
		name := strings.TrimPrefix(tf, repoRoot+"/")
		small := len(data) <= 20000
		for _, e := range []string{"D", "C", "I", "F"} {
			addCase(e, data, "testdata "+name, []int{0, 6, 8}[rg.intn(3)], small && !thorough && e != "C" && rg.intn(4) == 0 || small && thorough)
		}
		nm := sizes(o.tier, o.boost, 6, 120)
		if len(data) > 400000 {
			nm = nm/3 + 1
		}
		for m := 0; m < nm; m++ {
			var md []byte
			var how string
			switch m % 3 {
			case 0:
				md = append([]byte{}, data[:rg.intn(len(data)+1)]...)
				how = "truncated"
			case 1:
				md = append([]byte{}, data...)
				for f := 0; f < 1+rg.intn(4); f++ {
					md[rg.intn(len(md))] ^= 1 << uint(rg.intn(8))
				}
				how = "bit flips"
			default:
				md, how = mutateBytes(rg, data)
			}
			fam := []int{0, 6, 8, 9, 4}[rg.intn(5)]
			if len(md) > 100000 && (fam == 4) {
				fam = 6
			}
			addCase([]string{"D", "D", "C", "I", "F"}[rg.intn(5)], md, "testdata "+name+" "+how, fam, small && (thorough || rg.intn(6) == 0))
		}
	}
	flush(true)
	if flushCode != 0 {
		return flushCode
	}
	r.Extra["stream_cases"] = nStreamCases
	r.Exhaustive = thorough
	r.sample(map[string]interface{}{"validator_pairs": len(pairs), "accepted_definitions": hAcc, "accepted_definition_streams": len(bcases), "stream_cases": nStreamCases})
	if len(bcases) > 0 {
		r.sample(bcases[len(bcases)/2].replay())
	}
	if streamSample != nil {
		r.sample(streamSample.replay())
	}
	return r.finish()
}

func safeGetField(gmn uint16, num byte) (f *fit.VerifField, ok bool) {
	defer func() {
		if rec := recover(); rec != nil {
			f, ok = nil, false
		}
	}()
	return fit.VerifGetField(fit.MesgNum(gmn), num)
}

// runAndJudge runs a batch on the implementation (children) and, for the
// selected cases, on the model; records verdicts.
func runAndJudge(r *report, d *driver, tag string, cases []c01Case, withModel []bool, par int) int {
	t0 := time.Now()
	is := runImpl(cases, par)
	addSeconds(r, tag+"_impl_seconds", time.Since(t0).Seconds())
	var sel []c01Case
	var idx []int
	for i := range cases {
		if withModel[i] {
			sel = append(sel, cases[i])
			idx = append(idx, i)
		}
	}
	t1 := time.Now()
	ms, err := runModel(d, sel)
	if err != nil {
		fmt.Println("driver:", err)
		return 2
	}
	addSeconds(r, tag+"_model_seconds", time.Since(t1).Seconds())
	full := make([]modelRes, len(cases))
	for k, i := range idx {
		full[i] = ms[k]
	}
	judgeBatch(r, tag, cases, is, full, withModel)
	for i, c := range cases {
		key := c.Entry + c.Opts + hexs(c.RS.Data) + fmt.Sprint(c.RS.Sched, c.RS.Fault, c.RS.Ewd)
		r.count(key, tag == "accepted" || is[i].Pos > 14)
	}
	return 0
}

func addSeconds(r *report, key string, v float64) {
	if old, ok := r.Extra[key].(float64); ok {
		v += old
	}
	r.Extra[key] = v
}

func validHeaderBytes(rg *rng, dsize uint32) []byte {
	h := frame(14, 0x20, 2115, "ok", nil)
	h = h[:14]
	h[4], h[5], h[6], h[7] = byte(dsize), byte(dsize>>8), byte(dsize>>16), byte(dsize>>24)
	if rg.bool() {
		// header CRC 0 = not checked
		h[12], h[13] = 0, 0
	}
	return h
}

// mutateBytes applies one of the byte-level mutations
func mutateBytes(rg *rng, in []byte) ([]byte, string) {
	b := append([]byte{}, in...)
	if len(b) == 0 {
		return b, "empty"
	}
	switch rg.intn(8) {
	case 0:
		n := 1 + rg.intn(3)
		for i := 0; i < n; i++ {
			b[rg.intn(len(b))] ^= 1 << uint(rg.intn(8))
		}
		return b, "bit flips"
	case 1:
		return b[:rg.intn(len(b))], "truncated"
	case 2:
		n := 1 + rg.intn(4)
		for i := 0; i < n; i++ {
			b[rg.intn(len(b))] = byte(rg.intn(256))
		}
		return b, "bytes replaced"
	case 3:
		i := rg.intn(len(b) + 1)
		ins := rg.bytes(1 + rg.intn(6))
		return append(append(append([]byte{}, b[:i]...), ins...), b[i:]...), "bytes inserted"
	case 4:
		i := rg.intn(len(b))
		j := i + 1 + rg.intn(6)
		if j > len(b) {
			j = len(b)
		}
		return append(append([]byte{}, b[:i]...), b[j:]...), "bytes deleted"
	case 5:
		// data size field of the header
		if len(b) >= 8 {
			switch rg.intn(4) {
			case 0:
				b[4]++
			case 1:
				b[4]--
			case 2:
				b[4], b[5] = byte(rg.intn(256)), byte(rg.intn(4))
			default:
				b[7] = byte(rg.intn(256))
			}
		}
		return b, "header data size changed"
	case 6:
		// interesting values in the record area: base types, sizes, 0xFF
		n := 1 + rg.intn(3)
		vals := []byte{0x00, 0x01, 0x07, 0x0D, 0x83, 0x84, 0x85, 0x86, 0x88, 0x89, 0x8C, 0x8E, 0x8F, 0x90, 0xFF, 0x7F, 0x80, 0x20, 0x40, 0x60}
		for i := 0; i < n; i++ {
			b[rg.intn(len(b))] = vals[rg.intn(len(vals))]
		}
		return b, "interesting bytes"
	default:
		// keep the file CRC valid after a mutation of the record area, so that the data is decoded and accepted to the end
		if len(b) > 18 {
			b[14+rg.intn(len(b)-16)] = byte(rg.intn(256))
			c := crcOf(b[:len(b)-2])
			b[len(b)-2], b[len(b)-1] = byte(c), byte(c>>8)
		}
		return b, "byte replaced, CRC repaired"
	}
}

func crcOf(b []byte) uint16 { return dyncrc16.Checksum(b) }

// loadCrashers extracts the crasher inputs of fuzz_test.go (string literals of the `p` field)
func loadCrashers() ([][]byte, error) {
	fset := token.NewFileSet()
	f, err := parser.ParseFile(fset, filepath.Join(repoRoot, "fuzz_test.go"), nil, 0)
	if err != nil {
		return nil, err
	}
	var out [][]byte
	var evalStr func(e ast.Expr) (string, bool)
	evalStr = func(e ast.Expr) (string, bool) {
		switch x := e.(type) {
		case *ast.BasicLit:
			if x.Kind != token.STRING {
				return "", false
			}
			s, err := strconv.Unquote(x.Value)
			return s, err == nil
		case *ast.BinaryExpr:
			if x.Op != token.ADD {
				return "", false
			}
			a, ok1 := evalStr(x.X)
			b, ok2 := evalStr(x.Y)
			return a + b, ok1 && ok2
		case *ast.ParenExpr:
			return evalStr(x.X)
		}
		return "", false
	}
	ast.Inspect(f, func(n ast.Node) bool {
		cl, ok := n.(*ast.CompositeLit)
		if !ok || len(cl.Elts) != 2 {
			return true
		}
		if _, isArr := cl.Type.(*ast.ArrayType); isArr {
			return true
		}
		// {desc, p} element of the inputs array (positional)
		if _, ok := evalStr(cl.Elts[0]); !ok {
			return true
		}
		if s, ok := evalStr(cl.Elts[1]); ok && strings.Contains(s, ".FIT") {
			out = append(out, []byte(s))
		}
		return true
	})
	if len(out) == 0 {
		return nil, fmt.Errorf("no crasher literals found")
	}
	return out, nil
}

func listTestdata() []string {
	var out []string
	filepath.Walk(filepath.Join(repoRoot, "testdata"), func(p string, info os.FileInfo, err error) error {
		if err != nil || info.IsDir() {
			return nil
		}
		if strings.HasSuffix(strings.ToLower(p), ".fit") {
			out = append(out, p)
		}
		return nil
	})
	sort.Strings(out)
	return out
}

// replayC01 re-runs the case of a replay file against the current tree
func replayC01(r *report, o runOpts) int {
	b, err := os.ReadFile(o.replay)
	if err != nil {
		fmt.Println("replay:", err)
		return 2
	}
	var doc struct {
		Case  map[string]interface{} `json:"case"`
		First map[string]interface{} `json:"first_disagreeing_case"`
	}
	if err := json.Unmarshal(b, &doc); err != nil {
		fmt.Println("replay:", err)
		return 2
	}
	cs := doc.Case
	if cs == nil {
		cs = doc.First
	}
	if cs == nil {
		fmt.Println("replay: no case in file")
		return 2
	}
	str := func(k string) string { s, _ := cs[k].(string); return s }
	c := c01Case{Entry: str("entry"), Opts: str("options"), Origin: "replay of " + filepath.Base(o.replay)}
	if c.Entry == "" {
		c.Entry = "D"
	}
	if len(c.Opts) != 3 {
		c.Opts = "000"
	}
	c.RS.Data, _ = hex.DecodeString(str("input_hex"))
	if sc, ok := cs["sched"].([]interface{}); ok {
		for _, v := range sc {
			if fv, ok := v.(float64); ok {
				c.RS.Sched = append(c.RS.Sched, int(fv))
			}
		}
	}
	c.RS.Fault, _ = cs["fault"].(bool)
	c.RS.Ewd, _ = cs["eof_with_data"].(bool)
	if v, ok := cs["validator"].(map[string]interface{}); ok {
		num := func(k string) int { f, _ := v[k].(float64); return int(f) }
		func() {
			defer func() {
				if rec := recover(); rec != nil {
					fmt.Printf("replay: validateFieldDef(%d, field %d, size %d, base type 0x%02x) panics: %v\n", num("mesgnum"), num("fieldnum"), num("size"), num("basetype"), rec)
				}
			}()
			err := fit.VerifValidateFieldDef(fit.MesgNum(num("mesgnum")), byte(num("fieldnum")), byte(num("size")), byte(num("basetype")))
			fmt.Printf("replay: validateFieldDef(%d, field %d, size %d, base type 0x%02x) = %v\n", num("mesgnum"), num("fieldnum"), num("size"), num("basetype"), err)
		}()
	}
	is := runImpl([]c01Case{c}, 1)
	fmt.Printf("replay: %s on %d bytes: %s pos=%d %s\n", c01EntryName[c.Entry], len(c.RS.Data), is[0].Class, is[0].Pos, is[0].Text)
	var ms []modelRes
	wm := []bool{false}
	if modelCanRun(c.RS.Data) {
		if d, err := startDriver(o.driver); err == nil {
			defer d.close()
			if m, err := runModel(d, []c01Case{c}); err == nil {
				ms = m
				wm[0] = true
				fmt.Printf("replay: model: %s pos=%d %s\n", m[0].Class, m[0].Pos, m[0].Text)
			}
		}
	}
	if ms == nil {
		ms = make([]modelRes, 1)
	}
	judgeBatch(r, "replay", []c01Case{c}, is, ms, wm)
	r.count("replay", true)
	return r.finish()
}
