package main

import (
	"fmt"
)

// dbg: development aid -- random streams through all entry points, print the
// first disagreements between implementation and model.
func init() { register("dbg", runDbg) }

func runDbg(args []string) int {
	o := parseRunOpts("dbg", args)
	d, err := startDriver(o.driver)
	if err != nil {
		fmt.Println(err)
		return 2
	}
	defer d.close()
	w := newWorld(d)
	rg := newRng(o.seed)
	cfg := defaultCfg()
	cfg.illFormed = 30
	st := genStats{}
	bad := 0
	n := 2000 * o.boost
	errs := 0
	for i := 0; i < n && bad < 5; i++ {
		s := genStream(rg, &cfg, st)
		data := s.bytes()
		rs := readerSpec{Data: data, Sched: makeSched(rg, rg.intn(9), len(data)), Ewd: rg.bool()}
		entry := []string{"D", "D", "D", "C", "I", "J", "H", "F"}[rg.intn(8)]
		os := optSet{rg.chance(1, 4), rg.chance(1, 3), rg.chance(1, 3)}
		if entry != "D" && entry != "C" {
			os = optSet{}
		}
		impl, model, err := w.decode(entry, os, rs)
		if err != nil {
			fmt.Println("driver error:", err)
			return 2
		}
		if impl.ErrClass != 0 {
			errs++
		}
		if impl.observable() != model.observable() {
			bad++
			fmt.Printf("MISMATCH #%d entry=%s opts=%s sched=%v ewd=%v\n  stream: %s\n  hex: %x\n  impl : %.3000s\n     (%s %s)\n  model: %.3000s\n     (%s)\n", i, entry, os, rs.Sched, rs.Ewd, s.specArgs(), data, impl.observable(), impl.ErrText, impl.Panic, model.observable(), model.ErrText+" "+model.Panic)
		}
	}
	fmt.Printf("ran %d, impl errors %d, mismatches %d\n", n, errs, bad)
	return 0
}
