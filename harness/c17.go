package main

import (
	"bytes"
	"encoding/json"
	"fmt"
	"math"
	"os"
	"regexp"
	"runtime"
	"sort"
	"strconv"
	"strings"
	"sync"
	"sync/atomic"
	"time"

	"github.com/tormoder/fit"
)

// C17: coordinate and time value types convert exactly and flag invalids
// consistently.
//
// Spec oracle (evaluated on the implementation alone, closed forms computed
// independently in exact float64/integer arithmetic): every one of the 2^32
// semicircle values for both coordinate types and every one of the 2^32 second
// counts; the printed form on the correspondence set (quick) or on every value
// (thorough).
// Correspondence (bit exact, math.Float64bits and strings): the real
// functions against the extracted Flocq/Z model on all values within +-4096
// of every boundary the proofs split on plus a stride over the whole range,
// plus arbitrary float64 arguments of the degree constructors / FormatFloat
// and arbitrary time.Time arguments of encodeTime.

func init() { register("c17", runC17) }

const (
	c17Sentinel = int64(0x7FFFFFFF)
	c17Window   = 4096
)

type c17Fail struct {
	spec   bool
	tag    string
	what   string
	replay map[string]interface{}
}

type c17Fails struct {
	mu   sync.Mutex
	l    []c17Fail
	n    map[string]int
	cnt  int64 // spec failures
	ccnt int64 // correspondence failures
}

// saturated: enough failures were collected; the sweeps stop evaluating (a
// broken tree fails on most of the 2^32 inputs).
func (f *c17Fails) saturated() bool { return atomic.LoadInt64(&f.cnt) > 60 }

func (f *c17Fails) corrSaturated() bool { return atomic.LoadInt64(&f.ccnt) > 60 }

func (f *c17Fails) add(spec bool, tag, what string, replay map[string]interface{}) {
	if spec {
		atomic.AddInt64(&f.cnt, 1)
	} else {
		atomic.AddInt64(&f.ccnt, 1)
	}
	f.mu.Lock()
	defer f.mu.Unlock()
	if f.n == nil {
		f.n = map[string]int{}
	}
	k := tag
	if !spec {
		k = "corr:" + tag
	}
	f.n[k]++
	if f.n[k] <= 3 {
		f.l = append(f.l, c17Fail{spec, tag, what, replay})
	}
}

func (f *c17Fails) flush(r *report) {
	sort.SliceStable(f.l, func(i, j int) bool { return f.l[i].tag < f.l[j].tag })
	for _, x := range f.l {
		if x.spec {
			r.specFail(x.tag, x.what, x.replay)
		} else {
			r.corrFail(x.tag, x.what, x.replay)
		}
	}
}

// ---- the coordinate types behind one interface ----

type c17Coord struct {
	kind    string // "lat" | "lng"
	limit   float64
	newSemi func(int32) (semis int32, invalid bool, degrees float64, str string)
	newDeg  func(float64) (semis int32, invalid bool)
}

var c17Lat = c17Coord{"lat", 90,
	func(s int32) (int32, bool, float64, string) {
		c := fit.NewLatitude(s)
		return c.Semicircles(), c.Invalid(), c.Degrees(), c.String()
	},
	func(d float64) (int32, bool) { c := fit.NewLatitudeDegrees(d); return c.Semicircles(), c.Invalid() }}

var c17Lng = c17Coord{"lng", 180,
	func(s int32) (int32, bool, float64, string) {
		c := fit.NewLongitude(s)
		return c.Semicircles(), c.Invalid(), c.Degrees(), c.String()
	},
	func(d float64) (int32, bool) { c := fit.NewLongitudeDegrees(d); return c.Semicircles(), c.Invalid() }}

// specInvalid is the property's definition of an invalid coordinate, read
// literally: the sentinel or, for latitude, outside +-90 degrees.
func (c *c17Coord) specInvalid(s int32) bool {
	if int64(s) == c17Sentinel {
		return true
	}
	if c.kind == "lat" {
		return int64(s) < -(1<<30) || int64(s) > 1<<30
	}
	return false
}

func c17Replay(kind string, s int32) map[string]interface{} {
	return map[string]interface{}{"entry": "fit.New" + map[string]string{"lat": "Latitude", "lng": "Longitude"}[kind], "kind": kind, "semicircles": s}
}

// oracle checks the property on the implementation for one semicircle value.
// withString adds the printed-form check.
func (c *c17Coord) oracle(s int32, withString bool, f *c17Fails) {
	if f.saturated() {
		return
	}
	var (
		semis int32
		inv   bool
		deg   float64
		str   string
	)
	if withString {
		semis, inv, deg, str = c.newSemi(s)
	} else {
		semis, inv, deg = c.newSemiNoString(s)
	}
	want := c.specInvalid(s)
	if inv != want {
		tag := c.kind + "_invalid_iff"
		if c.kind == "lat" && int64(s) == 1<<30 {
			tag = "lat_plus90"
		}
		f.add(true, tag, fmt.Sprintf("New%s(%d).Invalid() = %v, the property says %v (sentinel or outside +-%v degrees)", c.name(), s, inv, want, c.limit), c17Replay(c.kind, s))
	}
	if inv {
		if int64(semis) != c17Sentinel {
			f.add(true, c.kind+"_semicircles", fmt.Sprintf("invalid New%s(%d).Semicircles() = %d, not the sentinel", c.name(), s, semis), c17Replay(c.kind, s))
		}
		if !math.IsNaN(deg) {
			f.add(true, c.kind+"_degrees_nan", fmt.Sprintf("invalid New%s(%d).Degrees() = %v, expected NaN", c.name(), s, deg), c17Replay(c.kind, s))
		}
		if withString && str != "Invalid" {
			f.add(true, c.kind+"_string_invalid", fmt.Sprintf("invalid New%s(%d).String() = %q", c.name(), s, str), c17Replay(c.kind, s))
		}
		return
	}
	if semis != s {
		f.add(true, c.kind+"_semicircles", fmt.Sprintf("New%s(%d).Semicircles() = %d", c.name(), s, semis), c17Replay(c.kind, s))
	}
	// s*180 is an integer below 2^39 and the division by 2^31 only changes
	// the exponent: every step is exact in float64
	exact := float64(int64(s)*180) / 2147483648.0
	if math.IsNaN(deg) || deg != exact {
		f.add(true, c.kind+"_degrees_exact", fmt.Sprintf("New%s(%d).Degrees() = %v (bits %x), semicircles*180/2^31 = %v", c.name(), s, deg, math.Float64bits(deg), exact), c17Replay(c.kind, s))
		return
	}
	if exact > -c.limit && exact < c.limit {
		rs, rinv := c.newDeg(deg)
		d := int64(rs) - int64(s)
		if rinv || d < -1 || d > 1 {
			f.add(true, c.kind+"_roundtrip", fmt.Sprintf("New%sDegrees(New%s(%d).Degrees()) has semicircles %d (invalid=%v)", c.name(), c.name(), s, rs, rinv), c17Replay(c.kind, s))
		}
	}
	if withString {
		p, err := strconv.ParseFloat(str, 64)
		if err != nil || math.Abs(p-exact) > 2e-5 {
			f.add(true, c.kind+"_string", fmt.Sprintf("New%s(%d).String() = %q, degrees %v: not within 2e-5", c.name(), s, str, exact), c17Replay(c.kind, s))
		}
	}
}

func (c *c17Coord) name() string {
	if c.kind == "lat" {
		return "Latitude"
	}
	return "Longitude"
}

func (c *c17Coord) newSemiNoString(s int32) (int32, bool, float64) {
	if c.kind == "lat" {
		x := fit.NewLatitude(s)
		return x.Semicircles(), x.Invalid(), x.Degrees()
	}
	x := fit.NewLongitude(s)
	return x.Semicircles(), x.Invalid(), x.Degrees()
}

// implTuple is the implementation's side of the driver's `ll` answer.
func (c *c17Coord) implTuple(s int32) string {
	semis, inv, deg, str := c.newSemi(s)
	rs, _ := c.newDeg(deg)
	return fmt.Sprintf("%d,%v,%x,%s,%d", semis, inv, math.Float64bits(deg), str, rs)
}

// ---- time ----

var c17FixedRe = regexp.MustCompile(`^-?[0-9]+\.[0-9]{5}$`)

var c17Epoch = time.Date(1989, time.December, 31, 0, 0, 0, 0, time.UTC)

func c17TimeReplay(u uint32) map[string]interface{} {
	return map[string]interface{}{"entry": "fit.decodeDateTime/encodeTime/IsBaseTime", "kind": "time", "seconds": u}
}

func c17TimeOracle(u uint32, f *c17Fails) {
	if f.saturated() {
		return
	}
	t := fit.VerifDecodeDateTime(u)
	if t.Unix()-c17Epoch.Unix() != int64(u) || t.Nanosecond() != 0 {
		f.add(true, "time_whole_seconds", fmt.Sprintf("decodeDateTime(%d) = %v, expected the FIT epoch + %d s", u, t, u), c17TimeReplay(u))
	}
	if e := fit.VerifEncodeTime(t); e != u {
		f.add(true, "time_roundtrip", fmt.Sprintf("encodeTime(decodeDateTime(%d)) = %d", u, e), c17TimeReplay(u))
	}
	if b := fit.IsBaseTime(t); b != (u == 0) {
		f.add(true, "time_isbasetime", fmt.Sprintf("IsBaseTime(decodeDateTime(%d)) = %v", u, b), c17TimeReplay(u))
	}
}

func c17ShowTime(t time.Time) string {
	_, off := t.Zone()
	z := "u"
	if t.Location() != time.UTC {
		z = strconv.Itoa(off)
	}
	return fmt.Sprintf("%d.%d.%s", t.Unix()-c17Epoch.Unix(), t.Nanosecond(), z)
}

// ---- value sets ----

// c17Boundaries: the semicircle values the proofs and the code split on.
func c17Boundaries() map[string]int64 {
	b := map[string]int64{
		"zero": 0, "plus90": 1 << 30, "minus90": -(1 << 30), "min_int32": -(1 << 31), "sentinel": c17Sentinel,
	}
	// float32 binade edges of the degrees: |degrees| = 2^k
	for k := -23; k <= 7; k++ {
		s := int64(math.Floor(math.Ldexp(1, k+31) / 180))
		b[fmt.Sprintf("binade_2^%d", k)] = s
		b[fmt.Sprintf("binade_-2^%d", k)] = -s
	}
	// decimal edges of the printed form
	for _, d := range []float64{1, 10, 100} {
		s := int64(math.Floor(d * 2147483648.0 / 180))
		b[fmt.Sprintf("decimal_%v", d)] = s
		b[fmt.Sprintf("decimal_-%v", d)] = -s
	}
	return b
}

// parBatch spreads requests over several driver processes, keeping order.
func parBatch(ds []*driver, reqs []string) ([]string, error) {
	out := make([]string, len(reqs))
	var wg sync.WaitGroup
	errs := make([]error, len(ds))
	per := (len(reqs) + len(ds) - 1) / len(ds)
	for i, d := range ds {
		lo, hi := i*per, (i+1)*per
		if lo > len(reqs) {
			lo = len(reqs)
		}
		if hi > len(reqs) {
			hi = len(reqs)
		}
		wg.Add(1)
		go func(i int, d *driver, lo, hi int) {
			defer wg.Done()
			resp, err := d.batch(reqs[lo:hi])
			if err != nil {
				errs[i] = err
				return
			}
			copy(out[lo:hi], resp)
		}(i, d, lo, hi)
	}
	wg.Wait()
	for _, e := range errs {
		if e != nil {
			return nil, e
		}
	}
	return out, nil
}

// parRange runs fn(lo, hi) over [0, n) split across the CPUs.
func parRange(n uint64, fn func(lo, hi uint64)) {
	w := uint64(runtime.NumCPU())
	if w < 1 {
		w = 1
	}
	per := (n + w - 1) / w
	var wg sync.WaitGroup
	for i := uint64(0); i < w; i++ {
		lo, hi := i*per, (i+1)*per
		if lo > n {
			lo = n
		}
		if hi > n {
			hi = n
		}
		wg.Add(1)
		go func(lo, hi uint64) { defer wg.Done(); fn(lo, hi) }(lo, hi)
	}
	wg.Wait()
}

func runC17(args []string) int {
	o := parseRunOpts("c17", args)
	r := newReport("C17", o)
	r.Rule = "spec oracle: every int32 semicircle value x {Latitude, Longitude} and every uint32 second count on the implementation (counted in evaluations, listed under exhaustive_*); " +
		"correspondence: implementation vs extracted model, bit exact, on windows of +-4096 around every boundary (0, +-2^30, -2^31, sentinel, float32 binade edges, decimal edges), a stride over 2^32 and random values, " +
		"arbitrary float64 arguments of New*Degrees/FormatFloat and arbitrary time.Time arguments of encodeTime; every case reaches the property (non-trivial); distinct by (type, input)"
	fails := &c17Fails{}
	thorough := o.tier == "thorough"

	nd := runtime.NumCPU()
	if nd > 8 {
		nd = 8
	}
	if nd < 1 {
		nd = 1
	}
	var ds []*driver
	for i := 0; i < nd; i++ {
		d, err := startDriver(o.driver)
		if err != nil {
			fmt.Println("driver:", err)
			return 2
		}
		defer d.close()
		ds = append(ds, d)
	}

	if o.replay != "" {
		return c17RunReplay(o, r, ds[0], fails)
	}
	rg := newRng(o.seed)

	// the epoch itself
	if !fit.VerifTimeBase().Equal(c17Epoch) || fit.VerifTimeBase().Location() != time.UTC {
		r.specFail("time_base", fmt.Sprintf("timeBase = %v, the FIT epoch is %v", fit.VerifTimeBase(), c17Epoch), map[string]interface{}{"entry": "fit.timeBase", "kind": "time", "seconds": 0})
	}

	// ---- 1. spec oracle, exhaustive on the implementation ----
	parRange(1<<32, func(lo, hi uint64) {
		for x := lo; x < hi; x++ {
			s := int32(uint32(x))
			c17Lat.oracle(s, false, fails)
			c17Lng.oracle(s, false, fails)
		}
	})
	r.Evaluations += 2 << 32
	r.Extra["exhaustive_semicircles"] = "all 2^32 int32 values x {Latitude, Longitude}: invalid iff, Semicircles, Degrees exact / NaN iff invalid, round trip within 1"
	parRange(1<<32, func(lo, hi uint64) {
		for x := lo; x < hi; x++ {
			c17TimeOracle(uint32(x), fails)
		}
	})
	r.Evaluations += 1 << 32
	r.Extra["exhaustive_seconds"] = "all 2^32 uint32 values: decodeDateTime whole seconds from the epoch (hence injective and onto), encodeTime inverse, IsBaseTime only at 0"
	r.Exhaustive = true
	if thorough {
		parRange(1<<32, func(lo, hi uint64) {
			for x := lo; x < hi; x++ {
				s := int32(uint32(x))
				c17Lat.oracle(s, true, fails)
				c17Lng.oracle(s, true, fails)
			}
		})
		r.Evaluations += 2 << 32
		r.Extra["exhaustive_printed_form"] = "all 2^32 int32 values x {Latitude, Longitude}: |parse(String) - Degrees| <= 2e-5, \"Invalid\" iff invalid"
	}

	// ---- 2. correspondence set of semicircle values ----
	var vals []int32
	bnd := c17Boundaries()
	for name, b := range bnd {
		n := 0
		for v := b - c17Window; v <= b+c17Window; v++ {
			if v < math.MinInt32 || v > math.MaxInt32 {
				continue
			}
			vals = append(vals, int32(v))
			n++
		}
		r.Hist["window_"+name] = n
	}
	stride := uint64(65521)
	if thorough {
		stride = 257
	}
	if o.boost > 1 && !thorough {
		stride = 6553
	}
	ns := 0
	for x := uint64(rg.intn(int(stride))); x < 1<<32; x += stride {
		vals = append(vals, int32(uint32(x)))
		ns++
	}
	r.Hist["stride_values"] = ns
	nrand := 20000 * o.boost
	for i := 0; i < nrand; i++ {
		vals = append(vals, int32(uint32(rg.u64())))
	}
	r.Hist["random_values"] = nrand
	sort.Slice(vals, func(i, j int) bool { return vals[i] < vals[j] })
	{ // dedupe
		k := 0
		for i, v := range vals {
			if i == 0 || v != vals[i-1] {
				vals[k] = v
				k++
			}
		}
		vals = vals[:k]
	}

	const chunk = 64
	const block = 1 << 20 // values per round trip to the drivers (bounds memory in the thorough tier)
	var reqs []string
	var resp []string
	var err error
	for b0 := 0; b0 < len(vals); b0 += block {
		bv := vals[b0:]
		if len(bv) > block {
			bv = bv[:block]
		}
		reqs = reqs[:0]
		for i := 0; i < len(bv); i += chunk {
			var sb strings.Builder
			sb.WriteString("ll")
			for j := i; j < i+chunk && j < len(bv); j++ {
				sb.WriteByte(' ')
				sb.WriteString(strconv.Itoa(int(bv[j])))
			}
			reqs = append(reqs, sb.String())
		}
		resp, err = parBatch(ds, reqs)
		if err != nil {
			fmt.Println("driver:", err)
			return 2
		}
		for i := 0; i < len(bv); i += chunk {
			parts := strings.Split(resp[i/chunk], " ")
			for j := i; j < i+chunk && j < len(bv); j++ {
				s := bv[j]
				model := ""
				if j-i < len(parts) {
					model = parts[j-i]
				}
				c17CompareLL(s, model, fails)
				if !thorough {
					c17Lat.oracle(s, true, fails)
					c17Lng.oracle(s, true, fails)
				}
				// r.count with a cheap injective key: (type, value)
				r.Evaluations += 2
				r.distinct[uint64(uint32(s))] = struct{}{}
				r.distinct[1<<32|uint64(uint32(s))] = struct{}{}
				r.Traces += 2
			}
		}
	}
	// the spec's reader of the printed form (Spec/FixedPoint.v) against
	// strconv.ParseFloat, the reader the oracle uses, on a sample of the strings
	var pstr []string
	for i := 0; i < len(vals); i += 16 {
		_, _, _, a := c17Lat.newSemi(vals[i])
		_, _, _, b := c17Lng.newSemi(vals[i])
		pstr = append(pstr, a, b)
	}
	pstr = append(pstr, "Invalid", "1.5", "12.345678", "-0.00000", ".00000", "1.0000a", "--1.00000", "+1.00000", "1e5")
	reqs = reqs[:0]
	for i := 0; i < len(pstr); i += chunk {
		hi := i + chunk
		if hi > len(pstr) {
			hi = len(pstr)
		}
		reqs = append(reqs, "pf "+strings.Join(pstr[i:hi], " "))
	}
	resp, err = parBatch(ds, reqs)
	if err != nil {
		fmt.Println("driver:", err)
		return 2
	}
	for i, str := range pstr {
		parts := strings.Split(resp[i/chunk], " ")
		got := ""
		if i%chunk < len(parts) {
			got = parts[i%chunk]
		}
		want := "none"
		if c17FixedRe.MatchString(str) {
			digits := strings.Replace(strings.TrimPrefix(str, "-"), ".", "", 1)
			n, _ := strconv.ParseInt(digits, 10, 64)
			want = fmt.Sprintf("%v,%d", strings.HasPrefix(str, "-"), n)
			// and that (sign, n) is what ParseFloat reads, to the last bit of the nearest float64
			f, _ := strconv.ParseFloat(str, 64)
			v := float64(n) / 100000
			if strings.HasPrefix(str, "-") {
				v = -v
			}
			if f != v {
				fails.add(false, "spec_reader", fmt.Sprintf("ParseFloat(%q) = %v, n/10^5 = %v", str, f, v), map[string]interface{}{"entry": "Spec.FixedPoint.parse_fixed5", "kind": "parse", "text": str})
			}
		}
		if got != want {
			fails.add(false, "spec_reader", fmt.Sprintf("parse_fixed5(%q) = %s, expected %s", str, got, want), map[string]interface{}{"entry": "Spec.FixedPoint.parse_fixed5", "kind": "parse", "text": str})
		}
		r.hist("spec_reader_strings")
	}

	for _, s := range []int32{703539217, -1, 1 << 30} {
		r.sample(map[string]interface{}{"kind": "semicircles", "s": s, "lat": c17Lat.implTuple(s), "lng": c17Lng.implTuple(s)})
	}

	// ---- 3. arbitrary float64 arguments of the degree constructors / FormatFloat ----
	var fl []float64
	special := []float64{0, math.Copysign(0, -1), 90, -90, 180, -180, math.NaN(), math.Inf(1), math.Inf(-1), 1e300, -1e300, 5e-324, 1e-7,
		0.015625, 0.703125, 0.000005, 0.000015, 2147483647.0 / 11930464.711111112, 3.4028235e38, 3.5e38, 1e39, 179.99999999, -179.99999999}
	fl = append(fl, special...)
	for _, c := range []float64{0, 90, -90, 180, -180, 1, 10, 100, 128, 64, 45} {
		x, y := c, c
		for i := 0; i < 200; i++ {
			fl = append(fl, x, y)
			x = math.Nextafter(x, math.Inf(1))
			y = math.Nextafter(y, math.Inf(-1))
		}
	}
	nfl := 20000
	if thorough {
		nfl = 1000000
	}
	nfl *= o.boost
	for i := 0; i < nfl; i++ {
		switch rg.intn(4) {
		case 0: // any bit pattern
			fl = append(fl, math.Float64frombits(rg.u64()))
		case 1: // inside +-200 degrees
			fl = append(fl, (float64(rg.u64()>>11)/(1<<53)*2-1)*200)
		case 2: // a multiple of 1e-5/2: ties of the decimal rounding before float32 rounding
			fl = append(fl, float64(int64(rg.intn(36000001))-18000000)*0.5e-5)
		default: // exactly representable float32 ties: k/64, k/2^m
			fl = append(fl, float64(int64(rg.intn(1<<20))-(1<<19))/float64(uint64(1)<<uint(rg.intn(24))))
		}
	}
	reqs = reqs[:0]
	for i := 0; i < len(fl); i += chunk {
		var sb strings.Builder
		sb.WriteString("lld")
		for j := i; j < i+chunk && j < len(fl); j++ {
			fmt.Fprintf(&sb, " %x", math.Float64bits(fl[j]))
		}
		reqs = append(reqs, sb.String())
	}
	resp, err = parBatch(ds, reqs)
	if err != nil {
		fmt.Println("driver:", err)
		return 2
	}
	for i := 0; i < len(fl); i += chunk {
		parts := strings.Split(resp[i/chunk], " ")
		for j := i; j < i+chunk && j < len(fl); j++ {
			model := ""
			if j-i < len(parts) {
				model = parts[j-i]
			}
			c17CompareDeg(fl[j], model, fails)
			r.count(fmt.Sprintf("deg%x", math.Float64bits(fl[j])), true)
			r.hist("degree_arguments")
			r.Traces++
		}
	}

	// ---- 4. time: decode side on a set of second counts, encode side on arbitrary times ----
	tset := map[uint32]struct{}{}
	for _, b := range []int64{0, 0x10000000, 1 << 31, 1<<32 - 1, 1e9} {
		for v := b - c17Window; v <= b+c17Window; v++ {
			if v >= 0 && v < 1<<32 {
				tset[uint32(v)] = struct{}{}
			}
		}
	}
	for x := uint64(rg.intn(int(stride))); x < 1<<32; x += stride * 4 {
		tset[uint32(x)] = struct{}{}
	}
	for i := 0; i < nrand; i++ {
		tset[uint32(rg.u64())] = struct{}{}
	}
	tvals := make([]uint32, 0, len(tset))
	for v := range tset {
		tvals = append(tvals, v)
	}
	sort.Slice(tvals, func(i, j int) bool { return tvals[i] < tvals[j] })
	reqs = reqs[:0]
	for i := 0; i < len(tvals); i += chunk {
		var sb strings.Builder
		sb.WriteString("t_dec")
		for j := i; j < i+chunk && j < len(tvals); j++ {
			sb.WriteByte(' ')
			sb.WriteString(strconv.FormatUint(uint64(tvals[j]), 10))
		}
		reqs = append(reqs, sb.String())
	}
	resp, err = parBatch(ds, reqs)
	if err != nil {
		fmt.Println("driver:", err)
		return 2
	}
	for i := 0; i < len(tvals); i += chunk {
		parts := strings.Split(resp[i/chunk], " ")
		for j := i; j < i+chunk && j < len(tvals); j++ {
			model := ""
			if j-i < len(parts) {
				model = parts[j-i]
			}
			c17CompareTimeDec(tvals[j], model, fails)
			r.count("t"+strconv.FormatUint(uint64(tvals[j]), 10), true)
			r.hist("time_decode_values")
			r.Traces++
		}
	}
	r.sample(map[string]interface{}{"kind": "time", "u": 1000000000, "decoded": fit.VerifDecodeDateTime(1000000000).String()})

	nt := 20000
	if thorough {
		nt = 500000
	}
	nt *= o.boost
	type tcase struct {
		sec  int64
		nsec int64
		zone int
	}
	var tcs []tcase
	for i := 0; i < nt; i++ {
		var sec int64
		switch rg.intn(6) {
		case 0:
			sec = int64(rg.intn(20001)) - 10000
		case 1:
			sec = int64(rg.u64() >> 32)
		case 2:
			sec = 1<<32 + int64(rg.intn(20001)) - 10000
		case 3: // around the saturation point of Duration, both signs
			sec = 9223372036 + int64(rg.intn(41)) - 20
			if rg.bool() {
				sec = -sec
			}
		case 4:
			sec = int64(rg.u64()>>24) - 1<<39
		default:
			sec = -int64(rg.u64() >> 32)
		}
		nsec := int64(rg.intn(1000000000))
		if rg.chance(1, 3) {
			nsec = 0
		}
		if rg.chance(1, 10) {
			nsec = 999999999
		}
		zone := 0
		if rg.chance(1, 3) {
			zone = rg.intn(2*50400+1) - 50400
			if zone == 0 {
				zone = 3600
			}
		}
		tcs = append(tcs, tcase{sec, nsec, zone})
	}
	reqs = reqs[:0]
	for _, c := range tcs {
		z := "u"
		if c.zone != 0 {
			z = strconv.Itoa(c.zone)
		}
		reqs = append(reqs, fmt.Sprintf("t_enc %d %d %s", c.sec, c.nsec, z))
	}
	resp, err = parBatch(ds, reqs)
	if err != nil {
		fmt.Println("driver:", err)
		return 2
	}
	for i, c := range tcs {
		t := time.Unix(c17Epoch.Unix()+c.sec, c.nsec).UTC()
		if c.zone != 0 {
			t = t.In(time.FixedZone("FITLOCAL", c.zone))
		}
		impl := fmt.Sprintf("%d,%v", fit.VerifEncodeTime(t), fit.IsBaseTime(t))
		rep := map[string]interface{}{"entry": "fit.encodeTime/IsBaseTime", "kind": "time_enc", "sec_from_epoch": c.sec, "nsec": c.nsec, "zone_offset": c.zone}
		if impl != resp[i] {
			fails.add(false, "time_encode", fmt.Sprintf("encodeTime,IsBaseTime(epoch %+d s %d ns, zone %d) = %s, model %s", c.sec, c.nsec, c.zone, impl, resp[i]), rep)
		}
		// IsBaseTime true only at the epoch instant, in any zone
		if fit.IsBaseTime(t) != (c.sec == 0 && c.nsec == 0) {
			fails.add(true, "time_isbasetime", fmt.Sprintf("IsBaseTime(epoch %+d s %d ns) = %v", c.sec, c.nsec, fit.IsBaseTime(t)), rep)
		}
		// on whole seconds a uint32 can count, in any zone, encodeTime is the inverse
		if c.nsec == 0 && c.sec >= 0 && c.sec < 1<<32 && int64(fit.VerifEncodeTime(t)) != c.sec {
			fails.add(true, "time_roundtrip", fmt.Sprintf("encodeTime(epoch + %d s, zone %d) = %d", c.sec, c.zone, fit.VerifEncodeTime(t)), rep)
		}
		r.count(fmt.Sprintf("te%d.%d.%d", c.sec, c.nsec, c.zone), true)
		r.hist("time_encode_values")
		r.Traces++
	}

	// coordinates as the decoder produces them: a position field decoded from the wire is the coordinate the
	// constructor (checked above on every value) gives for the same 32-bit value -- same validity, same
	// Semicircles, same Degrees and printed form -- in both byte orders
	{
		vals := []int32{0, 1, -1, 1<<30 - 1, 1 << 30, 1<<30 + 1, -(1 << 30), -(1 << 30) - 1, -(1 << 30) + 1, 0x50000000, -0x50000000, math.MinInt32, math.MinInt32 + 1, math.MaxInt32, math.MaxInt32 - 1}
		for k := 0; k < 40; k++ {
			vals = append(vals, int32(uint32(rg.u64())))
		}
		for _, v := range vals {
			for _, v2 := range []int32{v, ^v} {
				for arch := byte(0); arch < 2; arch++ {
					s := &stream{HdrSize: 14, Proto: 0x10, Profile: 2115, HdrCRC: "ok"}
					s.Records = append(s.Records,
						record{Kind: "D", Local: 0, Gmn: 0, Fields: []fieldDefS{{0, 1, 0}}},
						record{Kind: "M", Local: 0, Pay: []byte{4}},
						record{Kind: "D", Local: 1, Arch: arch, Gmn: uint16(fit.MesgNumRecord), Fields: []fieldDefS{{0, 4, 0x85}, {1, 4, 0x85}}},
						record{Kind: "M", Local: 1, Pay: append(put32(arch == 1, uint32(v)), put32(arch == 1, uint32(v2))...)})
					data := s.bytes()
					rep := map[string]interface{}{"entry": "fit.Decode -> record.PositionLat / PositionLong", "kind": "decoded_coordinate", "lat_semicircles": v, "lng_semicircles": v2, "big_endian": arch == 1, "input_hex": hexs(data)}
					var lat fit.Latitude
					var lng fit.Longitude
					perr := func() (msg string) {
						defer func() {
							if rec := recover(); rec != nil {
								msg = fmt.Sprint("panic: ", rec)
							}
						}()
						f, err := fit.Decode(bytes.NewReader(data))
						if err != nil {
							return "error: " + err.Error()
						}
						a, err := f.Activity()
						if err != nil || len(a.Records) != 1 {
							return "no record decoded"
						}
						lat, lng = a.Records[0].PositionLat, a.Records[0].PositionLong
						return ""
					}()
					r.count(fmt.Sprintf("dec%d.%d.%d", v, v2, arch), true)
					r.hist("decoded_coordinates")
					r.Traces++
					if perr != "" {
						fails.add(true, "decoded_coordinate", fmt.Sprintf("a record with position_lat %d, position_long %d does not decode: %s", v, v2, perr), rep)
						continue
					}
					wl, wg := fit.NewLatitude(v), fit.NewLongitude(v2)
					same := func(a, b float64) bool { return a == b || (math.IsNaN(a) && math.IsNaN(b)) }
					if lat.Invalid() != wl.Invalid() || lat.Semicircles() != wl.Semicircles() || !same(lat.Degrees(), wl.Degrees()) || lat.String() != wl.String() {
						fails.add(true, "decoded_coordinate", fmt.Sprintf("position_lat %d decodes to a Latitude with Invalid=%v Semicircles=%d Degrees=%v String=%q; NewLatitude(%d) has Invalid=%v Semicircles=%d Degrees=%v String=%q",
							v, lat.Invalid(), lat.Semicircles(), lat.Degrees(), lat.String(), v, wl.Invalid(), wl.Semicircles(), wl.Degrees(), wl.String()), rep)
					}
					if lng.Invalid() != wg.Invalid() || lng.Semicircles() != wg.Semicircles() || !same(lng.Degrees(), wg.Degrees()) || lng.String() != wg.String() {
						fails.add(true, "decoded_coordinate", fmt.Sprintf("position_long %d decodes to a Longitude with Invalid=%v Semicircles=%d Degrees=%v; NewLongitude(%d) has Invalid=%v Semicircles=%d Degrees=%v",
							v2, lng.Invalid(), lng.Semicircles(), lng.Degrees(), v2, wg.Invalid(), wg.Semicircles(), wg.Degrees()), rep)
					}
				}
			}
		}
	}
	fails.flush(r)
	return r.finish()
}

func c17CompareLL(s int32, model string, fails *c17Fails) {
	if fails.corrSaturated() {
		return
	}
	impl := c17Lat.implTuple(s) + ";" + c17Lng.implTuple(s)
	if impl == model {
		return
	}
	mi := strings.Split(model, ";")
	ii := strings.Split(impl, ";")
	for k, c := range []*c17Coord{&c17Lat, &c17Lng} {
		m := ""
		if k < len(mi) {
			m = mi[k]
		}
		if ii[k] != m {
			fails.add(false, c.kind, fmt.Sprintf("New%s(%d): implementation (semicircles,invalid,degrees bits,string,round trip) = %s, model %s", c.name(), s, ii[k], m), c17Replay(c.kind, s))
		}
	}
}

func c17CompareDeg(x float64, model string, fails *c17Fails) {
	if fails.corrSaturated() && fails.saturated() {
		return
	}
	las, lainv := c17Lat.newDeg(x)
	los, loinv := c17Lng.newDeg(x)
	impl := fmt.Sprintf("%d,%d,%s", las, los, strconv.FormatFloat(x, 'f', 5, 32))
	rep := map[string]interface{}{"entry": "fit.NewLatitudeDegrees/NewLongitudeDegrees", "kind": "deg", "float64_bits": fmt.Sprintf("%x", math.Float64bits(x))}
	if impl != model {
		fails.add(false, "degrees_ctor", fmt.Sprintf("New{Latitude,Longitude}Degrees(%v [%x]).Semicircles(), FormatFloat = %s, model %s", x, math.Float64bits(x), impl, model), rep)
	}
	// spec: outside the legal range the result is flagged invalid, and what the
	// degree constructor returns is flagged the same way by the semicircle
	// constructor
	if (x > 90 || x < -90) && !lainv {
		fails.add(true, "lat_degrees_ctor_range", fmt.Sprintf("NewLatitudeDegrees(%v) is not invalid", x), rep)
	}
	if (x > 180 || x < -180) && !loinv {
		fails.add(true, "lng_degrees_ctor_range", fmt.Sprintf("NewLongitudeDegrees(%v) is not invalid", x), rep)
	}
	if !math.IsNaN(x) {
		if c := fit.NewLatitude(las); c.Invalid() != lainv {
			fails.add(true, "lat_degrees_ctor_consistent", fmt.Sprintf("NewLatitudeDegrees(%v) has semicircles %d, invalid=%v, but NewLatitude(%d).Invalid()=%v", x, las, lainv, las, c.Invalid()), rep)
		}
	}
}

func c17CompareTimeDec(u uint32, model string, fails *c17Fails) {
	t := fit.VerifDecodeDateTime(u)
	impl := fmt.Sprintf("%s,%v,%d", c17ShowTime(t), fit.IsBaseTime(t), fit.VerifEncodeTime(t))
	if impl != model {
		fails.add(false, "time_decode", fmt.Sprintf("decodeDateTime(%d) (sec.nsec.zone,IsBaseTime,encodeTime) = %s, model %s", u, impl, model), c17TimeReplay(u))
	}
}

// c17RunReplay reruns the single case of a replay file: spec oracle and
// correspondence on that input.
func c17RunReplay(o runOpts, r *report, d *driver, fails *c17Fails) int {
	raw, err := os.ReadFile(o.replay)
	if err != nil {
		fmt.Println("replay:", err)
		return 2
	}
	var doc struct {
		Case  map[string]interface{} `json:"case"`
		First map[string]interface{} `json:"first_disagreeing_case"`
	}
	if err := json.Unmarshal(raw, &doc); err != nil {
		fmt.Println("replay:", err)
		return 2
	}
	c := doc.Case
	if c == nil {
		c = doc.First
	}
	num := func(k string) int64 {
		v, _ := c[k].(float64)
		return int64(v)
	}
	kind, _ := c["kind"].(string)
	switch kind {
	case "lat", "lng":
		s := int32(num("semicircles"))
		resp, err := d.ask("ll " + strconv.Itoa(int(s)))
		if err != nil {
			fmt.Println("driver:", err)
			return 2
		}
		c17CompareLL(s, resp, fails)
		c17Lat.oracle(s, true, fails)
		c17Lng.oracle(s, true, fails)
		r.count("ll"+strconv.Itoa(int(s)), true)
	case "deg":
		bs, _ := c["float64_bits"].(string)
		b, _ := strconv.ParseUint(bs, 16, 64)
		resp, err := d.ask("lld " + bs)
		if err != nil {
			fmt.Println("driver:", err)
			return 2
		}
		c17CompareDeg(math.Float64frombits(b), resp, fails)
		r.count("deg"+bs, true)
	case "time":
		u := uint32(num("seconds"))
		resp, err := d.ask("t_dec " + strconv.FormatUint(uint64(u), 10))
		if err != nil {
			fmt.Println("driver:", err)
			return 2
		}
		c17CompareTimeDec(u, resp, fails)
		c17TimeOracle(u, fails)
		r.count("t"+strconv.FormatUint(uint64(u), 10), true)
	case "time_enc":
		sec, nsec, zone := num("sec_from_epoch"), num("nsec"), int(num("zone_offset"))
		z := "u"
		t := time.Unix(c17Epoch.Unix()+sec, nsec).UTC()
		if zone != 0 {
			z = strconv.Itoa(zone)
			t = t.In(time.FixedZone("FITLOCAL", zone))
		}
		resp, err := d.ask(fmt.Sprintf("t_enc %d %d %s", sec, nsec, z))
		if err != nil {
			fmt.Println("driver:", err)
			return 2
		}
		impl := fmt.Sprintf("%d,%v", fit.VerifEncodeTime(t), fit.IsBaseTime(t))
		if impl != resp {
			fails.add(false, "time_encode", fmt.Sprintf("encodeTime,IsBaseTime = %s, model %s", impl, resp), c)
		}
		r.count("te", true)
	default:
		fmt.Println("replay: no replayable case in", o.replay)
		return 2
	}
	fails.flush(r)
	return r.finish()
}
