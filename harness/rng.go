package main

// Deterministic PRNG (splitmix64). Every random choice of a run derives from
// one state seeded by VERIF_SEED so that disagreements replay exactly.
type rng struct{ s uint64 }

func newRng(seed uint64) *rng { return &rng{s: seed*0x9E3779B97F4A7C15 + 0x1234567} }

func (r *rng) u64() uint64 {
	r.s += 0x9E3779B97F4A7C15
	z := r.s
	z = (z ^ (z >> 30)) * 0xBF58476D1CE4E5B9
	z = (z ^ (z >> 27)) * 0x94D049BB133111EB
	return z ^ (z >> 31)
}

func (r *rng) intn(n int) int {
	if n <= 0 {
		return 0
	}
	return int(r.u64() % uint64(n))
}

func (r *rng) bool() bool { return r.u64()&1 == 1 }

// chance returns true with probability num/den.
func (r *rng) chance(num, den int) bool { return r.intn(den) < num }

func (r *rng) bytes(n int) []byte {
	b := make([]byte, n)
	for i := range b {
		b[i] = byte(r.u64())
	}
	return b
}

// fork derives an independent stream (for per-case seeds).
func (r *rng) fork() *rng { return newRng(r.u64()) }

// perm returns a pseudo-random permutation of 0..n-1.
func (r *rng) perm(n int) []int {
	p := make([]int, n)
	for i := range p {
		p[i] = i
	}
	for i := n - 1; i > 0; i-- {
		j := r.intn(i + 1)
		p[i], p[j] = p[j], p[i]
	}
	return p
}
