package main

import (
	"fmt"

	"github.com/tormoder/fit/internal/types"
)

// Profile-aware generator of FIT streams at the level of abstract syntax.

type genCfg struct {
	maxRecords  int
	illFormed   int // per-mille chance, per construct, of an ill-formed choice
	compressed  int // per-mille of data records written with a compressed-timestamp header
	unknownMsg  int // per-mille of definitions for messages outside the profile
	unknownFld  int // per-mille of extra unlisted field numbers per definition
	dev         int // per-mille of definitions carrying developer fields
	bigEndian   int // per-mille of big-endian definitions
	narrow      int // per-mille of scalar fields defined with a narrower compatible type
	msgFilter   func(num uint16) bool
	fileType    int // -1: random valid
	noTimestamp bool
	zeroFields  int // per-mille of zero-field definitions
	secondFid   int // per-mille chance of a later file_id data record
}

func defaultCfg() genCfg {
	return genCfg{maxRecords: 24, compressed: 150, unknownMsg: 100, unknownFld: 150, dev: 80, bigEndian: 400, narrow: 300, fileType: -1, zeroFields: 30}
}

type genStats map[string]int

type defState struct {
	rec  *record
	size int // payload size of the regular fields
	dev  int
}

// valuePattern fills n bytes
func valuePattern(rg *rng, n int) []byte {
	b := make([]byte, n)
	switch rg.intn(9) {
	case 0: // all ones (invalid for most types)
		for i := range b {
			b[i] = 0xFF
		}
	case 1: // zero
	case 2: // sign boundary
		for i := range b {
			b[i] = 0xFF
		}
		if n > 0 {
			b[rg.intn(n)] = 0x7F
		}
	case 3:
		if n > 0 {
			b[rg.intn(n)] = 0x80
		}
	case 4: // small value, both ends
		if n > 0 {
			b[0] = byte(1 + rg.intn(100))
			b[n-1] = byte(1 + rg.intn(100))
		}
	default:
		copy(b, rg.bytes(n))
	}
	return b
}

func stringPattern(rg *rng, n int) []byte {
	b := make([]byte, n)
	if n == 0 {
		return b
	}
	switch rg.intn(8) {
	case 0: // unterminated, full
		for i := range b {
			b[i] = byte('a' + rg.intn(26))
		}
	case 1: // empty
	case 2: // early NUL then garbage
		for i := range b {
			b[i] = byte('A' + rg.intn(26))
		}
		b[rg.intn(n)] = 0
	case 3: // multi-byte UTF-8
		s := []byte("héllo wörld ✓ 日本語テキスト")
		copy(b, s)
		if len(s) < n {
			b[len(s)] = 0
		}
	case 4: // arbitrary bytes
		copy(b, rg.bytes(n))
	case 5: // valid UTF-8 of mixed 1/2/3-byte characters filling the field at a random alignment: whatever length
		// the profile cuts it to, characters end on, just before and across the cut
		var s []byte
		for len(s) < n {
			s = append(s, []string{"a", "Z", "é", "ö", "✓", "日", "ж"}[rg.intn(7)]...)
		}
		k := n
		for k > 0 && k < len(s) && s[k]&0xC0 == 0x80 {
			k-- // the field itself ends on a character boundary (the rest, if any, is NUL)
		}
		copy(b, s[:k])
	case 6: // a NUL-terminated string ending in a code point at the edge of an encoding length (or U+FFFD itself)
		e := utf8Edges[rg.intn(len(utf8Edges))]
		k := 0
		if n > len(e)+1 {
			k = rg.intn(n - len(e))
		}
		for i := 0; i < k; i++ {
			b[i] = byte('a' + rg.intn(26))
		}
		if k+len(e) <= n {
			copy(b[k:], e)
		}
	default:
		k := rg.intn(n)
		for i := 0; i < k; i++ {
			b[i] = byte('a' + rg.intn(26))
		}
	}
	return b
}

func timePattern(rg *rng, be bool, size int) []byte {
	var v uint32
	switch rg.intn(10) {
	case 0:
		v = 0xFFFFFFFF
	case 1:
		v = uint32(rg.intn(0x10000000)) // below the system time marker
	case 2:
		v = 0
	case 3:
		v = 0x10000000
	default:
		v = 0x30000000 + uint32(rg.intn(1<<20))
	}
	b := make([]byte, 4)
	if be {
		b[0], b[1], b[2], b[3] = byte(v>>24), byte(v>>16), byte(v>>8), byte(v)
	} else {
		b[3], b[2], b[1], b[0] = byte(v>>24), byte(v>>16), byte(v>>8), byte(v)
	}
	if size <= 4 {
		if be {
			return b[4-size:]
		}
		return b[:size]
	}
	return append(b, make([]byte, size-4)...)
}

var allKnownBases = []types.Base{types.BaseEnum, types.BaseSint8, types.BaseUint8, types.BaseSint16, types.BaseUint16,
	types.BaseSint32, types.BaseUint32, types.BaseString, types.BaseFloat32, types.BaseFloat64, types.BaseUint8z,
	types.BaseUint16z, types.BaseUint32z, types.BaseByte, types.BaseSint64, types.BaseUint64, types.BaseUint64z}

// genDefinition builds a definition record for message gmn on local type l.
func genDefinition(rg *rng, cfg *genCfg, st genStats, l byte, gmn uint16) *record {
	p := profile()
	r := &record{Kind: "D", Local: l, Gmn: gmn}
	if rg.chance(cfg.bigEndian, 1000) {
		r.Arch = 1
	}
	if rg.chance(cfg.illFormed, 4000) {
		r.Arch = byte(2 + rg.intn(250))
		st["ill_arch"]++
	}
	mi := p.byNum[gmn]
	if rg.chance(cfg.zeroFields, 1000) {
		st["zero_field_def"]++
	} else if mi != nil {
		// subset of listed fields in random order
		idx := make([]int, len(mi.Fields))
		for i := range idx {
			idx[i] = i
		}
		for i := len(idx) - 1; i > 0; i-- {
			j := rg.intn(i + 1)
			idx[i], idx[j] = idx[j], idx[i]
		}
		k := 1 + rg.intn(8)
		if rg.chance(1, 10) {
			k = len(idx)
		}
		if k > len(idx) {
			k = len(idx)
		}
		total := 0
		for _, ix := range idx[:k] {
			f := mi.Fields[ix]
			pb := f.T.BaseType()
			fd := fieldDefS{Num: f.Num, Btype: byte(pb)}
			switch {
			case pb == types.BaseString:
				fd.Size = byte(rg.intn(24))
				if rg.chance(1, 8) {
					fd.Size = byte(rg.intn(256))
				}
			case f.T.Array():
				n := rg.intn(int(f.Length) + 3)
				if rg.chance(1, 6) {
					n = rg.intn(12)
				}
				if n*pb.Size() > 255 {
					n = 255 / pb.Size()
				}
				fd.Size = byte(n * pb.Size())
			default:
				dt := pb
				if rg.chance(cfg.narrow, 1000) {
					c := compatibleDefs(pb)
					dt = c[rg.intn(len(c))]
				}
				fd.Btype = byte(dt)
				fd.Size = byte(dt.Size())
			}
			if rg.chance(cfg.illFormed, 1000) {
				// an incompatible or odd definition: the decoder must reject or decode safely
				switch rg.intn(4) {
				case 0:
					fd.Btype = byte(allKnownBases[rg.intn(len(allKnownBases))])
				case 1:
					fd.Size = byte(rg.intn(256))
				case 2:
					fd.Btype = byte(rg.intn(256))
				default:
					fd.Btype = byte(allKnownBases[rg.intn(len(allKnownBases))])
					fd.Size = byte(types.Base(fd.Btype).Size() * (1 + rg.intn(3)))
				}
				st["ill_fielddef"]++
			}
			if total+int(fd.Size) > 600 {
				break
			}
			total += int(fd.Size)
			r.Fields = append(r.Fields, fd)
		}
	}
	// unlisted field numbers / fields of unknown messages
	extra := 0
	if mi == nil {
		extra = rg.intn(5)
	}
	for rg.chance(cfg.unknownFld, 1000) && extra < 4 {
		extra++
	}
	if rg.chance(1, 60) {
		// a wide definition (the format allows 255 fields): more than 128 field definitions on one local type
		extra = 129 + rg.intn(120) - len(r.Fields)
		st["wide_definitions"]++
	}
	wide := extra > 8
	for i := 0; i < extra && len(r.Fields) < 250; i++ {
		var num byte
		for tries := 0; tries < 40; tries++ {
			num = byte(rg.intn(256))
			taken := false
			for _, f := range r.Fields {
				if f.Num == num {
					taken = true // no field number twice in one definition
				}
			}
			if mi != nil {
				for _, f := range mi.Fields {
					if f.Num == num {
						taken = true
					}
				}
			}
			if !taken {
				break
			}
			if tries == 39 {
				num, tries = 0, 40
				// fall back to the first free number, if any
				found := false
				for c := 0; c < 256 && !found; c++ {
					free := true
					for _, f := range r.Fields {
						if int(f.Num) == c {
							free = false
						}
					}
					if mi != nil {
						for _, f := range mi.Fields {
							if int(f.Num) == c {
								free = false
							}
						}
					}
					if free {
						num, found = byte(c), true
					}
				}
				if !found {
					extra = 0 // no free field number left
				}
			}
		}
		if extra == 0 {
			break
		}
		bt := allKnownBases[rg.intn(len(allKnownBases))]
		n := 1 + rg.intn(3)
		if wide {
			bt, n = []types.Base{types.BaseUint8, types.BaseEnum, types.BaseSint8, types.BaseUint16}[rg.intn(4)], 1
		}
		fd := fieldDefS{Num: num, Btype: byte(bt), Size: byte(bt.Size() * n)}
		if bt == types.BaseString {
			fd.Size = byte(rg.intn(16))
		}
		// insert at a random position so that unknown fields sit between known ones
		pos := rg.intn(len(r.Fields) + 1)
		r.Fields = append(r.Fields, fieldDefS{})
		copy(r.Fields[pos+1:], r.Fields[pos:])
		r.Fields[pos] = fd
		st["unlisted_field_defs"]++
	}
	if rg.chance(cfg.dev, 1000) {
		r.DevFlg = true
		nd := rg.intn(4)
		if rg.chance(1, 6) {
			nd = 4 + rg.intn(4) // many developer fields: their total may exceed the decoder's 765-byte scratch buffer
		}
		for i := 0; i < nd; i++ {
			sz := rg.intn(9)
			if rg.chance(1, 5) || (nd > 3 && rg.chance(2, 3)) {
				sz = rg.intn(256) // large developer fields: their sizes may add up to more than 255 bytes per record
				st["large_dev_field"]++
			}
			r.Devs = append(r.Devs, devDefS{Num: byte(rg.intn(256)), Size: byte(sz), Idx: byte(rg.intn(4))})
		}
		st["dev_defs"]++
	}
	return r
}

// genPayload builds the data bytes matching definition d.
func genPayload(rg *rng, st genStats, d *record) ([]byte, []byte) {
	p := profile()
	mi := p.byNum[d.Gmn]
	var pay []byte
	be := d.Arch == 1
	for _, fd := range d.Fields {
		var pf *pfieldInfo
		if mi != nil {
			for i := range mi.Fields {
				if mi.Fields[i].Num == fd.Num {
					pf = &mi.Fields[i]
				}
			}
		}
		n := int(fd.Size)
		switch {
		case types.Base(fd.Btype) == types.BaseString:
			pay = append(pay, stringPattern(rg, n)...)
		case pf != nil && (pf.T.Kind() == types.TimeUTC || pf.T.Kind() == types.TimeLocal):
			pay = append(pay, timePattern(rg, be, n)...)
		default:
			pay = append(pay, valuePattern(rg, n)...)
		}
		if pf != nil {
			cell := fmt.Sprintf("cell_k%d_a%v_p%s_d%s_s%d_be%v", pf.T.Kind(), pf.T.Array(), baseName(pf.T.BaseType()), baseName(types.Base(fd.Btype)), sizeClass(n, types.Base(fd.Btype)), be)
			st[cell]++
		}
	}
	var dev []byte
	for _, dd := range d.Devs {
		dev = append(dev, rg.bytes(int(dd.Size))...)
	}
	return pay, dev
}

func baseName(b types.Base) string {
	if b.Known() {
		return b.String()[4:]
	}
	return fmt.Sprintf("x%02X", byte(b))
}

func sizeClass(n int, b types.Base) int {
	if !b.Known() || b.Size() == 0 {
		return -1
	}
	k := n / b.Size()
	if k > 3 {
		k = 3
	}
	return k
}

// fileIdRecords: definition + data for a file_id message of the given type.
func fileIdRecords(rg *rng, cfg *genCfg, st genStats, ft byte) (record, record) {
	l := byte(rg.intn(16))
	d := record{Kind: "D", Local: l, Gmn: 0}
	if rg.chance(cfg.bigEndian, 1000) {
		d.Arch = 1
	}
	// type (0, enum), manufacturer (1, uint16), product (2, uint16), serial (3, uint32z), time_created (4, uint32)
	d.Fields = []fieldDefS{{0, 1, byte(types.BaseEnum)}}
	if rg.bool() {
		d.Fields = append(d.Fields, fieldDefS{1, 2, byte(types.BaseUint16)})
	}
	if rg.bool() {
		d.Fields = append(d.Fields, fieldDefS{3, 4, byte(types.BaseUint32z)})
	}
	if rg.bool() && !cfg.noTimestamp {
		d.Fields = append(d.Fields, fieldDefS{4, 4, byte(types.BaseUint32)})
	}
	if rg.chance(1, 6) {
		// a long product_name (string, any size up to 255 is legal): the file_id message alone exceeds 128 bytes
		d.Fields = append(d.Fields, fieldDefS{8, byte(100 + rg.intn(156)), byte(types.BaseString)})
		st["file_id_long_product_name"]++
	}
	// shuffle
	for i := len(d.Fields) - 1; i > 0; i-- {
		j := rg.intn(i + 1)
		d.Fields[i], d.Fields[j] = d.Fields[j], d.Fields[i]
	}
	var pay []byte
	for _, f := range d.Fields {
		if f.Num == 0 {
			pay = append(pay, ft)
		} else if f.Num == 4 {
			pay = append(pay, timePattern(rg, d.Arch == 1, 4)...)
		} else if f.Num == 8 {
			pay = append(pay, stringPattern(rg, int(f.Size))...)
		} else {
			pay = append(pay, valuePattern(rg, int(f.Size))...)
		}
	}
	m := record{Kind: "M", Local: l, Pay: pay}
	return d, m
}

// genStream generates one stream; mostly well-formed, with cfg.illFormed
// controlling the malformed share.
func genStream(rg *rng, cfg *genCfg, st genStats) *stream {
	p := profile()
	s := &stream{HdrSize: 14, Proto: 0x10, Profile: 2115, HdrCRC: "ok"}
	switch rg.intn(4) {
	case 0:
		s.HdrSize = 12
	case 1:
		s.HdrCRC = "zero"
	}
	if rg.bool() {
		s.Proto = 0x20
	}
	ft := byte(cfg.fileType)
	if cfg.fileType < 0 {
		ft = p.validFts[rg.intn(len(p.validFts))]
		if rg.chance(cfg.illFormed, 2000) {
			ft = byte(rg.intn(256))
			st["ill_filetype"]++
		}
	}
	st[fmt.Sprintf("filetype_%d", ft)]++
	d0, m0 := fileIdRecords(rg, cfg, st, ft)
	s.Records = append(s.Records, d0, m0)
	defs := map[byte]*record{d0.Local: &s.Records[0]}
	dcopy := d0
	defs[d0.Local] = &dcopy

	// hosted messages of this file type get most of the weight
	var hosted []uint16
	if f, err := fitNewFile(ft); err == nil {
		_, slots := fileSlots(f)
		for _, sl := range slots {
			if sl.msg >= 0 && sl.msg != 0 {
				hosted = append(hosted, uint16(sl.msg))
			}
		}
	}
	n := rg.intn(cfg.maxRecords + 1)
	for i := 0; i < n; i++ {
		// define, or emit data for a defined local type
		if len(defs) == 0 || rg.chance(35, 100) {
			l := byte(rg.intn(16))
			if rg.chance(1, 2) {
				l = byte(rg.intn(4)) // so that compressed headers can address it
			}
			var gmn uint16
			switch {
			case rg.chance(cfg.unknownMsg, 1000) && len(p.unknown) > 0:
				gmn = p.unknown[rg.intn(len(p.unknown))]
				st["unknown_msg_defs"]++
			case len(hosted) > 0 && rg.chance(70, 100):
				gmn = hosted[rg.intn(len(hosted))]
			default:
				gmn = p.known[rg.intn(len(p.known))]
			}
			if cfg.msgFilter != nil && !cfg.msgFilter(gmn) && len(hosted) > 0 {
				gmn = hosted[rg.intn(len(hosted))]
			}
			if gmn == 0 && !rg.chance(cfg.secondFid, 1000) {
				gmn = p.known[1+rg.intn(len(p.known)-1)]
			}
			d := genDefinition(rg, cfg, st, l, gmn)
			if rg.chance(1, 8) && len(defs) > 1 {
				// a NEAR-IDENTICAL redefinition of a local type that is already defined: the same message and
				// fields with exactly one thing changed (developer fields dropped or added, byte order flipped,
				// one field dropped, one string/array field resized) -- the latest definition must win entirely
				var ls []byte
				for k := range defs {
					if defs[k].Gmn != 0 {
						ls = append(ls, k)
					}
				}
				for a := 0; a < len(ls); a++ {
					for b := a + 1; b < len(ls); b++ {
						if ls[b] < ls[a] {
							ls[a], ls[b] = ls[b], ls[a]
						}
					}
				}
				if len(ls) > 0 {
					old := defs[ls[rg.intn(len(ls))]]
					nd := *old
					nd.Fields = append([]fieldDefS{}, old.Fields...)
					nd.Devs = append([]devDefS{}, old.Devs...)
					switch rg.intn(4) {
					case 0:
						if nd.DevFlg {
							nd.DevFlg, nd.Devs = false, nil
						} else {
							nd.DevFlg = true
							nd.Devs = []devDefS{{Num: byte(rg.intn(256)), Size: byte(1 + rg.intn(8)), Idx: 0}}
						}
					case 1:
						nd.Arch ^= 1
					case 2:
						if len(nd.Fields) > 1 {
							k := rg.intn(len(nd.Fields))
							nd.Fields = append(nd.Fields[:k], nd.Fields[k+1:]...)
						}
					default:
						for k := range nd.Fields {
							if types.Base(nd.Fields[k].Btype) == types.BaseString && nd.Fields[k].Size > 1 {
								nd.Fields[k].Size--
								break
							}
						}
					}
					d = &nd
					l = nd.Local
					st["near_identical_redefinitions"]++
				}
			}
			s.Records = append(s.Records, *d)
			defs[l] = d
			st["definitions"]++
			continue
		}
		// pick a defined local
		var locals []byte
		for l := range defs {
			locals = append(locals, l)
		}
		// deterministic order
		for a := 0; a < len(locals); a++ {
			for b := a + 1; b < len(locals); b++ {
				if locals[b] < locals[a] {
					locals[a], locals[b] = locals[b], locals[a]
				}
			}
		}
		l := locals[rg.intn(len(locals))]
		if rg.chance(cfg.illFormed, 3000) {
			l = byte(rg.intn(16)) // possibly undefined
			st["ill_local"]++
		}
		d := defs[l]
		var pay, dev []byte
		if d != nil {
			pay, dev = genPayload(rg, st, d)
		} else {
			pay = rg.bytes(rg.intn(8))
		}
		if d != nil && d.Gmn == 0 && !rg.chance(cfg.secondFid, 1000) {
			continue // no second file_id data record unless asked for
		}
		if l < 4 && rg.chance(cfg.compressed, 1000) {
			s.Records = append(s.Records, record{Kind: "Z", Local: l, Offset: byte(rg.intn(32)), Pay: pay, DevPay: dev})
			st["compressed_records"]++
		} else {
			s.Records = append(s.Records, record{Kind: "M", Local: l, Pay: pay, DevPay: dev})
			st["data_records"]++
		}
	}
	s.fillHex()
	return s
}
