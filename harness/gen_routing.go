package main

import (
	"fmt"
	"reflect"
	"sort"
	"strings"
	"time"

	"github.com/tormoder/fit"
)

// fillMsg sets every field of the message struct v (addressable) to a valid,
// salt-dependent value, so that two messages built with different salts are
// distinguishable and every component source is valid.
func fillMsg(v reflect.Value, salt int) {
	for i := 0; i < v.NumField(); i++ {
		fillValue(v.Field(i), i+salt)
	}
}

func fillValue(f reflect.Value, k int) {
	switch f.Interface().(type) {
	case time.Time:
		f.Set(reflect.ValueOf(fitEpoch.Add(time.Duration(1000+k) * time.Second)))
		return
	case fit.Latitude:
		f.Set(reflect.ValueOf(fit.NewLatitude(int32(1000 + k))))
		return
	case fit.Longitude:
		f.Set(reflect.ValueOf(fit.NewLongitude(int32(2000 + k))))
		return
	}
	switch f.Kind() {
	case reflect.Uint8, reflect.Uint16, reflect.Uint32, reflect.Uint64:
		f.SetUint(uint64(1 + k%100))
	case reflect.Int8, reflect.Int16, reflect.Int32, reflect.Int64:
		f.SetInt(int64(1 + k%100))
	case reflect.Float32, reflect.Float64:
		f.SetFloat(float64(k) + 0.5)
	case reflect.String:
		f.SetString(fmt.Sprintf("s%d", k))
	case reflect.Slice:
		n := 3
		s := reflect.MakeSlice(f.Type(), n, n)
		for j := 0; j < n; j++ {
			fillValue(s.Index(j), k+j)
		}
		f.Set(s)
	}
}

type slotInfo struct {
	name  string
	multi bool
	byVal bool
	msg   int // global message number held, -1 if none
	get   func() reflect.Value
}

// fileSlots lists the common File slots and the container slots of f.
func fileSlots(f *fit.File) (string, []slotInfo) {
	var slots []slotInfo
	fv := reflect.ValueOf(f).Elem()
	slots = append(slots, slotInfo{name: "FileId", byVal: true, msg: int(fit.VerifGetGlobalMesgNum(reflect.TypeOf(fit.FileIdMsg{}))),
		get: func() reflect.Value { return fv.FieldByName("FileId") }})
	slots = append(slots, slotInfo{name: "FileCreator", msg: int(fit.VerifGetGlobalMesgNum(reflect.TypeOf(fit.FileCreatorMsg{}))),
		get: func() reflect.Value { return fv.FieldByName("FileCreator") }})
	slots = append(slots, slotInfo{name: "TimestampCorrelation", msg: int(fit.VerifGetGlobalMesgNum(reflect.TypeOf(fit.TimestampCorrelationMsg{}))),
		get: func() reflect.Value { return fv.FieldByName("TimestampCorrelation") }})
	slots = append(slots, slotInfo{name: "fieldDescriptionMsgs", multi: true, msg: int(fit.VerifGetGlobalMesgNum(reflect.TypeOf(fit.FieldDescriptionMsg{}))),
		get: func() reflect.Value { a, _ := fit.VerifDevMsgs(f); return reflect.ValueOf(a) }})
	slots = append(slots, slotInfo{name: "developerDataIdMsgs", multi: true, msg: int(fit.VerifGetGlobalMesgNum(reflect.TypeOf(fit.DeveloperDataIdMsg{}))),
		get: func() reflect.Value { _, b := fit.VerifDevMsgs(f); return reflect.ValueOf(b) }})
	cont := fit.VerifContainer(f)
	cname := ""
	if cont != nil {
		cv := reflect.ValueOf(cont).Elem()
		ct := cv.Type()
		cname = ct.Name()
		for i := 0; i < ct.NumField(); i++ {
			i := i
			ft := ct.Field(i).Type
			si := slotInfo{name: ct.Field(i).Name, msg: -1, get: func() reflect.Value { return cv.Field(i) }}
			switch {
			case ft.Kind() == reflect.Ptr && ft.Elem().Kind() == reflect.Struct:
				si.msg = int(fit.VerifGetGlobalMesgNum(ft.Elem()))
			case ft.Kind() == reflect.Slice && ft.Elem().Kind() == reflect.Ptr && ft.Elem().Elem().Kind() == reflect.Struct:
				si.multi = true
				si.msg = int(fit.VerifGetGlobalMesgNum(ft.Elem().Elem()))
			}
			slots = append(slots, si)
		}
	}
	return cname, slots
}

// slotMsgs returns the messages currently held by a slot, as struct values.
func slotMsgs(s slotInfo) []reflect.Value {
	v := s.get()
	var out []reflect.Value
	switch {
	case s.byVal:
		out = append(out, reflect.ValueOf(v.Interface())) // a copy, not an alias of the File's field
	case v.Kind() == reflect.Ptr:
		if !v.IsNil() {
			out = append(out, v.Elem())
		}
	case v.Kind() == reflect.Slice:
		for i := 0; i < v.Len(); i++ {
			e := v.Index(i)
			if e.Kind() == reflect.Ptr {
				if e.IsNil() {
					continue
				}
				e = e.Elem()
			}
			out = append(out, e)
		}
	}
	return out
}

func newFilled(mn int, salt int) (reflect.Value, bool) {
	pv, ok := fit.VerifNewMesg(mn)
	if !ok {
		return reflect.Value{}, false
	}
	v := pv.Elem()
	fillMsg(v, salt)
	return v, true
}

// expandedCopy returns a copy of msg after expandComponents (or the copy
// unchanged and false if the type has no such method).
func expandedCopy(msg reflect.Value) (reflect.Value, bool) {
	p := reflect.New(msg.Type())
	p.Elem().Set(msg)
	ok := fit.VerifExpandComponents(p.Interface())
	return p.Elem(), ok
}

func validHeader() fit.Header { return fit.NewHeader(fit.V20, true) }

func genRoutingData() *coqFile {
	c := &coqFile{name: "RoutingData.v"}
	c.p(genHeader)
	c.p("From Coq Require Import NArith ZArith List String.\nFrom FitV Require Import Model.Values.\nImport ListNotations.\nLocal Open Scope N_scope.\n\n")
	known := fit.VerifKnownMsgNums()
	var kl []int
	for k, v := range known {
		if v {
			kl = append(kl, int(k))
		}
	}
	sort.Ints(kl)

	// accessors of *File returning (*XFile, error)
	ftyp := reflect.TypeOf(&fit.File{})
	type acc struct {
		name string
		ret  string
		idx  int
	}
	var accs []acc
	errT := reflect.TypeOf((*error)(nil)).Elem()
	for i := 0; i < ftyp.NumMethod(); i++ {
		m := ftyp.Method(i)
		if m.Type.NumIn() == 1 && m.Type.NumOut() == 2 && m.Type.Out(1) == errT && m.Type.Out(0).Kind() == reflect.Ptr &&
			strings.HasSuffix(m.Type.Out(0).Elem().Name(), "File") {
			accs = append(accs, acc{m.Name, m.Type.Out(0).Elem().Name(), i})
		}
	}
	var accNames []string
	for _, a := range accs {
		accNames = append(accNames, fmt.Sprintf("(%s, %s)", coqString(a.name), coqString(a.ret)))
	}
	c.p("(* accessor methods of *File: (method name, container type returned) *)\n")
	c.p("Definition accessors : list (string * string) := [%s].\n\n", strings.Join(accNames, "; "))

	var ftLines, routeLines, accLines []string
	for t := 0; t < 256; t++ {
		f, err := fit.NewFile(fit.FileType(t), validHeader())
		if err != nil {
			ftLines = append(ftLines, fmt.Sprintf("  (%d, false, %s, [])", t, coqString("")))
			continue
		}
		cname, slots := fileSlots(f)
		var sl []string
		for _, s := range slots {
			mn := s.msg
			if mn < 0 {
				mn = 65535
			}
			sl = append(sl, fmt.Sprintf("(%s, %s, %d)", coqString(s.name), coqBool(s.multi), mn))
		}
		ftLines = append(ftLines, fmt.Sprintf("  (%d, true, %s, [%s])", t, coqString(cname), strings.Join(sl, "; ")))

		// accessor behaviour on a fresh file of this type
		var al []string
		for _, a := range accs {
			out := reflect.ValueOf(f).Method(a.idx).Call(nil)
			ok := out[1].IsNil()
			isCont := false
			if !out[0].IsNil() {
				cont := fit.VerifContainer(f)
				isCont = cont != nil && out[0].Pointer() == reflect.ValueOf(cont).Pointer()
			}
			al = append(al, fmt.Sprintf("(%s, %s, %s)", coqString(a.name), coqBool(ok), coqBool(isCont)))
		}
		accLines = append(accLines, fmt.Sprintf("  (%d, [%s])", t, strings.Join(al, "; ")))

		// probe routing of every known message type
		var rl []string
		for _, mn := range kl {
			hits, ok := probeBase(t, mn)
			if !ok {
				continue
			}
			// the routing must not depend on what the message contains: all-invalid
			// messages, messages with one field invalid / one field valid, in both
			// orders with an all-valid one, must be stored exactly like the base pair
			if why := probeVariants(t, mn, hits); why != "" {
				for i := range hits {
					hits[i].mode = "ROther"
				}
				if len(hits) == 0 {
					hits = append(hits, routeHit{slot: 0, mode: "ROther"})
				}
				c.p("(* file type %d message %d: content- or history-dependent routing: %s *)\n", t, mn, why)
			}
			if len(hits) > 0 {
				var hs []string
				for _, h := range hits {
					hs = append(hs, fmt.Sprintf("(%d%%nat, %s, %s)", h.slot, h.mode, coqBool(h.exp)))
				}
				rl = append(rl, fmt.Sprintf("(%d, [%s])", mn, strings.Join(hs, "; ")))
			}
		}
		routeLines = append(routeLines, fmt.Sprintf("  (%d, [%s])", t, strings.Join(rl, ";\n    ")))
	}
	c.p("(* per file-type value: (value, init succeeds, container type, slots (name, multi, message number held)) *)\n")
	c.p("Definition file_types : list (N * bool * string * list (string * bool * N)) := [\n%s\n].\n\n", strings.Join(ftLines, ";\n"))
	c.p("(* observed by probing File.add with two distinguishable all-valid messages of every known type:\n   per file type, per message number, the slots that changed (slot index, mode, components expanded) *)\n")
	c.p("Definition routing : list (N * list (N * list (nat * rmode * bool))) := [\n%s\n].\n\n", strings.Join(routeLines, ";\n"))
	c.p("(* per valid file type: per accessor (name, returns nil error, returns the container) *)\n")
	c.p("Definition accessor_obs : list (N * list (string * bool * bool)) := [\n%s\n].\n\n", strings.Join(accLines, ";\n"))

	// which message types have expandComponents
	var exps []string
	for _, mn := range kl {
		m1, ok := newFilled(mn, 1)
		if !ok {
			continue
		}
		if _, has := expandedCopy(m1); has {
			exps = append(exps, fmt.Sprintf("%d", mn))
		}
	}
	c.p("Definition has_expand : list N := [%s].\n", strings.Join(exps, "; "))
	return c
}

type routeHit struct {
	slot int
	mode string
	exp  bool
}

// msgEq compares a stored message with the message that was added: equal to it
// as added (plain), or to its component-expanded form. det reports whether the
// two forms differ at all (otherwise "expanded?" cannot be observed).
func msgEq(a, plain reflect.Value) (ok, exp, det bool) {
	if a.Type() != plain.Type() {
		return false, false, false
	}
	e1, hasExp := expandedCopy(plain)
	if !hasExp {
		return reflect.DeepEqual(a.Interface(), plain.Interface()), false, true
	}
	// destinations fed by process-wide accumulators differ from call to call
	// (another message in between moves the accumulators)
	if mn, ok := msgNumOfType(plain.Type()); ok {
		if other, ok := newFilled(mn, 77); ok {
			expandedCopy(other)
		}
	}
	e2, _ := expandedCopy(plain)
	unstable := map[int]bool{}
	expDiffers := false
	for k := 0; k < e1.NumField(); k++ {
		if !reflect.DeepEqual(e1.Field(k).Interface(), e2.Field(k).Interface()) {
			unstable[k] = true
		}
		if !reflect.DeepEqual(e1.Field(k).Interface(), plain.Field(k).Interface()) {
			expDiffers = true
		}
	}
	if reflect.DeepEqual(a.Interface(), plain.Interface()) {
		return true, false, expDiffers
	}
	for k := 0; k < a.NumField(); k++ {
		if unstable[k] {
			continue
		}
		if !reflect.DeepEqual(a.Field(k).Interface(), e1.Field(k).Interface()) {
			return false, false, false
		}
	}
	return true, true, true
}

func addCopy(f *fit.File, m reflect.Value) {
	in := reflect.New(m.Type()).Elem()
	in.Set(m)
	fit.VerifFileAdd(f, in)
}

// probeBase adds two distinguishable all-valid messages of type mn to a fresh
// file of type t and classifies what happened to every slot.
func probeBase(t, mn int) ([]routeHit, bool) {
	m1, ok := newFilled(mn, 1)
	if !ok {
		return nil, false
	}
	m2, _ := newFilled(mn, 2)
	f2, _ := fit.NewFile(fit.FileType(t), validHeader())
	_, slots2 := fileSlots(f2)
	before := make([][]reflect.Value, len(slots2))
	for i, s := range slots2 {
		before[i] = slotMsgs(s)
	}
	addCopy(f2, m1)
	addCopy(f2, m2)
	var hits []routeHit
	for i, s := range slots2 {
		after := slotMsgs(s)
		if s.byVal {
			if reflect.DeepEqual(after[0].Interface(), before[i][0].Interface()) {
				continue
			}
		} else if len(after) == len(before[i]) {
			continue
		}
		mode, exp := "ROther", false
		switch {
		case s.multi && len(after) == 2:
			ok1, x1, _ := msgEq(after[0], m1)
			ok2, x2, _ := msgEq(after[1], m2)
			if ok1 && ok2 && x1 == x2 {
				mode, exp = "RAppend", x1
			}
		case !s.multi && len(after) == 1:
			ok2, x2, _ := msgEq(after[0], m2)
			if ok2 {
				mode, exp = "ROverwrite", x2
			}
		}
		hits = append(hits, routeHit{i, mode, exp})
	}
	return hits, true
}

// checkSeq adds msgs (all of one type) to a fresh file of type t, after the
// optional prelude, and checks every slot against the base classification.
func checkSeq(t int, msgs []reflect.Value, hits []routeHit, prelude func(*fit.File)) string {
	f, _ := fit.NewFile(fit.FileType(t), validHeader())
	if prelude != nil {
		prelude(f)
	}
	_, slots := fileSlots(f)
	before := make([][]reflect.Value, len(slots))
	for i, s := range slots {
		before[i] = slotMsgs(s)
	}
	for _, m := range msgs {
		addCopy(f, m)
	}
	byslot := map[int]routeHit{}
	for _, h := range hits {
		byslot[h.slot] = h
	}
	for i, s := range slots {
		after := slotMsgs(s)
		h, routed := byslot[i]
		var want []reflect.Value
		switch {
		case !routed:
			if len(after) != len(before[i]) {
				return fmt.Sprintf("slot %s changed although the type is not routed there", s.name)
			}
			for k := range after {
				if !reflect.DeepEqual(after[k].Interface(), before[i][k].Interface()) {
					return fmt.Sprintf("slot %s changed although the type is not routed there", s.name)
				}
			}
			continue
		case h.mode == "RAppend":
			want = append(append(want, before[i]...), msgs...)
		case h.mode == "ROverwrite":
			want = msgs[len(msgs)-1:]
		default:
			continue
		}
		if len(after) != len(want) {
			return fmt.Sprintf("slot %s holds %d messages, expected %d", s.name, len(after), len(want))
		}
		for k := range after {
			if k < len(before[i]) && h.mode == "RAppend" {
				if !reflect.DeepEqual(after[k].Interface(), before[i][k].Interface()) {
					return fmt.Sprintf("slot %s position %d was disturbed", s.name, k)
				}
				continue
			}
			ok, exp, det := msgEq(after[k], want[k])
			if !ok || (det && exp != h.exp) {
				return fmt.Sprintf("slot %s position %d does not hold the message added", s.name, k)
			}
		}
	}
	return ""
}

// probeVariants re-probes with messages of varied content; "" = consistent.
func probeVariants(t, mn int, hits []routeHit) string {
	v0, _ := newFilled(mn, 1)
	v1, _ := newFilled(mn, 2)
	pv, _ := fit.VerifNewMesg(mn)
	inv := pv.Elem()
	var variants []reflect.Value
	variants = append(variants, inv)
	for k := 0; k < v0.NumField(); k++ {
		a := reflect.New(v0.Type()).Elem()
		a.Set(v0)
		a.Field(k).Set(inv.Field(k))
		b := reflect.New(v0.Type()).Elem()
		b.Set(inv)
		b.Field(k).Set(v1.Field(k))
		variants = append(variants, a, b)
	}
	for vi, v := range variants {
		for _, seq := range [][]reflect.Value{{v0, v}, {v, v0}, {v0, v, v1}} {
			if why := checkSeq(t, seq, hits, nil); why != "" {
				return fmt.Sprintf("variant %d: %s", vi, why)
			}
		}
	}
	if mn == 0 {
		// a repeated file_id of the file's own type must leave the container alone:
		// messages routed before it stay, messages after it still arrive
		f, _ := fit.NewFile(fit.FileType(t), validHeader())
		_, slots := fileSlots(f)
		for _, s := range slots[1:] {
			if s.msg <= 0 {
				continue
			}
			h, ok := probeBase(t, s.msg)
			if !ok {
				continue
			}
			a, _ := newFilled(s.msg, 11)
			b, _ := newFilled(s.msg, 12)
			fid, _ := newFilled(0, 3)
			fid.FieldByName("Type").SetUint(uint64(t))
			pre := func(f *fit.File) { addCopy(f, a); addCopy(f, fid) }
			// after the prelude the slot holds a; the base classification is relative to that
			if why := checkSeq(t, []reflect.Value{b}, h, pre); why != "" {
				return fmt.Sprintf("after a repeated file_id of the same type, message %d: %s", s.msg, why)
			}
			f2, _ := fit.NewFile(fit.FileType(t), validHeader())
			addCopy(f2, a)
			_, sl2 := fileSlots(f2)
			n1 := 0
			for _, x := range sl2 {
				n1 += len(slotMsgs(x))
			}
			addCopy(f2, fid)
			_, sl3 := fileSlots(f2)
			n2 := 0
			for _, x := range sl3 {
				n2 += len(slotMsgs(x))
			}
			if n2 != n1 {
				return fmt.Sprintf("a repeated file_id of the same type changes the number of stored messages (%d -> %d)", n1, n2)
			}
		}
	}
	return ""
}

func msgNumOfType(t reflect.Type) (int, bool) {
	mn := fit.VerifGetGlobalMesgNum(t)
	return int(mn), mn != 0xFFFF
}
