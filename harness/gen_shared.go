package main

import (
	"crypto/sha256"
	"encoding/hex"
	"fmt"
	"go/ast"
	"go/token"
	"go/types"
	"os"
	"path/filepath"
	"sort"
	"strings"

	"golang.org/x/tools/go/callgraph/rta"
	"golang.org/x/tools/go/packages"
	"golang.org/x/tools/go/ssa"
	"golang.org/x/tools/go/ssa/ssautil"
)

// genSharedState writes Gen/SharedState.v: every package-level variable of
// the packages fit, dyncrc16 and internal/types, and what the code reachable
// from the six decoding/encoding entry points can do to it:
//
//   - direct:  a store whose address is the variable (or an element/field of it)
//   - through: a store / map update / append / copy / delete through a
//     reference loaded from the variable
//   - addr:    the address of the variable (or of an element) leaves the
//     load/store/field/index instructions (passed, stored, returned, captured)
//   - typed:   a reference loaded from the variable leaves the function and
//     reachable code writes memory of a type that the variable owns (e.g. a
//     method with pointer receiver writing its receiver's fields)
//
// The analysis runs on the SSA form (golang.org/x/tools/go/ssa) of the source
// tree at repoRoot, without the verif build tag, with reachability computed by
// rapid type analysis (callgraph/rta) from the entry points and the package
// initialisers (so that function tables count as address-taken).  Writes made
// by the package initialisers themselves (before main) are not listed.
//
// It also lists every range loop over a map in reachable functions, and
// whether the iteration order is erased before it can reach an output: the
// loop body only appends to one slice and the next statement sorts that slice.
//
// Proofs/C08Shared.v pins the content: the written variables are exactly the
// three accumulators of the model's gstate, no sync-typed variable is used,
// no map iteration order escapes.

func init() { extraGens = append(extraGens, genSharedState) }

var sharedPkgs = []string{"github.com/tormoder/fit", "github.com/tormoder/fit/dyncrc16", "github.com/tormoder/fit/internal/types"}
var sharedEntries = []string{"Decode", "DecodeChained", "CheckIntegrity", "DecodeHeader", "DecodeHeaderAndFileID", "Encode"}

const sharedGenVersion = "v4"

func sharedSourceHash() (string, error) {
	h := sha256.New()
	h.Write([]byte(sharedGenVersion))
	for _, d := range []string{"", "dyncrc16", "internal/types"} {
		ents, err := os.ReadDir(filepath.Join(repoRoot, d))
		if err != nil {
			return "", err
		}
		for _, e := range ents {
			n := e.Name()
			if e.IsDir() || !strings.HasSuffix(n, ".go") || strings.HasSuffix(n, "_test.go") {
				continue
			}
			b, err := os.ReadFile(filepath.Join(repoRoot, d, n))
			if err != nil {
				return "", err
			}
			fmt.Fprintf(h, "%s/%s %d\n", d, n, len(b))
			h.Write(b)
		}
	}
	for _, n := range []string{"go.mod", "go.sum"} {
		b, _ := os.ReadFile(filepath.Join(repoRoot, n))
		h.Write(b)
	}
	return hex.EncodeToString(h.Sum(nil)), nil
}

func genSharedState() (*coqFile, error) {
	// the analysis loads the standard library from source (several seconds):
	// cache the result on the hash of the analysed sources
	hash, err := sharedSourceHash()
	if err != nil {
		return nil, err
	}
	cache := filepath.Join(verifRoot, "build", "sharedstate."+hash[:24]+".v")
	if b, err := os.ReadFile(cache); err == nil && len(b) > 0 {
		c := &coqFile{name: "SharedState.v"}
		c.buf.Write(b)
		return c, nil
	}
	c, err := analyseSharedState()
	if err != nil {
		return nil, err
	}
	os.MkdirAll(filepath.Dir(cache), 0o755)
	old, _ := filepath.Glob(filepath.Join(verifRoot, "build", "sharedstate.*.v"))
	for _, o := range old {
		os.Remove(o)
	}
	os.WriteFile(cache, c.buf.Bytes(), 0o644)
	return c, nil
}

type gInfo struct {
	pkg, name, typ string
	g              *ssa.Global
	owned          map[string]bool // types of the memory reachable from the variable
	opaque         bool            // holds an interface: dynamic contents not followed
	syncT          string          // sync / sync/atomic type it contains
	used           map[string]bool // reachable functions that mention it
	direct         map[string]bool
	through        map[string]bool
	addr           map[string]bool
	refEsc         map[string]bool
}

func shortPkg(path string) string {
	switch path {
	case "github.com/tormoder/fit":
		return "fit"
	case "github.com/tormoder/fit/dyncrc16":
		return "dyncrc16"
	case "github.com/tormoder/fit/internal/types":
		return "types"
	}
	return path
}

func typeStr(t types.Type) string {
	return types.TypeString(t, func(p *types.Package) string { return shortPkg(p.Path()) })
}

// refType: can a value of this type be used to write memory it does not contain?
func refType(t types.Type, seen map[types.Type]bool) bool {
	if seen[t] {
		return false
	}
	seen[t] = true
	switch u := t.Underlying().(type) {
	case *types.Pointer, *types.Slice, *types.Map, *types.Chan, *types.Interface, *types.Signature:
		return true
	case *types.Struct:
		for i := 0; i < u.NumFields(); i++ {
			if refType(u.Field(i).Type(), seen) {
				return true
			}
		}
	case *types.Array:
		return refType(u.Elem(), seen)
	}
	return false
}

// walkOwned collects the types of the memory objects reachable from a
// variable: struct, array, slice and map types, and the targets of pointers.
// A basic-typed struct field is part of its struct, not an object of its own.
func (gi *gInfo) walkOwned(t types.Type, seen map[types.Type]bool) {
	if seen[t] {
		return
	}
	seen[t] = true
	if _, basic := t.Underlying().(*types.Basic); !basic {
		gi.owned[typeStr(t)] = true
	}
	if n, ok := t.(*types.Named); ok && n.Obj().Pkg() != nil {
		if p := n.Obj().Pkg().Path(); p == "sync" || p == "sync/atomic" {
			gi.syncT = typeStr(t)
		}
	}
	switch u := t.Underlying().(type) {
	case *types.Pointer:
		gi.owned[typeStr(u.Elem())] = true
		gi.walkOwned(u.Elem(), seen)
	case *types.Slice:
		gi.walkOwned(u.Elem(), seen)
	case *types.Array:
		gi.walkOwned(u.Elem(), seen)
	case *types.Map:
		gi.walkOwned(u.Key(), seen)
		gi.walkOwned(u.Elem(), seen)
	case *types.Chan:
		gi.walkOwned(u.Elem(), seen)
	case *types.Struct:
		for i := 0; i < u.NumFields(); i++ {
			gi.walkOwned(u.Field(i).Type(), seen)
		}
	case *types.Interface:
		gi.opaque = true
	}
}

type rootKind int

const (
	rootOther rootKind = iota
	rootAlloc
	rootGlobal // the address of a package-level variable or of a part of it
	rootLoaded // a value loaded from a package-level variable
)

func rootOf(v ssa.Value, depth int) (rootKind, *ssa.Global) {
	if depth > 64 {
		return rootOther, nil
	}
	switch x := v.(type) {
	case *ssa.Global:
		return rootGlobal, x
	case *ssa.Alloc:
		return rootAlloc, nil
	case *ssa.FieldAddr:
		return rootOf(x.X, depth+1)
	case *ssa.IndexAddr:
		return rootOf(x.X, depth+1)
	case *ssa.UnOp:
		if x.Op == token.MUL {
			k, g := rootOf(x.X, depth+1)
			if k == rootGlobal || k == rootLoaded {
				return rootLoaded, g
			}
			return rootOther, nil
		}
		return rootOther, nil
	case *ssa.Field:
		return rootOf(x.X, depth+1)
	case *ssa.Index:
		return rootOf(x.X, depth+1)
	case *ssa.Lookup:
		return rootOf(x.X, depth+1)
	case *ssa.Slice:
		return rootOf(x.X, depth+1)
	case *ssa.ChangeType:
		return rootOf(x.X, depth+1)
	case *ssa.Convert:
		return rootOf(x.X, depth+1)
	case *ssa.Extract:
		return rootOf(x.Tuple, depth+1)
	case *ssa.Next:
		if r, ok := x.Iter.(*ssa.Range); ok {
			return rootOf(r.X, depth+1)
		}
	case *ssa.Phi:
		for _, e := range x.Edges {
			if k, g := rootOf(e, depth+1); k == rootGlobal || k == rootLoaded {
				return k, g
			}
		}
	}
	return rootOther, nil
}

// writtenTypes records the types of the memory a store through addr writes.
func writtenTypes(addr ssa.Value, into map[string]bool) {
	v := addr
	for i := 0; i < 64; i++ {
		switch x := v.(type) {
		case *ssa.FieldAddr:
			if p, ok := x.X.Type().Underlying().(*types.Pointer); ok {
				into[typeStr(p.Elem())] = true
			}
			v = x.X
			continue
		case *ssa.IndexAddr:
			t := x.X.Type()
			if p, ok := t.Underlying().(*types.Pointer); ok {
				t = p.Elem()
			}
			into[typeStr(t)] = true
			v = x.X
			continue
		}
		break
	}
	switch addr.(type) {
	case *ssa.FieldAddr, *ssa.IndexAddr:
		// the enclosing struct / container was recorded
	default:
		if p, ok := addr.Type().Underlying().(*types.Pointer); ok {
			into[typeStr(p.Elem())] = true
		}
	}
}

func analyseSharedState() (*coqFile, error) {
	cfg := &packages.Config{
		Mode: packages.NeedName | packages.NeedFiles | packages.NeedCompiledGoFiles | packages.NeedImports | packages.NeedDeps |
			packages.NeedTypes | packages.NeedTypesSizes | packages.NeedSyntax | packages.NeedTypesInfo | packages.NeedModule,
		Dir: repoRoot,
		Env: append(os.Environ(), "GOFLAGS=-mod=mod", "GOPROXY=off", "GOSUMDB=off", "GOTOOLCHAIN=local"),
	}
	pkgs, err := packages.Load(cfg, sharedPkgs...)
	if err != nil {
		return nil, fmt.Errorf("shared-state analysis: loading packages: %v", err)
	}
	if n := packages.PrintErrors(pkgs); n > 0 {
		return nil, fmt.Errorf("shared-state analysis: %d package errors", n)
	}
	prog, _ := ssautil.AllPackages(pkgs, ssa.InstantiateGenerics)
	prog.Build()
	ours := map[*ssa.Package]bool{}
	var roots []*ssa.Function
	var fitPkg *ssa.Package
	byPath := map[string]*packages.Package{}
	for _, p := range pkgs {
		byPath[p.PkgPath] = p
	}
	for _, path := range sharedPkgs {
		p := byPath[path]
		if p == nil {
			return nil, fmt.Errorf("shared-state analysis: package %s not loaded", path)
		}
		sp := prog.Package(p.Types)
		if sp == nil {
			return nil, fmt.Errorf("shared-state analysis: no SSA for %s", path)
		}
		ours[sp] = true
		if path == sharedPkgs[0] {
			fitPkg = sp
		}
		if f := sp.Func("init"); f != nil {
			roots = append(roots, f)
		}
	}
	var entryFns []*ssa.Function
	for _, e := range sharedEntries {
		f := fitPkg.Func(e)
		if f == nil {
			return nil, fmt.Errorf("shared-state analysis: entry point %s not found", e)
		}
		roots = append(roots, f)
		entryFns = append(entryFns, f)
	}
	// Rapid type analysis with the package initialisers among the roots (so
	// that functions stored in initialised tables are address-taken), then
	// reachability over the call-graph edges from the entry points alone.
	// RTA also marks every exported method of every type converted to an
	// interface as reachable "through reflection" without a call edge; the
	// library never calls methods reflectively (no Value.Call / Method), so
	// those are left out by following edges only.
	res := rta.Analyze(roots, true)
	reach := map[*ssa.Function]bool{}
	var work []*ssa.Function
	for _, f := range entryFns {
		reach[f] = true
		work = append(work, f)
	}
	for len(work) > 0 {
		f := work[len(work)-1]
		work = work[:len(work)-1]
		n := res.CallGraph.Nodes[f]
		if n == nil {
			continue
		}
		for _, e := range n.Out {
			if c := e.Callee.Func; c != nil && !reach[c] {
				reach[c] = true
				work = append(work, c)
			}
		}
	}

	globals := map[*ssa.Global]*gInfo{}
	var glist []*gInfo
	for sp := range ours {
		for _, m := range sp.Members {
			g, ok := m.(*ssa.Global)
			if !ok || strings.HasPrefix(g.Name(), "init$") {
				continue
			}
			elem := g.Type().(*types.Pointer).Elem()
			gi := &gInfo{pkg: shortPkg(sp.Pkg.Path()), name: g.Name(), typ: typeStr(elem), g: g,
				owned: map[string]bool{}, used: map[string]bool{}, direct: map[string]bool{}, through: map[string]bool{},
				addr: map[string]bool{}, refEsc: map[string]bool{}}
			gi.walkOwned(elem, map[types.Type]bool{})
			globals[g] = gi
			glist = append(glist, gi)
		}
	}
	sort.Slice(glist, func(i, j int) bool {
		if glist[i].pkg != glist[j].pkg {
			return glist[i].pkg < glist[j].pkg
		}
		return glist[i].name < glist[j].name
	})

	typeWrites := map[string]bool{} // memory types written through pointers that are neither local nor rooted at a variable
	fname := func(f *ssa.Function) string {
		s := f.String()
		s = strings.ReplaceAll(s, "github.com/tormoder/fit/internal/types", "types")
		s = strings.ReplaceAll(s, "github.com/tormoder/fit/dyncrc16", "dyncrc16")
		s = strings.ReplaceAll(s, "github.com/tormoder/fit", "fit")
		return s
	}
	nReach := 0
	var scanned []*ssa.Function
	for f := range reach {
		if f.Pkg == nil || !ours[f.Pkg] || f.Blocks == nil {
			continue
		}
		if f.Name() == "init" || strings.HasPrefix(f.Name(), "init#") {
			continue
		}
		scanned = append(scanned, f)
	}
	sort.Slice(scanned, func(i, j int) bool { return fname(scanned[i]) < fname(scanned[j]) })
	store := func(f *ssa.Function, addr ssa.Value) {
		k, g := rootOf(addr, 0)
		switch k {
		case rootGlobal:
			if gi := globals[g]; gi != nil {
				gi.direct[fname(f)] = true
			}
		case rootLoaded:
			if gi := globals[g]; gi != nil {
				gi.through[fname(f)] = true
			}
		case rootOther:
			writtenTypes(addr, typeWrites)
		}
	}
	escape := func(f *ssa.Function, v ssa.Value) {
		if v == nil {
			return
		}
		k, g := rootOf(v, 0)
		gi := globals[g]
		if gi == nil {
			return
		}
		switch k {
		case rootGlobal:
			gi.addr[fname(f)] = true
		case rootLoaded:
			if refType(v.Type(), map[types.Type]bool{}) {
				gi.refEsc[fname(f)] = true
			}
		}
	}
	for _, f := range scanned {
		nReach++
		for _, b := range f.Blocks {
			for _, ins := range b.Instrs {
				for _, op := range ins.Operands(nil) {
					if op == nil || *op == nil {
						continue
					}
					if g, ok := (*op).(*ssa.Global); ok {
						if gi := globals[g]; gi != nil {
							gi.used[fname(f)] = true
						}
					}
				}
				switch x := ins.(type) {
				case *ssa.Store:
					store(f, x.Addr)
					escape(f, x.Val)
				case *ssa.MapUpdate:
					k, g := rootOf(x.Map, 0)
					if gi := globals[g]; gi != nil && (k == rootLoaded || k == rootGlobal) {
						gi.through[fname(f)] = true
					} else if k == rootOther {
						typeWrites[typeStr(x.Map.Type())] = true
					}
					escape(f, x.Value)
					escape(f, x.Key)
				case ssa.CallInstruction:
					cc := x.Common()
					if bi, ok := cc.Value.(*ssa.Builtin); ok {
						switch bi.Name() {
						case "append", "copy", "delete", "clear":
							if len(cc.Args) > 0 {
								k, g := rootOf(cc.Args[0], 0)
								if gi := globals[g]; gi != nil && (k == rootLoaded || k == rootGlobal) {
									gi.through[fname(f)] = true
								} else if k == rootOther {
									typeWrites[typeStr(cc.Args[0].Type())] = true
								}
							}
							continue
						case "len", "cap", "print", "println", "min", "max":
							continue
						}
					}
					if !cc.IsInvoke() {
						if _, isFn := cc.Value.(*ssa.Function); !isFn {
							escape(f, cc.Value)
						}
					} else {
						escape(f, cc.Value)
					}
					for _, a := range cc.Args {
						escape(f, a)
					}
				case *ssa.MakeInterface:
					escape(f, x.X)
				case *ssa.MakeClosure:
					for _, bnd := range x.Bindings {
						escape(f, bnd)
					}
				case *ssa.Return:
					for _, r := range x.Results {
						escape(f, r)
					}
				case *ssa.Send:
					escape(f, x.X)
				case *ssa.ChangeInterface:
					escape(f, x.X)
				case *ssa.Slice:
					// slicing an array variable takes its address
					if k, g := rootOf(x.X, 0); k == rootGlobal {
						if _, isPtr := x.X.Type().Underlying().(*types.Pointer); isPtr {
							if gi := globals[g]; gi != nil {
								gi.refEsc[fname(f)] = true
							}
						}
					}
				}
			}
		}
	}

	// map-range loops in reachable functions
	type mrange struct{ fn, over, verdict string }
	var ranges []mrange
	for _, f := range scanned {
		if f.Parent() != nil {
			continue // closures are walked with their enclosing declaration
		}
		decl, ok := f.Syntax().(*ast.FuncDecl)
		if !ok || decl.Body == nil {
			continue
		}
		pp := byPath[f.Pkg.Pkg.Path()]
		if pp == nil {
			continue
		}
		info := pp.TypesInfo
		var walkBlock func(list []ast.Stmt)
		checkRange := func(rs *ast.RangeStmt, next ast.Stmt) {
			tv, ok := info.Types[rs.X]
			if !ok {
				return
			}
			if _, isMap := tv.Type.Underlying().(*types.Map); !isMap {
				return
			}
			verdict := "escapes"
			// the body only appends to one slice ...
			target := ""
			only := true
			for _, st := range rs.Body.List {
				as, ok := st.(*ast.AssignStmt)
				if !ok || len(as.Lhs) != 1 || len(as.Rhs) != 1 {
					only = false
					break
				}
				call, ok := as.Rhs[0].(*ast.CallExpr)
				if !ok || len(call.Args) < 1 {
					only = false
					break
				}
				id, ok := call.Fun.(*ast.Ident)
				if !ok || id.Name != "append" {
					only = false
					break
				}
				l := types.ExprString(as.Lhs[0])
				if l != types.ExprString(call.Args[0]) || (target != "" && target != l) {
					only = false
					break
				}
				target = l
			}
			// ... and the next statement sorts it
			if only && target != "" && next != nil {
				if es, ok := next.(*ast.ExprStmt); ok {
					if call, ok := es.X.(*ast.CallExpr); ok && len(call.Args) >= 1 {
						if sel, ok := call.Fun.(*ast.SelectorExpr); ok {
							if id, ok := sel.X.(*ast.Ident); ok && id.Name == "sort" {
								switch sel.Sel.Name {
								case "Sort", "Stable", "Slice", "SliceStable":
									arg := call.Args[0]
									if conv, ok := arg.(*ast.CallExpr); ok && len(conv.Args) == 1 {
										arg = conv.Args[0] // sort.Sort(someSliceType(x))
									}
									if types.ExprString(arg) == target {
										verdict = "sorted"
									}
								}
							}
						}
					}
				}
			}
			ranges = append(ranges, mrange{fname(f), types.ExprString(rs.X), verdict})
		}
		walkBlock = func(list []ast.Stmt) {
			for i, st := range list {
				var next ast.Stmt
				if i+1 < len(list) {
					next = list[i+1]
				}
				if rs, ok := st.(*ast.RangeStmt); ok {
					checkRange(rs, next)
				}
				// nested blocks
				ast.Inspect(st, func(n ast.Node) bool {
					if n == st {
						return true
					}
					switch b := n.(type) {
					case *ast.BlockStmt:
						walkBlock(b.List)
						return false
					case *ast.CaseClause:
						walkBlock(b.Body)
						return false
					case *ast.CommClause:
						walkBlock(b.Body)
						return false
					}
					return true
				})
			}
		}
		walkBlock(decl.Body.List)
	}
	sort.Slice(ranges, func(i, j int) bool {
		if ranges[i].fn != ranges[j].fn {
			return ranges[i].fn < ranges[j].fn
		}
		return ranges[i].over < ranges[j].over
	})

	keys := func(m map[string]bool) []string {
		var out []string
		for k := range m {
			out = append(out, k)
		}
		sort.Strings(out)
		return out
	}
	strList := func(l []string) string {
		var b strings.Builder
		b.WriteString("[")
		for i, s := range l {
			if i > 0 {
				b.WriteString("; ")
			}
			b.WriteString("\"" + strings.ReplaceAll(s, "\"", "\"\"") + "\"")
		}
		b.WriteString("]")
		return b.String()
	}

	c := &coqFile{name: "SharedState.v"}
	c.p(genHeader)
	c.p("(* package-level variables of fit, dyncrc16, internal/types and the writes to them reachable from\n   %s (SSA + rapid type analysis over the source tree, build tag verif off) *)\n", strings.Join(sharedEntries, ", "))
	c.p("From Coq Require Import NArith String List.\nImport ListNotations.\nLocal Open Scope string_scope.\n\n")
	c.p("Definition entry_points : list string := %s.\n", strList(sharedEntries))
	c.p("Definition reachable_functions : N := %d%%N.\n\n", nReach)
	c.p("(* (package, name, type) *)\nDefinition globals : list (string * string * string) := [\n")
	for i, gi := range glist {
		sep := ";"
		if i == len(glist)-1 {
			sep = ""
		}
		c.p("  (\"%s\", \"%s\", \"%s\")%s\n", gi.pkg, gi.name, strings.ReplaceAll(gi.typ, "\"", "\"\""), sep)
	}
	c.p("].\n\n")
	var written, syncUsed, syncAll, opaque, readOnly []string
	var detail []string
	for _, gi := range glist {
		q := gi.pkg + "." + gi.name
		typed := false
		var typedT []string
		if len(gi.refEsc) > 0 {
			for t := range gi.owned {
				if typeWrites[t] {
					typed = true
					typedT = append(typedT, t)
				}
			}
			sort.Strings(typedT)
		}
		if gi.syncT != "" {
			syncAll = append(syncAll, q)
			if len(gi.used) > 0 {
				syncUsed = append(syncUsed, q)
			}
			continue
		}
		isWritten := len(gi.direct) > 0 || len(gi.through) > 0 || len(gi.addr) > 0 || typed
		if isWritten {
			written = append(written, q)
			for _, f := range keys(gi.direct) {
				detail = append(detail, fmt.Sprintf("(\"%s\", \"direct\", \"%s\")", q, f))
			}
			for _, f := range keys(gi.through) {
				detail = append(detail, fmt.Sprintf("(\"%s\", \"through\", \"%s\")", q, f))
			}
			for _, f := range keys(gi.addr) {
				detail = append(detail, fmt.Sprintf("(\"%s\", \"addr\", \"%s\")", q, f))
			}
			if typed {
				for _, f := range keys(gi.refEsc) {
					detail = append(detail, fmt.Sprintf("(\"%s\", \"typed %s\", \"%s\")", q, strings.Join(typedT, ","), f))
				}
			}
		} else if len(gi.used) > 0 {
			readOnly = append(readOnly, q)
			if gi.opaque && len(gi.refEsc) > 0 {
				opaque = append(opaque, q)
			}
		}
	}
	c.p("(* variables that reachable code may write (directly, through a reference, or by letting one escape to code that writes its type) *)\n")
	c.p("Definition written_globals : list string := %s.\n\n", strList(written))
	c.p("(* (variable, kind, function) *)\nDefinition written_detail : list (string * string * string) := [\n  %s\n].\n\n", strings.Join(detail, ";\n  "))
	c.p("(* variables of a sync / sync/atomic type; those mentioned by reachable code *)\n")
	c.p("Definition sync_globals : list string := %s.\nDefinition sync_globals_used : list string := %s.\n\n", strList(syncAll), strList(syncUsed))
	c.p("(* variables reachable code reads and never writes *)\nDefinition read_only_globals : list string := %s.\n\n", strList(readOnly))
	c.p("(* read-only variables holding interface values that leave the reading function (error values, reflect.Type):\n   the objects behind the interface are not followed *)\nDefinition opaque_globals : list string := %s.\n\n", strList(opaque))
	var sorted, unordered []string
	for _, r := range ranges {
		s := r.fn + ": range " + r.over
		if r.verdict == "sorted" {
			sorted = append(sorted, s)
		} else {
			unordered = append(unordered, s)
		}
	}
	c.p("(* range loops over maps in reachable functions: order erased by a sort of the only slice the body appends to / not *)\n")
	c.p("Definition sorted_map_ranges : list string := %s.\nDefinition unordered_map_ranges : list string := %s.\n", strList(sorted), strList(unordered))
	return c, nil
}
