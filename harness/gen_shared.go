package main

import (
	"crypto/sha256"
	"encoding/hex"
	"fmt"
	"go/ast"
	"go/token"
	"go/types"
	"os"
	"path/filepath"
	"sort"
	"strings"

	"golang.org/x/tools/go/callgraph/rta"
	"golang.org/x/tools/go/packages"
	"golang.org/x/tools/go/ssa"
	"golang.org/x/tools/go/ssa/ssautil"
)

// genSharedState writes Gen/SharedState.v: every package-level variable of
// the packages fit, dyncrc16 and internal/types, and what the code reachable
// from the six decoding/encoding entry points can do to it.
//
// Setting.  SSA form (golang.org/x/tools/go/ssa) of the source tree at
// repoRoot, build tag verif off.  Rapid type analysis (callgraph/rta) with the
// entry points and the package initialisers as roots; the functions analysed
// are those reachable over call-graph edges from the entry points alone that
// belong to the three packages (wrappers and bound-method closures included).
// Writes made by the package initialisers themselves (before main) are not
// listed: a table built by a variable initialiser and only read afterwards is
// read-only.
//
// Rule (version v5): a variable is "written" iff the analysed code contains
//   direct : a store whose address is the variable or a field/element of it;
//   through: a store, map update, append, copy, delete or clear whose target
//            DERIVES from the variable;
//   escape : a pointer, slice, map, channel (or an interface made from one)
//            that derives from the variable is passed to, captured by or
//            returned to code that is not analysed (standard library, a
//            dynamic call without known callee, the caller of an entry point).
// "Derives from the variable" is a may-analysis (forward data flow, flow- and
// context-insensitive, iterated to a fixed point over all analysed functions).
// The address of the variable derives from it.  So does: a field or element
// address of something that does; a slice of it; a value loaded through it if
// the value's type can hold a reference (pointer, slice, map, channel, or a
// struct/array containing one); a field, element, map value, range element,
// phi, conversion, type assertion or tuple component of such a value; the
// result of append to it; an argument it is passed as (the parameter of every
// callee the call graph gives for the site); a free variable it is captured
// as; the result of a call whose callee returns one.  Memory is abstracted by
// (struct type, field), by container type (slice/array/map/channel elements)
// and by cell type (anything stored or loaded through a plain pointer, locals
// whose address is taken): once a deriving value has been stored into such a
// place, every load from a place with the same abstraction derives too.
//
// Why function-local memory is not a write (what changed from v4): v4 said a
// variable may be written as soon as one of its references left the reading
// function and ANY analysed code stored into memory of a type the variable
// owns -- including a slice the storing function had made itself.  Now a
// store counts only if its target derives from the variable.  Memory that a
// function allocates (make, new, composite literal, append from nil or from
// such a slice) derives from no variable unless a deriving reference was
// made its address, so storing INTO it is never a write to a variable; storing
// a deriving reference into it only makes later loads from it derive.
// Likewise &v[i] or v[:] is not a write by itself: the pointer derives, and
// the variable counts as written only if something is stored through it or
// it reaches code that is not analysed.
//
// Soundness argument.  Let P be a pointer into memory owned by variable v that
// analysed code holds at some point.  P was obtained (a) from v's address or
// by loading a reference through a deriving address: derives by the load rule;
// (b) from another value by address arithmetic, slicing, conversion, phi,
// extraction: derives by propagation; (c) across a call, return, closure
// capture, channel, or from memory some analysed code stored it into: derives
// by the parameter/result/free-variable rules and the memory abstraction
// (which merges all places of one type, so it can only add derivations);
// (d) from code that is not analysed: then a deriving reference was handed to
// that code before (escape, already counted as written) -- or that code owns
// the object, see the assumptions.  A store through P therefore has a deriving
// target and is reported.
// Still over-approximated: all places of one (type, field) / container type /
// cell type are merged; no flow or context sensitivity; append to a deriving
// slice counts as a write even when it must reallocate; any hand-over of a
// deriving reference to the standard library counts as a write.
// Assumptions (under-approximation, listed in the trusted base): package unsafe,
// reflect-based stores and cgo are not modelled (reflect.ValueOf(p) of a
// deriving pointer IS an escape); values behind interface-typed cells of a
// variable (error values, reflect.Type, goinvalid) are not followed
// (opaque_globals); a struct passed BY VALUE to code that is not analysed is
// not an escape of the pointers inside it (time.Time's *Location); code that
// is not analysed does not write through references nested inside the
// elements of a local container it is given (sort.Slice over a local slice of
// *field swaps the slice's elements, it does not write the fields).
//
// It also lists every range loop over a map in reachable functions, and
// whether the iteration order is erased before it can reach an output: the
// loop body only appends to one slice and the next statement sorts that slice.
//
// Proofs/C08Shared.v pins the content: the written variables are exactly the
// three accumulators of the model's gstate, no sync-typed variable is used,
// no map iteration order escapes.

func init() { extraGens = append(extraGens, genSharedState) }

var sharedPkgs = []string{"github.com/tormoder/fit", "github.com/tormoder/fit/dyncrc16", "github.com/tormoder/fit/internal/types"}
var sharedEntries = []string{"Decode", "DecodeChained", "CheckIntegrity", "DecodeHeader", "DecodeHeaderAndFileID", "Encode"}

const sharedGenVersion = "v5"

func sharedSourceHash() (string, error) {
	h := sha256.New()
	h.Write([]byte(sharedGenVersion))
	for _, d := range []string{"", "dyncrc16", "internal/types"} {
		ents, err := os.ReadDir(filepath.Join(repoRoot, d))
		if err != nil {
			return "", err
		}
		for _, e := range ents {
			n := e.Name()
			if e.IsDir() || !strings.HasSuffix(n, ".go") || strings.HasSuffix(n, "_test.go") {
				continue
			}
			b, err := os.ReadFile(filepath.Join(repoRoot, d, n))
			if err != nil {
				return "", err
			}
			fmt.Fprintf(h, "%s/%s %d\n", d, n, len(b))
			h.Write(b)
		}
	}
	for _, n := range []string{"go.mod", "go.sum"} {
		b, _ := os.ReadFile(filepath.Join(repoRoot, n))
		h.Write(b)
	}
	return hex.EncodeToString(h.Sum(nil)), nil
}

func genSharedState() (*coqFile, error) {
	// the analysis loads the standard library from source (several seconds):
	// cache the result on the hash of the analysed sources
	hash, err := sharedSourceHash()
	if err != nil {
		return nil, err
	}
	cache := filepath.Join(verifRoot, "build", "sharedstate."+hash[:24]+".v")
	if b, err := os.ReadFile(cache); err == nil && len(b) > 0 {
		c := &coqFile{name: "SharedState.v"}
		c.buf.Write(b)
		return c, nil
	}
	c, err := analyseSharedState()
	if err != nil {
		return nil, err
	}
	os.MkdirAll(filepath.Dir(cache), 0o755)
	old, _ := filepath.Glob(filepath.Join(verifRoot, "build", "sharedstate.*.v"))
	for _, o := range old {
		os.Remove(o)
	}
	os.WriteFile(cache, c.buf.Bytes(), 0o644)
	return c, nil
}

type gInfo struct {
	pkg, name, typ string
	g              *ssa.Global
	owned          map[string]bool // types of the memory reachable from the variable
	opaque         bool            // holds an interface: dynamic contents not followed
	syncT          string          // sync / sync/atomic type it contains
	used           map[string]bool // reachable functions that mention it
	direct         map[string]bool
	through        map[string]bool
	addr           map[string]bool
	refEsc         map[string]bool
}

func shortPkg(path string) string {
	switch path {
	case "github.com/tormoder/fit":
		return "fit"
	case "github.com/tormoder/fit/dyncrc16":
		return "dyncrc16"
	case "github.com/tormoder/fit/internal/types":
		return "types"
	}
	return path
}

func typeStr(t types.Type) string {
	return types.TypeString(t, func(p *types.Package) string { return shortPkg(p.Path()) })
}

// walkOwned collects the types of the memory objects reachable from a
// variable: struct, array, slice and map types, and the targets of pointers.
// A basic-typed struct field is part of its struct, not an object of its own.
func (gi *gInfo) walkOwned(t types.Type, seen map[types.Type]bool) {
	if seen[t] {
		return
	}
	seen[t] = true
	if _, basic := t.Underlying().(*types.Basic); !basic {
		gi.owned[typeStr(t)] = true
	}
	if n, ok := t.(*types.Named); ok && n.Obj().Pkg() != nil {
		if p := n.Obj().Pkg().Path(); p == "sync" || p == "sync/atomic" {
			gi.syncT = typeStr(t)
		}
	}
	switch u := t.Underlying().(type) {
	case *types.Pointer:
		gi.owned[typeStr(u.Elem())] = true
		gi.walkOwned(u.Elem(), seen)
	case *types.Slice:
		gi.walkOwned(u.Elem(), seen)
	case *types.Array:
		gi.walkOwned(u.Elem(), seen)
	case *types.Map:
		gi.walkOwned(u.Key(), seen)
		gi.walkOwned(u.Elem(), seen)
	case *types.Chan:
		gi.walkOwned(u.Elem(), seen)
	case *types.Struct:
		for i := 0; i < u.NumFields(); i++ {
			gi.walkOwned(u.Field(i).Type(), seen)
		}
	case *types.Interface:
		gi.opaque = true
	}
}

type rootKind int

const (
	rootOther rootKind = iota
	rootAlloc
	rootGlobal // the address of a package-level variable or of a part of it
	rootLoaded // a value loaded from a package-level variable
)

func rootOf(v ssa.Value, depth int) (rootKind, *ssa.Global) {
	if depth > 64 {
		return rootOther, nil
	}
	switch x := v.(type) {
	case *ssa.Global:
		return rootGlobal, x
	case *ssa.Alloc:
		return rootAlloc, nil
	case *ssa.FieldAddr:
		return rootOf(x.X, depth+1)
	case *ssa.IndexAddr:
		return rootOf(x.X, depth+1)
	case *ssa.UnOp:
		if x.Op == token.MUL {
			k, g := rootOf(x.X, depth+1)
			if k == rootGlobal || k == rootLoaded {
				return rootLoaded, g
			}
			return rootOther, nil
		}
		return rootOther, nil
	case *ssa.Field:
		return rootOf(x.X, depth+1)
	case *ssa.Index:
		return rootOf(x.X, depth+1)
	case *ssa.Lookup:
		return rootOf(x.X, depth+1)
	case *ssa.Slice:
		return rootOf(x.X, depth+1)
	case *ssa.ChangeType:
		return rootOf(x.X, depth+1)
	case *ssa.Convert:
		return rootOf(x.X, depth+1)
	case *ssa.Extract:
		return rootOf(x.Tuple, depth+1)
	case *ssa.Next:
		if r, ok := x.Iter.(*ssa.Range); ok {
			return rootOf(r.X, depth+1)
		}
	case *ssa.Phi:
		for _, e := range x.Edges {
			if k, g := rootOf(e, depth+1); k == rootGlobal || k == rootLoaded {
				return k, g
			}
		}
	}
	return rootOther, nil
}

func analyseSharedState() (*coqFile, error) {
	cfg := &packages.Config{
		Mode: packages.NeedName | packages.NeedFiles | packages.NeedCompiledGoFiles | packages.NeedImports | packages.NeedDeps |
			packages.NeedTypes | packages.NeedTypesSizes | packages.NeedSyntax | packages.NeedTypesInfo | packages.NeedModule,
		Dir: repoRoot,
		Env: append(os.Environ(), "GOFLAGS=-mod=mod", "GOPROXY=off", "GOSUMDB=off", "GOTOOLCHAIN=local"),
	}
	pkgs, err := packages.Load(cfg, sharedPkgs...)
	if err != nil {
		return nil, fmt.Errorf("shared-state analysis: loading packages: %v", err)
	}
	if n := packages.PrintErrors(pkgs); n > 0 {
		return nil, fmt.Errorf("shared-state analysis: %d package errors", n)
	}
	prog, _ := ssautil.AllPackages(pkgs, ssa.InstantiateGenerics)
	prog.Build()
	ours := map[*ssa.Package]bool{}
	var roots []*ssa.Function
	var fitPkg *ssa.Package
	byPath := map[string]*packages.Package{}
	for _, p := range pkgs {
		byPath[p.PkgPath] = p
	}
	for _, path := range sharedPkgs {
		p := byPath[path]
		if p == nil {
			return nil, fmt.Errorf("shared-state analysis: package %s not loaded", path)
		}
		sp := prog.Package(p.Types)
		if sp == nil {
			return nil, fmt.Errorf("shared-state analysis: no SSA for %s", path)
		}
		ours[sp] = true
		if path == sharedPkgs[0] {
			fitPkg = sp
		}
		if f := sp.Func("init"); f != nil {
			roots = append(roots, f)
		}
	}
	var entryFns []*ssa.Function
	for _, e := range sharedEntries {
		f := fitPkg.Func(e)
		if f == nil {
			return nil, fmt.Errorf("shared-state analysis: entry point %s not found", e)
		}
		roots = append(roots, f)
		entryFns = append(entryFns, f)
	}
	// Rapid type analysis with the package initialisers among the roots (so
	// that functions stored in initialised tables are address-taken), then
	// reachability over the call-graph edges from the entry points alone.
	// RTA also marks every exported method of every type converted to an
	// interface as reachable "through reflection" without a call edge; the
	// library never calls methods reflectively (no Value.Call / Method), so
	// those are left out by following edges only.
	res := rta.Analyze(roots, true)
	reach := map[*ssa.Function]bool{}
	var work []*ssa.Function
	for _, f := range entryFns {
		reach[f] = true
		work = append(work, f)
	}
	for len(work) > 0 {
		f := work[len(work)-1]
		work = work[:len(work)-1]
		n := res.CallGraph.Nodes[f]
		if n == nil {
			continue
		}
		for _, e := range n.Out {
			if c := e.Callee.Func; c != nil && !reach[c] {
				reach[c] = true
				work = append(work, c)
			}
		}
	}

	globals := map[*ssa.Global]*gInfo{}
	var glist []*gInfo
	for sp := range ours {
		for _, m := range sp.Members {
			g, ok := m.(*ssa.Global)
			if !ok || strings.HasPrefix(g.Name(), "init$") {
				continue
			}
			elem := g.Type().(*types.Pointer).Elem()
			gi := &gInfo{pkg: shortPkg(sp.Pkg.Path()), name: g.Name(), typ: typeStr(elem), g: g,
				owned: map[string]bool{}, used: map[string]bool{}, direct: map[string]bool{}, through: map[string]bool{},
				addr: map[string]bool{}, refEsc: map[string]bool{}}
			gi.walkOwned(elem, map[types.Type]bool{})
			globals[g] = gi
			glist = append(glist, gi)
		}
	}
	sort.Slice(glist, func(i, j int) bool {
		if glist[i].pkg != glist[j].pkg {
			return glist[i].pkg < glist[j].pkg
		}
		return glist[i].name < glist[j].name
	})

	fname := func(f *ssa.Function) string {
		s := f.String()
		s = strings.ReplaceAll(s, "github.com/tormoder/fit/internal/types", "types")
		s = strings.ReplaceAll(s, "github.com/tormoder/fit/dyncrc16", "dyncrc16")
		s = strings.ReplaceAll(s, "github.com/tormoder/fit", "fit")
		return s
	}
	// the package a function belongs to; wrappers and bound-method closures
	// (Pkg == nil) belong to the package of the method they wrap
	pkgOf := func(f *ssa.Function) *ssa.Package {
		for g := f; g != nil; g = g.Parent() {
			if g.Pkg != nil {
				return g.Pkg
			}
			if o := g.Object(); o != nil && o.Pkg() != nil {
				return prog.Package(o.Pkg())
			}
		}
		return nil
	}
	analysable := func(f *ssa.Function) bool {
		return f != nil && f.Blocks != nil && ours[pkgOf(f)]
	}
	nReach := 0
	var scanned []*ssa.Function
	for f := range reach {
		if !analysable(f) {
			continue
		}
		if f.Name() == "init" || strings.HasPrefix(f.Name(), "init#") {
			continue
		}
		scanned = append(scanned, f)
	}
	sort.Slice(scanned, func(i, j int) bool { return fname(scanned[i]) < fname(scanned[j]) })
	isScanned := map[*ssa.Function]bool{}
	for _, f := range scanned {
		isScanned[f] = true
	}
	// call site -> callees (RTA call graph)
	callees := map[ssa.CallInstruction][]*ssa.Function{}
	for _, f := range scanned {
		if n := res.CallGraph.Nodes[f]; n != nil {
			for _, e := range n.Out {
				if e.Site != nil && e.Callee.Func != nil {
					callees[e.Site] = append(callees[e.Site], e.Callee.Func)
				}
			}
		}
	}

	// ---- taint analysis (see the comment at the top of this file)
	type label struct {
		g  *gInfo
		fn string // the function in which the reference was taken from the variable
	}
	type lset map[label]bool
	changed := false
	add := func(dst lset, src lset) {
		for l := range src {
			if !dst[l] {
				dst[l] = true
				changed = true
			}
		}
	}
	vt := map[ssa.Value]lset{}       // per SSA value (parameters and free variables included)
	retT := map[*ssa.Function]lset{} // per function result
	fieldT := map[string]lset{}      // per (struct type, field index)
	contT := map[string]lset{}       // per slice / array / map / chan type: its elements
	cellT := map[string]lset{}       // per value type: cells reached through plain pointers
	at := func(m map[string]lset, k string) lset {
		if m[k] == nil {
			m[k] = lset{}
		}
		return m[k]
	}
	ofV := func(v ssa.Value) lset {
		if vt[v] == nil {
			vt[v] = lset{}
		}
		return vt[v]
	}
	var exposes func(t types.Type, seen map[types.Type]bool) bool
	exposes = func(t types.Type, seen map[types.Type]bool) bool {
		if seen[t] {
			return false
		}
		seen[t] = true
		switch u := t.Underlying().(type) {
		case *types.Pointer, *types.Slice, *types.Map, *types.Chan:
			return true
		case *types.Struct:
			for i := 0; i < u.NumFields(); i++ {
				if exposes(u.Field(i).Type(), seen) {
					return true
				}
			}
		case *types.Array:
			return exposes(u.Elem(), seen)
		}
		return false
	}
	exp := func(t types.Type) bool { return exposes(t, map[types.Type]bool{}) }
	directRef := func(t types.Type) bool {
		switch t.Underlying().(type) {
		case *types.Pointer, *types.Slice, *types.Map, *types.Chan, *types.Interface:
			return true
		}
		return false
	}
	contKey := func(t types.Type) string {
		if p, ok := t.Underlying().(*types.Pointer); ok {
			t = p.Elem() // pointer to array
		}
		return typeStr(t)
	}
	fieldKey := func(x ssa.Value, i int) string {
		t := x.Type()
		if p, ok := t.Underlying().(*types.Pointer); ok {
			t = p.Elem()
		}
		return fmt.Sprintf("%s#%d", typeStr(t), i)
	}
	var curFn *ssa.Function
	get := func(v ssa.Value) lset {
		if g, ok := v.(*ssa.Global); ok {
			if gi := globals[g]; gi != nil {
				return lset{label{gi, fname(curFn)}: true}
			}
			return nil
		}
		return vt[v]
	}
	isGlobalAddr := func(v ssa.Value) bool { k, _ := rootOf(v, 0); return k == rootGlobal }
	write := func(f *ssa.Function, addr ssa.Value) {
		for l := range get(addr) {
			if isGlobalAddr(addr) {
				l.g.direct[l.fn] = true
			} else {
				l.g.through[l.fn] = true
			}
		}
	}
	// a tainted value is stored into memory: remember it in the abstraction of that memory
	remember := func(addr ssa.Value, val ssa.Value) {
		t := get(val)
		if len(t) == 0 {
			return
		}
		switch x := addr.(type) {
		case *ssa.FieldAddr:
			add(at(fieldT, fieldKey(x.X, x.Field)), t)
		case *ssa.IndexAddr:
			add(at(contT, contKey(x.X.Type())), t)
		}
		add(at(cellT, typeStr(val.Type())), t)
	}
	// a tainted reference reaches code that is not analysed
	unknown := func(f *ssa.Function, v ssa.Value) {
		if v == nil || !directRef(v.Type()) {
			return
		}
		for l := range get(v) {
			l.g.addr[l.fn] = true
		}
	}
	transfer := func(f *ssa.Function, ins ssa.Instruction) {
		switch x := ins.(type) {
		case *ssa.FieldAddr:
			add(ofV(x), get(x.X))
		case *ssa.IndexAddr:
			add(ofV(x), get(x.X))
		case *ssa.UnOp:
			if x.Op == token.MUL {
				if exp(x.Type()) {
					add(ofV(x), get(x.X))
				}
				switch y := x.X.(type) {
				case *ssa.FieldAddr:
					add(ofV(x), fieldT[fieldKey(y.X, y.Field)])
				case *ssa.IndexAddr:
					add(ofV(x), contT[contKey(y.X.Type())])
				}
				add(ofV(x), cellT[typeStr(x.Type())])
			} else if x.Op == token.ARROW {
				add(ofV(x), contT[contKey(x.X.Type())])
			}
		case *ssa.Field:
			if exp(x.Type()) {
				add(ofV(x), get(x.X))
			}
			add(ofV(x), fieldT[fieldKey(x.X, x.Field)])
		case *ssa.Index:
			if exp(x.Type()) {
				add(ofV(x), get(x.X))
			}
			add(ofV(x), contT[contKey(x.X.Type())])
		case *ssa.Lookup:
			add(ofV(x), get(x.X))
			add(ofV(x), contT[contKey(x.X.Type())])
		case *ssa.Slice:
			add(ofV(x), get(x.X))
		case *ssa.Phi:
			for _, e := range x.Edges {
				add(ofV(x), get(e))
			}
		case *ssa.Select:
			for _, st := range x.States {
				if st.Dir == types.RecvOnly {
					add(ofV(x), contT[contKey(st.Chan.Type())])
				} else if st.Send != nil {
					add(at(contT, contKey(st.Chan.Type())), get(st.Send))
				}
			}
		case *ssa.ChangeType:
			add(ofV(x), get(x.X))
		case *ssa.Convert:
			add(ofV(x), get(x.X))
		case *ssa.MultiConvert:
			add(ofV(x), get(x.X))
		case *ssa.ChangeInterface:
			add(ofV(x), get(x.X))
		case *ssa.SliceToArrayPointer:
			add(ofV(x), get(x.X))
		case *ssa.MakeInterface:
			// an interface made from a copy (struct, basic) exposes nothing of the variable itself
			if directRef(x.X.Type()) {
				add(ofV(x), get(x.X))
			}
		case *ssa.TypeAssert:
			add(ofV(x), get(x.X))
		case *ssa.Extract:
			add(ofV(x), get(x.Tuple))
		case *ssa.Range:
			add(ofV(x), get(x.X))
			add(ofV(x), contT[contKey(x.X.Type())])
		case *ssa.Next:
			add(ofV(x), get(x.Iter))
		case *ssa.MakeClosure:
			if fn, ok := x.Fn.(*ssa.Function); ok {
				for i, bnd := range x.Bindings {
					if i < len(fn.FreeVars) {
						add(ofV(fn.FreeVars[i]), get(bnd))
					}
					if !isScanned[fn] {
						unknown(f, bnd)
					}
				}
			}
		case *ssa.Store:
			write(f, x.Addr)
			remember(x.Addr, x.Val)
		case *ssa.MapUpdate:
			write(f, x.Map)
			add(at(contT, contKey(x.Map.Type())), get(x.Key))
			add(at(contT, contKey(x.Map.Type())), get(x.Value))
		case *ssa.Send:
			add(at(contT, contKey(x.Chan.Type())), get(x.X))
		case *ssa.Return:
			for _, r := range x.Results {
				if retT[f] == nil {
					retT[f] = lset{}
				}
				add(retT[f], get(r))
				// a reference handed to the caller of an entry point
				for _, e := range entryFns {
					if e == f {
						unknown(f, r)
					}
				}
			}
		}
		if ci, ok := ins.(ssa.CallInstruction); ok {
			cc := ci.Common()
			if bi, ok := cc.Value.(*ssa.Builtin); ok {
				switch bi.Name() {
				case "append":
					write(f, cc.Args[0])
					if v := ci.Value(); v != nil {
						add(ofV(v), get(cc.Args[0]))
					}
					if len(cc.Args) > 1 {
						add(at(contT, contKey(cc.Args[0].Type())), get(cc.Args[1]))
						add(at(contT, contKey(cc.Args[0].Type())), contT[contKey(cc.Args[1].Type())])
					}
				case "copy":
					write(f, cc.Args[0])
					add(at(contT, contKey(cc.Args[0].Type())), get(cc.Args[1]))
					add(at(contT, contKey(cc.Args[0].Type())), contT[contKey(cc.Args[1].Type())])
				case "delete", "clear":
					write(f, cc.Args[0])
				}
				return
			}
			targets := callees[ci]
			if sf := cc.StaticCallee(); sf != nil && len(targets) == 0 {
				targets = []*ssa.Function{sf}
			}
			args := cc.Args
			if cc.IsInvoke() {
				args = append([]ssa.Value{cc.Value}, cc.Args...)
			}
			anyUnknown := len(targets) == 0
			for _, callee := range targets {
				if !isScanned[callee] {
					anyUnknown = true
					continue
				}
				for i, a := range args {
					if i < len(callee.Params) {
						add(ofV(callee.Params[i]), get(a))
					}
				}
				if v := ci.Value(); v != nil {
					add(ofV(v), retT[callee])
				}
			}
			if anyUnknown {
				for _, a := range args {
					unknown(f, a)
				}
				if !cc.IsInvoke() {
					if _, isFn := cc.Value.(*ssa.Function); !isFn {
						unknown(f, cc.Value)
					}
				}
			}
		}
	}
	for round := 0; round < 200; round++ {
		changed = false
		for _, f := range scanned {
			curFn = f
			for _, b := range f.Blocks {
				for _, ins := range b.Instrs {
					transfer(f, ins)
				}
			}
		}
		if !changed {
			break
		}
	}
	for _, f := range scanned {
		nReach++
		for _, b := range f.Blocks {
			for _, ins := range b.Instrs {
				for _, op := range ins.Operands(nil) {
					if op == nil || *op == nil {
						continue
					}
					if g, ok := (*op).(*ssa.Global); ok {
						if gi := globals[g]; gi != nil {
							gi.used[fname(f)] = true
							if gi.opaque {
								gi.refEsc[fname(f)] = true
							}
						}
					}
				}
			}
		}
	}

	// map-range loops in reachable functions
	type mrange struct{ fn, over, verdict string }
	var ranges []mrange
	for _, f := range scanned {
		if f.Parent() != nil {
			continue // closures are walked with their enclosing declaration
		}
		decl, ok := f.Syntax().(*ast.FuncDecl)
		if !ok || decl.Body == nil {
			continue
		}
		pp := byPath[f.Pkg.Pkg.Path()]
		if pp == nil {
			continue
		}
		info := pp.TypesInfo
		var walkBlock func(list []ast.Stmt)
		checkRange := func(rs *ast.RangeStmt, next ast.Stmt) {
			tv, ok := info.Types[rs.X]
			if !ok {
				return
			}
			if _, isMap := tv.Type.Underlying().(*types.Map); !isMap {
				return
			}
			verdict := "escapes"
			// the body only appends to one slice ...
			target := ""
			only := true
			for _, st := range rs.Body.List {
				as, ok := st.(*ast.AssignStmt)
				if !ok || len(as.Lhs) != 1 || len(as.Rhs) != 1 {
					only = false
					break
				}
				call, ok := as.Rhs[0].(*ast.CallExpr)
				if !ok || len(call.Args) < 1 {
					only = false
					break
				}
				id, ok := call.Fun.(*ast.Ident)
				if !ok || id.Name != "append" {
					only = false
					break
				}
				l := types.ExprString(as.Lhs[0])
				if l != types.ExprString(call.Args[0]) || (target != "" && target != l) {
					only = false
					break
				}
				target = l
			}
			// ... and the next statement sorts it
			if only && target != "" && next != nil {
				if es, ok := next.(*ast.ExprStmt); ok {
					if call, ok := es.X.(*ast.CallExpr); ok && len(call.Args) >= 1 {
						if sel, ok := call.Fun.(*ast.SelectorExpr); ok {
							if id, ok := sel.X.(*ast.Ident); ok && id.Name == "sort" {
								switch sel.Sel.Name {
								case "Sort", "Stable", "Slice", "SliceStable":
									arg := call.Args[0]
									if conv, ok := arg.(*ast.CallExpr); ok && len(conv.Args) == 1 {
										arg = conv.Args[0] // sort.Sort(someSliceType(x))
									}
									if types.ExprString(arg) == target {
										verdict = "sorted"
									}
								}
							}
						}
					}
				}
			}
			ranges = append(ranges, mrange{fname(f), types.ExprString(rs.X), verdict})
		}
		walkBlock = func(list []ast.Stmt) {
			for i, st := range list {
				var next ast.Stmt
				if i+1 < len(list) {
					next = list[i+1]
				}
				if rs, ok := st.(*ast.RangeStmt); ok {
					checkRange(rs, next)
				}
				// nested blocks
				ast.Inspect(st, func(n ast.Node) bool {
					if n == st {
						return true
					}
					switch b := n.(type) {
					case *ast.BlockStmt:
						walkBlock(b.List)
						return false
					case *ast.CaseClause:
						walkBlock(b.Body)
						return false
					case *ast.CommClause:
						walkBlock(b.Body)
						return false
					}
					return true
				})
			}
		}
		walkBlock(decl.Body.List)
	}
	sort.Slice(ranges, func(i, j int) bool {
		if ranges[i].fn != ranges[j].fn {
			return ranges[i].fn < ranges[j].fn
		}
		return ranges[i].over < ranges[j].over
	})

	keys := func(m map[string]bool) []string {
		var out []string
		for k := range m {
			out = append(out, k)
		}
		sort.Strings(out)
		return out
	}
	strList := func(l []string) string {
		var b strings.Builder
		b.WriteString("[")
		for i, s := range l {
			if i > 0 {
				b.WriteString("; ")
			}
			b.WriteString("\"" + strings.ReplaceAll(s, "\"", "\"\"") + "\"")
		}
		b.WriteString("]")
		return b.String()
	}

	c := &coqFile{name: "SharedState.v"}
	c.p(genHeader)
	c.p("(* package-level variables of fit, dyncrc16, internal/types and the writes to them reachable from\n   %s (SSA + rapid type analysis over the source tree, build tag verif off) *)\n", strings.Join(sharedEntries, ", "))
	c.p("From Coq Require Import NArith String List.\nImport ListNotations.\nLocal Open Scope string_scope.\n\n")
	c.p("Definition entry_points : list string := %s.\n", strList(sharedEntries))
	c.p("Definition reachable_functions : N := %d%%N.\n\n", nReach)
	c.p("(* (package, name, type) *)\nDefinition globals : list (string * string * string) := [\n")
	for i, gi := range glist {
		sep := ";"
		if i == len(glist)-1 {
			sep = ""
		}
		c.p("  (\"%s\", \"%s\", \"%s\")%s\n", gi.pkg, gi.name, strings.ReplaceAll(gi.typ, "\"", "\"\""), sep)
	}
	c.p("].\n\n")
	var written, syncUsed, syncAll, opaque, readOnly []string
	var detail []string
	for _, gi := range glist {
		q := gi.pkg + "." + gi.name
		if gi.syncT != "" {
			syncAll = append(syncAll, q)
			if len(gi.used) > 0 {
				syncUsed = append(syncUsed, q)
			}
			continue
		}
		isWritten := len(gi.direct) > 0 || len(gi.through) > 0 || len(gi.addr) > 0
		if isWritten {
			written = append(written, q)
			for _, f := range keys(gi.direct) {
				detail = append(detail, fmt.Sprintf("(\"%s\", \"direct\", \"%s\")", q, f))
			}
			for _, f := range keys(gi.through) {
				detail = append(detail, fmt.Sprintf("(\"%s\", \"through\", \"%s\")", q, f))
			}
			for _, f := range keys(gi.addr) {
				detail = append(detail, fmt.Sprintf("(\"%s\", \"escape\", \"%s\")", q, f))
			}
		} else if len(gi.used) > 0 {
			readOnly = append(readOnly, q)
			if gi.opaque && len(gi.refEsc) > 0 {
				opaque = append(opaque, q)
			}
		}
	}
	c.p("(* variables that reachable code may write: a store to the variable (direct), a store / map update / append / copy / delete\n   through a reference that derives from it (through), or such a reference reaching code that is not analysed (escape);\n   the function named is the one that took the reference from the variable *)\n")
	c.p("Definition written_globals : list string := %s.\n\n", strList(written))
	c.p("(* (variable, kind, function) *)\nDefinition written_detail : list (string * string * string) := [\n  %s\n].\n\n", strings.Join(detail, ";\n  "))
	c.p("(* variables of a sync / sync/atomic type; those mentioned by reachable code *)\n")
	c.p("Definition sync_globals : list string := %s.\nDefinition sync_globals_used : list string := %s.\n\n", strList(syncAll), strList(syncUsed))
	c.p("(* variables reachable code reads and never writes *)\nDefinition read_only_globals : list string := %s.\n\n", strList(readOnly))
	c.p("(* read-only variables holding interface values that leave the reading function (error values, reflect.Type):\n   the objects behind the interface are not followed *)\nDefinition opaque_globals : list string := %s.\n\n", strList(opaque))
	var sorted, unordered []string
	for _, r := range ranges {
		s := r.fn + ": range " + r.over
		if r.verdict == "sorted" {
			sorted = append(sorted, s)
		} else {
			unordered = append(unordered, s)
		}
	}
	c.p("(* range loops over maps in reachable functions: order erased by a sort of the only slice the body appends to / not *)\n")
	c.p("Definition sorted_map_ranges : list string := %s.\nDefinition unordered_map_ranges : list string := %s.\n", strList(sorted), strList(unordered))
	return c, nil
}
