package main

import (
	"bytes"
	"encoding/hex"
	"encoding/json"
	"fmt"
	"go/ast"
	"go/parser"
	"go/token"
	"go/types"
	"os"
	"os/exec"
	"path/filepath"
	"regexp"
	"runtime"
	"sort"
	"strconv"
	"strings"
	"sync"
	"time"
)

// C19: fitgen yields valid, deterministic code for every product-profile
// selection.
//
// The real fitgen binary is built from repoRoot and run twice per case into
// fresh directories; cases are the 5 bundled workbooks (as .xlsx with -sdk and
// wrapped in FitSDKRelease_<ver>.zip) and sampled dependency-closed product
// profiles (example cells blanked in the sheet XML of a copy).
//
// Run-time checks (tests, not proofs): exit status, byte-identical outputs of
// the two runs, declared SDK version, go build + go vet of the outputs with
// the library's support closure.
// Proof tie: messages.go / profile.go are parsed with go/ast; the struct
// fields and _fields entries are compared with the extracted Gallina model
// (Model/FitgenCore.v) run on the rows read by the harness's own xlsx reader
// (correspondence), and the extracted spec (Spec/FitgenSpec.v) is evaluated on
// the observed output (property oracle).

func init() { register("c19", runC19) }

var c19Versions = []string{"16.20", "20.14", "20.27", "20.43", "21.40"}

var c19Outputs = []string{"messages.go", "types.go", "profile.go", "types_string.go"}

var c19Support = []string{"accumu.go", "pfield.go", "time.go", "latlng.go", "types_man.go"}

// column indexes of the Messages sheet (the profile's fixed layout)
const (
	cMsgName = 0
	cDefNum  = 1
	cName    = 2
	cType    = 3
	cArray   = 4
	cComps   = 5
	cRefName = 11
	cExample = 15
)

// ---- independent view of a workbook

type c19Field struct {
	line   int // 1-based spreadsheet row
	cells  []string
	isSub  bool
	parent *c19Field
	subs   []*c19Field
	msg    *c19Msg
}

type c19Msg struct {
	name   string
	line   int
	fields []*c19Field
}

type c19Book struct {
	ver    string
	data   []byte
	book   *xlsxBook
	tsheet *xlsxSheet
	msheet *xlsxSheet
	msgs   []*c19Msg
	rows   []*c19Field // every field and sub-field row, in sheet order
}

func c19Enabled(cells []string) bool { return cells[cExample] != "" && cells[cExample] != "0" }

// c19Camel: the Go identifier of a profile name (harness's own version).
func c19Camel(s string) string {
	var sb strings.Builder
	up := true
	for i := 0; i < len(s); i++ {
		ch := s[i]
		if ch == '_' {
			up = true
			continue
		}
		if up && ch >= 'a' && ch <= 'z' {
			ch -= 32
		}
		up = false
		sb.WriteByte(ch)
	}
	return sb.String()
}

func c19SplitNames(s string) []string {
	if s == "" {
		return nil
	}
	var out []string
	for _, p := range strings.Split(s, ",") {
		out = append(out, c19Camel(strings.TrimSpace(p)))
	}
	return out
}

func c19Group(s *xlsxSheet) ([]*c19Msg, []*c19Field, error) {
	if s.ncols <= cExample {
		return nil, nil, fmt.Errorf("messages sheet has %d columns", s.ncols)
	}
	var msgs []*c19Msg
	var rows []*c19Field
	var cur *c19Msg
	var last *c19Field
	for i, cells := range s.rows {
		if i == 0 {
			continue // column titles
		}
		switch {
		case cells[cMsgName] != "":
			cur = &c19Msg{name: cells[cMsgName], line: i + 1}
			msgs = append(msgs, cur)
			last = nil
		case cells[cDefNum] != "":
			if cur == nil {
				return nil, nil, fmt.Errorf("row %d: field before any message", i+1)
			}
			last = &c19Field{line: i + 1, cells: cells, msg: cur}
			cur.fields = append(cur.fields, last)
			rows = append(rows, last)
		case cells[cName] != "":
			if last == nil {
				return nil, nil, fmt.Errorf("row %d: sub-field without field", i+1)
			}
			sf := &c19Field{line: i + 1, cells: cells, isSub: true, parent: last, msg: cur}
			last.subs = append(last.subs, sf)
			rows = append(rows, sf)
		}
	}
	return msgs, rows, nil
}

func c19LoadBook(ver string, data []byte) (*c19Book, error) {
	b := &c19Book{ver: ver, data: data}
	var err error
	if b.book, err = openXlsx(data); err != nil {
		return nil, err
	}
	if len(b.book.sheetParts) < 2 {
		return nil, fmt.Errorf("workbook has %d sheets", len(b.book.sheetParts))
	}
	if b.tsheet, err = b.book.sheet(0); err != nil {
		return nil, err
	}
	if b.msheet, err = b.book.sheet(1); err != nil {
		return nil, err
	}
	if b.msgs, b.rows, err = c19Group(b.msheet); err != nil {
		return nil, err
	}
	return b, nil
}

// c19Close returns the dependency-closed selection nearest to "disable the
// rows in off": a row stays enabled when an enabled row of its message needs
// it as a component target or as a sub-field reference field.  These are
// exactly the look-ups on which fitgen's code generator panics
// (genGetterForComponents, genAccumulator, genExpandComponentsMaskShift(Dyn),
// genDynamicGetter, genExpandComponentsDyn), taken conservatively.
func c19Close(b *c19Book, off map[int]bool) {
	for changed := true; changed; {
		changed = false
		for _, m := range b.msgs {
			need := map[string]bool{}
			for _, f := range m.fields {
				if !c19Enabled(f.cells) || off[f.line] {
					continue
				}
				for _, n := range c19SplitNames(f.cells[cComps]) {
					need[n] = true
				}
				for _, sf := range f.subs {
					if !c19Enabled(sf.cells) || off[sf.line] {
						continue
					}
					for _, n := range c19SplitNames(sf.cells[cComps]) {
						need[n] = true
					}
					for _, n := range c19SplitNames(sf.cells[cRefName]) {
						need[n] = true
					}
				}
			}
			for _, f := range m.fields {
				if off[f.line] && need[c19Camel(f.cells[cName])] {
					delete(off, f.line)
					changed = true
				}
			}
		}
	}
}

// ---- cases

type c19Case struct {
	Ver     string `json:"workbook"`
	Input   string `json:"input"`                // "xlsx" (with -sdk) | "zip" (FitSDKRelease_<ver>.zip)
	Blanked []int  `json:"blanked_example_rows"` // spreadsheet rows of the Messages sheet whose example cell is emptied
	Label   string `json:"label"`
	// Probe: a selection that is NOT dependency closed (one needed row
	// switched off).  Such selections are outside the property; the case only
	// validates the dependency relation the sampler uses (fitgen must fail and
	// the model's deps_ok must be false).
	Probe bool `json:"probe,omitempty"`
}

type c19Obs struct {
	Names   []string      // <CC> of every "type <CC>Msg struct", in order
	Structs [][][2]string // per message: (field name, Go type)
	ENames  []string      // MesgNum<CC> keys of _fields, in order
	Entries [][][5]string // per message: key, sindex, num, types.Fit code, length
	Major   string
	Minor   string
	Headers map[string]string // file -> "SDK Version" header value
}

type c19Result struct {
	c        c19Case
	rows     [][]string // Messages sheet as read back from the edited workbook
	exit     [2]int
	log      [2]string
	same     []string // outputs that differ between the two runs
	missing  []string
	buildErr string
	vetErr   string
	obs      *c19Obs
	obsErr   string
	infraErr string
	nEnabled int
	dur      time.Duration
}

type c19Env struct {
	tmp     string
	fitgen  string
	books   map[string]*c19Book
	support map[string][]byte // relative path -> content
	env     []string
}

func c19GoEnv() []string {
	env := []string{}
	for _, e := range os.Environ() {
		if strings.HasPrefix(e, "GOFLAGS=") || strings.HasPrefix(e, "GOPROXY=") || strings.HasPrefix(e, "GOSUMDB=") ||
			strings.HasPrefix(e, "GOTOOLCHAIN=") || strings.HasPrefix(e, "GOWORK=") {
			continue
		}
		env = append(env, e)
	}
	return append(env, "GOFLAGS=-mod=mod", "GOPROXY=off", "GOSUMDB=off", "GOTOOLCHAIN=local", "GOWORK=off")
}

func c19Setup() (*c19Env, error) {
	e := &c19Env{books: map[string]*c19Book{}, support: map[string][]byte{}, env: c19GoEnv()}
	var err error
	if e.tmp, err = os.MkdirTemp("", "verif-c19-"); err != nil {
		return nil, err
	}
	for _, forbidden := range []string{repoRoot, verifRoot} {
		if strings.HasPrefix(e.tmp, forbidden+string(os.PathSeparator)) {
			return nil, fmt.Errorf("temp dir %s is inside %s", e.tmp, forbidden)
		}
	}
	e.fitgen = filepath.Join(e.tmp, "fitgen")
	cmd := exec.Command("go", "build", "-o", e.fitgen, "./cmd/fitgen")
	cmd.Dir = repoRoot
	cmd.Env = e.env
	if out, err := cmd.CombinedOutput(); err != nil {
		return e, fmt.Errorf("building fitgen: %v\n%s", err, out)
	}
	for _, v := range c19Versions {
		data, err := os.ReadFile(filepath.Join(repoRoot, "cmd/fitgen/internal/profile/testdata", v+".xlsx"))
		if err != nil {
			return e, err
		}
		b, err := c19LoadBook(v, data)
		if err != nil {
			return e, fmt.Errorf("workbook %s: %v", v, err)
		}
		e.books[v] = b
	}
	// support closure of the generated code
	for _, f := range c19Support {
		c, err := os.ReadFile(filepath.Join(repoRoot, f))
		if err != nil {
			return e, err
		}
		e.support[f] = c
	}
	ents, err := os.ReadDir(filepath.Join(repoRoot, "internal/types"))
	if err != nil {
		return e, err
	}
	for _, ent := range ents {
		n := ent.Name()
		if ent.IsDir() || !strings.HasSuffix(n, ".go") || strings.HasSuffix(n, "_test.go") || n == "verif_hooks.go" {
			continue
		}
		c, err := os.ReadFile(filepath.Join(repoRoot, "internal/types", n))
		if err != nil {
			return e, err
		}
		e.support[filepath.Join("internal/types", n)] = c
	}
	e.support["go.mod"] = []byte("module github.com/tormoder/fit\n\ngo 1.15\n")
	return e, nil
}

func (e *c19Env) cleanup() {
	if e != nil && e.tmp != "" {
		os.RemoveAll(e.tmp)
	}
}

func c19Tail(b []byte, n int) string {
	s := string(b)
	if len(s) > n {
		s = "..." + s[len(s)-n:]
	}
	return s
}

// runCase runs fitgen twice on the case's input and examines the outputs.
func (e *c19Env) runCase(c c19Case) *c19Result {
	t0 := time.Now()
	res := &c19Result{c: c}
	defer func() { res.dur = time.Since(t0) }()
	b := e.books[c.Ver]
	if b == nil {
		res.infraErr = "unknown workbook " + c.Ver
		return res
	}
	wb := b.data
	if len(c.Blanked) > 0 {
		var n int
		var err error
		wb, n, err = b.book.blankCells(1, cExample, c.Blanked)
		if err != nil || n != len(c.Blanked) {
			res.infraErr = fmt.Sprintf("editing workbook: blanked %d of %d cells: %v", n, len(c.Blanked), err)
			return res
		}
	}
	// rows as the harness reads them back from the (edited) workbook
	eb, err := c19LoadBook(c.Ver, wb)
	if err != nil {
		res.infraErr = "re-reading workbook: " + err.Error()
		return res
	}
	res.rows = eb.msheet.rows
	for _, f := range eb.rows {
		if !f.isSub && c19Enabled(f.cells) {
			res.nEnabled++
		}
	}
	dir, err := os.MkdirTemp(e.tmp, "case-")
	if err != nil {
		res.infraErr = err.Error()
		return res
	}
	defer os.RemoveAll(dir)
	var input string
	var args []string
	switch c.Input {
	case "zip":
		z, err := wrapInSDKZip(wb)
		if err != nil {
			res.infraErr = err.Error()
			return res
		}
		input = filepath.Join(dir, "FitSDKRelease_"+c.Ver+".zip")
		wb = z
	case "zip-sdk", "zip-othername":
		// a zip whose name does not spell the version, together with -sdk: the flag provides / overrides it
		z, err := wrapInSDKZip(wb)
		if err != nil {
			res.infraErr = err.Error()
			return res
		}
		name := "fitsdk.zip"
		if c.Input == "zip-othername" {
			name = "FitSDKRelease_19.99.00.zip"
		}
		input = filepath.Join(dir, name)
		args = []string{"-sdk", c.Ver}
		wb = z
	default:
		input = filepath.Join(dir, "Profile.xlsx")
		args = []string{"-sdk", c.Ver}
	}
	if err := os.WriteFile(input, wb, 0o644); err != nil {
		res.infraErr = err.Error()
		return res
	}
	outs := [2]string{filepath.Join(dir, "out1"), filepath.Join(dir, "out2")}
	for k := 0; k < 2; k++ {
		os.MkdirAll(outs[k], 0o755)
		if k == 1 {
			// the second run writes into a directory that already holds (longer) generated files, as when a
			// smaller product profile is generated over the stock one: the output must not depend on them
			stale := bytes.Repeat([]byte("// stale output of an earlier run\n"), 200000)
			for _, f := range c19Outputs {
				os.WriteFile(filepath.Join(outs[k], f), stale, 0o644)
			}
		}
		inArg, outArg := input, outs[k]
		if k == 1 {
			// ... and names its input and output relative to the working directory (the first run uses absolute paths)
			inArg, outArg = filepath.Base(input), "out2"
		}
		cmd := exec.Command(e.fitgen, append(append([]string{}, args...), inArg, outArg)...)
		cmd.Dir = dir
		cmd.Env = e.env
		out, err := cmd.CombinedOutput()
		res.log[k] = c19Tail(out, 600)
		if err != nil {
			if ee, ok := err.(*exec.ExitError); ok {
				res.exit[k] = ee.ExitCode()
				if res.exit[k] == 0 {
					res.exit[k] = -1
				}
			} else {
				res.infraErr = "running fitgen: " + err.Error()
				return res
			}
		}
	}
	files := map[string][]byte{}
	for _, f := range c19Outputs {
		a, err1 := os.ReadFile(filepath.Join(outs[0], f))
		bb, err2 := os.ReadFile(filepath.Join(outs[1], f))
		if err1 != nil || err2 != nil {
			res.missing = append(res.missing, f)
			continue
		}
		files[f] = a
		if !bytes.Equal(a, bb) {
			res.same = append(res.same, f)
		}
	}
	if len(res.missing) > 0 {
		return res
	}
	// observed structure
	obs, err := c19Observe(files)
	if err != nil {
		res.obsErr = err.Error()
	} else {
		res.obs = obs
	}
	// build + vet with the support closure
	pkg := filepath.Join(dir, "pkg")
	for rel, c := range e.support {
		p := filepath.Join(pkg, rel)
		os.MkdirAll(filepath.Dir(p), 0o755)
		if err := os.WriteFile(p, c, 0o644); err != nil {
			res.infraErr = err.Error()
			return res
		}
	}
	for f, c := range files {
		if err := os.WriteFile(filepath.Join(pkg, f), c, 0o644); err != nil {
			res.infraErr = err.Error()
			return res
		}
	}
	for _, step := range []string{"build", "vet"} {
		cmd := exec.Command("go", step, "./...")
		cmd.Dir = pkg
		cmd.Env = e.env
		out, err := cmd.CombinedOutput()
		if err != nil {
			msg := strings.ReplaceAll(c19Tail(out, 1500), pkg, "<pkg>")
			if _, ok := err.(*exec.ExitError); !ok {
				res.infraErr = "go " + step + ": " + err.Error()
				return res
			}
			if step == "build" {
				res.buildErr = msg
				break
			}
			res.vetErr = msg
		}
	}
	return res
}

// c19Observe parses the generated sources: the message structs of
// messages.go and the _fields table and version constants of profile.go.
func c19Observe(files map[string][]byte) (*c19Obs, error) {
	o := &c19Obs{Headers: map[string]string{}}
	reHdr := regexp.MustCompile(`(?m)^// SDK Version: (.*)$`)
	for _, f := range []string{"messages.go", "types.go", "profile.go"} {
		if m := reHdr.FindSubmatch(files[f]); m != nil {
			o.Headers[f] = string(m[1])
		}
	}
	fset := token.NewFileSet()
	mf, err := parser.ParseFile(fset, "messages.go", files["messages.go"], 0)
	if err != nil {
		return nil, fmt.Errorf("messages.go does not parse: %v", err)
	}
	for _, d := range mf.Decls {
		gd, ok := d.(*ast.GenDecl)
		if !ok || gd.Tok != token.TYPE {
			continue
		}
		for _, sp := range gd.Specs {
			ts := sp.(*ast.TypeSpec)
			st, ok := ts.Type.(*ast.StructType)
			if !ok || !strings.HasSuffix(ts.Name.Name, "Msg") {
				continue
			}
			var fs [][2]string
			for _, fl := range st.Fields.List {
				ty := types.ExprString(fl.Type)
				if len(fl.Names) == 0 {
					fs = append(fs, [2]string{"", ty})
				}
				for _, n := range fl.Names {
					fs = append(fs, [2]string{n.Name, ty})
				}
			}
			o.Names = append(o.Names, strings.TrimSuffix(ts.Name.Name, "Msg"))
			o.Structs = append(o.Structs, fs)
		}
	}
	pf, err := parser.ParseFile(fset, "profile.go", files["profile.go"], 0)
	if err != nil {
		return nil, fmt.Errorf("profile.go does not parse: %v", err)
	}
	lit := func(e ast.Expr) string {
		if bl, ok := e.(*ast.BasicLit); ok {
			return bl.Value
		}
		return "?" + types.ExprString(e)
	}
	foundFields := false
	for _, d := range pf.Decls {
		gd, ok := d.(*ast.GenDecl)
		if !ok {
			continue
		}
		for _, sp := range gd.Specs {
			vs, ok := sp.(*ast.ValueSpec)
			if !ok {
				continue
			}
			for i, n := range vs.Names {
				if i >= len(vs.Values) {
					continue
				}
				switch n.Name {
				case "ProfileMajorVersion":
					o.Major = lit(vs.Values[i])
				case "ProfileMinorVersion":
					o.Minor = lit(vs.Values[i])
				case "_fields":
					if foundFields {
						return nil, fmt.Errorf("profile.go: _fields declared twice")
					}
					foundFields = true
					cl, ok := vs.Values[i].(*ast.CompositeLit)
					if !ok {
						return nil, fmt.Errorf("profile.go: _fields is not a composite literal")
					}
					for _, el := range cl.Elts {
						kv, ok := el.(*ast.KeyValueExpr)
						if !ok {
							return nil, fmt.Errorf("profile.go: _fields element without key")
						}
						key := types.ExprString(kv.Key)
						if !strings.HasPrefix(key, "MesgNum") {
							return nil, fmt.Errorf("profile.go: _fields key %s", key)
						}
						inner, ok := kv.Value.(*ast.CompositeLit)
						if !ok {
							return nil, fmt.Errorf("profile.go: _fields[%s] is not a composite literal", key)
						}
						var es [][5]string
						for _, fe := range inner.Elts {
							fkv, ok := fe.(*ast.KeyValueExpr)
							if !ok {
								return nil, fmt.Errorf("profile.go: _fields[%s] element without key", key)
							}
							fl, ok := fkv.Value.(*ast.CompositeLit)
							if !ok || len(fl.Elts) != 4 {
								return nil, fmt.Errorf("profile.go: _fields[%s][%s] is not a 4-element literal", key, lit(fkv.Key))
							}
							code := "?" + types.ExprString(fl.Elts[2])
							if ce, ok := fl.Elts[2].(*ast.CallExpr); ok && types.ExprString(ce.Fun) == "types.Fit" && len(ce.Args) == 1 {
								code = lit(ce.Args[0])
							}
							es = append(es, [5]string{lit(fkv.Key), lit(fl.Elts[0]), lit(fl.Elts[1]), code, lit(fl.Elts[3])})
						}
						o.ENames = append(o.ENames, strings.TrimPrefix(key, "MesgNum"))
						o.Entries = append(o.Entries, es)
					}
				}
			}
		}
	}
	if !foundFields {
		return nil, fmt.Errorf("profile.go: no _fields table")
	}
	return o, nil
}

// ---- driver encoding

func c19X(s string) string { return "x" + hex.EncodeToString([]byte(s)) }

func c19UnX(s string) string {
	b, _ := hex.DecodeString(strings.TrimPrefix(s, "x"))
	return string(b)
}

func c19EncSheet(rows [][]string, maxCols int) string {
	var sb strings.Builder
	for i, r := range rows {
		if i > 0 {
			sb.WriteByte(';')
		}
		for j, c := range r {
			if maxCols > 0 && j >= maxCols {
				break
			}
			if j > 0 {
				sb.WriteByte(',')
			}
			sb.WriteString(c19X(c))
		}
	}
	if len(rows) == 0 {
		return "-"
	}
	return sb.String()
}

// canonical form of one message's generated items, the same on both sides:
// CC:name.type,...:num.sindex.code.len,...
func c19CanonObs(o *c19Obs, i int) string {
	var sb strings.Builder
	sb.WriteString(c19X(o.Names[i]))
	sb.WriteByte(':')
	for j, f := range o.Structs[i] {
		if j > 0 {
			sb.WriteByte(',')
		}
		sb.WriteString(c19X(f[0]) + "." + c19X(f[1]))
	}
	sb.WriteByte(':')
	for j, e := range o.Entries[i] {
		if j > 0 {
			sb.WriteByte(',')
		}
		sb.WriteString(c19X(e[2]) + "." + e[1] + "." + e[3] + "." + c19X(e[4]))
	}
	return sb.String()
}

func c19ShowCanon(s string) string {
	parts := strings.Split(s, ":")
	if len(parts) != 3 {
		return s
	}
	var sb strings.Builder
	sb.WriteString(c19UnX(parts[0]) + " struct{")
	for j, f := range strings.Split(parts[1], ",") {
		if f == "" {
			continue
		}
		p := strings.Split(f, ".")
		if j > 0 {
			sb.WriteString("; ")
		}
		if len(p) == 2 {
			sb.WriteString(c19UnX(p[0]) + " " + c19UnX(p[1]))
		}
	}
	sb.WriteString("} entries{")
	for j, f := range strings.Split(parts[2], ",") {
		if f == "" {
			continue
		}
		p := strings.Split(f, ".")
		if j > 0 {
			sb.WriteString("; ")
		}
		if len(p) == 4 {
			sb.WriteString(fmt.Sprintf("num %s: sindex %s, types.Fit(%s), len %s", c19UnX(p[0]), p[1], p[2], c19UnX(p[3])))
		}
	}
	sb.WriteString("}")
	return sb.String()
}

// observed output as the spec sees it: per message the slice flags of the
// struct fields and the lookup entries
func c19SpecObs(o *c19Obs) string {
	if len(o.Names) == 0 {
		return "-"
	}
	var sb strings.Builder
	for i := range o.Names {
		if i > 0 {
			sb.WriteByte('|')
		}
		for j, f := range o.Structs[i] {
			if j > 0 {
				sb.WriteByte(',')
			}
			if strings.HasPrefix(f[1], "[]") {
				sb.WriteByte('1')
			} else {
				sb.WriteByte('0')
			}
		}
		sb.WriteByte(':')
		for j, e := range o.Entries[i] {
			if j > 0 {
				sb.WriteByte(',')
			}
			sb.WriteString(c19X(e[2]) + "." + e[1] + "." + e[3] + "." + c19X(e[4]))
		}
	}
	return sb.String()
}

// ---- the run

func c19Sample(rg *rng, b *c19Book, label string) c19Case {
	// per-case disable probability: from a few rows to most of the profile
	probs := []int{2, 5, 10, 25, 50, 75, 90}
	p := probs[rg.intn(len(probs))]
	off := map[int]bool{}
	// sometimes whole messages are switched off, as a product would do
	msgOff := map[*c19Msg]bool{}
	if rg.chance(1, 3) {
		for _, m := range b.msgs {
			if rg.chance(1, 3) {
				msgOff[m] = true
			}
		}
	}
	for _, f := range b.rows {
		if !c19Enabled(f.cells) {
			continue
		}
		q := p
		if f.isSub {
			q = p / 2
		}
		if msgOff[f.msg] || rg.intn(100) < q {
			off[f.line] = true
		}
	}
	c19Close(b, off)
	var lines []int
	for l := range off {
		lines = append(lines, l)
	}
	sort.Ints(lines)
	return c19Case{Ver: b.ver, Input: []string{"xlsx", "xlsx", "zip"}[rg.intn(3)], Blanked: lines, Label: label}
}

func runC19(args []string) int {
	o := parseRunOpts("c19", args)
	r := newReport("C19", o)
	r.Rule = "case = (bundled workbook, input form xlsx+-sdk | FitSDKRelease zip, dependency-closed set of blanked example cells); the real fitgen binary runs twice per case; " +
		"evaluation = one message of one case (struct fields + _fields entries compared with the extracted model and checked by the extracted spec); " +
		"non-trivial = the message has at least one enabled field row; distinct by (workbook, message, enabled-row set). " +
		"Exit status, run-to-run byte identity, SDK version strings, go build + go vet with the support closure are run-time tests per case."
	env, err := c19Setup()
	defer env.cleanup()
	if err != nil {
		fmt.Println("c19 setup:", err)
		// fitgen no longer builds / workbooks unreadable: nothing can be examined
		r.specFail("setup", "C19 set-up failed: "+err.Error(), map[string]interface{}{"entry": "go build ./cmd/fitgen"})
		return r.finish()
	}
	var d *driver
	if os.Getenv("C19_NOMODEL") == "" {
		d, err = startDriver(o.driver)
		if err != nil {
			fmt.Println("driver:", err)
			return 2
		}
		defer d.close()
	}
	rg := newRng(o.seed)

	var cases []c19Case
	if o.replay != "" {
		raw, err := os.ReadFile(o.replay)
		if err != nil {
			fmt.Println("replay:", err)
			return 2
		}
		var rp struct {
			Case  *c19Case `json:"case"`
			First *c19Case `json:"first_disagreeing_case"`
		}
		if err := json.Unmarshal(raw, &rp); err != nil {
			fmt.Println("replay:", err)
			return 2
		}
		switch {
		case rp.Case != nil && rp.Case.Ver != "":
			cases = append(cases, *rp.Case)
		case rp.First != nil && rp.First.Ver != "":
			cases = append(cases, *rp.First)
		default:
			fmt.Println("replay: no case in", o.replay)
			return 2
		}
	} else {
		for _, v := range c19Versions {
			cases = append(cases, c19Case{Ver: v, Input: "xlsx", Label: "stock"})
			cases = append(cases, c19Case{Ver: v, Input: "zip", Label: "stock"})
		}
		per := 4
		if o.tier == "thorough" {
			per = 400
		}
		per *= o.boost
		for i := 0; i < per; i++ {
			for _, v := range c19Versions {
				cases = append(cases, c19Sample(rg.fork(), env.books[v], "sampled"))
			}
		}
		// the smallest profiles: one message only, everything else off
		nmin := 1
		if o.tier == "thorough" {
			nmin = 10
		}
		for i := 0; i < nmin; i++ {
			for _, v := range c19Versions {
				b := env.books[v]
				keep := b.msgs[rg.intn(len(b.msgs))]
				if i == 0 {
					keep = b.msgs[0] // file_id
				}
				off := map[int]bool{}
				for _, f := range b.rows {
					if c19Enabled(f.cells) && f.msg != keep {
						off[f.line] = true
					}
				}
				c19Close(b, off)
				var lines []int
				for l := range off {
					lines = append(lines, l)
				}
				sort.Ints(lines)
				cases = append(cases, c19Case{Ver: v, Input: "xlsx", Blanked: lines, Label: "single-message"})
			}
		}
	}

	// zip inputs whose file name does not give the version, with -sdk
	if o.replay == "" {
		for i, v := range c19Versions {
			if o.tier != "thorough" && i != int(o.seed)%len(c19Versions) && v != "21.40" {
				continue
			}
			cases = append(cases, c19Case{Ver: v, Input: "zip-sdk", Label: "zip-with-sdk-flag"}, c19Case{Ver: v, Input: "zip-othername", Label: "zip-with-sdk-flag"})
		}
	}

	// feature-class selections: switch off every row of one class (what the generated code needs -- imports,
	// helper functions, getters -- depends on which classes of fields are present at all), or keep only file_id
	// plus the rows of one class
	if o.replay == "" {
		const cScale = 6
		classes := []struct {
			name string
			in   func(f *c19Field) bool
		}{
			{"scaled-scalar", func(f *c19Field) bool { return f.cells[cScale] != "" && f.cells[cArray] == "" }},
			{"scaled-array", func(f *c19Field) bool { return f.cells[cScale] != "" && f.cells[cArray] != "" }},
			{"time", func(f *c19Field) bool { return strings.Contains(f.cells[cType], "date_time") }},
			{"components", func(f *c19Field) bool { return f.cells[cComps] != "" }},
			{"array", func(f *c19Field) bool { return f.cells[cArray] != "" }},
			{"string", func(f *c19Field) bool { return f.cells[cType] == "string" }},
		}
		vers := c19Versions
		if o.tier != "thorough" {
			vers = []string{c19Versions[int(o.seed)%len(c19Versions)], "21.40"}
		}
		for _, v := range vers {
			b := env.books[v]
			for _, cl := range classes {
				for mode := 0; mode < 2; mode++ {
					off := map[int]bool{}
					for _, f := range b.rows {
						if !c19Enabled(f.cells) || len(f.cells) <= cExample {
							continue
						}
						inClass := cl.in(f)
						if mode == 0 && inClass {
							off[f.line] = true // everything but this class
						}
						if mode == 1 && !inClass && f.msg != b.msgs[0] {
							off[f.line] = true // only file_id and this class
						}
					}
					c19Close(b, off)
					var lines []int
					for l := range off {
						lines = append(lines, l)
					}
					sort.Ints(lines)
					label := "without-" + cl.name
					if mode == 1 {
						label = "only-file_id-and-" + cl.name
					}
					cases = append(cases, c19Case{Ver: v, Input: "xlsx", Blanked: lines, Label: label})
				}
				// file_id plus ONE row of the class (rows without components, so that nothing else comes back
				// through the dependency closure)
				var singles []*c19Field
				for _, f := range b.rows {
					if c19Enabled(f.cells) && len(f.cells) > cExample && !f.isSub && len(f.subs) == 0 && f.msg != b.msgs[0] && cl.in(f) && f.cells[cComps] == "" {
						singles = append(singles, f)
					}
				}
				for k := 0; k < 2 && len(singles) > 0; k++ {
					keep := singles[rg.intn(len(singles))]
					off := map[int]bool{}
					for _, f := range b.rows {
						if c19Enabled(f.cells) && f.msg != b.msgs[0] && f != keep {
							off[f.line] = true
						}
					}
					c19Close(b, off)
					var lines []int
					for l := range off {
						lines = append(lines, l)
					}
					sort.Ints(lines)
					cases = append(cases, c19Case{Ver: v, Input: "xlsx", Blanked: lines, Label: "file_id-and-one-" + cl.name + "-row"})
				}
			}
		}
	}

	// probes of the dependency relation (outside the property): switch off exactly one needed row
	if o.replay == "" {
		nprobe := 1
		if o.tier == "thorough" {
			nprobe = 8
		}
		for _, v := range c19Versions {
			b := env.books[v]
			// rows that fitgen certainly looks up: component targets of enabled
			// main fields (genGetterForComponents) and reference fields of
			// enabled sub-fields (genDynamicGetter), when the name is unique
			var needed []int
			for _, m := range b.msgs {
				need := map[string]bool{}
				count := map[string]int{}
				for _, f := range m.fields {
					if !c19Enabled(f.cells) {
						continue
					}
					count[c19Camel(f.cells[cName])]++
					for _, n := range c19SplitNames(f.cells[cComps]) {
						need[n] = true
					}
					for _, sf := range f.subs {
						if c19Enabled(sf.cells) {
							for _, n := range c19SplitNames(sf.cells[cRefName]) {
								need[n] = true
							}
						}
					}
				}
				for _, f := range m.fields {
					n := c19Camel(f.cells[cName])
					if c19Enabled(f.cells) && need[n] && count[n] == 1 {
						needed = append(needed, f.line)
					}
				}
			}
			for i := 0; i < nprobe && len(needed) > 0; i++ {
				cases = append(cases, c19Case{Ver: v, Input: "xlsx", Blanked: []int{needed[rg.intn(len(needed))]}, Label: "dependency-probe", Probe: true})
			}
		}
	}

	// run the cases on several cores
	workers := runtime.NumCPU() / 2
	if workers > 8 {
		workers = 8
	}
	if workers < 1 {
		workers = 1
	}
	results := make([]*c19Result, len(cases))
	var wg sync.WaitGroup
	next := make(chan int)
	for w := 0; w < workers; w++ {
		wg.Add(1)
		go func() {
			defer wg.Done()
			for i := range next {
				results[i] = env.runCase(cases[i])
			}
		}()
	}
	for i := range cases {
		next <- i
	}
	close(next)
	wg.Wait()

	for _, res := range results {
		c19Judge(r, d, env, res)
	}
	r.Extra["proof_scope"] = "partial: the theorems cover the row -> (struct field, lookup entry) mapping of the Gallina model; everything listed under runtime_tests is a test"
	r.Extra["runtime_tests"] = "exit status 0 (both runs); messages.go/types.go/profile.go/types_string.go byte-identical between the two runs; " +
		"'// SDK Version: <ver>' header in messages.go/types.go/profile.go and ProfileMajorVersion/ProfileMinorVersion; go build ./... and go vet ./... of the outputs with accumu.go, pfield.go, time.go, latlng.go, types_man.go, internal/types (these are tests, not covered by the theorem)"
	return r.finish()
}

// c19JudgeProbe: a selection with a broken dependency must make fitgen fail
// and must be rejected by the model's deps_ok.
func c19JudgeProbe(r *report, d *driver, env *c19Env, res *c19Result) {
	c := res.c
	rep := map[string]interface{}{"entry": "cmd/fitgen", "workbook": c.Ver, "input": c.Input, "blanked_example_rows": c.Blanked, "label": c.Label, "probe": true}
	id := fmt.Sprintf("%s/%s/%s rows %v", c.Ver, c.Input, c.Label, c.Blanked)
	r.hist("probe_cases")
	if res.infraErr != "" {
		r.corrFail("infrastructure", id+": "+res.infraErr, rep)
		return
	}
	if res.exit[0] == 0 && res.buildErr == "" {
		r.corrFail("dependency_relation", id+": a row that an enabled row depends on was switched off, yet fitgen succeeded and its output builds (the sampler's closure is stricter than the code)", rep)
	} else if res.exit[0] != 0 {
		r.hist("probe_fitgen_failed")
	} else {
		r.hist("probe_output_does_not_build")
	}
	if d != nil {
		resp, err := d.ask("c19_deps " + c19EncSheet(env.books[c.Ver].tsheet.rows, 3) + " " + c19EncSheet(res.rows, 0))
		if err != nil {
			r.corrFail("driver", id+": "+err.Error(), rep)
		} else if resp != "fail" {
			r.corrFail("dependency_relation", id+": the model's deps_ok accepts a selection with a switched-off dependency: "+resp, rep)
		}
	}
}

// c19Judge evaluates one finished case.
func c19Judge(r *report, d *driver, env *c19Env, res *c19Result) {
	c := res.c
	if c.Probe {
		c19JudgeProbe(r, d, env, res)
		return
	}
	rep := map[string]interface{}{"entry": "cmd/fitgen", "workbook": c.Ver, "input": c.Input, "blanked_example_rows": c.Blanked, "label": c.Label}
	id := fmt.Sprintf("%s/%s/%s/%d blanked", c.Ver, c.Input, c.Label, len(c.Blanked))
	r.hist("cases_" + c.Label)
	r.hist("input_" + c.Input)
	r.hist("workbook_" + c.Ver)
	r.hist("blanked_" + c19Bucket(len(c.Blanked)))
	if res.infraErr != "" {
		r.corrFail("infrastructure", id+": "+res.infraErr, rep)
		return
	}
	r.Traces++
	// --- run-time tests
	if res.exit[0] != 0 || res.exit[1] != 0 {
		r.specFail("exit_status", fmt.Sprintf("%s: fitgen exit status %d / %d; output: %s", id, res.exit[0], res.exit[1], res.log[0]), rep)
		return
	}
	if len(res.missing) > 0 {
		r.specFail("missing_output", fmt.Sprintf("%s: fitgen exited 0 but did not write %v", id, res.missing), rep)
		return
	}
	if len(res.same) > 0 {
		r.specFail("nondeterministic", fmt.Sprintf("%s: two runs on the same input differ in %v", id, res.same), rep)
	}
	if res.buildErr != "" {
		tag := "does_not_compile"
		if c19OnlyUnusedImports(res.buildErr) {
			tag = "unused_import"
		}
		r.specFail(tag, fmt.Sprintf("%s: generated code does not build with the support closure: %s", id, res.buildErr), rep)
	} else if res.vetErr != "" {
		r.specFail("vet", fmt.Sprintf("%s: go vet rejects the generated code: %s", id, res.vetErr), rep)
	}
	if res.obsErr != "" {
		r.specFail("unparsable_output", id+": "+res.obsErr, rep)
		return
	}
	obs := res.obs
	maj, min := c.Ver, ""
	if k := strings.Index(c.Ver, "."); k >= 0 {
		maj, min = c.Ver[:k], c.Ver[k+1:]
	}
	for _, f := range []string{"messages.go", "types.go", "profile.go"} {
		if obs.Headers[f] != c.Ver {
			r.specFail("sdk_version", fmt.Sprintf("%s: %s declares SDK version %q, requested %s", id, f, obs.Headers[f], c.Ver), rep)
		}
	}
	if obs.Major != maj || obs.Minor != min {
		r.specFail("sdk_version", fmt.Sprintf("%s: profile.go declares ProfileMajorVersion=%s ProfileMinorVersion=%s, requested %s", id, obs.Major, obs.Minor, c.Ver), rep)
	}
	// --- structure: messages of the struct file and of the table line up
	if strings.Join(obs.Names, ",") != strings.Join(obs.ENames, ",") {
		r.specFail("table_vs_structs", fmt.Sprintf("%s: message structs %d and _fields keys %d differ in names/order", id, len(obs.Names), len(obs.ENames)), rep)
		return
	}
	for i := range obs.Entries {
		for _, e := range obs.Entries[i] {
			if e[0] != e[2] {
				r.specFail("entry_key", fmt.Sprintf("%s: _fields[MesgNum%s][%s] holds field number %s", id, obs.ENames[i], e[0], e[2]), rep)
			}
		}
	}
	// independent grouping of the rows: expected message names
	msgs, _, err := c19Group(&xlsxSheet{rows: res.rows, ncols: len(res.rows[0])})
	if err != nil {
		r.corrFail("infrastructure", id+": "+err.Error(), rep)
		return
	}
	if len(msgs) != len(obs.Names) {
		r.specFail("message_count", fmt.Sprintf("%s: workbook has %d messages, generated code %d", id, len(msgs), len(obs.Names)), rep)
		return
	}
	for i, m := range msgs {
		if c19Camel(m.name) != obs.Names[i] {
			r.specFail("message_name", fmt.Sprintf("%s: message %d is %q in the workbook, %sMsg in the code", id, i, m.name, obs.Names[i]), rep)
			return
		}
	}
	// evaluations: one per message
	for i, m := range msgs {
		var en []string
		for _, f := range m.fields {
			if c19Enabled(f.cells) {
				en = append(en, f.cells[cDefNum])
			}
		}
		r.count(fmt.Sprintf("%s|%s|%s", c.Ver, m.name, strings.Join(en, ",")), len(en) > 0)
		_ = i
	}
	r.hist("enabled_rows_" + c19Bucket(res.nEnabled))
	if len(r.Samples) < 4 && (c.Label != "stock" || len(r.Samples) < 1) {
		r.sample(map[string]interface{}{"workbook": c.Ver, "input": c.Input, "label": c.Label, "blanked_rows": len(c.Blanked), "enabled_field_rows": res.nEnabled,
			"messages": len(msgs), "first_message": c19ShowCanon(c19CanonObs(obs, 0)), "seconds": res.dur.Seconds()})
	}
	if d == nil {
		return
	}
	// --- model and spec
	tsheet := c19EncSheet(env.books[c.Ver].tsheet.rows, 3)
	msheet := c19EncSheet(res.rows, 0)
	resp, err := d.batch([]string{
		"c19_gen 0 " + tsheet + " " + msheet,
		"c19_spec " + tsheet + " " + msheet + " " + c19SpecObs(obs),
		"c19_hyp " + tsheet + " " + msheet,
		"c19_deps " + tsheet + " " + msheet,
	})
	if err != nil {
		r.corrFail("driver", id+": "+err.Error(), rep)
		return
	}
	// property oracle: the extracted spec on the observed output
	if resp[1] != "ok" {
		what := resp[1]
		f := strings.Fields(resp[1])
		if len(f) >= 2 && f[0] == "fail" {
			if k, err := strconv.Atoi(f[1]); err == nil && k < len(msgs) {
				what = fmt.Sprintf("message %q (row %d): %s; generated: %s", msgs[k].name, msgs[k].line, strings.Join(f[2:], " "), c19ShowCanon(c19CanonObs(obs, k)))
			}
		}
		r.specFail("row_mapping", fmt.Sprintf("%s: enabled rows and generated struct fields / lookup entries do not correspond: %s", id, what), rep)
	}
	// hypotheses of the theorem hold for this profile
	if !strings.HasPrefix(resp[2], "ok") {
		r.corrFail("hypotheses", fmt.Sprintf("%s: the theorem's side conditions do not hold for this workbook: %s", id, resp[2]), rep)
	} else {
		r.hist("hypotheses_checked")
	}
	for _, m := range msgs {
		seen := map[string]int{}
		for _, f := range m.fields {
			if l, dup := seen[f.cells[cDefNum]]; dup {
				r.corrFail("hypotheses", fmt.Sprintf("%s: message %q has field number %s twice (rows %d and %d): the NoDup hypothesis of gen_bijection does not hold", id, m.name, f.cells[cDefNum], l, f.line), rep)
			}
			seen[f.cells[cDefNum]] = f.line
		}
	}
	// the selection is dependency closed in the model's sense as well
	if resp[3] != "ok" {
		r.corrFail("dependency_relation", fmt.Sprintf("%s: the model's deps_ok rejects a selection the sampler considers closed (%s)", id, resp[3]), rep)
	}
	// correspondence: model output = observed output, message by message
	if !strings.HasPrefix(resp[0], "ok") {
		r.corrFail("model_error", fmt.Sprintf("%s: fitgen succeeded, the model answers %q", id, c19Tail([]byte(resp[0]), 200)), rep)
		return
	}
	var model []string
	if body := strings.TrimSpace(strings.TrimPrefix(resp[0], "ok")); body != "" {
		model = strings.Split(body, "|")
	}
	if len(model) != len(obs.Names) {
		r.corrFail("model_messages", fmt.Sprintf("%s: model generates %d messages, fitgen %d", id, len(model), len(obs.Names)), rep)
		return
	}
	for i := range model {
		if got := c19CanonObs(obs, i); got != model[i] {
			r.corrFail("model_message", fmt.Sprintf("%s: message %d differs\n   fitgen: %s\n   model : %s", id, i, c19ShowCanon(got), c19ShowCanon(model[i])), rep)
			break
		}
	}
}

var c19ReUnused = regexp.MustCompile(`^\S+: "(math|time|github\.com/tormoder/fit/internal/types)" imported and not used$`)

// c19OnlyUnusedImports: every compiler complaint is an unused "math"/"time"
// import of messages.go or an unused internal/types import of profile.go
// (fitgen writes its import blocks unconditionally).
func c19OnlyUnusedImports(msg string) bool {
	n := 0
	for _, l := range strings.Split(msg, "\n") {
		l = strings.TrimSpace(l)
		if l == "" || strings.HasPrefix(l, "#") {
			continue
		}
		if !c19ReUnused.MatchString(l) {
			return false
		}
		n++
	}
	return n > 0
}

func c19Bucket(n int) string {
	switch {
	case n == 0:
		return "0"
	case n < 10:
		return "1-9"
	case n < 100:
		return "10-99"
	case n < 500:
		return "100-499"
	default:
		return "500+"
	}
}
