package main

import (
	"fmt"
	"go/ast"
	"go/constant"
	"go/importer"
	"go/parser"
	"go/token"
	"go/types"
	"path/filepath"
	"sort"
	"strings"
)

// genC17Consts type-checks latlng.go and time.go of the library on their own
// (they only depend on math, strconv and time) and writes, for every function
// the C17 model covers, the constant operands of its comparisons and
// arithmetic as Go's constant evaluator computes them (math.MaxInt32/2 is
// 1073741823, time.Second is 1000000000, ...), the package constants, and the
// constant arguments of the time.Date and strconv.FormatFloat calls.
// Proofs/C17Consts.v proves the model uses exactly these.

func init() { extraGens = append(extraGens, genC17Consts) }

func genC17Consts() (*coqFile, error) {
	fset := token.NewFileSet()
	var files []*ast.File
	for _, name := range []string{"latlng.go", "time.go"} {
		f, err := parser.ParseFile(fset, filepath.Join(repoRoot, name), nil, 0)
		if err != nil {
			return nil, err
		}
		files = append(files, f)
	}
	info := &types.Info{Types: map[ast.Expr]types.TypeAndValue{}}
	conf := types.Config{Importer: importer.ForCompiler(fset, "source", nil)}
	pkg, err := conf.Check("fit", fset, files, info)
	if err != nil {
		return nil, fmt.Errorf("type-checking latlng.go/time.go: %v", err)
	}
	constZ := func(e ast.Expr) (string, bool) {
		tv, ok := info.Types[e]
		if !ok || tv.Value == nil {
			return "", false
		}
		v := constant.ToInt(tv.Value)
		if v.Kind() != constant.Int {
			return "", false
		}
		s := v.ExactString()
		if strings.HasPrefix(s, "-") {
			s = "(" + s + ")"
		}
		return s, true
	}
	c := &coqFile{name: "C17Consts.v"}
	c.p(genHeader)
	c.p("From Coq Require Import ZArith String List.\nImport ListNotations.\nLocal Open Scope Z_scope.\nLocal Open Scope string_scope.\n\n")

	// package constants
	for _, name := range []string{"sint32Invalid", "precision"} {
		obj, _ := pkg.Scope().Lookup(name).(*types.Const)
		if obj == nil {
			return nil, fmt.Errorf("constant %s not found", name)
		}
		c.p("Definition src_%s : Z := %s.\n", name, constant.ToInt(obj.Val()).ExactString())
	}
	if obj, _ := pkg.Scope().Lookup("stringInvalid").(*types.Const); obj != nil {
		c.p("Definition src_stringInvalid : string := %q.\n", constant.StringVal(obj.Val()))
	} else {
		return nil, fmt.Errorf("constant stringInvalid not found")
	}
	c.p("\n")

	// per function: (operator, constant operand) of every binary expression
	// with a constant side, in source order; calls with constant arguments
	type fn struct {
		recv, name string
	}
	want := map[fn]bool{
		// the functions of latlng.go are translated as a whole (gen_c17funcs.go, Gen/C17Funcs.v)
		// ... and so are those of time.go
	}
	var lines []string
	for _, f := range files {
		for _, d := range f.Decls {
			fd, ok := d.(*ast.FuncDecl)
			if !ok || fd.Body == nil {
				continue
			}
			recv := ""
			if fd.Recv != nil && len(fd.Recv.List) == 1 {
				if id, ok := fd.Recv.List[0].Type.(*ast.Ident); ok {
					recv = id.Name
				}
			}
			if !want[fn{recv, fd.Name.Name}] {
				continue
			}
			delete(want, fn{recv, fd.Name.Name})
			var ops []string
			ast.Inspect(fd.Body, func(n ast.Node) bool {
				switch e := n.(type) {
				case *ast.BinaryExpr:
					if _, whole := constZ(e); whole {
						return false // a constant expression as a whole is reported by its parent
					}
					if v, ok := constZ(e.Y); ok {
						ops = append(ops, fmt.Sprintf("(%q, %s)", e.Op.String(), v))
					} else if v, ok := constZ(e.X); ok {
						ops = append(ops, fmt.Sprintf("(%q, %s)", "const"+e.Op.String(), v))
					}
				case *ast.CallExpr:
					if sel, ok := e.Fun.(*ast.SelectorExpr); ok && sel.Sel.Name == "FormatFloat" {
						for _, a := range e.Args[1:] {
							if v, ok := constZ(a); ok {
								ops = append(ops, fmt.Sprintf("(%q, %s)", "FormatFloat", v))
							}
						}
					}
				}
				return true
			})
			name := fd.Name.Name
			if recv != "" {
				name = recv + "_" + name
			}
			lines = append(lines, fmt.Sprintf("Definition src_%s : list (string * Z) := [%s].\n", name, strings.Join(ops, "; ")))
		}
	}
	if len(want) != 0 {
		return nil, fmt.Errorf("functions not found in latlng.go/time.go: %v", want)
	}
	sort.Strings(lines)
	for _, l := range lines {
		c.p("%s", l)
	}

	// var timeBase = time.Date(1989, time.December, 31, 0, 0, 0, 0, time.UTC)
	found := false
	for _, f := range files {
		ast.Inspect(f, func(n ast.Node) bool {
			vs, ok := n.(*ast.ValueSpec)
			if !ok || len(vs.Names) != 1 || vs.Names[0].Name != "timeBase" || len(vs.Values) != 1 {
				return true
			}
			call, ok := vs.Values[0].(*ast.CallExpr)
			if !ok {
				return true
			}
			sel, ok := call.Fun.(*ast.SelectorExpr)
			if !ok || sel.Sel.Name != "Date" || len(call.Args) != 8 {
				return true
			}
			var parts []string
			for _, a := range call.Args[:7] {
				v, ok := constZ(a)
				if !ok {
					return true
				}
				parts = append(parts, v)
			}
			loc := "?"
			if s, ok := call.Args[7].(*ast.SelectorExpr); ok {
				loc = s.Sel.Name
			}
			c.p("\n(* time.Date(year, month, day, hour, min, sec, nsec, loc) of timeBase *)\n")
			c.p("Definition src_timeBase : list Z := [%s].\n", strings.Join(parts, "; "))
			c.p("Definition src_timeBase_loc : string := %q.\n", loc)
			found = true
			return false
		})
	}
	if !found {
		return nil, fmt.Errorf("timeBase = time.Date(...) not found in time.go")
	}
	return c, nil
}
