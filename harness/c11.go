package main

import (
	"fmt"
	"os"
	"path/filepath"
	"strings"

	"github.com/tormoder/fit"
)

// C11 -- truncation and read faults never yield silent success.  For every
// stream (a small valid file or a chain of 1-3 of them) EVERY cut offset and
// EVERY fault offset is run through all entry points under three chunkings.
// Judged directly on the implementation: nil / non-nil error (with the single
// exception of a clean end of input on a file boundary of a chain), and the
// Files returned with the error hold exactly the messages of the records that
// were complete before the cut (reference semantics of the record prefix).

func init() { register("c11", runC11) }

type c11Ctx struct {
	r     *report
	w     *world
	rg    *rng
	specs map[string]specResult // reference semantics of record prefixes, by "<file ptr>/<j>"
}

// recEnds: absolute end offset (within the file) of every record of a generated file
func recEnds(v *vfile) []int {
	if v.s == nil {
		return nil
	}
	var out []int
	off := v.hs
	for i := range v.s.Records {
		off += len(v.s.Records[i].bytes())
		out = append(out, off)
	}
	return out
}

func (c *c11Ctx) prefixSpec(v *vfile, j int) (specResult, bool) {
	key := fmt.Sprintf("%p/%d", v, j)
	if sr, ok := c.specs[key]; ok {
		return sr, true
	}
	sr, err := askSpec(c.w.d, &stream{Records: v.s.Records[:j]})
	if err != nil {
		fmt.Println("driver:", err)
		return sr, false
	}
	c.specs[key] = sr
	return sr, true
}

// checkPartial: f is the File returned for file v cut (or faulting) at
// relative offset k, hs <= k < frame length.
func (c *c11Ctx) checkPartial(v *vfile, f *fit.File, k int, where string, rep func() interface{}) {
	r := c.r
	if f == nil {
		r.specFail("partial_files", "no File returned although the header was complete; "+where, rep())
		return
	}
	if canonHeader(f.Header) != v.hdr {
		r.specFail("partial_files", fmt.Sprintf("the File returned with the error carries header %s, the stream's header is %s; %s", canonHeader(f.Header), v.hdr, where), rep())
		return
	}
	if v.s == nil {
		r.hist("partial_not_judged_no_syntax")
		return
	}
	ends := recEnds(v)
	j := 0
	for j < len(ends) && ends[j] <= k {
		j++
	}
	if j < 2 {
		// the file_id message is not complete: nothing can have been stored
		if canonFile(f) != canonFile(&fit.File{Header: f.Header}) {
			r.specFail("partial_files", fmt.Sprintf("messages present although no data record was complete before offset %d; %s", k, where), rep())
		}
		r.hist("partial_judged_empty")
		return
	}
	sr, ok := c.prefixSpec(v, j)
	if !ok {
		return
	}
	if !sr.InDomain {
		r.hist("partial_prefix_outside_reference_domain")
		return
	}
	if diff := compareFileWithSpec(f, sr); diff != "" {
		r.specFail("partial_files", fmt.Sprintf("the File returned with the error does not hold exactly the messages of the %d records complete before offset %d: %s; %s", j, k, diff, where), rep())
	}
	r.hist("partial_judged_against_reference")
}

// parseStreamBytes recovers the abstract syntax (record list) of a valid frame,
// so that record boundaries and the reference semantics are available for
// corpus files too.  Returns nil when the bytes do not parse as whole records.
func parseStreamBytes(data []byte) *stream {
	hs, ds, ok := parseFrame(data)
	if !ok || hs+ds+2 != len(data) {
		return nil
	}
	s := &stream{HdrSize: byte(hs), Proto: data[1], Profile: uint16(data[2]) | uint16(data[3])<<8, HdrCRC: "ok"}
	if hs == 14 && data[12] == 0 && data[13] == 0 {
		s.HdrCRC = "zero"
	}
	body := data[hs : hs+ds]
	type dinfo struct{ pay, dev int }
	defs := map[byte]dinfo{}
	i := 0
	for i < len(body) {
		b := body[i]
		switch {
		case b&0x80 != 0: // compressed-timestamp data record
			l := (b >> 5) & 3
			d, ok := defs[l]
			if !ok || i+1+d.pay+d.dev > len(body) {
				return nil
			}
			s.Records = append(s.Records, record{Kind: "Z", Local: l, Offset: b & 0x1F, Pay: body[i+1 : i+1+d.pay], DevPay: body[i+1+d.pay : i+1+d.pay+d.dev]})
			i += 1 + d.pay + d.dev
		case b&0x40 != 0:
			if i+6 > len(body) {
				return nil
			}
			r := record{Kind: "D", Local: b & 0x0F, Arch: body[i+2], DevFlg: b&0x20 != 0, HdrOr: b & 0x10}
			if body[i+1] != 0 {
				return nil // reserved byte: the serializer writes 0
			}
			if r.Arch == 1 {
				r.Gmn = uint16(body[i+3])<<8 | uint16(body[i+4])
			} else {
				r.Gmn = uint16(body[i+3]) | uint16(body[i+4])<<8
			}
			nf := int(body[i+5])
			j := i + 6
			if j+3*nf > len(body) {
				return nil
			}
			var di dinfo
			for k := 0; k < nf; k++ {
				r.Fields = append(r.Fields, fieldDefS{body[j], body[j+1], body[j+2]})
				di.pay += int(body[j+1])
				j += 3
			}
			if r.DevFlg {
				if j >= len(body) {
					return nil
				}
				nd := int(body[j])
				j++
				if j+3*nd > len(body) {
					return nil
				}
				for k := 0; k < nd; k++ {
					r.Devs = append(r.Devs, devDefS{body[j], body[j+1], body[j+2]})
					di.dev += int(body[j+1])
					j += 3
				}
			}
			defs[r.Local] = di
			s.Records = append(s.Records, r)
			i = j
		default:
			l := b & 0x0F
			d, ok := defs[l]
			if !ok || i+1+d.pay+d.dev > len(body) {
				return nil
			}
			s.Records = append(s.Records, record{Kind: "M", Local: l, HdrOr: b & 0x30, Pay: body[i+1 : i+1+d.pay], DevPay: body[i+1+d.pay : i+1+d.pay+d.dev]})
			i += 1 + d.pay + d.dev
		}
	}
	// the recovered syntax must serialise back to the same bytes
	if string(s.dataBytes()) != string(body) {
		return nil
	}
	s.fillHex()
	return s
}

var c11Chunkings = []string{"whole", "1", "random"}

// bareEOF: the error text ends in the bare io.EOF text, the conventional
// clean-end-of-input signal (noEOF must have turned it into unexpected EOF)
func bareEOF(text string) bool {
	return strings.HasSuffix(text, "EOF") && !strings.HasSuffix(text, "unexpected EOF")
}

// runCut runs one (stream, entry, offset, cut|fault, chunking).
func (c *c11Ctx) runCut(in *ioInput, entry string, k int, fault bool, chunking string) bool {
	r := c.r
	var part ioSched
	switch chunking {
	case "whole":
		part = ioSched{Family: "whole"}
	case "1":
		part = ioSched{Family: "1", Chunk: 1}
	default:
		part = ioSched{Family: "random", Sched: randomSched(c.rg, k), Ewd: c.rg.bool()}
	}
	rs := readerSpec{Data: in.data[:k], Sched: part.expand(k), Ewd: part.Ewd, Fault: fault}
	impl, model, err := c.w.decode(entry, optSet{}, rs)
	if err != nil {
		fmt.Println("driver:", err)
		return false
	}
	r.Traces++
	rep := func() interface{} {
		ic := ioCase{Entry: entry, Hex: hexs(in.data), Trailing: 0, Corrupt: -1, Part: part, Cut: k, Fault: fault, Chunking: chunking}
		for _, f := range in.files {
			ic.Frames = append(ic.Frames, len(f.data))
			ic.Names = append(ic.Names, f.name)
		}
		return ic
	}
	if impl.observableMasked() != model.observableMasked() {
		r.corrFail("model_vs_impl_"+entry, fmt.Sprintf("model and implementation differ (entry %s, offset %d of %d, fault=%v, chunking %s)\n    impl : %.500s\n    model: %.500s", entry, k, len(in.data), fault, chunking, impl.observable(), model.observable()), rep())
	}
	bites := c.judge(in, entry, k, fault, chunking, impl, model, rep)
	kind := "cut"
	if fault {
		kind = "fault"
	}
	r.count(fmt.Sprintf("%s/%s/%d/%s/%s", in.id, entry, k, kind, chunking), bites)
	r.hist("entry_" + entry)
	r.hist(kind)
	if impl.ErrClass == 0 {
		r.hist("outcome_ok_" + kind)
	} else {
		r.hist("outcome_error_" + kind)
	}
	return true
}

// judge decides the property for one run; returns whether the cut/fault lies
// inside what the entry point needs (so that an error is due).
func (c *c11Ctx) judge(in *ioInput, entry string, k int, fault bool, chunking string, impl, model decOut, rep func() interface{}) bool {
	r := c.r
	kind := "cut"
	if fault {
		kind = "read fault"
	}
	where := fmt.Sprintf("%s, %s at offset %d of %d (%d files), chunking %s", entryName(entry), kind, k, len(in.data), len(in.files), chunking)
	if impl.Panic != "" {
		r.specFail("panic", "panic or hang: "+impl.Panic+"; "+where, rep())
		return true
	}
	f0 := in.files[0]
	if entry != "C" {
		need := -1
		switch entry {
		case "H", "J":
			need = f0.hs
		case "D", "I":
			need = f0.frameLen()
		case "F":
			if ends := recEnds(f0); len(ends) >= 2 {
				need = ends[1]
			}
		}
		if need < 0 {
			// DecodeHeaderAndFileID on a corpus file: the end of the file_id message is not known to the
			// harness; only the two certain regions are judged
			if k < f0.hs {
				need = f0.hs
			} else if k >= f0.frameLen() {
				need = f0.frameLen()
			} else {
				r.hist("fileid_end_unknown_not_judged")
				return false
			}
		}
		if k < need {
			if impl.ErrClass == 0 {
				r.specFail("silent_success", "nil error although the input ends before the call has what it needs ("+fmt.Sprint(need)+" bytes); "+where, rep())
				return true
			}
			if !fault && (entry == "D" || entry == "F") && bareEOF(impl.ErrText) {
				r.specFail("bare_eof", "a truncated file is reported with the bare io.EOF (the clean end-of-input signal): "+impl.ErrText+"; "+where, rep())
			}
			if entry == "D" {
				if k < f0.hs {
					if len(impl.Raw) == 1 && impl.Raw[0] != nil {
						r.specFail("partial_files", "a File is returned although the header was not complete; "+where, rep())
					}
				} else if len(impl.Raw) == 1 {
					c.checkPartial(f0, impl.Raw[0], k, where, rep)
				}
			}
			return true
		}
		// the call has everything it needs: same result as on the whole stream
		if impl.ErrClass != 0 {
			r.specFail("error_beyond_need", fmt.Sprintf("error %q although all %d bytes the call needs are delivered; %s", impl.ErrText, need, where), rep())
			return false
		}
		switch entry {
		case "D":
			if len(impl.Raw) != 1 || maskedCanon(impl.Raw[0]) != f0.canon {
				r.specFail("error_beyond_need", "the File differs from the one decoded from the whole stream; "+where, rep())
			}
		case "H":
			if impl.Hdr != f0.hdr {
				r.specFail("error_beyond_need", "the header differs from the one decoded from the whole stream; "+where, rep())
			}
		case "F":
			if impl.Hdr != f0.hdr || len(impl.Files) != 1 || impl.Files[0] != f0.fid {
				r.specFail("error_beyond_need", "header/file_id differ from those decoded from the whole stream; "+where, rep())
			}
		}
		return false
	}
	// DecodeChained
	j, off := 0, 0 // j complete files lie before k; off = start of file j+1
	for j < len(in.files) && off+len(in.files[j].data) <= k {
		off += len(in.files[j].data)
		j++
	}
	onBoundary := k == off
	if len(impl.Raw) < j {
		r.specFail("partial_files", fmt.Sprintf("%d Files returned, %d files were complete; %s", len(impl.Raw), j, where), rep())
		return true
	}
	for i := 0; i < j; i++ {
		if maskedCanon(impl.Raw[i]) != in.files[i].canon {
			r.specFail("partial_files", fmt.Sprintf("File #%d, complete before the %s, differs from decoding that file alone; %s", i+1, kind, where), rep())
			return true
		}
	}
	if onBoundary && !fault && j >= 1 {
		// the one exception: clean end of input on a file boundary ends the chain
		if impl.ErrClass != 0 {
			r.specFail("boundary_eof", fmt.Sprintf("error %q on a clean end of input after %d complete files; %s", impl.ErrText, j, where), rep())
		} else if len(impl.Raw) != j {
			r.specFail("boundary_eof", fmt.Sprintf("%d Files returned for %d complete files; %s", len(impl.Raw), j, where), rep())
		}
		r.hist("chain_boundary_clean_eof")
		return false
	}
	if impl.ErrClass == 0 {
		r.specFail("silent_success", "nil error; "+where, rep())
		return true
	}
	if !fault && bareEOF(impl.ErrText) {
		r.specFail("bare_eof", "a truncated chain is reported with the bare io.EOF: "+impl.ErrText+"; "+where, rep())
	}
	if j >= len(in.files) {
		// fault exactly at the end of the last file
		if len(impl.Raw) != j {
			r.specFail("partial_files", fmt.Sprintf("%d Files returned, %d files were complete and nothing follows; %s", len(impl.Raw), j, where), rep())
		}
		return true
	}
	fj := in.files[j]
	rel := k - off
	if rel < fj.hs {
		if len(impl.Raw) != j {
			r.specFail("partial_files", fmt.Sprintf("%d Files returned, %d files were complete and the next header was not; %s", len(impl.Raw), j, where), rep())
		}
		return true
	}
	if len(impl.Raw) != j+1 {
		r.specFail("partial_files", fmt.Sprintf("%d Files returned, expected the %d complete ones and the partial one; %s", len(impl.Raw), j, where), rep())
		return true
	}
	c.checkPartial(fj, impl.Raw[j], rel, where, rep)
	return true
}

var c11Entries = []string{"D", "C", "I", "H", "F"}

func (c *c11Ctx) runStream(in *ioInput) bool {
	L := len(in.data)
	for k := 0; k <= L; k++ {
		for _, fault := range []bool{false, true} {
			if !fault && k == L {
				continue // not a cut
			}
			for _, e := range c11Entries {
				for _, ch := range c11Chunkings {
					if !c.runCut(in, e, k, fault, ch) {
						return false
					}
				}
			}
			if k <= in.files[0].hs+1 {
				if !c.runCut(in, "J", k, fault, "whole") {
					return false
				}
			}
		}
	}
	return true
}

func runC11(args []string) int {
	o := parseRunOpts("c11", args)
	r := newReport("C11", o)
	r.Rule = "streams: small valid files generated from the profile table and the small testdata files, alone and in chains of 2-3; for each stream EVERY cut offset 0..len-1 and EVERY fault offset 0..len (reader answering a non-EOF error from that offset on) x 5 entry points (plus CheckIntegrity(headerOnly) around the header) x 3 chunkings (one read, 1-byte reads, random sizes with empty reads and data-with-error); " +
		"judged on the implementation: error non-nil whenever the offset lies before the last byte the call needs (header; end of the file_id message; header+data+2), same result as on the whole stream otherwise, DecodeChained nil only on a clean end exactly on a file boundary after at least one file, complete Files equal to the solo decodes and the partial File equal to the reference semantics of the records complete before the offset; every run compared with the extracted model; " +
		"non-trivial = the offset lies inside what the call needs; distinct by (stream, entry, offset, cut|fault, chunking)"
	d, err := startDriver(o.driver)
	if err != nil {
		fmt.Println("driver:", err)
		return 2
	}
	defer d.close()
	w := newWorld(d)
	rg := newRng(o.seed)
	if o.replay != "" {
		return replayIO(r, w, o)
	}
	c := &c11Ctx{r: r, w: w, rg: rg, specs: map[string]specResult{}}
	st := genStats{}
	r.Exhaustive = false

	cfg := defaultCfg()
	cfg.illFormed = 0
	cfg.maxRecords = 5
	var pool []*vfile
	nPool := sizes(o.tier, o.boost, 22, 300) // every cut position of every file goes through the model: cost grows with size squared
	for tries := 0; len(pool) < nPool && tries < 60*nPool; tries++ {
		cfg.maxRecords = 2 + rg.intn(9)
		s := genStream(rg, &cfg, st)
		data := s.bytes()
		nData := 0
		for _, rec := range s.Records {
			if rec.Kind != "D" {
				nData++
			}
		}
		if len(data) > map[bool]int{false: 190, true: 500}[o.tier == "thorough"] || (nData < 3 && len(pool)%5 != 0 && o.tier != "thorough") {
			continue // small, but with data records beyond the file_id message
		}
		v, _, _, err := soloDecode(r, w, data, "generated", s, true)
		if err != nil {
			fmt.Println("driver:", err)
			return 2
		}
		if v == nil {
			r.hist("generated_file_rejected_by_decode")
			continue
		}
		pool = append(pool, v)
	}
	var corpus []*vfile
	maxCorpus := 260
	if o.tier == "thorough" {
		maxCorpus = 800
	}
	for _, p := range corpusFitFiles() {
		raw, err := os.ReadFile(p)
		if err != nil {
			continue
		}
		rel, _ := filepath.Rel(repoRoot, p)
		for i, fr := range splitFrames(raw) {
			if len(fr) > maxCorpus {
				continue
			}
			v, _, _, err := soloDecode(r, w, fr, fmt.Sprintf("%s#%d", rel, i), parseStreamBytes(fr), true)
			if err != nil {
				fmt.Println("driver:", err)
				return 2
			}
			if v != nil {
				corpus = append(corpus, v)
			}
		}
	}
	r.Extra["generated_valid_files"] = len(pool)
	r.Extra["corpus_valid_frames"] = len(corpus)
	if len(pool) == 0 {
		r.specFail("valid_rejected", "Decode accepts none of the generated valid files (one read, no cut): the streams of this check cannot be built", nil)
		return r.finish()
	}
	streams := 0
	offsets := 0
	run := func(files ...*vfile) bool {
		in := &ioInput{files: files, corrupt: -1, model: true}
		in.build()
		streams++
		offsets += 2*len(in.data) + 1
		r.hist(fmt.Sprintf("streams_chain_of_%d", len(files)))
		r.hist("stream_size_" + bucket(len(in.data)))
		if streams <= 2 {
			r.sample(map[string]interface{}{"files": len(files), "bytes": len(in.data), "offsets": 2*len(in.data) + 1})
		}
		return c.runStream(in)
	}
	// singles
	for _, v := range pool {
		if !run(v) {
			return 2
		}
	}
	for _, v := range corpus {
		if !run(v) {
			return 2
		}
	}
	// chains of 2-3
	all := append(append([]*vfile{}, pool...), corpus...)
	nChains := sizes(o.tier, o.boost, 9, 120)
	for i := 0; i < nChains; i++ {
		n := 2 + rg.intn(2)
		var fs []*vfile
		total := 0
		for len(fs) < n {
			v := all[rg.intn(len(all))]
			if total+len(v.data) > map[bool]int{false: 330, true: 900}[o.tier == "thorough"] {
				v = pool[rg.intn(len(pool))]
			}
			fs = append(fs, v)
			total += len(v.data)
		}
		if !run(fs...) {
			return 2
		}
	}
	r.Extra["streams"] = streams
	r.Extra["offsets_cut_and_fault"] = offsets
	r.Exhaustive = true // per stream: every cut and fault offset
	mergeStats(r, st)
	return r.finish()
}

func replayC11(r *report, w *world, in *ioInput, ic ioCase) int {
	if len(in.files) == 0 {
		fmt.Println("replay: the stream's first file does not decode alone")
		return 2
	}
	c := &c11Ctx{r: r, w: w, rg: newRng(1), specs: map[string]specResult{}}
	rs := readerSpec{Data: in.data[:ic.Cut], Sched: ic.Part.expand(ic.Cut), Ewd: ic.Part.Ewd, Fault: ic.Fault}
	impl, model, err := w.decode(ic.Entry, optSet{}, rs)
	if err != nil {
		fmt.Println("driver:", err)
		return 2
	}
	rep := func() interface{} { return ic }
	if impl.observableMasked() != model.observableMasked() {
		r.corrFail("model_vs_impl_"+ic.Entry, fmt.Sprintf("model and implementation differ\n    impl : %.500s\n    model: %.500s", impl.observable(), model.observable()), ic)
	}
	c.judge(in, ic.Entry, ic.Cut, ic.Fault, ic.Chunking, impl, model, rep)
	r.count("replay", true)
	return r.finish()
}
