package main

import (
	"bytes"
	"encoding/binary"
	"fmt"
	"os"
	"path/filepath"
	"reflect"
	"sort"
	"strings"

	"github.com/tormoder/fit"
	"github.com/tormoder/fit/internal/types"
)

// C15: profile tables, message structs and constructors agree.
// (1) the model-side checker profile_wf is evaluated by the driver (the same
//     function the theorem computes); (2) the property is evaluated directly on
//     the implementation for every (message, field) entry: struct field type,
//     constructor value, a single-field definition + data stream through the
//     real Decode (in lock step with the model), and a File carrying that field
//     through the real Encode; (3) the (message, field number) -> struct field
//     name map is compared with the snapshot under /verif/spec (regression
//     oracle for the SDK assignment).

func init() { register("c15", runC15) }

func goKindOf(t types.Fit) (reflect.Kind, bool) {
	switch t.BaseType() {
	case types.BaseEnum, types.BaseUint8, types.BaseUint8z, types.BaseByte:
		return reflect.Uint8, true
	case types.BaseSint8:
		return reflect.Int8, true
	case types.BaseSint16:
		return reflect.Int16, true
	case types.BaseUint16, types.BaseUint16z:
		return reflect.Uint16, true
	case types.BaseSint32:
		return reflect.Int32, true
	case types.BaseUint32, types.BaseUint32z:
		return reflect.Uint32, true
	case types.BaseString:
		return reflect.String, true
	case types.BaseFloat32:
		return reflect.Float32, true
	case types.BaseFloat64:
		return reflect.Float64, true
	case types.BaseSint64:
		return reflect.Int64, true
	case types.BaseUint64, types.BaseUint64z:
		return reflect.Uint64, true
	}
	return reflect.Invalid, false
}

// distinctive valid payload for a field of base type b (element)
func distinctElem(b types.Base, k int) []byte {
	n := b.Size()
	out := make([]byte, n)
	for i := range out {
		out[i] = byte(0x11*(i+1) + k)
	}
	if b.Signed() {
		out[n-1] &= 0x3F
	}
	if b == types.BaseString {
		out[0] = byte('a' + k%26)
	}
	return out
}

func fileTypeHosting(mn uint16) (byte, bool) {
	p := profile()
	for _, ft := range p.validFts {
		f, _ := fitNewFile(ft)
		_, slots := fileSlots(f)
		for _, s := range slots[1:] {
			if s.msg == int(mn) {
				return ft, true
			}
		}
	}
	return p.validFts[0], false
}

func runC15(args []string) int {
	o := parseRunOpts("c15", args)
	r := newReport("C15", o)
	r.Exhaustive = true
	r.Rule = "exhaustive over the compiled-in profile: every (known message, listed field number) entry and every container member; " +
		"per entry: struct field type vs types.Fit, constructor value vs invalid value, a single-field definition+data stream through the real Decode in lock step with the model (both byte orders), a File with the field set through the real Encode; " +
		"non-trivial = the entry's message is hosted by a file type so that the decoded value is observable; distinct by (message, field, byte order)"
	d, err := startDriver(o.driver)
	if err != nil {
		fmt.Println("driver:", err)
		return 2
	}
	defer d.close()
	w := newWorld(d)
	p := profile()

	// (1) model-side checker
	resp, err := d.ask("profile_wf")
	if err != nil {
		fmt.Println("driver:", err)
		return 2
	}
	modelBad := map[string]bool{}
	if resp != "ok" {
		for _, e := range strings.Fields(resp) {
			modelBad[e] = true
		}
		r.Notes = append(r.Notes, "profile_wf is false on the regenerated tables: "+resp)
	}

	known := fit.VerifKnownMsgNums()
	mtypes := fit.VerifMsgsTypes()
	names := map[string]string{}

	for _, mi := range p.msgs {
		mn := mi.Num
		// constructor / type
		ctor, hasCtor := fit.VerifNewMesg(int(mn))
		if !hasCtor || int(mn) >= len(mtypes) || mtypes[mn] == nil {
			func() {
				defer func() {
					if rec := recover(); rec != nil {
						r.specFail("known_without_ctor", fmt.Sprintf("message %d is claimed known but getMesgAllInvalid panics: %v", mn, rec),
							map[string]interface{}{"entry": "getMesgAllInvalid", "mesgnum": mn})
					}
				}()
				fit.VerifGetMesgAllInvalid(fit.MesgNum(mn))
			}()
			continue
		}
		inval := ctor.Elem()
		if inval.Type() != mtypes[mn] {
			r.specFail("ctor_type", fmt.Sprintf("message %d: constructor returns %v, msgsTypes has %v", mn, inval.Type(), mtypes[mn]),
				map[string]interface{}{"mesgnum": mn})
			continue
		}
		seenSindex := map[int]byte{}
		ft, hosted := fileTypeHosting(mn)
		for _, f := range mi.Fields {
			names[fmt.Sprintf("%d.%d", mn, f.Num)] = ""
			tag := fmt.Sprintf("%d.%d", mn, f.Num)
			rep := map[string]interface{}{"mesgnum": mn, "field": f.Num, "sindex": f.Sindex, "fit_type": uint16(f.T), "length": f.Length}
			if f.Sindex < 0 || f.Sindex >= inval.NumField() {
				r.specFail("sindex_range", fmt.Sprintf("entry %s: struct index %d out of range (%d fields)", tag, f.Sindex, inval.NumField()), rep)
				continue
			}
			if prev, dup := seenSindex[f.Sindex]; dup {
				r.specFail("sindex_dup", fmt.Sprintf("message %d: field numbers %d and %d share struct index %d", mn, prev, f.Num, f.Sindex), rep)
			}
			seenSindex[f.Sindex] = f.Num
			sf := mtypes[mn].Field(f.Sindex)
			names[tag] = sf.Name
			// type
			want := "?"
			okType := false
			elemT := sf.Type
			if f.T.Array() {
				if sf.Type.Kind() == reflect.Slice {
					elemT = sf.Type.Elem()
				} else {
					elemT = nil
				}
			}
			if elemT != nil {
				switch f.T.Kind() {
				case types.NativeFit:
					if k, ok := goKindOf(f.T); ok {
						okType = elemT.Kind() == k
						want = k.String()
					}
				case types.TimeUTC, types.TimeLocal:
					okType = elemT.String() == "time.Time"
					want = "time.Time"
				case types.Lat:
					okType = elemT == reflect.TypeOf(fit.Latitude{})
					want = "Latitude"
				case types.Lng:
					okType = elemT == reflect.TypeOf(fit.Longitude{})
					want = "Longitude"
				}
			}
			if !okType {
				r.specFail("field_type", fmt.Sprintf("entry %s: struct field %s has type %v, the entry's type (%v) denotes %s (array %v)", tag, sf.Name, sf.Type, f.T, want, f.T.Array()), rep)
			}
			// constructor value
			iv := inval.Field(f.Sindex)
			okInv := false
			switch {
			case f.T.Array():
				okInv = iv.Kind() == reflect.Slice && iv.IsNil()
			case f.T.Kind() == types.NativeFit:
				exp := f.T.BaseType().Invalid()
				okInv = okType && reflect.DeepEqual(reflect.ValueOf(exp).Convert(iv.Type()).Interface(), iv.Interface())
			case f.T.Kind() == types.TimeUTC || f.T.Kind() == types.TimeLocal:
				okInv = okType && iv.Interface() == interface{}(fit.VerifTimeBase())
			case f.T.Kind() == types.Lat:
				okInv = okType && iv.Interface() == interface{}(fit.NewLatitudeInvalid())
			case f.T.Kind() == types.Lng:
				okInv = okType && iv.Interface() == interface{}(fit.NewLongitudeInvalid())
			}
			if !okInv {
				r.specFail("ctor_invalid", fmt.Sprintf("entry %s: constructor leaves %s = %v, not the invalid value of %v", tag, sf.Name, iv.Interface(), f.T), rep)
			}
			// sizes
			sz := f.T.BaseType().Size()
			if (f.T.Array() || f.T.BaseType() == types.BaseString) && sz*int(f.Length) > 255 {
				r.specFail("size_overflow", fmt.Sprintf("entry %s: encoded size %d x %d does not fit in one byte", tag, sz, f.Length), rep)
			}
			// decode a single-field stream, both byte orders, in lock step with the model
			for arch := byte(0); arch < 2; arch++ {
				pb := f.T.BaseType()
				n := 1
				if f.T.Array() {
					n = int(f.Length)
					if n*sz > 255 {
						n = 255 / sz
					}
				}
				size := sz * n
				if pb == types.BaseString {
					size = 8
				}
				var pay []byte
				for i := 0; i < n; i++ {
					e := distinctElem(pb, i+int(f.Num))
					if arch == 1 && len(e) > 1 {
						for a, b := 0, len(e)-1; a < b; a, b = a+1, b-1 {
							e[a], e[b] = e[b], e[a]
						}
					}
					pay = append(pay, e...)
				}
				if pb == types.BaseString {
					pay = []byte{'f', byte('a' + f.Num%26), 'x', 0, 0, 0, 0, 0}
				}
				s := &stream{HdrSize: 14, Proto: 0x10, Profile: 2115, HdrCRC: "ok"}
				s.Records = append(s.Records,
					record{Kind: "D", Local: 0, Gmn: 0, Fields: []fieldDefS{{0, 1, 0}}},
					record{Kind: "M", Local: 0, Pay: []byte{ft}},
					record{Kind: "D", Local: 1, Arch: arch, Gmn: mn, Fields: []fieldDefS{{f.Num, byte(size), byte(pb)}}},
					record{Kind: "M", Local: 1, Pay: pay})
				s.fillHex()
				rs := readerSpec{Data: s.bytes()}
				impl, model, err := w.decode("D", optSet{}, rs)
				if err != nil {
					fmt.Println("driver:", err)
					return 2
				}
				key := fmt.Sprintf("%s.%d", tag, arch)
				r.count(key, hosted)
				r.Traces++
				rep2 := map[string]interface{}{"entry": "Decode", "stream": s, "input_hex": hexs(rs.Data), "mesgnum": mn, "field": f.Num}
				if impl.Panic != "" {
					r.specFail("decode_panic", fmt.Sprintf("entry %s: Decode of a single-field stream panics: %s", tag, impl.Panic), rep2)
				} else if impl.ErrClass != 0 {
					r.specFail("decode_rejects_profile_type", fmt.Sprintf("entry %s: Decode rejects the field defined with its own profile type: %s", tag, impl.ErrText), rep2)
				}
				if impl.observable() != model.observable() {
					r.corrFail("decode_entry", fmt.Sprintf("entry %s arch %d: model and implementation differ\n    impl : %.400s\n    model: %.400s", tag, arch, impl.observable(), model.observable()), rep2)
				}
				if arch == 0 && len(r.Samples) < 3 {
					r.sample(map[string]interface{}{"mesgnum": mn, "field": f.Num, "struct_field": sf.Name, "stream_hex": hexs(rs.Data), "decoded": impl.observable()})
				}
				// a SECOND data record under the same definition that carries the field's invalid / empty wire
				// value: the decoder skips the store for those, so the message must have started from the
				// constructor's all-invalid value again (not from the previous record's message)
				if pb == types.BaseString || f.T.Kind() == types.TimeUTC || f.T.Kind() == types.TimeLocal {
					inv := make([]byte, len(pay))
					if pb != types.BaseString {
						for i := range inv {
							inv[i] = 0xFF
						}
					}
					s2 := &stream{HdrSize: 14, Proto: 0x10, Profile: 2115, HdrCRC: "ok"}
					s2.Records = append(append([]record{}, s.Records...), record{Kind: "M", Local: 1, Pay: inv})
					s2.fillHex()
					if _, _, _, ok := decodeAndJudge(r, w, streamCase{s2, readerSpec{Data: s2.bytes()}}, optSet{}, "second_record_", true); !ok {
						return 2
					}
					r.hist("second_record_with_invalid_value")
				}
			}
			// every OTHER base type the definition validator admits for this entry (smallest and largest admitted
			// size of each): the stores parseFitField / parseFitFieldArray then make into the struct field must
			// not fail either, and agree with the model
			for bt := 0; bt < 256; bt++ {
				if !types.Base(bt).Known() || types.Base(bt) == f.T.BaseType() {
					continue
				}
				row, _ := implRow(mn, f.Num, byte(bt))
				lo, hi := -1, -1
				for sz := 1; sz < 256; sz++ {
					if row[sz] == 'o' {
						if lo < 0 {
							lo = sz
						}
						hi = sz
					}
				}
				if lo < 0 {
					continue
				}
				for _, size := range map[bool][]int{true: {lo}, false: {lo, hi}}[lo == hi] {
					pay := make([]byte, size)
					for i := range pay {
						pay[i] = byte(0x21 + (i*7+int(f.Num))%90)
					}
					s := &stream{HdrSize: 14, Proto: 0x10, Profile: 2115, HdrCRC: "ok"}
					s.Records = append(s.Records,
						record{Kind: "D", Local: 0, Gmn: 0, Fields: []fieldDefS{{0, 1, 0}}},
						record{Kind: "M", Local: 0, Pay: []byte{ft}},
						record{Kind: "D", Local: 1, Arch: byte(size & 1), Gmn: mn, Fields: []fieldDefS{{f.Num, byte(size), byte(bt)}}},
						record{Kind: "M", Local: 1, Pay: pay})
					s.fillHex()
					rs := readerSpec{Data: s.bytes()}
					impl, model, err := w.decode("D", optSet{}, rs)
					if err != nil {
						fmt.Println("driver:", err)
						return 2
					}
					r.count(fmt.Sprintf("%s.alt%d.%d", tag, bt, size), hosted)
					r.hist("admitted_alternative_base_types")
					r.Traces++
					rep2 := map[string]interface{}{"entry": "Decode", "stream": s, "input_hex": hexs(rs.Data), "mesgnum": mn, "field": f.Num, "base_type": bt, "size": size}
					if impl.Panic != "" {
						r.specFail("decode_panic", fmt.Sprintf("entry %s: the validator admits base type 0x%02x size %d, and Decode of such a field panics: %s", tag, bt, size, impl.Panic), rep2)
					}
					if impl.observable() != model.observable() {
						r.corrFail("decode_entry", fmt.Sprintf("entry %s with admitted base type 0x%02x size %d: model and implementation differ\n    impl : %.400s\n    model: %.400s", tag, bt, size, impl.observable(), model.observable()), rep2)
					}
				}
			}
			r.hist(fmt.Sprintf("kind%d_array%v", f.T.Kind(), f.T.Array()))
		}
		// the entry of field 253 is also consulted outside parseDataFields: a compressed-timestamp header stores
		// the reference time through it (struct index of the timestamp member differs between messages)
		for _, f := range mi.Fields {
			if f.Num != 253 || f.T.Kind() != types.TimeUTC {
				continue
			}
			for arch := byte(0); arch < 2; arch++ {
				ts := uint32(0x30000000 + 977*uint32(mn) + uint32(arch))
				s := &stream{HdrSize: 14, Proto: 0x10, Profile: 2115, HdrCRC: "ok"}
				s.Records = append(s.Records,
					record{Kind: "D", Local: 0, Gmn: 0, Fields: []fieldDefS{{0, 1, 0}}},
					record{Kind: "M", Local: 0, Pay: []byte{ft}},
					record{Kind: "D", Local: 2, Arch: arch, Gmn: uint16(fit.MesgNumRecord), Fields: []fieldDefS{{253, 4, 0x86}}},
					record{Kind: "M", Local: 2, Pay: put32(arch == 1, ts)},
					record{Kind: "D", Local: 1, Arch: arch, Gmn: mn},
					record{Kind: "Z", Local: 1, Offset: byte((ts + 5) % 32)})
				s.fillHex()
				c := streamCase{s, readerSpec{Data: s.bytes()}}
				impl, _, _, ok := decodeAndJudge(r, w, c, optSet{}, "compressed_", true)
				if !ok {
					return 2
				}
				if impl.Panic != "" {
					r.specFail("decode_panic", fmt.Sprintf("message %d: a compressed-timestamp record panics: %s", mn, impl.Panic), map[string]interface{}{"entry": "Decode", "input_hex": hexs(c.rs.Data), "mesgnum": mn})
				}
				r.count(fmt.Sprintf("compressed.%d.%d", mn, arch), hosted)
				r.hist("compressed_timestamp_streams")
			}
		}
		// every struct field is covered
		for i := 0; i < inval.NumField(); i++ {
			if _, ok := seenSindex[i]; !ok {
				r.specFail("uncovered_struct_field", fmt.Sprintf("message %d: struct field %s (index %d) has no lookup entry; the encoder's getFieldBySindex falls back to entry 255", mn, mtypes[mn].Field(i).Name, i),
					map[string]interface{}{"mesgnum": mn, "sindex": i})
			}
		}
		// encode side: an all-valid message of this type inside a hosting File
		if hosted {
			f, _ := fitNewFile(ft)
			mv, _ := newFilled(int(mn), 3)
			in := reflect.New(mv.Type()).Elem()
			in.Set(mv)
			fit.VerifFileAdd(f, in)
			func() {
				defer func() {
					if rec := recover(); rec != nil {
						r.specFail("encode_panic", fmt.Sprintf("message %d: Encode of an all-valid message panics: %v", mn, rec), map[string]interface{}{"mesgnum": mn, "filetype": ft})
					}
				}()
				var buf bytes.Buffer
				if err := fit.Encode(&buf, f, binary.LittleEndian); err != nil {
					r.hist("encode_errors")
				}
			}()
			r.hist("hosted_messages")
			// string fields with values around the profile length and around the one-byte size limit: the size
			// Encode declares comes from the table alone
			for _, pf := range mi.Fields {
				if pf.T.Array() || pf.T.BaseType() != types.BaseString {
					continue
				}
				for _, n := range []int{int(pf.Length) - 1, int(pf.Length), 254, 255, 256, 257, 300, 511, 512} {
					if n < 0 {
						continue
					}
					f2, _ := fitNewFile(ft)
					pv, _ := fit.VerifNewMesg(int(mn))
					b := make([]byte, n)
					for i := range b {
						b[i] = byte('a' + (i+n)%26)
					}
					pv.Elem().Field(pf.Sindex).SetString(string(b))
					in := reflect.New(pv.Elem().Type()).Elem()
					in.Set(pv.Elem())
					fit.VerifFileAdd(f2, in)
					if _, err := checkC05Case(r, d, &fileCase{File: f2, BE: n%2 == 1}, 1000); err != nil {
						fmt.Println("driver:", err)
						return 2
					}
					r.hist("encode_strings_at_size_limits")
				}
			}
		} else {
			r.hist("unhosted_messages")
		}
	}
	// entries only under known messages
	for m, row := range fit.VerifFields() {
		if known[fit.MesgNum(m)] {
			continue
		}
		for n, f := range row {
			if f != nil {
				r.specFail("entry_for_unknown_message", fmt.Sprintf("lookup entry (%d,%d) exists but message %d is not known", m, n, m), map[string]interface{}{"mesgnum": m, "field": n})
			}
		}
	}
	// container members known
	for _, ft := range p.validFts {
		f, _ := fitNewFile(ft)
		cname, slots := fileSlots(f)
		for _, s := range slots {
			if s.msg < 0 || !known[fit.MesgNum(s.msg)] {
				r.specFail("container_member_unknown", fmt.Sprintf("%s.%s holds a message type the profile does not know", cname, s.name), map[string]interface{}{"filetype": ft, "slot": s.name})
			}
		}
	}
	// (3) names snapshot (regression oracle for the SDK assignment)
	snapPath := filepath.Join(verifRoot, "spec", "field_names.txt")
	var lines []string
	for k, v := range names {
		lines = append(lines, k+" "+v)
	}
	sort.Strings(lines)
	cur := strings.Join(lines, "\n") + "\n"
	if os.Getenv("VERIF_WRITE_SNAPSHOT") == "1" {
		os.MkdirAll(filepath.Dir(snapPath), 0o755)
		os.WriteFile(snapPath, []byte(cur), 0o644)
	}
	if snap, err := os.ReadFile(snapPath); err == nil {
		old := map[string]string{}
		for _, l := range strings.Split(string(snap), "\n") {
			if fs := strings.Fields(l); len(fs) == 2 {
				old[fs[0]] = fs[1]
			}
		}
		for k, v := range names {
			if ov, ok := old[k]; ok && ov != v {
				r.specFail("field_name_moved", fmt.Sprintf("(message.field) %s maps to struct field %s, the SDK 21.115 snapshot assigns %s", k, v, ov), map[string]interface{}{"entry": k})
			}
		}
		for k, ov := range old {
			if _, ok := names[k]; !ok {
				r.specFail("field_entry_lost", fmt.Sprintf("(message.field) %s (struct field %s in the SDK 21.115 snapshot) has no lookup entry any more", k, ov), map[string]interface{}{"entry": k})
			}
		}
		r.Extra["names_compared"] = len(old)
	} else {
		r.Notes = append(r.Notes, "no field name snapshot")
	}
	// the lookup tables are process-wide and every call consults them: using the library -- here Encode of Files whose
	// array fields are longer than the profile length, two messages per type so that the per-type definition of
	// encodeFile is shared -- must leave every entry as it was read at the start of this run (the entries judged above);
	// an entry that changes under use makes "encoded sizes fit in one byte" a matter of history
	{
		for _, mi := range p.msgs {
			ft, hosted := fileTypeHosting(mi.Num)
			if !hosted {
				continue
			}
			for _, pf := range mi.Fields {
				if !pf.T.Array() || pf.T.BaseType() == types.BaseString || pf.GoType == nil || pf.GoType.Kind() != reflect.Slice {
					continue
				}
				f, _ := fitNewFile(ft)
				for _, n := range []int{130, 1} {
					pv, ok := fit.VerifNewMesg(int(mi.Num))
					if !ok {
						continue
					}
					pv.Elem().Field(pf.Sindex).Set(reflect.MakeSlice(pf.GoType, n, n))
					in := reflect.New(pv.Elem().Type()).Elem()
					in.Set(pv.Elem())
					fit.VerifFileAdd(f, in)
				}
				func() {
					defer func() { recover() }()
					var buf bytes.Buffer
					fit.Encode(&buf, f, binary.LittleEndian)
				}()
				r.hist("encode_overlong_arrays_before_table_recheck")
			}
		}
		theProfile = nil
		p2 := profile()
		theProfile = p
		now := map[string]string{}
		for _, mi := range p2.msgs {
			for _, pf := range mi.Fields {
				now[fmt.Sprintf("%d.%d", mi.Num, pf.Num)] = fmt.Sprintf("sindex=%d type=%d length=%d", pf.Sindex, pf.T, pf.Length)
			}
		}
		nent := 0
		for _, mi := range p.msgs {
			for _, pf := range mi.Fields {
				k := fmt.Sprintf("%d.%d", mi.Num, pf.Num)
				was := fmt.Sprintf("sindex=%d type=%d length=%d", pf.Sindex, pf.T, pf.Length)
				nent++
				if now[k] != was {
					r.specFail("profile_table_mutated", fmt.Sprintf("lookup entry %s was (%s) at the start of the run and is (%s) after Encode calls with arrays longer than the profile length (base size x length now %d)", k, was, now[k], pf.T.BaseType().Size()*int(p2.byNum[mi.Num].fieldLen(pf.Num))),
						map[string]interface{}{"entry": k, "before": was, "after": now[k], "history": "Encode of a File with two messages of the entry's type whose array field has 130 and 1 elements"})
				}
				delete(now, k)
			}
		}
		for k, v := range now {
			r.specFail("profile_table_mutated", fmt.Sprintf("lookup entry %s (%s) appeared during the run", k, v), map[string]interface{}{"entry": k})
		}
		r.Extra["entries_rechecked_after_use"] = nent
	}
	// the model-side checker and the implementation-side oracle must agree
	if len(modelBad) > 0 && len(r.SpecFails) == 0 {
		r.corrFail("profile_wf", "profile_wf is false on the regenerated tables but no entry fails on the implementation: "+resp, map[string]interface{}{"report": resp})
	}
	r.Extra["entries"] = len(names)
	return r.finish()
}

func (m *pmsgInfo) fieldLen(num byte) byte {
	if m == nil {
		return 0
	}
	for _, f := range m.Fields {
		if f.Num == num {
			return f.Length
		}
	}
	return 0
}
