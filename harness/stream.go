package main

import (
	"encoding/binary"
	"fmt"
	"reflect"
	"sort"
	"strings"

	"github.com/tormoder/fit"
	"github.com/tormoder/fit/dyncrc16"
	"github.com/tormoder/fit/internal/types"
)

// Abstract syntax of FIT streams (mirrors Spec/FitSyntax.v) and its serializer.

type fieldDefS struct {
	Num   byte `json:"num"`
	Size  byte `json:"size"`
	Btype byte `json:"btype"`
}

type devDefS struct {
	Num  byte `json:"num"`
	Size byte `json:"size"`
	Idx  byte `json:"idx"`
}

type record struct {
	Kind   string      `json:"kind"` // D definition, M data, Z compressed-timestamp data
	Local  byte        `json:"local"`
	Arch   byte        `json:"arch,omitempty"`
	Gmn    uint16      `json:"gmn,omitempty"`
	Fields []fieldDefS `json:"fields,omitempty"`
	DevFlg bool        `json:"devflag,omitempty"`
	Devs   []devDefS   `json:"devs,omitempty"`
	Offset byte        `json:"offset,omitempty"`
	Pay    []byte      `json:"-"`
	DevPay []byte      `json:"-"`
	PayHex string      `json:"payload_hex,omitempty"`
	DevHex string      `json:"devpayload_hex,omitempty"`
	// raw header bits to or in (reserved/ignored bits), for malformed streams
	HdrOr byte `json:"hdr_or,omitempty"`
}

type stream struct {
	HdrSize byte     `json:"hdr_size"`
	Proto   byte     `json:"proto"`
	Profile uint16   `json:"profile"`
	HdrCRC  string   `json:"hdr_crc"` // ok | zero
	Records []record `json:"records"`
}

func (r *record) bytes() []byte {
	var b []byte
	switch r.Kind {
	case "D":
		h := byte(0x40) | (r.Local & 0x0F) | r.HdrOr
		if r.DevFlg {
			h |= 0x20
		}
		b = append(b, h, 0, r.Arch)
		if r.Arch == 1 {
			b = append(b, byte(r.Gmn>>8), byte(r.Gmn))
		} else {
			b = append(b, byte(r.Gmn), byte(r.Gmn>>8))
		}
		b = append(b, byte(len(r.Fields)))
		for _, f := range r.Fields {
			b = append(b, f.Num, f.Size, f.Btype)
		}
		if r.DevFlg {
			b = append(b, byte(len(r.Devs)))
			for _, d := range r.Devs {
				b = append(b, d.Num, d.Size, d.Idx)
			}
		}
	case "M":
		b = append(b, (r.Local&0x0F)|r.HdrOr)
		b = append(b, r.Pay...)
		b = append(b, r.DevPay...)
	case "Z":
		b = append(b, 0x80|((r.Local&3)<<5)|(r.Offset&0x1F))
		b = append(b, r.Pay...)
		b = append(b, r.DevPay...)
	}
	return b
}

func (s *stream) dataBytes() []byte {
	var d []byte
	for i := range s.Records {
		d = append(d, s.Records[i].bytes()...)
	}
	return d
}

func frame(hdrSize, proto byte, profile uint16, hdrCRC string, data []byte) []byte {
	h := []byte{hdrSize, proto, byte(profile), byte(profile >> 8), 0, 0, 0, 0, '.', 'F', 'I', 'T'}
	binary.LittleEndian.PutUint32(h[4:8], uint32(len(data)))
	if hdrSize == 14 {
		c := uint16(0)
		if hdrCRC == "ok" {
			c = dyncrc16.Checksum(h)
		}
		h = append(h, byte(c), byte(c>>8))
	}
	out := append(h, data...)
	c := dyncrc16.Checksum(out)
	return append(out, byte(c), byte(c>>8))
}

func (s *stream) bytes() []byte {
	return frame(s.HdrSize, s.Proto, s.Profile, s.HdrCRC, s.dataBytes())
}

// specArgs renders the record list for the driver's spec functions:
// D:local:arch:gmn:n.s.t,...:devflag:n.s.i,...  M:local:hex:hex  Z:local:off:hex:hex
func (s *stream) specArgs() string {
	var parts []string
	for _, r := range s.Records {
		switch r.Kind {
		case "D":
			var fs, ds []string
			for _, f := range r.Fields {
				fs = append(fs, fmt.Sprintf("%d.%d.%d", f.Num, f.Size, f.Btype))
			}
			for _, d := range r.Devs {
				ds = append(ds, fmt.Sprintf("%d.%d.%d", d.Num, d.Size, d.Idx))
			}
			df := 0
			if r.DevFlg {
				df = 1
			}
			parts = append(parts, fmt.Sprintf("D:%d:%d:%d:%s:%d:%s", r.Local, r.Arch, r.Gmn, dashJoin(fs), df, dashJoin(ds)))
		case "M":
			parts = append(parts, fmt.Sprintf("M:%d:%s:%s", r.Local, hexOrDash(r.Pay), hexOrDash(r.DevPay)))
		case "Z":
			parts = append(parts, fmt.Sprintf("Z:%d:%d:%s:%s", r.Local, r.Offset, hexOrDash(r.Pay), hexOrDash(r.DevPay)))
		}
	}
	if len(parts) == 0 {
		return "-"
	}
	return strings.Join(parts, " ")
}

func dashJoin(s []string) string {
	if len(s) == 0 {
		return "-"
	}
	return strings.Join(s, ",")
}

func (s *stream) fillHex() {
	for i := range s.Records {
		s.Records[i].PayHex = hexs(s.Records[i].Pay)
		s.Records[i].DevHex = hexs(s.Records[i].DevPay)
	}
}

// ---------------------------------------------------------------- profile view

type pfieldInfo struct {
	Num    byte
	Sindex int
	T      types.Fit
	Length byte
	GoType reflect.Type
}

type pmsgInfo struct {
	Num    uint16
	Name   string
	Fields []pfieldInfo // listed fields, by number
	Type   reflect.Type
}

type profileView struct {
	msgs     []pmsgInfo
	byNum    map[uint16]*pmsgInfo
	known    []uint16
	unknown  []uint16 // sample of message numbers not in the profile
	hosted   map[string][]uint16
	validFts []byte
}

var theProfile *profileView

func profile() *profileView {
	if theProfile != nil {
		return theProfile
	}
	p := &profileView{byNum: map[uint16]*pmsgInfo{}}
	fields := fit.VerifFields()
	known := fit.VerifKnownMsgNums()
	mt := fit.VerifMsgsTypes()
	for k, v := range known {
		if v {
			p.known = append(p.known, uint16(k))
		}
	}
	sort.Slice(p.known, func(i, j int) bool { return p.known[i] < p.known[j] })
	for _, k := range p.known {
		mi := pmsgInfo{Num: k}
		if int(k) < len(mt) && mt[k] != nil {
			mi.Type = mt[k]
			mi.Name = mt[k].Name()
		}
		if int(k) < len(fields) {
			for n := 0; n < 256; n++ {
				f := fields[k][n]
				if f == nil {
					continue
				}
				fi := pfieldInfo{Num: byte(n), Sindex: f.Sindex, T: types.Fit(f.T), Length: f.Length}
				if mi.Type != nil && f.Sindex < mi.Type.NumField() {
					fi.GoType = mi.Type.Field(f.Sindex).Type
				}
				mi.Fields = append(mi.Fields, fi)
			}
		}
		p.msgs = append(p.msgs, mi)
	}
	for i := range p.msgs {
		p.byNum[p.msgs[i].Num] = &p.msgs[i]
	}
	// unknown message numbers: gaps inside the profile tables, numbers far outside, and the numbers at the very
	// edge of the lookup table (its last row, the first number past it, and the one after)
	edge := uint16(len(fit.VerifFields()))
	for _, c := range []uint16{22, 29, 104, 113, 140, 233, 1000, 0xFF00, 0xFFFE, 65280, 400, edge - 1, edge, edge + 1} {
		if !known[fit.MesgNum(c)] {
			p.unknown = append(p.unknown, c)
		}
	}
	for t := 0; t < 256; t++ {
		if _, err := fit.NewFile(fit.FileType(t), validHeader()); err == nil {
			p.validFts = append(p.validFts, byte(t))
		}
	}
	theProfile = p
	return p
}

// compatible definition types for a profile field's base type (what wf_stream
// allows): same base type, or same signedness integer of smaller or equal size.
var intBases = []types.Base{types.BaseEnum, types.BaseSint8, types.BaseUint8, types.BaseSint16, types.BaseUint16,
	types.BaseSint32, types.BaseUint32, types.BaseUint8z, types.BaseUint16z, types.BaseUint32z, types.BaseByte}

func compatibleDefs(pb types.Base) []types.Base {
	out := []types.Base{pb}
	if pb == types.BaseString || pb.Float() || pb.Size() == 8 {
		return out
	}
	for _, b := range intBases {
		if b == pb {
			continue
		}
		if b.Size() <= pb.Size() && b.Signed() == pb.Signed() {
			out = append(out, b)
		}
	}
	return out
}

func fitNewFile(ft byte) (*fit.File, error) { return fit.NewFile(fit.FileType(ft), validHeader()) }

// parseRecords parses the textual record list (specArgs format) back into a stream.
func parseRecords(text string) *stream {
	s := &stream{HdrSize: 14, Proto: 0x10, Profile: 2115, HdrCRC: "ok"}
	unhex := func(h string) []byte {
		if h == "-" {
			return nil
		}
		b := make([]byte, len(h)/2)
		for i := range b {
			fmt.Sscanf(h[2*i:2*i+2], "%02x", &b[i])
		}
		return b
	}
	triples := func(t string) [][3]int {
		var out [][3]int
		if t == "-" {
			return out
		}
		for _, e := range strings.Split(t, ",") {
			var a, b, c int
			fmt.Sscanf(e, "%d.%d.%d", &a, &b, &c)
			out = append(out, [3]int{a, b, c})
		}
		return out
	}
	for _, w := range strings.Fields(text) {
		p := strings.Split(w, ":")
		var l, x int
		switch p[0] {
		case "D":
			var arch, gmn int
			fmt.Sscanf(p[1], "%d", &l)
			fmt.Sscanf(p[2], "%d", &arch)
			fmt.Sscanf(p[3], "%d", &gmn)
			r := record{Kind: "D", Local: byte(l), Arch: byte(arch), Gmn: uint16(gmn), DevFlg: p[5] == "1"}
			for _, t := range triples(p[4]) {
				r.Fields = append(r.Fields, fieldDefS{byte(t[0]), byte(t[1]), byte(t[2])})
			}
			for _, t := range triples(p[6]) {
				r.Devs = append(r.Devs, devDefS{byte(t[0]), byte(t[1]), byte(t[2])})
			}
			s.Records = append(s.Records, r)
		case "M":
			fmt.Sscanf(p[1], "%d", &l)
			s.Records = append(s.Records, record{Kind: "M", Local: byte(l), Pay: unhex(p[2]), DevPay: unhex(p[3])})
		case "Z":
			fmt.Sscanf(p[1], "%d", &l)
			fmt.Sscanf(p[2], "%d", &x)
			s.Records = append(s.Records, record{Kind: "Z", Local: byte(l), Offset: byte(x), Pay: unhex(p[3]), DevPay: unhex(p[4])})
		}
	}
	s.fillHex()
	return s
}
