package main

import (
	"fmt"
	"strings"

	"github.com/tormoder/fit"
)

// C06: Encode then Decode returns the values that were put in.
// Spec oracle: the extracted in_domain / content_eq6 (Spec/RoundTrip.v)
// applied to the File put in and the File the real Decode returned for the
// bytes the real Encode wrote.  Correspondence: the model's encoder writes the
// same bytes and the model's decoder (through `world`, so that the model's
// accumulator state follows the process) returns the same File.

func init() { register("c06", runC06) }

// decodeKeep is world.decode for entry point Decode that also returns the
// implementation's *fit.File (needed to encode it again).
func (w *world) decodeKeep(data []byte) (f *fit.File, impl, model decOut, err error) {
	func() {
		defer func() {
			if r := recover(); r != nil {
				impl = decOut{Panic: fmt.Sprint(r)}
			}
		}()
		rs := readerSpec{Data: data}
		rd := rs.reader()
		var derr error
		f, derr = fit.Decode(rd)
		impl.ErrClass = errClass(derr)
		impl.Files = []string{canonFile(f)}
		impl.Hdr = "-"
		if derr != nil {
			impl.ErrText = derr.Error()
		}
		impl.Pos = rd.pos
	}()
	rs := readerSpec{Data: data}
	resp, err := w.d.ask(fmt.Sprintf("decode D %s %s %s", optSet{}.String(), rs.driverArgs(), w.g))
	if err != nil {
		return f, impl, model, err
	}
	model, err = parseModel("D", resp)
	if err != nil {
		return f, impl, model, err
	}
	if model.G != "" {
		w.g = model.G
	}
	return f, impl, model, nil
}

type c06Result struct {
	eq   bool
	diff string
	dom  bool
}

// roundTripCase: Encode, Decode, compare.  csd says the File carries a valid
// compressed_speed_distance (outside the domain: known finding when it fails).
func roundTripCase(r *report, w *world, c *fileCase, idx int, claimDomain bool) error {
	f := c.File
	before := canonFile(f)
	csd := hasValidCsd(f)
	out := implEncode(f, c.arch())
	rep := encReplay(c, before, map[string]interface{}{"impl_encode": out.class()})
	r.hist("encode_" + out.class())
	if out.class() != "O" {
		r.count(before+beFlag(c.BE), false)
		if claimDomain {
			r.specFail("encode_fails", fmt.Sprintf("Encode fails on a File inside the representable domain: %v %s", out.Err, out.Panic), rep)
		}
		return nil
	}
	// model encoder: same bytes
	mresp, err := w.d.ask(fmt.Sprintf("enc %s %s", beFlag(c.BE), before))
	if err != nil {
		return err
	}
	if !strings.HasPrefix(mresp, "O ") {
		r.corrFail("verdict", fmt.Sprintf("model Encode does not succeed: %.60s", mresp), rep)
	} else if parts := strings.SplitN(mresp, " ", 3); parts[1] != hexOrDash(out.Bytes) {
		r.corrFail("bytes", "model bytes differ from the bytes Encode wrote", rep)
	}
	f2, impl, model, err := w.decodeKeep(out.Bytes)
	if err != nil {
		return err
	}
	_ = f2
	nmsgs := strings.Count(before, "[")
	r.count(before+beFlag(c.BE), nmsgs > 1)
	if impl.observable() != model.observable() {
		r.corrFail("decode_model", "model Decode of the encoded bytes differs from the implementation's",
			encReplay(c, before, map[string]interface{}{"bytes_hex": hexs(out.Bytes), "impl": trunc(impl.observable(), 2000), "model": trunc(model.observable(), 2000)}))
	}
	if impl.Panic != "" || impl.ErrClass != 0 {
		r.specFail("decode_fails", fmt.Sprintf("Decode rejects the bytes Encode wrote: %s %s", impl.ErrText, impl.Panic),
			encReplay(c, before, map[string]interface{}{"bytes_hex": hexs(out.Bytes)}))
		return nil
	}
	resp, err := w.d.ask(fmt.Sprintf("c06 %s %s", before, impl.Files[0]))
	if err != nil {
		return err
	}
	if strings.HasPrefix(resp, "ERR") {
		return fmt.Errorf("driver: %.300s", resp)
	}
	m := kv(resp)
	if m["wf"] != "1" {
		r.corrFail("wf_file", "a File built through the public API is not wf_file for the model", rep)
	}
	if claimDomain && m["dom"] != "1" {
		r.corrFail("domain", "the generator's in-domain File is outside in_domain of Spec/RoundTrip.v", rep)
	}
	if m["dom"] == "1" {
		// wf_file and in_domain: inside the domain of the stream theorem C06_roundtrip (no further side condition)
		r.hist("in_domain")
	} else {
		r.hist("outside_domain")
	}
	if m["eq"] != "1" {
		tag := "roundtrip"
		if csd {
			// the recorded finding explains a difference only in the accumulated Distance of records that carry a
			// valid compressed_speed_distance: with that value masked on both sides the Files must be equal
			if r2, err := w.d.ask(fmt.Sprintf("c06 %s %s", maskAccumText(before), maskAccumText(impl.Files[0]))); err == nil && kv(r2)["eq"] == "1" {
				tag = "csd_accumulator"
			}
		}
		if m["dom"] == "1" || tag == "csd_accumulator" {
			r.specFail(tag, fmt.Sprintf("Decode(Encode(f)) differs from f at slot.message.field %s", m["diff"]),
				encReplay(c, before, map[string]interface{}{"bytes_hex": hexs(out.Bytes), "decoded": impl.Files[0], "diff": m["diff"]}))
		}
	}
	r.Traces++
	if idx < 3 {
		r.sample(map[string]interface{}{"file": trunc(before, 400), "big_endian": c.BE, "bytes": len(out.Bytes), "content_eq": m["eq"]})
	}
	return nil
}

func runC06(args []string) int {
	o := parseRunOpts("c06", args)
	r := newReport("C06", o)
	r.Rule = "Files built through the public API inside the representable domain (17 file types x hosted messages x random subsets of set fields x " +
		"boundary values x both byte orders x 12/14-byte headers); per File: real Encode -> real Decode -> extracted content_eq6 (norm: trailing " +
		"invalid padding, wall clock, component rule); model encoder bytes = real bytes, model decoder result = real result; non-trivial = at least " +
		"one message besides file_id; distinct by canonical File + byte order; a small separate stream carries valid compressed_speed_distance (known finding)"
	d, err := startDriver(o.driver)
	if err != nil {
		fmt.Println("driver:", err)
		return 2
	}
	defer d.close()
	w := newWorld(d)
	rg := newRng(o.seed)
	n := 4000
	if o.tier == "thorough" {
		n = 300000
	}
	n *= o.boost
	st := genStats{}
	cfgDom := &fileGenCfg{inDomain: true, allowCsd: false, maxPerSlt: 40}
	for i := 0; i < n; i++ {
		c := genFile(rg, cfgDom, st)
		if err := roundTripCase(r, w, c, i, true); err != nil {
			fmt.Println("driver:", err)
			return 2
		}
	}
	// records with a valid compressed_speed_distance: the decoded Distance
	// continues the sums of every earlier Decode of the process
	cfgCsd := &fileGenCfg{inDomain: true, allowCsd: true, maxPerSlt: 6}
	ncsd := 0
	for i := 0; ncsd < 12*o.boost && i < 4000; i++ {
		c := genFile(rg, cfgCsd, st)
		if !hasValidCsd(c.File) {
			continue
		}
		ncsd++
		r.hist("csd_files")
		if err := roundTripCase(r, w, c, 1000, false); err != nil {
			fmt.Println("driver:", err)
			return 2
		}
	}
	for k, v := range st {
		r.Hist["gen_"+k] = v
	}
	r.Extra["fields_set_at_least_once"] = len(fieldHits)
	r.Extra["profile_fields"] = countProfileFields()
	return r.finish()
}

func countProfileFields() int {
	n := 0
	seen := map[uint16]bool{}
	for _, ft := range profile().validFts {
		f, err := fitNewFile(ft)
		if err != nil {
			continue
		}
		_, slots := fileSlots(f)
		for i, s := range slots {
			if i == 3 || i == 4 || s.msg < 0 || seen[uint16(s.msg)] {
				continue
			}
			seen[uint16(s.msg)] = true
			if mi := profile().byNum[uint16(s.msg)]; mi != nil && mi.Type != nil {
				n += mi.Type.NumField()
			}
		}
	}
	return n
}
