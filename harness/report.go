package main

import (
	"bufio"
	"crypto/sha256"
	"encoding/hex"
	"encoding/json"
	"flag"
	"fmt"
	"hash/fnv"
	"os"
	"path/filepath"
	"sort"
	"strconv"
	"strings"
	"time"
)

var verifRoot = func() string {
	if v := os.Getenv("VERIF_ROOT"); v != "" {
		return v
	}
	return "/verif"
}()

// repoRoot is the tormoder/fit tree the harness was built against.
var repoRoot = func() string {
	if v := os.Getenv("VERIF_REPO"); v != "" {
		return v
	}
	return "/repo"
}()

// runOpts are the flags common to every per-property run.
type runOpts struct {
	tier   string
	seed   uint64
	driver string
	out    string
	replay string
	boost  int // >1: proof obligation or correspondence broke, search harder
}

func parseRunOpts(name string, args []string) runOpts {
	fs := flag.NewFlagSet(name, flag.ExitOnError)
	var o runOpts
	fs.StringVar(&o.tier, "tier", "quick", "quick|thorough")
	seed := fs.String("seed", "", "PRNG seed (default VERIF_SEED or 1)")
	fs.StringVar(&o.driver, "driver", filepath.Join(verifRoot, "build/driver/vdriver"), "path to model driver")
	fs.StringVar(&o.out, "out", "", "result json path")
	fs.StringVar(&o.replay, "replay", "", "replay file")
	fs.IntVar(&o.boost, "boost", 1, "search budget multiplier")
	fs.Parse(args)
	s := *seed
	if s == "" {
		s = os.Getenv("VERIF_SEED")
	}
	if s == "" {
		s = "1"
	}
	v, err := strconv.ParseUint(s, 10, 64)
	if err != nil {
		h := fnv.New64a()
		h.Write([]byte(s))
		v = h.Sum64()
	}
	o.seed = v
	return o
}

type failure struct {
	Kind   string      `json:"kind"` // "spec" (property fails on the implementation) | "correspondence" (model != implementation)
	Tag    string      `json:"tag"`  // defect path tag, matched against KNOWN_FINDINGS.txt
	What   string      `json:"what"`
	Replay interface{} `json:"replay"`
}

type report struct {
	Property    string                 `json:"property"`
	Tier        string                 `json:"tier"`
	Seed        uint64                 `json:"seed"`
	Evaluations int                    `json:"evaluations"`
	Distinct    int                    `json:"distinct_nontrivial"`
	Rule        string                 `json:"rule"`
	Samples     []interface{}          `json:"samples"`
	Hist        map[string]int         `json:"histogram"`
	Exhaustive  bool                   `json:"exhaustive"`
	Traces      int                    `json:"traces_validated_against_impl"`
	Extra       map[string]interface{} `json:"extra,omitempty"`
	SpecFails   []failure              `json:"spec_failures"`
	CorrFails   []failure              `json:"correspondence_failures"`
	Known       []string               `json:"known_findings"`
	Violations  []string               `json:"violations"`
	NoInput     bool                   `json:"no_failing_input_found"`
	WallS       float64                `json:"wall_s"`
	Notes       []string               `json:"notes,omitempty"`

	distinct map[uint64]struct{}
	nSpec    map[string]int
	nCorr    map[string]int
	start    time.Time
	opts     runOpts
}

func newReport(prop string, o runOpts) *report {
	return &report{Property: prop, Tier: o.tier, Seed: o.seed, Hist: map[string]int{}, Extra: map[string]interface{}{},
		distinct: map[uint64]struct{}{}, nSpec: map[string]int{}, nCorr: map[string]int{}, start: time.Now(), opts: o}
}

// count records one evaluated case; key identifies the canonical input,
// nontrivial says whether the case reached the behaviour the property is
// about (rule in r.Rule).
func (r *report) count(key string, nontrivial bool) {
	r.Evaluations++
	if nontrivial {
		h := fnv.New64a()
		h.Write([]byte(key))
		r.distinct[h.Sum64()] = struct{}{}
	}
}

func (r *report) hist(k string) { r.Hist[k]++ }

func (r *report) sample(s interface{}) {
	if len(r.Samples) < 6 {
		r.Samples = append(r.Samples, s)
	}
}

// failures are kept up to a cap per tag, so that a frequent (e.g. known)
// failure cannot crowd out a different one
func (r *report) specFail(tag, what string, replay interface{}) {
	r.nSpec[tag]++
	if r.nSpec[tag] <= 25 {
		r.SpecFails = append(r.SpecFails, failure{"spec", tag, what, replay})
	}
}

func (r *report) corrFail(tag, what string, replay interface{}) {
	r.nCorr[tag]++
	if r.nCorr[tag] <= 25 {
		r.CorrFails = append(r.CorrFails, failure{"correspondence", tag, what, replay})
	}
}

// knownFinding is one line of /verif/KNOWN_FINDINGS.txt.
type knownFinding struct {
	status string // known | fixed
	prop   string
	tag    string
	text   string
}

func loadKnown() []knownFinding {
	f, err := os.Open(filepath.Join(verifRoot, "KNOWN_FINDINGS.txt"))
	if err != nil {
		return nil
	}
	defer f.Close()
	var out []knownFinding
	sc := bufio.NewScanner(f)
	for sc.Scan() {
		line := strings.TrimSpace(sc.Text())
		if line == "" || strings.HasPrefix(line, "#") {
			continue
		}
		var k knownFinding
		switch {
		case strings.HasPrefix(line, "known:"):
			k.status = "known"
			line = strings.TrimSpace(line[len("known:"):])
		case strings.HasPrefix(line, "fixed:"):
			k.status = "fixed"
			line = strings.TrimSpace(line[len("fixed:"):])
		default:
			continue
		}
		for _, w := range strings.Fields(line) {
			if strings.HasPrefix(w, "property=") {
				k.prop = w[len("property="):]
			} else if strings.HasPrefix(w, "tag=") {
				k.tag = w[len("tag="):]
			}
		}
		k.text = line
		out = append(out, k)
	}
	return out
}

func writeReplay(prop string, v interface{}) string {
	b, _ := json.MarshalIndent(v, "", " ")
	sum := sha256.Sum256(b)
	dir := filepath.Join(verifRoot, "replays")
	os.MkdirAll(dir, 0o755)
	p := filepath.Join(dir, prop+"-"+hex.EncodeToString(sum[:6])+".json")
	os.WriteFile(p, b, 0o644)
	return p
}

// finish classifies failures, prints the VIOLATION / KNOWN-FINDING lines,
// writes the run result and returns the exit status.
func (r *report) finish() int {
	r.Distinct = len(r.distinct)
	known := loadKnown()
	isKnown := func(tag string) *knownFinding {
		for i := range known {
			if known[i].status == "known" && known[i].prop == r.Property && known[i].tag == tag && tag != "" {
				return &known[i]
			}
		}
		return nil
	}
	seenKnown := map[string]bool{}
	seenViol := map[string]bool{}
	status := 0
	for _, f := range r.SpecFails {
		if k := isKnown(f.Tag); k != nil {
			if !seenKnown[f.Tag] {
				seenKnown[f.Tag] = true
				line := "KNOWN-FINDING: " + k.text
				fmt.Println(line)
				r.Known = append(r.Known, line)
			}
			continue
		}
		key := f.Tag + "|" + f.What
		if seenViol[f.Tag] && f.Tag != "" {
			continue
		}
		seenViol[f.Tag] = true
		_ = key
		p := writeReplay(r.Property, map[string]interface{}{
			"property": r.Property, "kind": "input", "tag": f.Tag, "what": f.What, "case": f.Replay, "seed": r.Seed, "tier": r.Tier,
		})
		line := fmt.Sprintf("VIOLATION property=%s replay=%s", r.Property, p)
		fmt.Println(line)
		fmt.Println("  " + f.What)
		r.Violations = append(r.Violations, line)
		status = 1
		if len(r.Violations) >= 5 {
			break
		}
	}
	if status == 0 && len(r.CorrFails) > 0 {
		// The model no longer describes the implementation and no input was
		// found on which the property itself fails.
		f := r.CorrFails[0]
		p := writeReplay(r.Property, map[string]interface{}{
			"property": r.Property, "kind": "no-failing-input", "correspondence": f.What, "tag": f.Tag,
			"first_disagreeing_case": f.Replay, "disagreements": len(r.CorrFails), "seed": r.Seed, "tier": r.Tier,
		})
		line := fmt.Sprintf("VIOLATION property=%s replay=%s no-failing-input-found", r.Property, p)
		fmt.Println(line)
		fmt.Println("  correspondence broken: " + f.What)
		r.Violations = append(r.Violations, line)
		r.NoInput = true
		status = 1
	}
	r.Extra["spec_failures_by_tag"] = r.nSpec
	r.Extra["correspondence_failures_by_tag"] = r.nCorr
	r.WallS = time.Since(r.start).Seconds()
	keys := make([]string, 0, len(r.Hist))
	for k := range r.Hist {
		keys = append(keys, k)
	}
	sort.Strings(keys)
	if r.opts.out != "" {
		b, _ := json.MarshalIndent(r, "", " ")
		os.MkdirAll(filepath.Dir(r.opts.out), 0o755)
		os.WriteFile(r.opts.out, b, 0o644)
	}
	fmt.Printf("%s: evaluations=%d distinct_nontrivial=%d spec_failures=%d correspondence_failures=%d known=%d wall=%.1fs\n",
		r.Property, r.Evaluations, r.Distinct, len(r.SpecFails), len(r.CorrFails), len(r.Known), r.WallS)
	return status
}

func hexs(b []byte) string { return hex.EncodeToString(b) }
