package main

import (
	"fmt"
	"reflect"
	"strings"

	"github.com/tormoder/fit"
)

// The reference semantics Spec/FitSyntax.v (extracted) evaluated on the
// abstract syntax of a generated stream, compared with what the real Decode
// returned: the decisive test of C02 / C12 / C13 / C16 on a concrete input.

type specResult struct {
	InDomain bool
	Ref      string
	UM, UF   string
	Msgs     []string // canonical messages in stream order
}

func askSpec(d *driver, s *stream) (specResult, error) {
	for _, rec := range s.Records {
		if rec.Kind == "D" && rec.Arch > 1 {
			return specResult{}, nil // an architecture byte other than 0/1 is not a FIT definition
		}
		if rec.HdrOr != 0 {
			return specResult{}, nil
		}
	}
	resp, err := d.ask("spec_denote " + s.specArgs())
	if err != nil {
		return specResult{}, err
	}
	if resp == "none" || strings.HasPrefix(resp, "ERR") {
		return specResult{}, nil
	}
	var sr specResult
	sr.InDomain = true
	i := strings.Index(resp, " msgs=")
	head := resp[:i]
	for _, kv := range strings.Fields(head) {
		switch {
		case strings.HasPrefix(kv, "ref="):
			sr.Ref = kv[4:]
		case strings.HasPrefix(kv, "um="):
			sr.UM = kv[3:]
		case strings.HasPrefix(kv, "uf="):
			sr.UF = kv[3:]
		}
	}
	m := resp[i+6:]
	if m != "" {
		sr.Msgs = strings.Split(m, "&")
	}
	return sr, nil
}

func msgNumOf(canon string) int {
	n := 0
	for _, c := range canon {
		if c < '0' || c > '9' {
			break
		}
		n = n*10 + int(c-'0')
	}
	return n
}

func msgFields(canon string) []string {
	lb := strings.IndexByte(canon, '[')
	body := canon[lb+1 : len(canon)-1]
	if body == "" {
		return nil
	}
	return strings.Split(body, ";")
}

// component destinations, by struct field name, of the expanding message types
var destNames = map[int][]string{
	int(fit.MesgNumSession):    {"EnhancedAvgSpeed", "EnhancedMaxSpeed", "EnhancedAvgAltitude", "EnhancedMaxAltitude", "EnhancedMinAltitude"},
	int(fit.MesgNumLap):        {"EnhancedAvgSpeed", "EnhancedMaxSpeed", "EnhancedAvgAltitude", "EnhancedMaxAltitude", "EnhancedMinAltitude"},
	int(fit.MesgNumSegmentLap): {"EnhancedAvgAltitude", "EnhancedMaxAltitude", "EnhancedMinAltitude"},
	int(fit.MesgNumRecord):     {"EnhancedAltitude", "EnhancedSpeed", "Speed", "Distance", "TotalCycles", "AccumulatedPower"},
	int(fit.MesgNumEvent):      {"Data", "Score", "OpponentScore", "RearGearNum", "RearGear", "FrontGearNum", "FrontGear"},
}

func destIndex(mn int) map[int]bool {
	out := map[int]bool{}
	mt := fit.VerifMsgsTypes()
	if mn >= len(mt) || mt[mn] == nil {
		return out
	}
	for _, n := range destNames[mn] {
		if f, ok := mt[mn].FieldByName(n); ok {
			out[f.Index[0]] = true
		}
	}
	return out
}

// compareFileWithSpec returns "" if the decoded File holds, per slot, exactly
// the messages the reference semantics prescribes (component destinations of
// expanding message types excluded), else a description of the first difference.
func compareFileWithSpec(f *fit.File, sr specResult) string {
	_, slots := fileSlots(f)
	for si, s := range slots {
		if s.msg < 0 {
			continue
		}
		var want []string
		for _, m := range sr.Msgs {
			if msgNumOf(m) == s.msg {
				want = append(want, m)
			}
		}
		if !s.multi && len(want) > 1 {
			want = want[len(want)-1:]
		}
		got := slotMsgs(s)
		if si == 0 && len(want) == 0 {
			continue
		}
		if len(got) != len(want) {
			return fmt.Sprintf("slot %s: %d messages decoded, the stream denotes %d of message %d", s.name, len(got), len(want), s.msg)
		}
		skip := map[int]bool{}
		if si >= 5 {
			skip = destIndex(s.msg)
		}
		for i := range got {
			var sb strings.Builder
			canonMsg(&sb, got[i])
			gf, wf := msgFields(sb.String()), msgFields(want[i])
			if len(gf) != len(wf) {
				return fmt.Sprintf("slot %s message %d: %d fields vs %d", s.name, i, len(gf), len(wf))
			}
			for k := range gf {
				if skip[k] {
					continue
				}
				if gf[k] != wf[k] {
					name := got[i].Type().Field(k).Name
					return fmt.Sprintf("slot %s message #%d (%s) field %s: decoded %s, the wire bytes denote %s", s.name, i, got[i].Type().Name(), name, gf[k], wf[k])
				}
			}
		}
	}
	return ""
}

var _ = reflect.TypeOf
