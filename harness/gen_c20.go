package main

import (
	"fmt"
	"go/ast"
	"go/constant"
	"go/parser"
	"go/token"
	"go/types"
	"os"
	"path/filepath"
	"regexp"
	"strconv"
	"strings"
)

// C20 translator: types.go (constants of every generated FIT type, evaluated
// with go/types) and types_string.go (the String methods and their tables,
// matched syntactically against the three shapes the repository's stringer
// emits) -> coq/Gen/TypesData.v.  Whatever is written in the file is recorded
// as written (offsets, bounds, index arrays, name strings, fallback literals);
// a String method of any other shape is an error, never a guess.

func init() { extraGens = append(extraGens, genTypesData) }

type c20Const struct {
	Name  string
	Value uint64
}

type c20Case struct {
	single  bool   // case i == V: return name
	lo, hi  uint64 // single: lo == hi == V
	sub     *uint64
	name    string
	idxBits int
	index   []uint64
}

type c20MapEntry struct {
	key    uint64
	lo, hi uint64
}

type c20Method struct {
	pre, post string // string literals around strconv.FormatInt in the fallback
	shape     string // "one" | "multi" | "map"
	// one
	sub, add *uint64
	name     string
	idxBits  int
	index    []uint64
	// multi
	cases []c20Case
	// map (name above)
	entries []c20MapEntry
}

type c20Type struct {
	Name   string
	Bits   int
	Signed bool
	Consts []c20Const
	m      *c20Method
}

type c20Data struct {
	Types     []*c20Type // in the order of the type declarations of types.go
	Listed    []string   // the "// fit types: [...]" comment of types_string.go
	byName    map[string]*c20Type
	TypesPath string
	StrPath   string
	Extra     []string // constants of generated types declared outside types.go
}

func c20Parse() (*c20Data, error) { return c20ParseFull(false) }

// c20ParseFull: with typesOnly only types.go is read (type declarations and constants), not the String methods.
func c20ParseFull(typesOnly bool) (*c20Data, error) {
	d := &c20Data{byName: map[string]*c20Type{}}
	d.TypesPath = filepath.Join(repoRoot, "types.go")
	d.StrPath = filepath.Join(repoRoot, "types_string.go")
	fset := token.NewFileSet()
	tf, err := parser.ParseFile(fset, d.TypesPath, nil, parser.ParseComments)
	if err != nil {
		return nil, err
	}
	info := &types.Info{Defs: map[*ast.Ident]types.Object{}}
	var terrs []string
	conf := types.Config{Error: func(e error) { terrs = append(terrs, e.Error()) }}
	conf.Check("fit", fset, []*ast.File{tf}, info)
	if len(terrs) > 0 {
		return nil, fmt.Errorf("types.go does not type-check on its own: %s", strings.Join(terrs, "; "))
	}
	// type declarations, in order
	for _, decl := range tf.Decls {
		gd, ok := decl.(*ast.GenDecl)
		if !ok {
			return nil, fmt.Errorf("types.go: unexpected declaration at %s", fset.Position(decl.Pos()))
		}
		switch gd.Tok {
		case token.TYPE:
			for _, s := range gd.Specs {
				ts := s.(*ast.TypeSpec)
				obj := info.Defs[ts.Name]
				if obj == nil {
					return nil, fmt.Errorf("types.go: no object for type %s", ts.Name.Name)
				}
				b, ok := obj.Type().Underlying().(*types.Basic)
				if !ok || b.Info()&types.IsInteger == 0 {
					return nil, fmt.Errorf("types.go: type %s is not an integer type", ts.Name.Name)
				}
				var bits int
				switch b.Kind() {
				case types.Uint8, types.Int8:
					bits = 8
				case types.Uint16, types.Int16:
					bits = 16
				case types.Uint32, types.Int32:
					bits = 32
				case types.Uint64, types.Int64:
					bits = 64
				default:
					return nil, fmt.Errorf("types.go: type %s has platform dependent width (%s)", ts.Name.Name, b.Name())
				}
				t := &c20Type{Name: ts.Name.Name, Bits: bits, Signed: b.Info()&types.IsUnsigned == 0}
				if d.byName[t.Name] != nil {
					return nil, fmt.Errorf("types.go: type %s declared twice", t.Name)
				}
				d.byName[t.Name] = t
				d.Types = append(d.Types, t)
			}
		case token.CONST:
			for _, s := range gd.Specs {
				vs := s.(*ast.ValueSpec)
				for _, nm := range vs.Names {
					if nm.Name == "_" {
						continue
					}
					c, ok := info.Defs[nm].(*types.Const)
					if !ok {
						return nil, fmt.Errorf("types.go: %s is not a constant", nm.Name)
					}
					named, ok := c.Type().(*types.Named)
					if !ok {
						return nil, fmt.Errorf("types.go: constant %s has no named type (%s)", nm.Name, c.Type())
					}
					t := d.byName[named.Obj().Name()]
					if t == nil {
						return nil, fmt.Errorf("types.go: constant %s of type %s declared before/without its type", nm.Name, named.Obj().Name())
					}
					if c.Val().Kind() != constant.Int {
						return nil, fmt.Errorf("types.go: constant %s is not an integer", nm.Name)
					}
					if t.Signed {
						return nil, fmt.Errorf("types.go: type %s is signed; the C20 model covers unsigned generated types only", t.Name)
					}
					u, exact := constant.Uint64Val(c.Val())
					if !exact {
						return nil, fmt.Errorf("types.go: constant %s does not fit uint64", nm.Name)
					}
					t.Consts = append(t.Consts, c20Const{nm.Name, u})
				}
			}
		default:
			return nil, fmt.Errorf("types.go: unexpected %s declaration at %s", gd.Tok, fset.Position(gd.Pos()))
		}
	}

	// ---- constants of the generated types declared in OTHER files of the package (e.g. added by hand next to
	// types.go): the stringer only sees types.go, so such a constant has no entry in the string tables; the
	// property quantifies over every named constant of the type
	ents, err := os.ReadDir(repoRoot)
	if err != nil {
		return nil, err
	}
	for _, e := range ents {
		n := e.Name()
		if e.IsDir() || !strings.HasSuffix(n, ".go") || strings.HasSuffix(n, "_test.go") || n == "types.go" || n == "types_string.go" {
			continue
		}
		src, err := os.ReadFile(filepath.Join(repoRoot, n))
		if err != nil {
			return nil, err
		}
		if strings.Contains(string(src[:min(len(src), 400)]), "//go:build") {
			continue // build-tag guarded files (instrumentation hooks, fuzzing) are not part of the default package
		}
		of, err := parser.ParseFile(fset, filepath.Join(repoRoot, n), src, 0)
		if err != nil {
			return nil, err
		}
		if of.Name.Name != "fit" {
			continue
		}
		for _, decl := range of.Decls {
			gd, ok := decl.(*ast.GenDecl)
			if !ok || gd.Tok != token.CONST {
				continue
			}
			for _, sp := range gd.Specs {
				vs := sp.(*ast.ValueSpec)
				id, ok := vs.Type.(*ast.Ident)
				if !ok {
					continue
				}
				t := d.byName[id.Name]
				if t == nil {
					continue
				}
				for i, nm := range vs.Names {
					if nm.Name == "_" {
						continue
					}
					if i >= len(vs.Values) {
						return nil, fmt.Errorf("%s: constant %s of generated type %s has no literal value (iota?)", n, nm.Name, t.Name)
					}
					lit, ok := vs.Values[i].(*ast.BasicLit)
					if !ok || lit.Kind != token.INT {
						return nil, fmt.Errorf("%s: constant %s of generated type %s is not an integer literal", n, nm.Name, t.Name)
					}
					u, err := strconv.ParseUint(lit.Value, 0, 64)
					if err != nil {
						return nil, fmt.Errorf("%s: constant %s: %v", n, nm.Name, err)
					}
					t.Consts = append(t.Consts, c20Const{nm.Name, u})
					d.Extra = append(d.Extra, n+":"+nm.Name)
				}
			}
		}
	}

	// ---- types_string.go
	if typesOnly {
		return d, nil
	}
	sf, err := parser.ParseFile(fset, d.StrPath, nil, parser.ParseComments)
	if err != nil {
		return nil, err
	}
	reList := regexp.MustCompile(`^// fit types: \[(.*)\]$`)
	for _, cg := range sf.Comments {
		for _, c := range cg.List {
			if m := reList.FindStringSubmatch(c.Text); m != nil {
				if d.Listed != nil {
					return nil, fmt.Errorf("types_string.go: two 'fit types' comments")
				}
				d.Listed = strings.Fields(m[1])
			}
		}
	}
	if d.Listed == nil {
		return nil, fmt.Errorf("types_string.go: no '// fit types: [...]' comment")
	}
	strConsts := map[string]string{}
	type idxVar struct {
		bits int
		vals []uint64
	}
	idxVars := map[string]idxVar{}
	type mapEnt struct {
		key    uint64
		name   string
		lo, hi uint64
	}
	type mapVar struct {
		keyType string
		ents    []mapEnt
	}
	mapVars := map[string]mapVar{}
	var methods []*ast.FuncDecl
	lit := func(e ast.Expr) (uint64, error) {
		bl, ok := e.(*ast.BasicLit)
		if !ok || bl.Kind != token.INT {
			return 0, fmt.Errorf("types_string.go:%s: expected an integer literal, found %s", fset.Position(e.Pos()), types.ExprString(e))
		}
		return strconv.ParseUint(bl.Value, 0, 64)
	}
	for _, decl := range sf.Decls {
		switch x := decl.(type) {
		case *ast.FuncDecl:
			if x.Recv == nil {
				if x.Name.Name != "_" {
					return nil, fmt.Errorf("types_string.go: unexpected function %s", x.Name.Name)
				}
				continue // the "constant values have changed" guard; not part of String
			}
			if x.Name.Name != "String" {
				return nil, fmt.Errorf("types_string.go: unexpected method %s", x.Name.Name)
			}
			methods = append(methods, x)
		case *ast.GenDecl:
			switch x.Tok {
			case token.IMPORT:
			case token.CONST:
				for _, s := range x.Specs {
					vs := s.(*ast.ValueSpec)
					if len(vs.Names) != 1 || len(vs.Values) != 1 || vs.Type != nil {
						return nil, fmt.Errorf("types_string.go:%s: unexpected const spec", fset.Position(vs.Pos()))
					}
					bl, ok := vs.Values[0].(*ast.BasicLit)
					if !ok || bl.Kind != token.STRING {
						return nil, fmt.Errorf("types_string.go:%s: const %s is not a string literal", fset.Position(vs.Pos()), vs.Names[0].Name)
					}
					sv, err := strconv.Unquote(bl.Value)
					if err != nil {
						return nil, err
					}
					if _, dup := strConsts[vs.Names[0].Name]; dup {
						return nil, fmt.Errorf("types_string.go: const %s declared twice", vs.Names[0].Name)
					}
					strConsts[vs.Names[0].Name] = sv
				}
			case token.VAR:
				for _, s := range x.Specs {
					vs := s.(*ast.ValueSpec)
					if len(vs.Names) != 1 || len(vs.Values) != 1 || vs.Type != nil {
						return nil, fmt.Errorf("types_string.go:%s: unexpected var spec", fset.Position(vs.Pos()))
					}
					name := vs.Names[0].Name
					cl, ok := vs.Values[0].(*ast.CompositeLit)
					if !ok {
						return nil, fmt.Errorf("types_string.go: var %s is not a composite literal", name)
					}
					switch ty := cl.Type.(type) {
					case *ast.ArrayType:
						if _, ok := ty.Len.(*ast.Ellipsis); !ok {
							return nil, fmt.Errorf("types_string.go: var %s: expected [...]uintN", name)
						}
						el, ok := ty.Elt.(*ast.Ident)
						if !ok {
							return nil, fmt.Errorf("types_string.go: var %s: element type", name)
						}
						bits := map[string]int{"uint8": 8, "uint16": 16, "uint32": 32}[el.Name]
						if bits == 0 {
							return nil, fmt.Errorf("types_string.go: var %s: element type %s", name, el.Name)
						}
						var vals []uint64
						for _, e := range cl.Elts {
							v, err := lit(e)
							if err != nil {
								return nil, err
							}
							if bits < 64 && v >= 1<<uint(bits) {
								return nil, fmt.Errorf("types_string.go: var %s: %d overflows uint%d", name, v, bits)
							}
							vals = append(vals, v)
						}
						idxVars[name] = idxVar{bits, vals}
					case *ast.MapType:
						k, ok1 := ty.Key.(*ast.Ident)
						v, ok2 := ty.Value.(*ast.Ident)
						if !ok1 || !ok2 || v.Name != "string" {
							return nil, fmt.Errorf("types_string.go: var %s: expected map[T]string", name)
						}
						mv := mapVar{keyType: k.Name}
						seen := map[uint64]bool{}
						for _, e := range cl.Elts {
							kv, ok := e.(*ast.KeyValueExpr)
							if !ok {
								return nil, fmt.Errorf("types_string.go: var %s: element without key", name)
							}
							key, err := lit(kv.Key)
							if err != nil {
								return nil, err
							}
							if seen[key] {
								return nil, fmt.Errorf("types_string.go: var %s: duplicate key %d", name, key)
							}
							seen[key] = true
							se, ok := kv.Value.(*ast.SliceExpr)
							if !ok || se.Slice3 || se.Low == nil || se.High == nil {
								return nil, fmt.Errorf("types_string.go: var %s: value of key %d is not name[a:b]", name, key)
							}
							id, ok := se.X.(*ast.Ident)
							if !ok {
								return nil, fmt.Errorf("types_string.go: var %s: value of key %d is not name[a:b]", name, key)
							}
							lo, err := lit(se.Low)
							if err != nil {
								return nil, err
							}
							hi, err := lit(se.High)
							if err != nil {
								return nil, err
							}
							mv.ents = append(mv.ents, mapEnt{key, id.Name, lo, hi})
						}
						mapVars[name] = mv
					default:
						return nil, fmt.Errorf("types_string.go: var %s: unexpected literal type", name)
					}
				}
			default:
				return nil, fmt.Errorf("types_string.go: unexpected %s declaration", x.Tok)
			}
		default:
			return nil, fmt.Errorf("types_string.go: unexpected declaration")
		}
	}

	reFallback := regexp.MustCompile(`^("(?:[^"\\]|\\.)*") \+ strconv\.FormatInt\(int64\(i(?: \+ ([0-9]+))?\), 10\) \+ ("(?:[^"\\]|\\.)*")$`)
	reSlice := regexp.MustCompile(`^(\w+)\[(\w+)\[i\]:(\w+)\[i \+ 1\]\]$`)
	reOneCond := regexp.MustCompile(`^i >= (\w+)\(len\((\w+)\) - 1\)$`)
	reEq := regexp.MustCompile(`^i == ([0-9]+)$`)
	reRange := regexp.MustCompile(`^([0-9]+) <= i && i <= ([0-9]+)$`)
	reIdent := regexp.MustCompile(`^\w+$`)
	pu := func(s string) (uint64, error) { return strconv.ParseUint(s, 10, 64) }

	for _, fd := range methods {
		pos := fset.Position(fd.Pos())
		bad := func(format string, a ...interface{}) error {
			return fmt.Errorf("types_string.go:%d: String method of an unknown shape: %s", pos.Line, fmt.Sprintf(format, a...))
		}
		if len(fd.Recv.List) != 1 || len(fd.Recv.List[0].Names) != 1 || fd.Recv.List[0].Names[0].Name != "i" {
			return nil, bad("receiver is not (i T)")
		}
		rt, ok := fd.Recv.List[0].Type.(*ast.Ident)
		if !ok {
			return nil, bad("receiver type")
		}
		if fd.Type.Params.NumFields() != 0 || fd.Type.Results.NumFields() != 1 || types.ExprString(fd.Type.Results.List[0].Type) != "string" {
			return nil, bad("signature")
		}
		T := rt.Name
		t := d.byName[T]
		if t == nil {
			return nil, fmt.Errorf("types_string.go:%d: String method for %s, which types.go does not declare", pos.Line, T)
		}
		if t.m != nil {
			return nil, fmt.Errorf("types_string.go:%d: second String method for %s", pos.Line, T)
		}
		m := &c20Method{}
		fallback := func(st ast.Stmt) (add *uint64, err error) {
			rs, ok := st.(*ast.ReturnStmt)
			if !ok || len(rs.Results) != 1 {
				return nil, bad("fallback is not a single return")
			}
			g := reFallback.FindStringSubmatch(types.ExprString(rs.Results[0]))
			if g == nil {
				return nil, bad("fallback %s", types.ExprString(rs.Results[0]))
			}
			if m.pre, err = strconv.Unquote(g[1]); err != nil {
				return nil, err
			}
			if m.post, err = strconv.Unquote(g[3]); err != nil {
				return nil, err
			}
			if g[2] != "" {
				v, err := pu(g[2])
				if err != nil {
					return nil, err
				}
				add = &v
			}
			return add, nil
		}
		sliceRet := func(st ast.Stmt) (name string, bits int, index []uint64, idxName string, err error) {
			rs, ok := st.(*ast.ReturnStmt)
			if !ok || len(rs.Results) != 1 {
				return "", 0, nil, "", bad("expected return name[index[i]:index[i+1]]")
			}
			g := reSlice.FindStringSubmatch(types.ExprString(rs.Results[0]))
			if g == nil || g[2] != g[3] {
				return "", 0, nil, "", bad("return %s", types.ExprString(rs.Results[0]))
			}
			nm, ok1 := strConsts[g[1]]
			iv, ok2 := idxVars[g[2]]
			if !ok1 || !ok2 {
				return "", 0, nil, "", bad("return %s refers to undeclared tables", types.ExprString(rs.Results[0]))
			}
			return nm, iv.bits, iv.vals, g[2], nil
		}
		subStmt := func(st ast.Stmt) (*uint64, bool) {
			as, ok := st.(*ast.AssignStmt)
			if !ok || as.Tok != token.SUB_ASSIGN || len(as.Lhs) != 1 || len(as.Rhs) != 1 || types.ExprString(as.Lhs[0]) != "i" {
				return nil, false
			}
			v, err := lit(as.Rhs[0])
			if err != nil {
				return nil, false
			}
			return &v, true
		}
		body := fd.Body.List
		switch {
		case len(body) == 1:
			// multiple runs
			sw, ok := body[0].(*ast.SwitchStmt)
			if !ok || sw.Init != nil || sw.Tag != nil {
				return nil, bad("single statement that is not a tagless switch")
			}
			m.shape = "multi"
			sawDefault := false
			for k, cs := range sw.Body.List {
				cc := cs.(*ast.CaseClause)
				if cc.List == nil {
					if k != len(sw.Body.List)-1 {
						return nil, bad("default is not the last case")
					}
					if len(cc.Body) != 1 {
						return nil, bad("default body")
					}
					add, err := fallback(cc.Body[0])
					if err != nil {
						return nil, err
					}
					if add != nil {
						return nil, bad("default adds an offset")
					}
					sawDefault = true
					continue
				}
				if len(cc.List) != 1 {
					return nil, bad("case with several expressions")
				}
				cond := types.ExprString(cc.List[0])
				if g := reEq.FindStringSubmatch(cond); g != nil {
					v, err := pu(g[1])
					if err != nil {
						return nil, err
					}
					if len(cc.Body) != 1 {
						return nil, bad("case %s body", cond)
					}
					rs, ok := cc.Body[0].(*ast.ReturnStmt)
					if !ok || len(rs.Results) != 1 || !reIdent.MatchString(types.ExprString(rs.Results[0])) {
						return nil, bad("case %s body", cond)
					}
					nm, ok := strConsts[types.ExprString(rs.Results[0])]
					if !ok {
						return nil, bad("case %s returns an undeclared name", cond)
					}
					m.cases = append(m.cases, c20Case{single: true, lo: v, hi: v, name: nm})
					continue
				}
				g := reRange.FindStringSubmatch(cond)
				if g == nil {
					return nil, bad("case %s", cond)
				}
				lo, err := pu(g[1])
				if err != nil {
					return nil, err
				}
				hi, err := pu(g[2])
				if err != nil {
					return nil, err
				}
				c := c20Case{lo: lo, hi: hi}
				b := cc.Body
				if len(b) == 2 {
					s, ok := subStmt(b[0])
					if !ok {
						return nil, bad("case %s body", cond)
					}
					c.sub = s
					b = b[1:]
				}
				if len(b) != 1 {
					return nil, bad("case %s body", cond)
				}
				if c.name, c.idxBits, c.index, _, err = sliceRet(b[0]); err != nil {
					return nil, err
				}
				m.cases = append(m.cases, c)
			}
			if !sawDefault {
				return nil, bad("switch without default")
			}
		case len(body) == 2 || len(body) == 3:
			ifIdx := len(body) - 2
			if len(body) == 3 {
				s, ok := subStmt(body[0])
				if !ok {
					return nil, bad("first statement is not i -= K")
				}
				m.sub = s
			}
			ifs, ok := body[ifIdx].(*ast.IfStmt)
			if !ok || ifs.Else != nil || len(ifs.Body.List) != 1 {
				return nil, bad("expected if ... { return ... }")
			}
			if ifs.Init != nil {
				// map
				if len(body) != 2 {
					return nil, bad("offset before a map lookup")
				}
				as, ok := ifs.Init.(*ast.AssignStmt)
				if !ok || as.Tok != token.DEFINE || len(as.Lhs) != 2 || len(as.Rhs) != 1 ||
					types.ExprString(as.Lhs[0]) != "str" || types.ExprString(as.Lhs[1]) != "ok" || types.ExprString(ifs.Cond) != "ok" {
					return nil, bad("map lookup")
				}
				ix, ok := as.Rhs[0].(*ast.IndexExpr)
				if !ok || types.ExprString(ix.Index) != "i" {
					return nil, bad("map lookup")
				}
				mv, ok := mapVars[types.ExprString(ix.X)]
				if !ok {
					return nil, bad("lookup in undeclared map %s", types.ExprString(ix.X))
				}
				if mv.keyType != T {
					return nil, bad("map key type %s", mv.keyType)
				}
				rs, ok := ifs.Body.List[0].(*ast.ReturnStmt)
				if !ok || len(rs.Results) != 1 || types.ExprString(rs.Results[0]) != "str" {
					return nil, bad("map hit does not return str")
				}
				add, err := fallback(body[1])
				if err != nil {
					return nil, err
				}
				if add != nil {
					return nil, bad("map fallback adds an offset")
				}
				m.shape = "map"
				nameID := ""
				for _, e := range mv.ents {
					if nameID == "" {
						nameID = e.name
					}
					if e.name != nameID {
						return nil, bad("map entries slice different strings")
					}
					m.entries = append(m.entries, c20MapEntry{e.key, e.lo, e.hi})
				}
				nm, ok := strConsts[nameID]
				if !ok {
					return nil, bad("map entries slice undeclared %s", nameID)
				}
				m.name = nm
			} else {
				// one run
				g := reOneCond.FindStringSubmatch(types.ExprString(ifs.Cond))
				if g == nil || g[1] != T {
					return nil, bad("condition %s", types.ExprString(ifs.Cond))
				}
				add, err := fallback(ifs.Body.List[0])
				if err != nil {
					return nil, err
				}
				m.add = add
				var idxName string
				if m.name, m.idxBits, m.index, idxName, err = sliceRet(body[ifIdx+1]); err != nil {
					return nil, err
				}
				if idxName != g[2] {
					return nil, bad("bound uses len(%s), slice uses %s", g[2], idxName)
				}
				m.shape = "one"
			}
		default:
			return nil, bad("%d statements", len(body))
		}
		t.m = m
	}
	for _, t := range d.Types {
		if t.m == nil {
			return nil, fmt.Errorf("types_string.go: generated type %s has no String method", t.Name)
		}
		if len(t.Consts) == 0 {
			return nil, fmt.Errorf("types.go: generated type %s has no constants", t.Name)
		}
	}
	return d, nil
}

func coqNList(v []uint64) string {
	var sb strings.Builder
	sb.WriteString("[")
	for i, x := range v {
		if i > 0 {
			sb.WriteString("; ")
		}
		sb.WriteString(strconv.FormatUint(x, 10))
	}
	sb.WriteString("]")
	return sb.String()
}

func coqOptN(p *uint64) string {
	if p == nil {
		return "None"
	}
	return fmt.Sprintf("(Some %d)", *p)
}

func c20CoqStr(s string) (string, error) {
	for i := 0; i < len(s); i++ {
		if s[i] < 32 || s[i] > 126 {
			return "", fmt.Errorf("non-printable or non-ASCII byte %d in string %q", s[i], s)
		}
	}
	return "\"" + strings.ReplaceAll(s, "\"", "\"\"") + "\"", nil
}

func genTypesData() (*coqFile, error) {
	d, err := c20Parse()
	if err != nil {
		return nil, err
	}
	c := &coqFile{name: "TypesData.v"}
	c.p(genHeader)
	c.p("(* Source: types.go (constants, go/types) and types_string.go (String methods and tables as written). *)\n")
	c.p("From Coq Require Import NArith List String.\nFrom FitV Require Import Model.Stringer.\nImport ListNotations.\nLocal Open Scope N_scope.\nLocal Open Scope string_scope.\n\n")
	var qerr error
	q := func(s string) string {
		r, err := c20CoqStr(s)
		if err != nil && qerr == nil {
			qerr = err
		}
		return r
	}
	var names []string
	for _, t := range d.Types {
		var cs []string
		for _, k := range t.Consts {
			cs = append(cs, fmt.Sprintf("(%s, %d)", q(k.Name), k.Value))
		}
		m := t.m
		var shape string
		switch m.shape {
		case "one":
			shape = fmt.Sprintf("SOne %s %s %s %d %s", coqOptN(m.sub), coqOptN(m.add), q(m.name), m.idxBits, coqNList(m.index))
		case "multi":
			var cc []string
			for _, k := range m.cases {
				if k.single {
					cc = append(cc, fmt.Sprintf("CEq %d %s", k.lo, q(k.name)))
				} else {
					cc = append(cc, fmt.Sprintf("CRange %d %d %s %s %d %s", k.lo, k.hi, coqOptN(k.sub), q(k.name), k.idxBits, coqNList(k.index)))
				}
			}
			shape = "SMulti [\n      " + strings.Join(cc, ";\n      ") + "]"
		case "map":
			var ee []string
			for _, e := range m.entries {
				ee = append(ee, fmt.Sprintf("(%d, (%d, %d))", e.key, e.lo, e.hi))
			}
			shape = fmt.Sprintf("SMap %s\n      [%s]", q(m.name), strings.Join(ee, "; "))
		}
		c.p("Definition ty_%s : gtype := mk_gtype %s %d %s\n  [%s]\n  (mk_strmethod %s %s\n    (%s)).\n\n",
			t.Name, q(t.Name), t.Bits, coqBool(t.Signed), strings.Join(cs, ";\n   "), q(m.pre), q(m.post), shape)
		names = append(names, "ty_"+t.Name)
	}
	if qerr != nil {
		return nil, qerr
	}
	c.p("Definition types : list gtype := [\n  %s].\n\n", strings.Join(names, ";\n  "))
	var ls []string
	for _, n := range d.Listed {
		ls = append(ls, q(n))
	}
	c.p("(* the '// fit types: [...]' comment of types_string.go *)\nDefinition listed_types : list string := [%s].\n", strings.Join(ls, "; "))
	return c, nil
}
