(* C04 handlers: spec verdicts (extracted Spec/Integrity.v, Spec/Burst.v) and, through the main extracted
   model (Fitmodel), the verdicts of Decode / CheckIntegrity on corrupted files. *)
module S = Fitmodel_c04
module F = Fitmodel

let rec s_pos_of_int i =
  if i <= 1 then S.XH else if i land 1 = 0 then S.XO (s_pos_of_int (i lsr 1)) else S.XI (s_pos_of_int (i lsr 1))
let s_n_of_int i = if i = 0 then S.N0 else S.Npos (s_pos_of_int i)
let rec s_int_of_pos = function S.XH -> 1 | S.XO p -> 2 * s_int_of_pos p | S.XI p -> (2 * s_int_of_pos p) + 1
let s_int_of_n = function S.N0 -> 0 | S.Npos p -> s_int_of_pos p
let rec s_int_of_nat = function S.O -> 0 | S.S n -> 1 + s_int_of_nat n

let hexval c =
  match c with
  | '0' .. '9' -> Char.code c - 48
  | 'a' .. 'f' -> Char.code c - 87
  | 'A' .. 'F' -> Char.code c - 55
  | _ -> failwith "bad hex"

let ints_of_hex (s : string) : int list =
  if s = "-" then []
  else begin
    let len = String.length s / 2 in
    let rec go i acc = if i < 0 then acc else go (i - 1) (((hexval s.[2 * i] lsl 4) lor hexval s.[(2 * i) + 1]) :: acc) in
    go (len - 1) []
  end

let s_bytes l = List.map s_n_of_int l
let f_bytes l = List.map Conv.n_of_int l

let s_err_name (e : S.err) =
  match e with
  | S.EReadSizeEOF -> "ReadSizeEOF" | S.EReadSize -> "ReadSize" | S.EHeaderSize -> "HeaderSize"
  | S.EReadData -> "ReadData" | S.EProto -> "Proto" | S.ENotFit -> "NotFit" | S.EHdrCRC -> "HdrCRC"
  | S.EParseData -> "ParseData" | S.EFileCRCRead -> "FileCRCRead" | S.EFileCRC -> "FileCRC"
  | _ -> "Other"

(* "<class>:<name>", class 0 nil, 1 error, 2 IntegrityError *)
let s_show (v : S.err option) =
  match v with None -> "0:nil" | Some e -> Printf.sprintf "%d:%s" (if S.is_integrity e then 2 else 1) (s_err_name e)

let f_class (t : F.dres F.tout) =
  match t with
  | F.TDone r -> ( match r.F.dr_err with None -> "0" | Some e -> if F.is_integrity e then "2" else "1")
  | F.TPanic _ -> "P"
  | F.TOutOfFuel -> "X"

let g0 = { F.g_dist = None; F.g_cycles = None; F.g_power = None }

let f_reader (data : int list) =
  { F.rd_data = f_bytes data; F.rd_sched = []; F.rd_term = F.TEOF; F.rd_ewd = false; F.rd_pos = F.O }

let parse_bursts s =
  if s = "-" then []
  else
    List.map
      (fun t -> match String.split_on_char ':' t with [ o; p ] -> (int_of_string o, int_of_string p) | _ -> failwith "burst")
      (String.split_on_char ',' s)

(* c04_verdict <hex> -> "<spec verdict (arc)> <spec verdict (table checksum)> <frame_len>" *)
let h_verdict args =
  match args with
  | [ h ] ->
      let bs = s_bytes (ints_of_hex h) in
      Printf.sprintf "%s %s %d" (s_show (S.c04_verdict bs)) (s_show (S.c04_verdict_m bs)) (s_int_of_nat (S.frame_len bs))
  | _ -> "ERR args"

(* c04_bursts <mode> <filehex> <off:p,...>
   per burst, space separated: "<in_domain 0|1>,<spec verdict>,<arc of the corrupted string, 4 hex>[,<model Decode class><model CheckIntegrity class>]"
   mode: a = spec verdict with the bitwise arc; t = with the table checksum; M = a + the decoder model *)
let h_bursts args =
  match args with
  | [ mode; h; bl ] ->
      let ints = ints_of_hex h in
      let bs = s_bytes ints in
      let b = Buffer.create 4096 in
      List.iteri
        (fun i (off, p) ->
          if i > 0 then Buffer.add_char b ' ';
          let off = s_n_of_int off and p = s_n_of_int p in
          let dom = S.c04_in_domain bs off p in
          let cor = S.c04_corrupt bs off p in
          let v = if mode = "t" then S.c04_verdict_m cor else S.c04_verdict cor in
          let sum = if mode = "t" then S.checksum cor else S.arc cor in
          Buffer.add_string b (Printf.sprintf "%d,%s,%04x" (if dom then 1 else 0) (s_show v) (s_int_of_n sum));
          if mode = "M" then begin
            let data = List.map s_int_of_n cor in
            let fuel = Conv.nat_of_int (List.length data + 16) in
            let d = F.entry_Decode F.no_opts g0 (f_reader data) fuel in
            let c = F.entry_CheckIntegrity false g0 (f_reader data) fuel in
            Buffer.add_string b ("," ^ f_class d ^ f_class c)
          end)
        (parse_bursts bl);
      Buffer.contents b
  | _ -> "ERR args"

(* c04_hdr <hex> -> "<header stage verdict (arc)> <Header.CheckIntegrity on the parsed header: 0 nil|1 error|2 integrity>" *)
let h_hdr args =
  match args with
  | [ h ] ->
      let bs = s_bytes (ints_of_hex h) in
      let hci = match S.c04_hci bs with None -> 0 | Some true -> 2 | Some false -> 1 in
      Printf.sprintf "%s %d" (s_show (S.c04_header_stage bs)) hci
  | _ -> "ERR args"

(* c04_hval <size> <proto> <profile> <datasize> <datatype hex> <crc> -> Header.CheckIntegrity of that Header value: 0 nil | 1 error | 2 integrity *)
let h_hval args =
  match args with
  | [ sz; pr; pf; ds; dt; crc ] ->
      let n x = s_n_of_int (int_of_string x) in
      (match S.c04_hci_value (n sz) (n pr) (n pf) (n ds) (s_bytes (ints_of_hex dt)) (n crc) with
       | None -> "0" | Some true -> "2" | Some false -> "1")
  | _ -> "ERR args"

(* c04_msb <n> <sh> <p> -> hex of the MSB-first error string and its arc *)
let h_msb args =
  match args with
  | [ n; sh; p ] ->
      let rec nat i = if i <= 0 then S.O else S.S (nat (i - 1)) in
      let e = S.burst_msb (nat (int_of_string n)) (s_n_of_int (int_of_string sh)) (s_n_of_int (int_of_string p)) in
      let b = Buffer.create 16 in
      List.iter (fun x -> Buffer.add_string b (Printf.sprintf "%02x" (s_int_of_n x))) e;
      Printf.sprintf "%s %d" (Buffer.contents b) (s_int_of_n (S.arc e))
  | _ -> "ERR args"

let install (register : string -> (string list -> string) -> unit) =
  register "c04_verdict" h_verdict;
  register "c04_bursts" h_bursts;
  register "c04_hdr" h_hdr;
  register "c04_hval" h_hval;
  register "c04_msb" h_msb
