(* Request handlers around the extracted decoder model: parsing of requests and
   canonical printing of results. The same canonical form is produced by the Go
   harness (canon.go) for the implementation's results. *)
module F = Fitmodel
open Conv

let buf_add = Buffer.add_string

let rec show_val b (v : F.goval) =
  match v with
  | F.VU n -> buf_add b "u"; buf_add b (string_of_int (int_of_n n))
  | F.VI z -> buf_add b "i"; buf_add b (string_of_int (int_of_z z))
  | F.VF n -> buf_add b "f"; buf_add b (string_of_int (int_of_n n))
  | F.VStr s -> buf_add b "s"; List.iter (fun x -> buf_add b (Printf.sprintf "%02x" (int_of_n x))) s
  | F.VTime (sec, nsec, zone) ->
      buf_add b "t";
      buf_add b (string_of_int (int_of_z sec));
      buf_add b ".";
      buf_add b (string_of_int (int_of_n nsec));
      buf_add b ".";
      (match zone with None -> buf_add b "u" | Some o -> buf_add b (string_of_int (int_of_z o)))
  | F.VLat z -> buf_add b "a"; buf_add b (string_of_int (int_of_z z))
  | F.VLng z -> buf_add b "o"; buf_add b (string_of_int (int_of_z z))
  | F.VNil -> buf_add b "n"
  | F.VList l ->
      buf_add b "l(";
      List.iteri (fun i x -> if i > 0 then buf_add b ","; show_val b x) l;
      buf_add b ")"
  | F.VOther -> buf_add b "x"

let show_msg b (m : F.msg) =
  buf_add b (string_of_int (int_of_n m.F.m_num));
  buf_add b "[";
  List.iteri (fun i v -> if i > 0 then buf_add b ";"; show_val b v) m.F.m_fields;
  buf_add b "]"

let show_header b (h : F.header) =
  buf_add b
    (Printf.sprintf "%d,%d,%d,%d,%s,%d" (int_of_n h.F.h_size) (int_of_n h.F.h_proto) (int_of_n h.F.h_profile)
       (int_of_n h.F.h_dsize) (hex_of_bytes h.F.h_dtype) (int_of_n h.F.h_crc))

let show_file b (f : F.file) =
  buf_add b "H";
  show_header b f.F.f_header;
  buf_add b ";C";
  buf_add b (string_of_int (int_of_n f.F.f_crc));
  buf_add b ";T";
  (match f.F.f_inited with
  | None -> buf_add b "-"
  | Some ft -> (
      match F.ft_entry ft with
      | Some ((_, cname), _) -> buf_add b (ocaml_string cname)
      | None -> buf_add b "?"));
  buf_add b ";S";
  List.iteri
    (fun i slot ->
      buf_add b "|";
      buf_add b (string_of_int i);
      buf_add b ":";
      List.iteri (fun j m -> if j > 0 then buf_add b "&"; show_msg b m) slot)
    f.F.f_slots;
  buf_add b ";UM";
  (match f.F.f_unkm with
  | None -> buf_add b "nil"
  | Some l ->
      buf_add b "(";
      List.iteri (fun i (m, c) -> if i > 0 then buf_add b ","; buf_add b (Printf.sprintf "%d:%d" (int_of_n m) (int_of_n c))) l;
      buf_add b ")");
  buf_add b ";UF";
  match f.F.f_unkf with
  | None -> buf_add b "nil"
  | Some l ->
      buf_add b "(";
      List.iteri
        (fun i ((m, fd), c) ->
          if i > 0 then buf_add b ",";
          buf_add b (Printf.sprintf "%d.%d:%d" (int_of_n m) (int_of_n fd) (int_of_n c)))
        l;
      buf_add b ")"

let show_accum (a : F.accum option) =
  match a with
  | None -> "-"
  | Some a -> Printf.sprintf "%d,%d,%d" (int_of_n a.F.ac_value) (int_of_n a.F.ac_last) (int_of_n a.F.ac_mask)

let show_gstate (g : F.gstate) =
  Printf.sprintf "%s/%s/%s" (show_accum g.F.g_dist) (show_accum g.F.g_cycles) (show_accum g.F.g_power)

let parse_accum s =
  if s = "-" then None
  else
    match String.split_on_char ',' s with
    | [ v; l; m ] ->
        Some { F.ac_value = n_of_int (int_of_string v); F.ac_last = n_of_int (int_of_string l); F.ac_mask = n_of_int (int_of_string m) }
    | _ -> failwith "bad accum"

let parse_gstate s =
  match String.split_on_char '/' s with
  | [ d; c; p ] -> { F.g_dist = parse_accum d; F.g_cycles = parse_accum c; F.g_power = parse_accum p }
  | _ -> failwith "bad gstate"

let err_name (e : F.err) =
  match e with
  | F.EReadSizeEOF -> "ReadSizeEOF" | F.EReadSize -> "ReadSize" | F.EHeaderSize -> "HeaderSize"
  | F.EReadData -> "ReadData" | F.EProto -> "Proto" | F.ENotFit -> "NotFit" | F.EHdrCRC -> "HdrCRC"
  | F.EParseData -> "ParseData" | F.EFileCRCRead -> "FileCRCRead" | F.EFileCRC -> "FileCRC"
  | F.EIO F.IOBeyond -> "IOBeyond" | F.EIO F.IOUnexpectedEOF -> "IOUnexpectedEOF" | F.EIO F.IOFault -> "IOFault"
  | F.ERecordHeader -> "RecordHeader" | F.ENotDef -> "NotDef" | F.ENotFileIdDef -> "NotFileIdDef"
  | F.ENotFileIdMsg -> "NotFileIdMsg" | F.EArch -> "Arch" | F.EGlobalInvalid -> "GlobalInvalid"
  | F.EValidate -> "Validate" | F.EMissingDef -> "MissingDef" | F.EFileType -> "FileType" | F.EParseField -> "ParseField"

(* err=0 nil, 1 error, 2 IntegrityError *)
let show_err (e : F.err option) =
  match e with
  | None -> "err=0:nil"
  | Some e -> Printf.sprintf "err=%d:%s" (if F.is_integrity e then 2 else 1) (err_name e)

let show_quirks q = String.concat "," (List.map (fun x -> string_of_int (int_of_n x)) q)

let parse_sched s =
  if s = "-" then [] else List.map (fun x -> nat_of_int (int_of_string x)) (String.split_on_char ',' s)

let mk_reader data term ewd sched =
  { F.rd_data = bytes_of_hex data;
    F.rd_sched = parse_sched sched;
    F.rd_term = (if term = "f" then F.TFault else F.TEOF);
    F.rd_ewd = (ewd = "1");
    F.rd_pos = F.O }

let parse_opts s =
  { F.o_logger = s.[0] = '1'; F.o_unkf = s.[1] = '1'; F.o_unkm = s.[2] = '1' }

(* decode <entry> <opts> <datahex> <term e|f> <ewd 0|1> <sched|-> <gstate>
   entry: D Decode | C DecodeChained | I CheckIntegrity(false) | J CheckIntegrity(true) | H DecodeHeader | F DecodeHeaderAndFileID *)
let h_decode args =
  match args with
  | [ entry; opts; data; term; ewd; sched; g ] ->
      let rd = mk_reader data term ewd sched in
      let fuel = nat_of_int (List.length rd.F.rd_data + List.length rd.F.rd_sched + 16) in
      let g = parse_gstate g in
      let o = parse_opts opts in
      let b = Buffer.create 4096 in
      let show_dres (r : F.dres) =
        buf_add b "R ";
        buf_add b (show_err r.F.dr_err);
        buf_add b (Printf.sprintf " pos=%d hdr=" (int_of_nat r.F.dr_rd.F.rd_pos));
        show_header b r.F.dr_hdr;
        buf_add b " g=";
        buf_add b (show_gstate r.F.dr_g);
        buf_add b " q=";
        buf_add b (show_quirks r.F.dr_quirks);
        buf_add b " file=";
        match r.F.dr_file with None -> buf_add b "nil" | Some f -> show_file b f
      in
      let out (t : F.dres F.tout) =
        match t with
        | F.TDone r -> show_dres r
        | F.TPanic w -> buf_add b (Printf.sprintf "P %d" (int_of_n w))
        | F.TOutOfFuel -> buf_add b "X"
      in
      (match entry with
      | "D" -> out (F.entry_Decode o g rd fuel)
      | "I" -> out (F.entry_CheckIntegrity false g rd fuel)
      | "J" -> out (F.entry_CheckIntegrity true g rd fuel)
      | "H" -> out (F.entry_DecodeHeader g rd fuel)
      | "F" -> out (F.entry_DecodeHeaderAndFileID g rd fuel)
      | "C" -> (
          match F.entry_DecodeChained o g rd fuel with
          | F.TPanic w -> buf_add b (Printf.sprintf "P %d" (int_of_n w))
          | F.TOutOfFuel -> buf_add b "X"
          | F.TDone r ->
              buf_add b "R ";
              buf_add b (show_err r.F.cr_err);
              buf_add b (Printf.sprintf " pos=%d" (int_of_nat r.F.cr_rd.F.rd_pos));
              buf_add b " g=";
              buf_add b (show_gstate r.F.cr_g);
              buf_add b " q=";
              buf_add b (show_quirks r.F.cr_quirks);
              buf_add b (Printf.sprintf " files=%d" (List.length r.F.cr_files));
              List.iter (fun f -> buf_add b " file="; show_file b f) r.F.cr_files)
      | _ -> buf_add b "ERR entry");
      Buffer.contents b
  | _ -> "ERR args"

(* validate <gmn> <num> <size> <btype> -> ok | err | panic *)
let h_validate args =
  match args with
  | [ g; n; s; t ] -> (
      let fd = { F.fd_num = n_of_int (int_of_string n); F.fd_size = n_of_int (int_of_string s); F.fd_btype = n_of_int (int_of_string t) } in
      match F.validate_field_def (n_of_int (int_of_string g)) fd with
      | F.VOk -> "ok"
      | F.VErr -> "err"
      | F.VPanic _ -> "panic")
  | _ -> "ERR args"

(* validate_row <gmn> <num> <btype> -> 256 chars o/e/p for sizes 0..255 *)
let h_validate_row args =
  match args with
  | [ g; n; t ] ->
      let b = Bytes.create 256 in
      for s = 0 to 255 do
        let fd = { F.fd_num = n_of_int (int_of_string n); F.fd_size = n_of_int s; F.fd_btype = n_of_int (int_of_string t) } in
        Bytes.set b s
          (match F.validate_field_def (n_of_int (int_of_string g)) fd with F.VOk -> 'o' | F.VErr -> 'e' | F.VPanic _ -> 'p')
      done;
      Bytes.to_string b
  | _ -> "ERR args"

(* profile_wf_report -> "ok" or "msg.field.code msg.field.code ..." *)
let h_profile_wf _ =
  if F.profile_wf then "ok"
  else
    String.concat " "
      (List.map (fun ((m, f), c) -> Printf.sprintf "%d.%d.%d" (int_of_n m) (int_of_n f) (int_of_n c)) F.profile_wf_report)

let install (register : string -> (string list -> string) -> unit) =
  register "profile_wf" h_profile_wf;
  register "decode" h_decode;
  register "validate" h_validate;
  register "validate_row" h_validate_row
