(* Request handlers around the extracted decoder model: parsing of requests and
   canonical printing of results. The same canonical form is produced by the Go
   harness (canon.go) for the implementation's results. *)
module F = Fitmodel
open Conv

let buf_add = Buffer.add_string

let rec show_val b (v : F.goval) =
  match v with
  | F.VU n -> buf_add b "u"; buf_add b (string_of_int (int_of_n n))
  | F.VI z -> buf_add b "i"; buf_add b (string_of_int (int_of_z z))
  | F.VF n -> buf_add b "f"; buf_add b (string_of_int (int_of_n n))
  | F.VStr s -> buf_add b "s"; List.iter (fun x -> buf_add b (Printf.sprintf "%02x" (int_of_n x))) s
  | F.VTime (sec, nsec, zone) ->
      buf_add b "t";
      buf_add b (string_of_int (int_of_z sec));
      buf_add b ".";
      buf_add b (string_of_int (int_of_n nsec));
      buf_add b ".";
      (match zone with None -> buf_add b "u" | Some o -> buf_add b (string_of_int (int_of_z o)))
  | F.VLat z -> buf_add b "a"; buf_add b (string_of_int (int_of_z z))
  | F.VLng z -> buf_add b "o"; buf_add b (string_of_int (int_of_z z))
  | F.VNil -> buf_add b "n"
  | F.VList l ->
      buf_add b "l(";
      List.iteri (fun i x -> if i > 0 then buf_add b ","; show_val b x) l;
      buf_add b ")"
  | F.VOther -> buf_add b "x"

let show_msg b (m : F.msg) =
  buf_add b (string_of_int (int_of_n m.F.m_num));
  buf_add b "[";
  List.iteri (fun i v -> if i > 0 then buf_add b ";"; show_val b v) m.F.m_fields;
  buf_add b "]"

let show_header b (h : F.header) =
  buf_add b
    (Printf.sprintf "%d,%d,%d,%d,%s,%d" (int_of_n h.F.h_size) (int_of_n h.F.h_proto) (int_of_n h.F.h_profile)
       (int_of_n h.F.h_dsize) (hex_of_bytes h.F.h_dtype) (int_of_n h.F.h_crc))

let show_file b (f : F.file) =
  buf_add b "H";
  show_header b f.F.f_header;
  buf_add b ";C";
  buf_add b (string_of_int (int_of_n f.F.f_crc));
  buf_add b ";T";
  (match f.F.f_inited with
  | None -> buf_add b "-"
  | Some ft -> (
      match F.ft_entry ft with
      | Some ((_, cname), _) -> buf_add b (ocaml_string cname)
      | None -> buf_add b "?"));
  buf_add b ";S";
  List.iteri
    (fun i slot ->
      buf_add b "|";
      buf_add b (string_of_int i);
      buf_add b ":";
      List.iteri (fun j m -> if j > 0 then buf_add b "&"; show_msg b m) slot)
    f.F.f_slots;
  buf_add b ";UM";
  (match f.F.f_unkm with
  | None -> buf_add b "nil"
  | Some l ->
      buf_add b "(";
      List.iteri (fun i (m, c) -> if i > 0 then buf_add b ","; buf_add b (Printf.sprintf "%d:%d" (int_of_n m) (int_of_n c))) l;
      buf_add b ")");
  buf_add b ";UF";
  match f.F.f_unkf with
  | None -> buf_add b "nil"
  | Some l ->
      buf_add b "(";
      List.iteri
        (fun i ((m, fd), c) ->
          if i > 0 then buf_add b ",";
          buf_add b (Printf.sprintf "%d.%d:%d" (int_of_n m) (int_of_n fd) (int_of_n c)))
        l;
      buf_add b ")"

let show_accum (a : F.accum option) =
  match a with
  | None -> "-"
  | Some a -> Printf.sprintf "%d,%d,%d" (int_of_n a.F.ac_value) (int_of_n a.F.ac_last) (int_of_n a.F.ac_mask)

let show_gstate (g : F.gstate) =
  Printf.sprintf "%s/%s/%s" (show_accum g.F.g_dist) (show_accum g.F.g_cycles) (show_accum g.F.g_power)

let parse_accum s =
  if s = "-" then None
  else
    match String.split_on_char ',' s with
    | [ v; l; m ] ->
        Some { F.ac_value = n_of_int (int_of_string v); F.ac_last = n_of_int (int_of_string l); F.ac_mask = n_of_int (int_of_string m) }
    | _ -> failwith "bad accum"

let parse_gstate s =
  match String.split_on_char '/' s with
  | [ d; c; p ] -> { F.g_dist = parse_accum d; F.g_cycles = parse_accum c; F.g_power = parse_accum p }
  | _ -> failwith "bad gstate"

let err_name (e : F.err) =
  match e with
  | F.EReadSizeEOF -> "ReadSizeEOF" | F.EReadSize -> "ReadSize" | F.EHeaderSize -> "HeaderSize"
  | F.EReadData -> "ReadData" | F.EProto -> "Proto" | F.ENotFit -> "NotFit" | F.EHdrCRC -> "HdrCRC"
  | F.EParseData -> "ParseData" | F.EFileCRCRead -> "FileCRCRead" | F.EFileCRC -> "FileCRC"
  | F.EIO F.IOBeyond -> "IOBeyond" | F.EIO F.IOUnexpectedEOF -> "IOUnexpectedEOF" | F.EIO F.IOFault -> "IOFault"
  | F.ERecordHeader -> "RecordHeader" | F.ENotDef -> "NotDef" | F.ENotFileIdDef -> "NotFileIdDef"
  | F.ENotFileIdMsg -> "NotFileIdMsg" | F.EArch -> "Arch" | F.EGlobalInvalid -> "GlobalInvalid"
  | F.EValidate -> "Validate" | F.EMissingDef -> "MissingDef" | F.EFileType -> "FileType" | F.EParseField -> "ParseField"

(* err=0 nil, 1 error, 2 IntegrityError *)
let show_err (e : F.err option) =
  match e with
  | None -> "err=0:nil"
  | Some e -> Printf.sprintf "err=%d:%s" (if F.is_integrity e then 2 else 1) (err_name e)

let show_quirks q = String.concat "," (List.map (fun x -> string_of_int (int_of_n x)) q)

let parse_sched s =
  if s = "-" then [] else List.map (fun x -> nat_of_int (int_of_string x)) (String.split_on_char ',' s)

let mk_reader data term ewd sched =
  { F.rd_data = bytes_of_hex data;
    F.rd_sched = parse_sched sched;
    F.rd_term = (if term = "f" then F.TFault else F.TEOF);
    F.rd_ewd = (ewd = "1");
    F.rd_pos = F.O }

let parse_opts s =
  { F.o_logger = s.[0] = '1'; F.o_unkf = s.[1] = '1'; F.o_unkm = s.[2] = '1' }

(* decode <entry> <opts> <datahex> <term e|f> <ewd 0|1> <sched|-> <gstate>
   entry: D Decode | C DecodeChained | I CheckIntegrity(false) | J CheckIntegrity(true) | H DecodeHeader | F DecodeHeaderAndFileID *)
let h_decode args =
  match args with
  | [ entry; opts; data; term; ewd; sched; g ] ->
      let rd = mk_reader data term ewd sched in
      let fuel = nat_of_int (List.length rd.F.rd_data + List.length rd.F.rd_sched + 16) in
      let g = parse_gstate g in
      let o = parse_opts opts in
      let b = Buffer.create 4096 in
      let show_dres (r : F.dres) =
        buf_add b "R ";
        buf_add b (show_err r.F.dr_err);
        buf_add b (Printf.sprintf " pos=%d hdr=" (int_of_nat r.F.dr_rd.F.rd_pos));
        show_header b r.F.dr_hdr;
        buf_add b " g=";
        buf_add b (show_gstate r.F.dr_g);
        buf_add b " q=";
        buf_add b (show_quirks r.F.dr_quirks);
        buf_add b " file=";
        match r.F.dr_file with None -> buf_add b "nil" | Some f -> show_file b f
      in
      let out (t : F.dres F.tout) =
        match t with
        | F.TDone r -> show_dres r
        | F.TPanic w -> buf_add b (Printf.sprintf "P %d" (int_of_n w))
        | F.TOutOfFuel -> buf_add b "X"
      in
      (match entry with
      | "D" -> out (F.entry_Decode o g rd fuel)
      | "I" -> out (F.entry_CheckIntegrity false g rd fuel)
      | "J" -> out (F.entry_CheckIntegrity true g rd fuel)
      | "H" -> out (F.entry_DecodeHeader g rd fuel)
      | "F" -> out (F.entry_DecodeHeaderAndFileID g rd fuel)
      | "C" -> (
          match F.entry_DecodeChained o g rd fuel with
          | F.TPanic w -> buf_add b (Printf.sprintf "P %d" (int_of_n w))
          | F.TOutOfFuel -> buf_add b "X"
          | F.TDone r ->
              buf_add b "R ";
              buf_add b (show_err r.F.cr_err);
              buf_add b (Printf.sprintf " pos=%d" (int_of_nat r.F.cr_rd.F.rd_pos));
              buf_add b " g=";
              buf_add b (show_gstate r.F.cr_g);
              buf_add b " q=";
              buf_add b (show_quirks r.F.cr_quirks);
              buf_add b (Printf.sprintf " files=%d" (List.length r.F.cr_files));
              List.iter (fun f -> buf_add b " file="; show_file b f) r.F.cr_files)
      | _ -> buf_add b "ERR entry");
      Buffer.contents b
  | _ -> "ERR args"

(* validate <gmn> <num> <size> <btype> -> ok | err | panic *)
let h_validate args =
  match args with
  | [ g; n; s; t ] -> (
      let fd = { F.fd_num = n_of_int (int_of_string n); F.fd_size = n_of_int (int_of_string s); F.fd_btype = n_of_int (int_of_string t) } in
      match F.validate_field_def (n_of_int (int_of_string g)) fd with
      | F.VOk -> "ok"
      | F.VErr -> "err"
      | F.VPanic _ -> "panic")
  | _ -> "ERR args"

(* validate_row <gmn> <num> <btype> -> 256 chars o/e/p for sizes 0..255 *)
let h_validate_row args =
  match args with
  | [ g; n; t ] ->
      let b = Bytes.create 256 in
      for s = 0 to 255 do
        let fd = { F.fd_num = n_of_int (int_of_string n); F.fd_size = n_of_int s; F.fd_btype = n_of_int (int_of_string t) } in
        Bytes.set b s
          (match F.validate_field_def (n_of_int (int_of_string g)) fd with F.VOk -> 'o' | F.VErr -> 'e' | F.VPanic _ -> 'p')
      done;
      Bytes.to_string b
  | _ -> "ERR args"

(* ---- parsing the canonical text form of values and messages *)
let parse_val_at (s : string) (pos : int ref) : F.goval =
  let n = String.length s in
  let read_int () =
    let st = !pos in
    if !pos < n && s.[!pos] = '-' then incr pos;
    while !pos < n && s.[!pos] >= '0' && s.[!pos] <= '9' do incr pos done;
    int_of_string (String.sub s st (!pos - st))
  in
  let rec value () =
    let c = s.[!pos] in
    incr pos;
    match c with
    | 'u' -> F.VU (n_of_int (read_int ()))
    | 'i' -> F.VI (z_of_int (read_int ()))
    | 'f' -> F.VF (n_of_int (read_int ()))
    | 'a' -> F.VLat (z_of_int (read_int ()))
    | 'o' -> F.VLng (z_of_int (read_int ()))
    | 'n' -> F.VNil
    | 'x' -> F.VOther
    | 's' ->
        let st = !pos in
        while !pos < n && (match s.[!pos] with '0' .. '9' | 'a' .. 'f' -> true | _ -> false) do incr pos done;
        F.VStr (bytes_of_hex (let h = String.sub s st (!pos - st) in if h = "" then "-" else h))
    | 't' ->
        let sec = read_int () in
        incr pos;
        let nsec = read_int () in
        incr pos;
        if s.[!pos] = 'u' then (incr pos; F.VTime (z_of_int sec, n_of_int nsec, None))
        else F.VTime (z_of_int sec, n_of_int nsec, Some (z_of_int (read_int ())))
    | 'l' ->
        incr pos; (* ( *)
        let items = ref [] in
        if s.[!pos] = ')' then incr pos
        else begin
          let continue = ref true in
          while !continue do
            items := value () :: !items;
            if s.[!pos] = ',' then incr pos else (incr pos; continue := false)
          done
        end;
        F.VList (List.rev !items)
    | _ -> failwith ("bad value at " ^ string_of_int !pos)
  in
  value ()

let parse_msg (s : string) : F.msg =
  let lb = String.index s '[' in
  let num = int_of_string (String.sub s 0 lb) in
  let pos = ref (lb + 1) in
  let vals = ref [] in
  if s.[!pos] = ']' then ()
  else begin
    let continue = ref true in
    while !continue do
      vals := parse_val_at s pos :: !vals;
      if s.[!pos] = ';' then incr pos else continue := false
    done
  end;
  { F.m_num = n_of_int num; F.m_fields = List.rev !vals }

let msg_to_string (m : F.msg) = let b = Buffer.create 256 in show_msg b m; Buffer.contents b

(* expand <gstate> <msg> -> "<gstate'> <msg'>" | "none" *)
let h_expand args =
  match args with
  | [ g; m ] -> (
      match F.expand_components (parse_gstate g) (parse_msg m) with
      | None -> "none"
      | Some (m', g') -> show_gstate g' ^ " " ^ msg_to_string m')
  | _ -> "ERR args"

let int_list s = if s = "-" then [] else List.map int_of_string (String.split_on_char ',' s)

(* spec_acc <bits> <v,v,...> -> running sums per the property *)
let h_spec_acc args =
  match args with
  | [ bits; vs ] ->
      String.concat ","
        (List.map (fun x -> string_of_int (int_of_n x))
           (F.spec_accumulate (n_of_int (int_of_string bits)) (List.map n_of_int (int_list vs))))
  | _ -> "ERR args"

let h_spec_csd args =
  match args with
  | [ b0; b1; b2 ] ->
      let b0 = n_of_int (int_of_string b0) and b1 = n_of_int (int_of_string b1) and b2 = n_of_int (int_of_string b2) in
      Printf.sprintf "%d %d" (int_of_n (F.spec_csd_speed b0 b1)) (int_of_n (F.spec_csd_distance_raw b1 b2))
  | _ -> "ERR args"

(* ---- abstract syntax of streams: D:local:arch:gmn:n.s.t,...:devflag:n.s.i,...  M:local:hex:hex  Z:local:off:hex:hex *)
let parse_triples s =
  if s = "-" then []
  else
    List.map
      (fun t -> match String.split_on_char '.' t with [ a; b; c ] -> (int_of_string a, int_of_string b, int_of_string c) | _ -> failwith "triple")
      (String.split_on_char ',' s)

let parse_record (s : string) : F.record =
  match String.split_on_char ':' s with
  | [ "D"; l; arch; gmn; fds; devflag; devs ] ->
      F.RDef
        ( n_of_int (int_of_string l),
          arch = "1",
          n_of_int (int_of_string gmn),
          List.map (fun (a, b, c) -> { F.sf_num = n_of_int a; F.sf_size = n_of_int b; F.sf_btype = n_of_int c }) (parse_triples fds),
          devflag = "1",
          List.map (fun (a, b, c) -> ((n_of_int a, n_of_int b), n_of_int c)) (parse_triples devs) )
  | [ "M"; l; pay; dev ] -> F.RData (n_of_int (int_of_string l), bytes_of_hex pay, bytes_of_hex dev)
  | [ "Z"; l; off; pay; dev ] -> F.RComp (n_of_int (int_of_string l), n_of_int (int_of_string off), bytes_of_hex pay, bytes_of_hex dev)
  | _ -> failwith ("bad record " ^ s)

(* spec_denote <record> ... -> "none" | "ref=<r|-> um=(..) uf=(..) msgs=<m>&<m>..." *)
let h_spec_denote args =
  let rs = List.map parse_record (List.filter (fun x -> x <> "-") args) in
  match F.denote rs with
  | None -> "none"
  | Some st ->
      let b = Buffer.create 1024 in
      buf_add b "ref=";
      (match st.F.ss_ref with None -> buf_add b "-" | Some r -> buf_add b (string_of_int (int_of_n r)));
      buf_add b " um=(";
      List.iteri (fun i (m, c) -> if i > 0 then buf_add b ","; buf_add b (Printf.sprintf "%d:%d" (int_of_n m) (int_of_n c))) (F.sorted_unkm st);
      buf_add b ") uf=(";
      List.iteri
        (fun i ((m, f), c) -> if i > 0 then buf_add b ","; buf_add b (Printf.sprintf "%d.%d:%d" (int_of_n m) (int_of_n f) (int_of_n c)))
        (F.sorted_unkf st);
      buf_add b ") msgs=";
      List.iteri (fun i m -> if i > 0 then buf_add b "&"; show_msg b m) st.F.ss_msgs;
      Buffer.contents b

(* spec_ser <record> ... -> hex of the record bytes *)
let h_spec_ser args = hex_of_bytes (F.ser_records (List.map parse_record (List.filter (fun x -> x <> "-") args)))

(* profile_wf_report -> "ok" or "msg.field.code msg.field.code ..." *)
let h_profile_wf _ =
  if F.profile_wf then "ok"
  else
    String.concat " "
      (List.map (fun ((m, f), c) -> Printf.sprintf "%d.%d.%d" (int_of_n m) (int_of_n f) (int_of_n c)) F.profile_wf_report)

(* routing_wf -> "ok" or failing file types / codes; find_slot ft mn -> "-" | "i multi expands" *)
let h_routing_wf _ =
  if F.routing_wf then "ok" else String.concat " " (List.map (fun x -> string_of_int (int_of_n x)) F.routing_wf_report)

let h_find_slot args =
  match args with
  | [ ft; mn ] -> (
      match F.find_slot (n_of_int (int_of_string ft)) (n_of_int (int_of_string mn)) with
      | None -> "-"
      | Some (i, multi) ->
          Printf.sprintf "%d %d %d" (int_of_nat i) (if multi then 1 else 0)
            (if F.expands (n_of_int (int_of_string mn)) then 1 else 0))
  | _ -> "ERR args"

let h_ft_valid args =
  match args with [ ft ] -> if F.ft_valid (n_of_int (int_of_string ft)) then "1" else "0" | _ -> "ERR args"

let install (register : string -> (string list -> string) -> unit) =
  register "spec_denote" h_spec_denote;
  register "spec_ser" h_spec_ser;
  register "expand" h_expand;
  register "spec_acc" h_spec_acc;
  register "spec_csd" h_spec_csd;
  register "routing_wf" h_routing_wf;
  register "find_slot" h_find_slot;
  register "ft_valid" h_ft_valid;
  register "profile_wf" h_profile_wf;
  register "decode" h_decode;
  register "validate" h_validate;
  register "validate_row" h_validate_row
