(* further request handlers, registered by property area *)
let install (_register : string -> (string list -> string) -> unit) = ()
