(* C17 request handlers around the extracted coordinate / FIT time model.
   Glue only: number and string conversions, request parsing, printing. *)
module F = Fitmodel_c17

let rec pos_of_int i =
  if i <= 1 then F.XH
  else if i land 1 = 0 then F.XO (pos_of_int (i lsr 1))
  else F.XI (pos_of_int (i lsr 1))

let z_of_int i = if i = 0 then F.Z0 else if i > 0 then F.Zpos (pos_of_int i) else F.Zneg (pos_of_int (-i))

let rec int_of_pos = function
  | F.XH -> 1
  | F.XO p -> 2 * int_of_pos p
  | F.XI p -> (2 * int_of_pos p) + 1

let int_of_z = function F.Z0 -> 0 | F.Zpos p -> int_of_pos p | F.Zneg p -> -int_of_pos p

(* non-negative Z <-> hexadecimal (float64 bit patterns need 64 bits) *)
let z_of_hex (s : string) : F.z =
  let bits = ref [] in
  String.iter
    (fun c ->
      let v =
        match c with
        | '0' .. '9' -> Char.code c - 48
        | 'a' .. 'f' -> Char.code c - 87
        | 'A' .. 'F' -> Char.code c - 55
        | _ -> failwith "bad hex"
      in
      for k = 3 downto 0 do
        bits := ((v lsr k) land 1 = 1) :: !bits
      done)
    s;
  (* !bits is least significant first *)
  let rec build = function
    | [] -> None
    | b :: rest -> (
        match build rest with
        | None -> if b then Some F.XH else None
        | Some p -> Some (if b then F.XI p else F.XO p))
  in
  match build !bits with None -> F.Z0 | Some p -> F.Zpos p

let hex_of_z (z : F.z) : string =
  match z with
  | F.Z0 -> "0"
  | F.Zneg _ -> failwith "negative"
  | F.Zpos p ->
      let rec bits p acc = match p with F.XH -> true :: acc | F.XO q -> bits q (false :: acc) | F.XI q -> bits q (true :: acc) in
      (* most significant first *)
      let l = bits p [] in
      let n = List.length l in
      let pad = (4 - (n mod 4)) mod 4 in
      let l = List.init pad (fun _ -> false) @ l in
      let b = Buffer.create 16 in
      let rec go = function
        | a :: b' :: c :: d :: rest ->
            let v = (if a then 8 else 0) lor (if b' then 4 else 0) lor (if c then 2 else 0) lor if d then 1 else 0 in
            Buffer.add_char b "0123456789abcdef".[v];
            go rest
        | _ -> ()
      in
      go l;
      Buffer.contents b

let char_of_ascii (F.Ascii (b0, b1, b2, b3, b4, b5, b6, b7)) =
  let bit b k = if b then 1 lsl k else 0 in
  Char.chr (bit b0 0 lor bit b1 1 lor bit b2 2 lor bit b3 3 lor bit b4 4 lor bit b5 5 lor bit b6 6 lor bit b7 7)

let ocaml_string (s : F.string) : string =
  let b = Buffer.create 16 in
  let rec go = function F.EmptyString -> () | F.String (a, r) -> Buffer.add_char b (char_of_ascii a); go r in
  go s;
  Buffer.contents b

let show_time (t : F.gotime) =
  Printf.sprintf "%d.%d.%s" (int_of_z t.F.t_sec) (int_of_z t.F.t_nsec)
    (match t.F.t_zone with None -> "u" | Some o -> string_of_int (int_of_z o))

let parse_zone s = if s = "u" then None else Some (z_of_int (int_of_string s))

(* t_dec <u> ... -> for each u: sec.nsec.zone,isbase,encode(decode u) *)
let h_t_dec args =
  String.concat " "
    (List.map
       (fun a ->
         let t = F.decode_date_time (z_of_int (int_of_string a)) in
         Printf.sprintf "%s,%b,%d" (show_time t) (F.is_base_time t) (int_of_z (F.encode_time t)))
       args)

(* t_enc <sec> <nsec> <zone> -> encodeTime,isbase   (sec relative to the FIT epoch) *)
let h_t_enc args =
  match args with
  | [ s; n; z ] ->
      let t = { F.t_sec = z_of_int (int_of_string s); F.t_nsec = z_of_int (int_of_string n); F.t_zone = parse_zone z } in
      Printf.sprintf "%d,%b" (int_of_z (F.encode_time t)) (F.is_base_time t)
  | _ -> "ERR args"

(* ll <s> ... -> for each int32 s:
   latSemis,latInvalid,latDegreesBits,latString,latRoundTrip;lng... (same five) *)
let h_ll args =
  String.concat " "
    (List.map
       (fun a ->
         let s = z_of_int (int_of_string a) in
         let la = F.new_latitude s in
         let lad = F.lat_degrees la in
         let lo = F.new_longitude s in
         let lod = F.lng_degrees lo in
         Printf.sprintf "%d,%b,%s,%s,%d;%d,%b,%s,%s,%d"
           (int_of_z (F.lat_semis la)) (F.lat_invalid la) (hex_of_z (F.bits_of_b64 lad)) (ocaml_string (F.lat_string la))
           (int_of_z (F.lat_semis (F.new_latitude_degrees lad)))
           (int_of_z (F.lng_semis lo)) (F.lng_invalid lo) (hex_of_z (F.bits_of_b64 lod)) (ocaml_string (F.lng_string lo))
           (int_of_z (F.lng_semis (F.new_longitude_degrees lod))))
       args)

(* lld <float64 bits hex> ... -> NewLatitudeDegrees(x).Semicircles(),NewLongitudeDegrees(x).Semicircles(),FormatFloat(x,'f',5,32) *)
let h_lld args =
  String.concat " "
    (List.map
       (fun a ->
         let x = F.b64_of_bits (z_of_hex a) in
         Printf.sprintf "%d,%d,%s"
           (int_of_z (F.lat_semis (F.new_latitude_degrees x)))
           (int_of_z (F.lng_semis (F.new_longitude_degrees x)))
           (ocaml_string (F.format_f5_32 x)))
       args)

(* ll_consts -> semiToDegFactor bits, degToSemiFactor bits, NaN bits, invalid constructors *)
let h_ll_consts _ =
  Printf.sprintf "%s,%s,%s,%d,%d" (hex_of_z (F.bits_of_b64 F.semi_to_deg)) (hex_of_z (F.bits_of_b64 F.deg_to_semi))
    (hex_of_z (F.bits_of_b64 F.go_nan))
    (int_of_z (F.lat_semis F.new_latitude_invalid))
    (int_of_z (F.lng_semis F.new_longitude_invalid))

let coq_string (s : string) : F.string =
  let r = ref F.EmptyString in
  for i = String.length s - 1 downto 0 do
    let k = Char.code s.[i] in
    let b j = (k lsr j) land 1 = 1 in
    r := F.String (F.Ascii (b 0, b 1, b 2, b 3, b 4, b 5, b 6, b 7), !r)
  done;
  !r

(* pf <text> ... -> the spec's fixed-point reader: neg,n or none *)
let h_pf args =
  String.concat " "
    (List.map
       (fun a ->
         match F.parse_fixed5 (coq_string a) with
         | Some (neg, n) -> Printf.sprintf "%b,%d" neg (int_of_z n)
         | None -> "none")
       args)

let install (register : string -> (string list -> string) -> unit) =
  register "t_dec" h_t_dec;
  register "t_enc" h_t_enc;
  register "ll" h_ll;
  register "lld" h_lld;
  register "ll_consts" h_ll_consts;
  register "pf" h_pf
