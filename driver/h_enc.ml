(* C05/C06/C07 request handlers around the extracted encoder model, grammar
   recogniser and round-trip comparators (Fitmodel_enc).  Files travel in the
   canonical text form of handlers.ml / harness/canon.go; this module parses
   that form back into a model [file] and prints with the same layout. *)
module E = Fitmodel_enc

(* ---- number conversions against Fitmodel_enc's own inductives *)
let rec pos_of_int i =
  if i <= 1 then E.XH else if i land 1 = 0 then E.XO (pos_of_int (i lsr 1)) else E.XI (pos_of_int (i lsr 1))

let n_of_int i = if i = 0 then E.N0 else E.Npos (pos_of_int i)
let rec int_of_pos = function E.XH -> 1 | E.XO p -> 2 * int_of_pos p | E.XI p -> (2 * int_of_pos p) + 1
let int_of_n = function E.N0 -> 0 | E.Npos p -> int_of_pos p
let z_of_int i = if i = 0 then E.Z0 else if i > 0 then E.Zpos (pos_of_int i) else E.Zneg (pos_of_int (-i))
let int_of_z = function E.Z0 -> 0 | E.Zpos p -> int_of_pos p | E.Zneg p -> -int_of_pos p
let rec int_of_nat = function E.O -> 0 | E.S n -> 1 + int_of_nat n

(* uint64 values (none in the profile) would not fit OCaml's 63-bit int; decimal
   strings are converted through int, as in conv.ml *)
let n_of_string s = n_of_int (int_of_string s)
let z_of_string s = z_of_int (int_of_string s)

let hexval c =
  match c with
  | '0' .. '9' -> Char.code c - 48
  | 'a' .. 'f' -> Char.code c - 87
  | 'A' .. 'F' -> Char.code c - 55
  | _ -> failwith "bad hex"

let bytes_of_hex (s : string) : E.n list =
  if s = "-" || s = "" then []
  else begin
    let len = String.length s / 2 in
    let rec go i acc =
      if i < 0 then acc else go (i - 1) (n_of_int ((hexval s.[2 * i] lsl 4) lor hexval s.[(2 * i) + 1]) :: acc)
    in
    go (len - 1) []
  end

let hex_of_bytes (l : E.n list) : string =
  if l = [] then "-"
  else begin
    let b = Buffer.create 256 in
    List.iter (fun x -> Buffer.add_string b (Printf.sprintf "%02x" (int_of_n x))) l;
    Buffer.contents b
  end

let char_of_ascii (E.Ascii (b0, b1, b2, b3, b4, b5, b6, b7)) =
  let bit b k = if b then 1 lsl k else 0 in
  Char.chr (bit b0 0 lor bit b1 1 lor bit b2 2 lor bit b3 3 lor bit b4 4 lor bit b5 5 lor bit b6 6 lor bit b7 7)

let rec ocaml_string (s : E.string) : string =
  match s with E.EmptyString -> "" | E.String (a, r) -> String.make 1 (char_of_ascii a) ^ ocaml_string r

(* ---- printing (same layout as handlers.ml) *)
let buf_add = Buffer.add_string

let rec show_val b (v : E.goval) =
  match v with
  | E.VU n -> buf_add b "u"; buf_add b (string_of_int (int_of_n n))
  | E.VI z -> buf_add b "i"; buf_add b (string_of_int (int_of_z z))
  | E.VF n -> buf_add b "f"; buf_add b (string_of_int (int_of_n n))
  | E.VStr s -> buf_add b "s"; List.iter (fun x -> buf_add b (Printf.sprintf "%02x" (int_of_n x))) s
  | E.VTime (sec, nsec, zone) ->
      buf_add b "t";
      buf_add b (string_of_int (int_of_z sec));
      buf_add b ".";
      buf_add b (string_of_int (int_of_n nsec));
      buf_add b ".";
      (match zone with None -> buf_add b "u" | Some o -> buf_add b (string_of_int (int_of_z o)))
  | E.VLat z -> buf_add b "a"; buf_add b (string_of_int (int_of_z z))
  | E.VLng z -> buf_add b "o"; buf_add b (string_of_int (int_of_z z))
  | E.VNil -> buf_add b "n"
  | E.VList l ->
      buf_add b "l(";
      List.iteri (fun i x -> if i > 0 then buf_add b ","; show_val b x) l;
      buf_add b ")"
  | E.VOther -> buf_add b "x"

let show_msg b (m : E.msg) =
  buf_add b (string_of_int (int_of_n m.E.m_num));
  buf_add b "[";
  List.iteri (fun i v -> if i > 0 then buf_add b ";"; show_val b v) m.E.m_fields;
  buf_add b "]"

let show_header b (h : E.header) =
  buf_add b
    (Printf.sprintf "%d,%d,%d,%d,%s,%d" (int_of_n h.E.h_size) (int_of_n h.E.h_proto) (int_of_n h.E.h_profile)
       (int_of_n h.E.h_dsize) (hex_of_bytes h.E.h_dtype) (int_of_n h.E.h_crc))

let show_file b (f : E.file) =
  buf_add b "H";
  show_header b f.E.f_header;
  buf_add b ";C";
  buf_add b (string_of_int (int_of_n f.E.f_crc));
  buf_add b ";T";
  (match f.E.f_inited with
  | None -> buf_add b "-"
  | Some ft -> ( match E.ft_entry ft with Some ((_, cname), _) -> buf_add b (ocaml_string cname) | None -> buf_add b "?"));
  buf_add b ";S";
  List.iteri
    (fun i slot ->
      buf_add b "|";
      buf_add b (string_of_int i);
      buf_add b ":";
      List.iteri (fun j m -> if j > 0 then buf_add b "&"; show_msg b m) slot)
    f.E.f_slots;
  buf_add b ";UM";
  (match f.E.f_unkm with
  | None -> buf_add b "nil"
  | Some l ->
      buf_add b "(";
      List.iteri (fun i (m, c) -> if i > 0 then buf_add b ","; buf_add b (Printf.sprintf "%d:%d" (int_of_n m) (int_of_n c))) l;
      buf_add b ")");
  buf_add b ";UF";
  match f.E.f_unkf with
  | None -> buf_add b "nil"
  | Some l ->
      buf_add b "(";
      List.iteri
        (fun i ((m, fd), c) ->
          if i > 0 then buf_add b ",";
          buf_add b (Printf.sprintf "%d.%d:%d" (int_of_n m) (int_of_n fd) (int_of_n c)))
        l;
      buf_add b ")"

let file_string f =
  let b = Buffer.create 4096 in
  show_file b f;
  Buffer.contents b

(* ---- parsing of the canonical form *)
let split_top (sep : char) (s : string) : string list =
  (* split on sep outside parentheses *)
  if s = "" then []
  else begin
    let out = ref [] and depth = ref 0 and start = ref 0 in
    String.iteri
      (fun i c ->
        if c = '(' then incr depth
        else if c = ')' then decr depth
        else if c = sep && !depth = 0 then begin
          out := String.sub s !start (i - !start) :: !out;
          start := i + 1
        end)
      s;
    out := String.sub s !start (String.length s - !start) :: !out;
    List.rev !out
  end

let rec parse_val (s : string) : E.goval =
  let n = String.length s in
  if n = 0 then failwith "empty value"
  else
    let rest = String.sub s 1 (n - 1) in
    match s.[0] with
    | 'u' -> E.VU (n_of_string rest)
    | 'i' -> E.VI (z_of_string rest)
    | 'f' -> E.VF (n_of_string rest)
    | 's' -> E.VStr (bytes_of_hex rest)
    | 't' -> (
        match String.split_on_char '.' rest with
        | [ sec; nsec; zone ] ->
            E.VTime (z_of_string sec, n_of_string nsec, if zone = "u" then None else Some (z_of_string zone))
        | _ -> failwith "bad time")
    | 'a' -> E.VLat (z_of_string rest)
    | 'o' -> E.VLng (z_of_string rest)
    | 'n' -> E.VNil
    | 'x' -> E.VOther
    | 'l' ->
        if n < 3 || s.[1] <> '(' || s.[n - 1] <> ')' then failwith "bad list"
        else E.VList (List.map parse_val (split_top ',' (String.sub s 2 (n - 3))))
    | _ -> failwith ("bad value " ^ s)

let parse_msg (s : string) : E.msg =
  match String.index_opt s '[' with
  | None -> failwith "bad msg"
  | Some i ->
      let num = String.sub s 0 i in
      let body = String.sub s (i + 1) (String.length s - i - 2) in
      { E.m_num = n_of_string num; E.m_fields = List.map parse_val (split_top ';' body) }

let find_sub (s : string) (sub : string) (from : int) : int =
  let n = String.length s and m = String.length sub in
  let rec go i = if i + m > n then -1 else if String.sub s i m = sub then i else go (i + 1) in
  go from

let rfind_sub (s : string) (sub : string) : int =
  let n = String.length s and m = String.length sub in
  let rec go i = if i < 0 then -1 else if String.sub s i m = sub then i else go (i - 1) in
  go (n - m)

let coq_string_eq (c : E.string) (s : string) = ocaml_string c = s

let ft_of_cname (cname : string) : E.n option =
  if cname = "-" then None
  else
    let rec go = function
      | [] -> failwith ("unknown container " ^ cname)
      | (((ft, ok), cn), _) :: r -> if ok && coq_string_eq cn cname then Some ft else go r
    in
    go E.file_types

let parse_header (s : string) : E.header =
  match String.split_on_char ',' s with
  | [ sz; proto; prof; dsize; dtype; crc ] ->
      { E.h_size = n_of_string sz; E.h_proto = n_of_string proto; E.h_profile = n_of_string prof;
        E.h_dsize = n_of_string dsize; E.h_dtype = bytes_of_hex dtype; E.h_crc = n_of_string crc }
  | _ -> failwith "bad header"

let parse_pairs (s : string) =
  if s = "nil" then None
  else
    let body = String.sub s 1 (String.length s - 2) in
    if body = "" then Some []
    else
      Some
        (List.map
           (fun e ->
             match String.split_on_char ':' e with
             | [ m; c ] -> (n_of_string m, n_of_string c)
             | _ -> failwith "bad UM")
           (String.split_on_char ',' body))

let parse_triples (s : string) =
  if s = "nil" then None
  else
    let body = String.sub s 1 (String.length s - 2) in
    if body = "" then Some []
    else
      Some
        (List.map
           (fun e ->
             match String.split_on_char ':' e with
             | [ mf; c ] -> (
                 match String.split_on_char '.' mf with
                 | [ m; f ] -> ((n_of_string m, n_of_string f), n_of_string c)
                 | _ -> failwith "bad UF")
             | _ -> failwith "bad UF")
           (String.split_on_char ',' body))

let parse_file (s : string) : E.file =
  if String.length s < 2 || s.[0] <> 'H' then failwith "bad file";
  let ic = find_sub s ";C" 0 in
  let it = find_sub s ";T" ic in
  let is = find_sub s ";S" it in
  let ium = rfind_sub s ";UM" in
  let iuf = rfind_sub s ";UF" in
  if ic < 0 || it < 0 || is < 0 || ium < 0 || iuf < 0 then failwith "bad file layout";
  let hdr = String.sub s 1 (ic - 1) in
  let crc = String.sub s (ic + 2) (it - ic - 2) in
  let cname = String.sub s (it + 2) (is - it - 2) in
  let slots = String.sub s (is + 2) (ium - is - 2) in
  let um = String.sub s (ium + 3) (iuf - ium - 3) in
  let uf = String.sub s (iuf + 3) (String.length s - iuf - 3) in
  let slot_list =
    match String.split_on_char '|' slots with
    | "" :: rest ->
        List.map
          (fun sl ->
            match String.index_opt sl ':' with
            | None -> failwith "bad slot"
            | Some i ->
                let body = String.sub sl (i + 1) (String.length sl - i - 1) in
                if body = "" then [] else List.map parse_msg (String.split_on_char '&' body))
          rest
    | _ -> failwith "bad slots"
  in
  { E.f_header = parse_header hdr; E.f_crc = n_of_string crc; E.f_slots = slot_list; E.f_inited = ft_of_cname cname;
    E.f_unkm = parse_pairs um; E.f_unkf = parse_triples uf }

(* ---- handlers *)
let err_name (e : E.eerr) =
  match e with
  | E.EEFileType -> "FileType" | E.EEString -> "String" | E.EENotString -> "NotString"
  | E.EEStringArray -> "StringArray" | E.EEWrite -> "Write" | E.EEKind -> "Kind"

let b01 x = if x then "1" else "0"

let show_diff (d : ((E.nat * E.nat) * E.nat) option) =
  match d with
  | None -> "-"
  | Some ((s, m), f) -> Printf.sprintf "%d.%d.%d" (int_of_nat s) (int_of_nat m) (int_of_nat f)

(* enc <be 0|1> <file> -> O <hex> <file'> | E <class> | P <code> *)
let h_enc args =
  match args with
  | [ be; file ] -> (
      let f = parse_file file in
      match E.encode f (be = "1") with
      | E.EOk (bs, f') -> "O " ^ hex_of_bytes bs ^ " " ^ file_string f'
      | E.EErr e -> "E " ^ err_name e
      | E.EPanic w -> "P " ^ string_of_int (int_of_n w))
  | _ -> "ERR args"

let gram_verdict (bs : E.n list) =
  match E.grammar bs with
  | Some recs -> (Printf.sprintf "ok:%d" (List.length recs), Some recs)
  | None ->
      let why =
        if List.exists (fun b -> int_of_n b > 255) bs then "bytes"
        else if not (E.header_ok bs) then "header"
        else if not (E.trailer_ok bs) then "crc"
        else "records"
      in
      ("fail:" ^ why, None)

(* c05 <be> <file> <real bytes hex | -> :
   model encode of the file; grammar recogniser and wire comparison on the real
   bytes (on the model's own bytes when none are given); header facts of those bytes *)
let h_c05 args =
  match args with
  | [ be; file; real ] ->
      let f = parse_file file in
      let enc, mhex, mfile, mbytes =
        match E.encode f (be = "1") with
        | E.EOk (bs, f') -> ("O", hex_of_bytes bs, file_string f', Some bs)
        | E.EErr e -> ("E:" ^ err_name e, "-", "-", None)
        | E.EPanic w -> ("P:" ^ string_of_int (int_of_n w), "-", "-", None)
      in
      let target = if real = "-" then mbytes else Some (bytes_of_hex real) in
      let gram, wire, facts =
        match target with
        | None -> ("na", "na", "dsize=0 hcrc=0 fcrc=0 hsize=0")
        | Some bs ->
            let g, recs = gram_verdict bs in
            let wire =
              match recs with
              | None -> "na"
              | Some recs ->
                  if E.wire_ok f recs then "ok"
                  else ( match E.first_mismatch (E.file_msgs f) recs E.O with Some i -> "bad:" ^ string_of_int (int_of_nat i) | None -> "bad:?")
            in
            ( g, wire,
              Printf.sprintf "dsize=%d hcrc=%d fcrc=%d hsize=%d" (int_of_n (E.datasize bs)) (int_of_n (E.hdrcrc bs))
                (int_of_n (E.filecrc bs)) (int_of_n (E.hdrsize bs)) )
      in
      Printf.sprintf "enc=%s mhex=%s mfile=%s gram=%s wire=%s %s wf=%s dom=%s" enc mhex mfile gram wire facts (b01 (E.wf_file f))
        (b01 (E.in_domain f))
  | _ -> "ERR args"

(* gram <hex> *)
let h_gram args = match args with [ hex ] -> fst (gram_verdict (bytes_of_hex hex)) | _ -> "ERR args"

(* c06 <file put in> <file decoded> *)
let h_c06 args =
  match args with
  | [ a; b ] ->
      let f = parse_file a and f' = parse_file b in
      let eq = E.content_eq6 f f' in
      (* wf and dom are the domain of the stream theorem C06_roundtrip: there is no further side condition
         (the former time side condition went with the decoder's two time-rule defects) *)
      Printf.sprintf "wf=%s dom=%s eq=%s diff=%s" (b01 (E.wf_file f)) (b01 (E.in_domain f)) (b01 eq)
        (if eq then "-" else show_diff (E.diff6 f f'))
  | _ -> "ERR args"

(* c07 <generation n> <generation n+1> *)
let h_c07 args =
  match args with
  | [ a; b ] ->
      let f1 = parse_file a and f2 = parse_file b in
      let eq = E.content_eq7 f1 f2 in
      Printf.sprintf "eq=%s diff=%s" (b01 eq) (if eq then "-" else show_diff (E.diff7 f1 f2))
  | _ -> "ERR args"

(* dom <file> *)
let h_dom args =
  match args with
  | [ a ] ->
      let f = parse_file a in
      Printf.sprintf "wf=%s dom=%s" (b01 (E.wf_file f)) (b01 (E.in_domain f))
  | _ -> "ERR args"

(* echo <file>: parse and print again (the harness checks the form is stable) *)
let h_echo args = match args with [ a ] -> file_string (parse_file a) | _ -> "ERR args"

(* utf8 <hex> *)
let h_utf8 args = match args with [ a ] -> b01 (E.utf8_valid (bytes_of_hex a)) | _ -> "ERR args"

let install (register : string -> (string list -> string) -> unit) =
  register "enc" h_enc;
  register "c05" h_c05;
  register "gram" h_gram;
  register "c06" h_c06;
  register "c07" h_c07;
  register "dom" h_dom;
  register "fecho" h_echo;
  register "utf8" h_utf8
