(* C19 request handlers: the fitgen model (Model/FitgenCore.v), the spec
   (Spec/FitgenSpec.v) and the side conditions (Proofs/FitgenProofs.v).
   Encoding (no spaces inside an argument):
     cell   x<hex of the bytes>
     row    cell,cell,...
     sheet  row;row;...            ("-" = no rows)
   c19_gen <hrst> <tsheet> <msheet>
       -> ok <msg>|<msg>...   msg = CC:name.type,...:num.sindex.code.len,...
        | err <kind>
   c19_spec <tsheet> <msheet> <obs>    obs = <m>|<m>...  m = s,s,..:num.sindex.code.len,...
       -> ok | fail <message index> <text>
   c19_hyp <tsheet> <msheet> -> ok <rows checked> | fail
   c19_deps <tsheet> <msheet> -> ok | fail *)
module F = Fitmodel_c19

let rec pos_of_int i =
  if i <= 1 then F.XH else if i land 1 = 0 then F.XO (pos_of_int (i lsr 1)) else F.XI (pos_of_int (i lsr 1))

let n_of_int i = if i = 0 then F.N0 else F.Npos (pos_of_int i)
let rec int_of_pos = function F.XH -> 1 | F.XO p -> 2 * int_of_pos p | F.XI p -> (2 * int_of_pos p) + 1
let int_of_n = function F.N0 -> 0 | F.Npos p -> int_of_pos p

let char_of_ascii (F.Ascii (b0, b1, b2, b3, b4, b5, b6, b7)) =
  let bit b k = if b then 1 lsl k else 0 in
  Char.chr (bit b0 0 lor bit b1 1 lor bit b2 2 lor bit b3 3 lor bit b4 4 lor bit b5 5 lor bit b6 6 lor bit b7 7)

let ocaml_string (s : F.string) : string =
  let b = Buffer.create 16 in
  let rec go = function F.EmptyString -> () | F.String (a, r) -> Buffer.add_char b (char_of_ascii a); go r in
  go s;
  Buffer.contents b

let ascii_of_char c =
  let k = Char.code c in
  let b i = (k lsr i) land 1 = 1 in
  F.Ascii (b 0, b 1, b 2, b 3, b 4, b 5, b 6, b 7)

let coq_string (s : string) : F.string =
  let r = ref F.EmptyString in
  for i = String.length s - 1 downto 0 do
    r := F.String (ascii_of_char s.[i], !r)
  done;
  !r

let hexval c =
  match c with
  | '0' .. '9' -> Char.code c - 48
  | 'a' .. 'f' -> Char.code c - 87
  | 'A' .. 'F' -> Char.code c - 55
  | _ -> failwith "bad hex"

(* x<hex> -> bytes *)
let unx (s : string) : string =
  if String.length s = 0 || s.[0] <> 'x' then failwith "bad cell";
  let n = (String.length s - 1) / 2 in
  String.init n (fun i -> Char.chr ((hexval s.[1 + (2 * i)] lsl 4) lor hexval s.[2 + (2 * i)]))

let x (s : string) : string =
  let b = Buffer.create (1 + (2 * String.length s)) in
  Buffer.add_char b 'x';
  String.iter (fun c -> Buffer.add_string b (Printf.sprintf "%02x" (Char.code c))) s;
  Buffer.contents b

let sheet_of (s : string) : F.string list list =
  if s = "-" then []
  else
    List.map
      (fun row -> List.map (fun c -> coq_string (unx c)) (String.split_on_char ',' row))
      (String.split_on_char ';' s)

let err_name = function F.ETypesSheet -> "types-sheet" | F.EMsgsSheet -> "messages-sheet" | F.EBaseType -> "base-type"

let h_gen = function
  | [ hrst; ts; ms ] -> (
      match F.gen (hrst = "1") (sheet_of ts) (sheet_of ms) with
      | F.Err e -> "err " ^ err_name e
      | F.Ok outs ->
          let b = Buffer.create 65536 in
          Buffer.add_string b "ok ";
          List.iteri
            (fun i (o : F.msgout) ->
              if i > 0 then Buffer.add_char b '|';
              Buffer.add_string b (x (ocaml_string o.F.o_ccname));
              Buffer.add_char b ':';
              List.iteri
                (fun j (_, (n, t)) ->
                  if j > 0 then Buffer.add_char b ',';
                  Buffer.add_string b (x (ocaml_string n));
                  Buffer.add_char b '.';
                  Buffer.add_string b (x (ocaml_string t)))
                o.F.o_struct;
              Buffer.add_char b ':';
              List.iteri
                (fun j (e : F.entry) ->
                  if j > 0 then Buffer.add_char b ',';
                  Buffer.add_string b
                    (Printf.sprintf "%s.%d.%d.%s" (x (ocaml_string e.F.e_num)) (int_of_n e.F.e_sindex) (int_of_n e.F.e_type)
                       (x (ocaml_string e.F.e_length))))
                o.F.o_entries)
            outs;
          Buffer.contents b)
  | _ -> "ERR args"

let obs_of (s : string) : F.obs_msg list =
  if s = "-" then []
  else
    List.map
      (fun m ->
        match String.split_on_char ':' m with
        | [ sl; es ] ->
            let slices = if sl = "" then [] else List.map (fun f -> f = "1") (String.split_on_char ',' sl) in
            let entries =
              if es = "" then []
              else
                List.map
                  (fun e ->
                    match String.split_on_char '.' e with
                    | [ num; si; code; len ] ->
                        { F.oe_num = coq_string (unx num); F.oe_sindex = n_of_int (int_of_string si);
                          F.oe_code = n_of_int (int_of_string code); F.oe_length = coq_string (unx len) }
                    | _ -> failwith "bad entry")
                  (String.split_on_char ',' es)
            in
            { F.om_slices = slices; F.om_entries = entries }
        | _ -> failwith "bad message")
      (String.split_on_char '|' s)

let h_spec = function
  | [ ts; ms; obs ] -> (
      let ts = sheet_of ts and ms = sheet_of ms and o = obs_of obs in
      if F.s_sheet_ok ts ms o then "ok"
      else
        match F.s_sheet_first_bad ts ms o with
        | Some k -> Printf.sprintf "fail %d enabled rows are not in index-preserving one-to-one correspondence with the generated fields and entries" (int_of_n k)
        | None -> "fail -1 inconsistent")
  | _ -> "ERR args"

let h_hyp = function
  | [ ts; ms ] ->
      let ts = sheet_of ts and ms = sheet_of ms in
      if F.sheet_hyp ts ms then "ok " ^ string_of_int (int_of_n (F.sheet_hyp_count ms)) else "fail"
  | _ -> "ERR args"

let h_deps = function
  | [ ts; ms ] -> if F.deps_ok false (sheet_of ts) (sheet_of ms) then "ok" else "fail"
  | _ -> "ERR args"

let install (register : string -> (string list -> string) -> unit) =
  register "c19_gen" h_gen;
  register "c19_spec" h_spec;
  register "c19_hyp" h_hyp;
  register "c19_deps" h_deps
