(* Glue between OCaml ints/strings and the extracted Coq numbers (untrusted
   by the proofs, exercised by every correspondence run). *)
open Fitmodel

let rec pos_of_int i =
  if i <= 1 then XH
  else if i land 1 = 0 then XO (pos_of_int (i lsr 1))
  else XI (pos_of_int (i lsr 1))

let n_of_int i = if i = 0 then N0 else Npos (pos_of_int i)

let rec int_of_pos = function
  | XH -> 1
  | XO p -> 2 * int_of_pos p
  | XI p -> 2 * int_of_pos p + 1

let int_of_n = function N0 -> 0 | Npos p -> int_of_pos p
let z_of_int i = if i = 0 then Z0 else if i > 0 then Zpos (pos_of_int i) else Zneg (pos_of_int (-i))
let int_of_z = function Z0 -> 0 | Zpos p -> int_of_pos p | Zneg p -> - (int_of_pos p)

let rec nat_of_int i = if i <= 0 then O else S (nat_of_int (i - 1))
let rec int_of_nat = function O -> 0 | S n -> 1 + int_of_nat n

(* decimal strings for numbers that may exceed 62 bits are not needed: every
   quantity in the model fits in 63 bits (uint32, int64 seconds, byte lists). *)

let hexval c =
  match c with
  | '0' .. '9' -> Char.code c - 48
  | 'a' .. 'f' -> Char.code c - 87
  | 'A' .. 'F' -> Char.code c - 55
  | _ -> failwith "bad hex"

let bytes_of_hex (s : string) : n list =
  if s = "-" then []
  else begin
    let len = String.length s / 2 in
    let rec go i acc =
      if i < 0 then acc
      else go (i - 1) (n_of_int ((hexval s.[2 * i] lsl 4) lor hexval s.[(2 * i) + 1]) :: acc)
    in
    go (len - 1) []
  end

let hex_of_bytes (l : n list) : string =
  if l = [] then "-"
  else begin
    let b = Buffer.create 64 in
    List.iter (fun x -> Buffer.add_string b (Printf.sprintf "%02x" (int_of_n x))) l;
    Buffer.contents b
  end

let split_ws s = List.filter (fun x -> x <> "") (String.split_on_char ' ' s)
