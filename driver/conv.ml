(* Glue between OCaml ints/strings and the extracted Coq numbers (untrusted
   by the proofs, exercised by every correspondence run). *)
module F = Fitmodel

let rec pos_of_int i =
  if i <= 1 then F.XH
  else if i land 1 = 0 then F.XO (pos_of_int (i lsr 1))
  else F.XI (pos_of_int (i lsr 1))

let n_of_int i = if i = 0 then F.N0 else F.Npos (pos_of_int i)

let rec int_of_pos = function
  | F.XH -> 1
  | F.XO p -> 2 * int_of_pos p
  | F.XI p -> 2 * int_of_pos p + 1

let int_of_n = function F.N0 -> 0 | F.Npos p -> int_of_pos p
let z_of_int i = if i = 0 then F.Z0 else if i > 0 then F.Zpos (pos_of_int i) else F.Zneg (pos_of_int (-i))
let int_of_z = function F.Z0 -> 0 | F.Zpos p -> int_of_pos p | F.Zneg p -> - (int_of_pos p)

let rec nat_of_int i = if i <= 0 then F.O else F.S (nat_of_int (i - 1))
let rec int_of_nat = function F.O -> 0 | F.S n -> 1 + int_of_nat n

(* decimal strings for numbers that may exceed 62 bits are not needed: every
   quantity in the model fits in 63 bits (uint32, int64 seconds, byte lists). *)

let hexval c =
  match c with
  | '0' .. '9' -> Char.code c - 48
  | 'a' .. 'f' -> Char.code c - 87
  | 'A' .. 'F' -> Char.code c - 55
  | _ -> failwith "bad hex"

let bytes_of_hex (s : string) : F.n list =
  if s = "-" then []
  else begin
    let len = String.length s / 2 in
    let rec go i acc =
      if i < 0 then acc
      else go (i - 1) (n_of_int ((hexval s.[2 * i] lsl 4) lor hexval s.[(2 * i) + 1]) :: acc)
    in
    go (len - 1) []
  end

let hex_of_bytes (l : F.n list) : string =
  if l = [] then "-"
  else begin
    let b = Buffer.create 64 in
    List.iter (fun x -> Buffer.add_string b (Printf.sprintf "%02x" (int_of_n x))) l;
    Buffer.contents b
  end

let split_ws s = List.filter (fun x -> x <> "") (String.split_on_char ' ' s)

(* Coq string -> OCaml string *)
let char_of_ascii (F.Ascii (b0, b1, b2, b3, b4, b5, b6, b7)) =
  let bit b k = if b then 1 lsl k else 0 in
  Char.chr (bit b0 0 lor bit b1 1 lor bit b2 2 lor bit b3 3 lor bit b4 4 lor bit b5 5 lor bit b6 6 lor bit b7 7)

let rec ocaml_string (s : F.string) : string =
  match s with
  | F.EmptyString -> ""
  | F.String (a, r) -> String.make 1 (char_of_ascii a) ^ ocaml_string r

let ascii_of_char c =
  let k = Char.code c in
  let b i = (k lsr i) land 1 = 1 in
  F.Ascii (b 0, b 1, b 2, b 3, b 4, b 5, b 6, b 7)

let coq_string (s : string) : F.string =
  let r = ref F.EmptyString in
  for i = String.length s - 1 downto 0 do
    r := F.String (ascii_of_char s.[i], !r)
  done;
  !r
