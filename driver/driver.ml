(* Line-oriented co-process around the extracted model: one request per line,
   one response line per request. *)
module F = Fitmodel
open Conv

let handlers = Registry.handlers
let register = Registry.register

let () =
  register "ping" (fun _ -> "pong");
  register "crc_upd" (fun a ->
      match a with
      | [ c; d ] -> string_of_int (int_of_n (F.update_byte (n_of_int (int_of_string c)) (n_of_int (int_of_string d))))
      | _ -> "ERR args");
  register "crc_arc" (fun a ->
      match a with
      | [ c; d ] -> string_of_int (int_of_n (F.arc_step (n_of_int (int_of_string c)) (n_of_int (int_of_string d))))
      | _ -> "ERR args");
  register "crc_sum" (fun a ->
      match a with [ h ] -> string_of_int (int_of_n (F.checksum (bytes_of_hex h))) | _ -> "ERR args");
  register "crc_arcsum" (fun a ->
      match a with [ h ] -> string_of_int (int_of_n (F.arc (bytes_of_hex h))) | _ -> "ERR args");
  (* crc_parts p1 p2 ... : New(); Write(p1); Write(p2)...; Sum16 *)
  register "crc_parts" (fun a ->
      let h = List.fold_left (fun h p -> F.crc_write h (bytes_of_hex p)) F.crc_new a in
      string_of_int (int_of_n (F.crc_sum16 h)));
  (* crc_range c0 c1 : all transitions (c, d), c0 <= c < c1, d < 256, as a digest:
     prints xor-fold and sum so that the harness can compare in bulk *)
  register "crc_row" (fun a ->
      match a with
      | [ c ] ->
          let c = n_of_int (int_of_string c) in
          let b = Buffer.create 2048 in
          for d = 0 to 255 do
            Buffer.add_string b (Printf.sprintf "%04x" (int_of_n (F.update_byte c (n_of_int d))))
          done;
          Buffer.contents b
      | _ -> "ERR args");
  register "crc_arcrow" (fun a ->
      match a with
      | [ c ] ->
          let c = n_of_int (int_of_string c) in
          let b = Buffer.create 2048 in
          for d = 0 to 255 do
            Buffer.add_string b (Printf.sprintf "%04x" (int_of_n (F.arc_step c (n_of_int d))))
          done;
          Buffer.contents b
      | _ -> "ERR args")

let () = Handlers.install register

let () =
  try
    while true do
      let line = input_line stdin in
      let resp =
        match split_ws line with
        | [] -> "ERR empty"
        | cmd :: args -> (
            match Hashtbl.find_opt handlers cmd with
            | None -> "ERR unknown " ^ cmd
            | Some f -> ( try f args with e -> "ERR exn " ^ Printexc.to_string e))
      in
      print_string resp;
      print_char '\n';
      flush stdout
    done
  with End_of_file -> ()
