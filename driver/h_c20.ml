(* C20 request handlers: the extracted String-method model and the extracted
   spec functions evaluated on the generated type table. *)
module F = Fitmodel_c20

let rec pos_of_int i =
  if i <= 1 then F.XH
  else if i land 1 = 0 then F.XO (pos_of_int (i lsr 1))
  else F.XI (pos_of_int (i lsr 1))

let n_of_int i = if i = 0 then F.N0 else F.Npos (pos_of_int i)

let rec int_of_pos = function
  | F.XH -> 1
  | F.XO p -> 2 * int_of_pos p
  | F.XI p -> (2 * int_of_pos p) + 1

let int_of_n = function F.N0 -> 0 | F.Npos p -> int_of_pos p

let char_of_ascii (F.Ascii (b0, b1, b2, b3, b4, b5, b6, b7)) =
  let bit b k = if b then 1 lsl k else 0 in
  Char.chr (bit b0 0 lor bit b1 1 lor bit b2 2 lor bit b3 3 lor bit b4 4 lor bit b5 5 lor bit b6 6 lor bit b7 7)

let add_coq_string b (s : F.string) =
  let rec go = function
    | F.EmptyString -> ()
    | F.String (a, r) ->
        Buffer.add_char b (char_of_ascii a);
        go r
  in
  go s

let types : F.gtype array = Array.of_list F.types

(* model: String() of value v of type number t *)
let add_model b (t : F.gtype) v =
  match F.type_string t (n_of_int v) with
  | Some s -> add_coq_string b s
  | None -> Buffer.add_string b "!PANIC"

(* spec: "=name1|name2" when v is the value of constants, "~Type(n)" otherwise *)
let add_spec b (t : F.gtype) v =
  match F.names_of t.F.t_name t.F.t_consts (n_of_int v) with
  | [] ->
      Buffer.add_char b '~';
      add_coq_string b (F.other_text t.F.t_name (n_of_int v))
  | l ->
      Buffer.add_char b '=';
      List.iteri
        (fun i s ->
          if i > 0 then Buffer.add_char b '|';
          add_coq_string b s)
        l

let over_range f a =
  match a with
  | [ t; lo; n ] ->
      let t = types.(int_of_string t) and lo = int_of_string lo and n = int_of_string n in
      let b = Buffer.create (n * 24) in
      for k = 0 to n - 1 do
        if k > 0 then Buffer.add_char b ',';
        f b t (lo + k)
      done;
      Buffer.contents b
  | _ -> "ERR args"

let over_vals f a =
  match a with
  | t :: vs ->
      let t = types.(int_of_string t) in
      let b = Buffer.create 256 in
      List.iteri
        (fun k v ->
          if k > 0 then Buffer.add_char b ',';
          f b t (int_of_string v))
        vs;
      Buffer.contents b
  | _ -> "ERR args"

let install (register : string -> (string list -> string) -> unit) =
  (* c20_types : "Name:bits:nconsts ..." in table order *)
  register "c20_types" (fun _ ->
      let b = Buffer.create 4096 in
      Array.iteri
        (fun i (t : F.gtype) ->
          if i > 0 then Buffer.add_char b ' ';
          add_coq_string b t.F.t_name;
          Buffer.add_string b (Printf.sprintf ":%d:%d" (int_of_n t.F.t_bits) (List.length t.F.t_consts)))
        types;
      Buffer.contents b);
  (* c20_listed : the names of the "fit types" comment *)
  register "c20_listed" (fun _ ->
      let b = Buffer.create 4096 in
      List.iteri
        (fun i s ->
          if i > 0 then Buffer.add_char b ' ';
          add_coq_string b s)
        F.listed_types;
      Buffer.contents b);
  (* c20_consts t : "Name=value ..." *)
  register "c20_consts" (fun a ->
      match a with
      | [ t ] ->
          let t = types.(int_of_string t) in
          let b = Buffer.create 4096 in
          List.iteri
            (fun i (n, v) ->
              if i > 0 then Buffer.add_char b ' ';
              add_coq_string b n;
              Buffer.add_string b (Printf.sprintf "=%d" (int_of_n v)))
            t.F.t_consts;
          Buffer.contents b
      | _ -> "ERR args");
  register "c20_model_range" (over_range add_model);
  register "c20_spec_range" (over_range add_spec);
  register "c20_model_vals" (over_vals add_model);
  register "c20_spec_vals" (over_vals add_spec);
  (* c20_tables t : does the modelled stringer reproduce the checked-in representation? *)
  register "c20_tables" (fun a ->
      match a with
      | [ t ] ->
          let t = types.(int_of_string t) in
          if F.stringer_model t.F.t_name t.F.t_consts = t.F.t_rep then "same" else "differ"
      | _ -> "ERR args")
