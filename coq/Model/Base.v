(* internal/types: Base and Fit. Base-type facts come from the tables the
   translator reads off the exported methods (Gen/BaseTables.v); None means the
   Go call panics (array index out of range). The bit layout of types.Fit is
   written by hand and checked against the generated table in Proofs/GenTie.v. *)
From Coq Require Import NArith ZArith List Bool.
From FitV Require Import Model.Values Gen.BaseTables.
Import ListNotations.
Local Open Scope N_scope.

Definition base_enum : N := 0x00.   Definition base_sint8 : N := 0x01.
Definition base_uint8 : N := 0x02.  Definition base_sint16 : N := 0x83.
Definition base_uint16 : N := 0x84. Definition base_sint32 : N := 0x85.
Definition base_uint32 : N := 0x86. Definition base_string : N := 0x07.
Definition base_float32 : N := 0x88. Definition base_float64 : N := 0x89.
Definition base_uint8z : N := 0x0A. Definition base_uint16z : N := 0x8B.
Definition base_uint32z : N := 0x8C. Definition base_byte : N := 0x0D.
Definition base_sint64 : N := 0x8E. Definition base_uint64 : N := 0x8F.
Definition base_uint64z : N := 0x90.

Definition tbl {A} (l : list (option A)) (b : N) : option A := nth (N.to_nat b) l None.

(* func (t Base) Known() bool etc.; argument is the byte value *)
Definition b_known (b : N) : option bool := tbl base_known b.
Definition b_size (b : N) : option N := tbl base_size b.
Definition b_signed (b : N) : option bool := tbl base_signed b.
Definition b_integer (b : N) : option bool := tbl base_integer b.
(* func (t Base) Float() bool { return !t.Integer() && t.Signed() } *)
Definition b_float (b : N) : option bool :=
  match b_integer b with
  | None => None
  | Some true => Some false      (* short-circuit: Signed not evaluated *)
  | Some false => b_signed b
  end.
Definition b_invalid (b : N) : option goval := tbl base_invalid b.

(* types.Fit *)
Definition kind_native : N := 0. Definition kind_timeutc : N := 1. Definition kind_timelocal : N := 2.
Definition kind_lat : N := 3.    Definition kind_lng : N := 4.

(* func decompress(b byte) Base *)
Definition decompress (b : N) : N :=
  let b := N.land b 0x1F in
  if (b =? 3) || (b =? 4) || (b =? 5) || (b =? 6) || (b =? 8) || (b =? 9) || (b =? 0x0B) || (b =? 0x0C)
     || (b =? 0x0E) || (b =? 0x0F) || (b =? 0x10)
  then b + 0x80 else b.

Definition fit_kind (f : N) : N := N.shiftr (N.land f 0x1C0) 6.
Definition fit_array (f : N) : bool := N.shiftr (N.land f 0x20) 5 =? 1.
Definition fit_base (f : N) : N := decompress (N.land f 0xFF).
