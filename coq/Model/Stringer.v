(* C20 -- executable model of the generated String methods of types_string.go
   (three shapes emitted by cmd/fitgen/internal/fitstringer) and of the
   stringer's table construction (stringer.go: splitIntoRuns, generate,
   buildOneRun, buildMultipleRuns, buildMap, createIndexAndNameDecl).

   Values are the bit patterns of the unsigned underlying type, as N below
   2^bits.  A result of None stands for a run-time panic of the Go code (index
   or slice bounds out of range).  No proofs here. *)
From Coq Require Import NArith List String Ascii Bool.
Import ListNotations.
Local Open Scope N_scope.

(* ---------- the representation present in types_string.go ---------- *)

(* one case of the "multiple runs" switch *)
Inductive mcase :=
| CEq (v : N) (name : string)
    (* case i == v: return _T_name_k *)
| CRange (lo hi : N) (sub : option N) (name : string) (idxbits : N) (index : list N).
    (* case lo <= i && i <= hi: [i -= sub]; return _T_name_k[_T_index_k[i]:_T_index_k[i+1]] *)

Inductive shape :=
| SOne (sub add : option N) (name : string) (idxbits : N) (index : list N)
    (* [i -= sub]; if i >= T(len(index)-1) { return pre + FormatInt(int64(i [+ add]), 10) + post };
       return name[index[i]:index[i+1]] *)
| SMulti (cases : list mcase)
    (* switch { cases...; default: return pre + FormatInt(int64(i), 10) + post } *)
| SMap (name : string) (entries : list (N * (N * N))).
    (* if str, ok := map[i]; ok { return str }; return pre + FormatInt(int64(i), 10) + post
       with map = { key: name[a:b], ... } *)

Record strmethod := mk_strmethod {
  m_pre : string;    (* string literal before strconv.FormatInt in the fallback, as written *)
  m_post : string;   (* string literal after it *)
  m_shape : shape }.

(* one generated FIT type: types.go + its String method *)
Record gtype := mk_gtype {
  t_name : string;
  t_bits : N;                      (* width of the underlying integer type *)
  t_signed : bool;
  t_consts : list (string * N);    (* (constant name, value) in declaration order *)
  t_rep : strmethod }.

(* ---------- Go primitives ---------- *)

(* strconv.FormatInt(x, 10) for x >= 0: decimal digits, most significant first *)
Definition digit (d : N) : ascii := ascii_of_N (48 + d).

Fixpoint dec_aux (fuel : nat) (n : N) (acc : string) : string :=
  match fuel with
  | O => acc
  | S f => let acc' := String (digit (n mod 10)) acc in
           if n / 10 =? 0 then acc' else dec_aux f (n / 10) acc'
  end.

Definition dec (n : N) : string := dec_aux (S (N.size_nat n)) n EmptyString.

(* strconv.FormatInt(int64(i), 10) for i the bit pattern of an unsigned value
   of at most 64 bits: the conversion to int64 reinterprets bit 63 as the sign *)
Definition format_int64 (i : N) : string :=
  let i := i mod 2 ^ 64 in
  if i <? 2 ^ 63 then dec i else String "-"%char (dec (2 ^ 64 - i)).

(* s[a:b] on a Go string: panics unless a <= b <= len(s) *)
Definition slice (s : string) (a b : N) : option string :=
  if (a <=? b) && (b <=? N.of_nat (String.length s))
  then Some (substring (N.to_nat a) (N.to_nat (b - a)) s)
  else None.

(* arr[i]: panics unless i < len(arr) *)
Definition idx (l : list N) (i : N) : option N :=
  if i <? N.of_nat (List.length l) then nth_error l (N.to_nat i) else None.

(* unsigned arithmetic of a bits-wide type; constants as written fit the type
   (the compiler rejects the file otherwise) *)
Definition usub (bits i k : N) : N := (i + 2 ^ bits - k mod 2 ^ bits) mod 2 ^ bits.
Definition uadd (bits i k : N) : N := (i + k) mod 2 ^ bits.

(* name[index[i]:index[i+1]] with i of the bits-wide type *)
Definition index_slice (bits : N) (name : string) (index : list N) (i : N) : option string :=
  match idx index i, idx index (uadd bits i 1) with
  | Some a, Some b => slice name a b
  | _, _ => None
  end.

Fixpoint assoc {A : Type} (k : N) (l : list (N * A)) : option A :=
  match l with
  | [] => None
  | (k', a) :: r => if k =? k' then Some a else assoc k r
  end.

(* ---------- the String method ---------- *)

Definition fallback (m : strmethod) (i : N) : string :=
  (m_pre m ++ format_int64 i ++ m_post m)%string.

Definition case_matches (c : mcase) (i : N) : bool :=
  match c with
  | CEq v _ => i =? v
  | CRange lo hi _ _ _ _ => (lo <=? i) && (i <=? hi)
  end.

Definition case_result (bits : N) (c : mcase) (i : N) : option string :=
  match c with
  | CEq _ name => Some name
  | CRange _ _ sub name _ index =>
      let i := match sub with Some k => usub bits i k | None => i end in
      index_slice bits name index i
  end.

Fixpoint run_cases (bits : N) (cases : list mcase) (i : N) : option (option string) :=
  match cases with
  | [] => None     (* default *)
  | c :: r => if case_matches c i then Some (case_result bits c i) else run_cases bits r i
  end.

Definition string_of (bits : N) (m : strmethod) (v : N) : option string :=
  match m_shape m with
  | SOne sub add name _ index =>
      let i := match sub with Some k => usub bits v k | None => v end in
      if N.of_nat (List.length index) - 1 <=? i
      then Some (fallback m (match add with Some k => uadd bits i k | None => i end))
      else index_slice bits name index i
  | SMulti cases =>
      match run_cases bits cases v with
      | Some r => r
      | None => Some (fallback m v)
      end
  | SMap name entries =>
      match assoc v entries with
      | Some (a, b) => slice name a b
      | None => Some (fallback m v)
      end
  end.

Definition type_string (T : gtype) (v : N) : option string := string_of (t_bits T) (t_rep T) v.

(* ---------- the stringer's table construction ---------- *)

Fixpoint is_prefix (p s : string) : bool :=
  match p, s with
  | EmptyString, _ => true
  | String a p', String b s' => Ascii.eqb a b && is_prefix p' s'
  | String _ _, EmptyString => false
  end.

Fixpoint drop (n : nat) (s : string) : string :=
  match n, s with
  | O, _ => s
  | S k, String _ r => drop k r
  | S _, EmptyString => EmptyString
  end.

(* strings.TrimPrefix *)
Definition trim_prefix (s p : string) : string :=
  if is_prefix p s then drop (String.length p) s else s.

(* sort.Stable by value: insertion from the right, an element goes before the
   first element that is not smaller, so equal values keep declaration order *)
Fixpoint insert_stable (x : string * N) (l : list (string * N)) : list (string * N) :=
  match l with
  | [] => [x]
  | y :: r => if snd x <=? snd y then x :: l else y :: insert_stable x r
  end.

Definition sort_stable (l : list (string * N)) : list (string * N) :=
  fold_right insert_stable [] l.

(* remove duplicates of a sorted list keeping the first of equal values
   (values[i].value != values[i-1].value keeps values[i]) *)
Fixpoint dedup_aux (last : N) (l : list (string * N)) : list (string * N) :=
  match l with
  | [] => []
  | y :: r => if snd y =? last then dedup_aux last r else y :: dedup_aux (snd y) r
  end.

Definition dedup (l : list (string * N)) : list (string * N) :=
  match l with
  | [] => []
  | x :: r => x :: dedup_aux (snd x) r
  end.

(* runs of contiguous values; the list is non-empty, sorted, duplicate free *)
Fixpoint split_runs_aux (cur : list (string * N)) (last : N) (l : list (string * N))
  : list (list (string * N)) :=
  match l with
  | [] => [rev cur]
  | x :: r => if snd x =? last + 1 then split_runs_aux (x :: cur) (snd x) r
              else rev cur :: split_runs_aux [x] (snd x) r
  end.

Definition split_runs (l : list (string * N)) : list (list (string * N)) :=
  match l with
  | [] => []
  | x :: r => split_runs_aux [x] (snd x) r
  end.

Definition usize (n : N) : N := if n <? 256 then 8 else if n <? 65536 then 16 else 32.

Definition slen (s : string) : N := N.of_nat (String.length s).

Definition concat_names (run : list (string * N)) : string :=
  fold_right (fun x acc => (fst x ++ acc)%string) EmptyString run.

(* createIndexAndNameDecl: 0 followed by the running end offsets *)
Fixpoint end_offsets (off : N) (run : list (string * N)) : list N :=
  match run with
  | [] => []
  | x :: r => (off + slen (fst x)) :: end_offsets (off + slen (fst x)) r
  end.

Definition index_of_run (run : list (string * N)) : list N := 0 :: end_offsets 0 run.

Definition first_value (run : list (string * N)) : N :=
  match run with [] => 0 | x :: _ => snd x end.

Definition last_value (run : list (string * N)) : N := first_value (rev run).

Definition opt_offset (lo : N) : option N := if lo =? 0 then None else Some lo.

Definition build_one (run : list (string * N)) : shape :=
  let name := concat_names run in
  SOne (opt_offset (first_value run)) (opt_offset (first_value run)) name (usize (slen name)) (index_of_run run).

Definition build_case (run : list (string * N)) : mcase :=
  match run with
  | [x] => CEq (snd x) (fst x)
  | _ => let name := concat_names run in
         CRange (first_value run) (last_value run) (opt_offset (first_value run)) name (usize (slen name)) (index_of_run run)
  end.

Fixpoint map_entries (off : N) (l : list (string * N)) : list (N * (N * N)) :=
  match l with
  | [] => []
  | x :: r => (snd x, (off, off + slen (fst x))) :: map_entries (off + slen (fst x)) r
  end.

Definition build_map (runs : list (list (string * N))) : shape :=
  let all := List.concat runs in
  SMap (concat_names all) (map_entries 0 all).

Definition stringer_model (tname : string) (consts : list (string * N)) : strmethod :=
  let values := map (fun c => (trim_prefix (fst c) tname, snd c)) consts in
  let runs := split_runs (dedup (sort_stable values)) in
  mk_strmethod (tname ++ "(")%string ")"%string
    (match runs with
     | [run] => build_one run
     | _ => if N.of_nat (List.length runs) <=? 10 then SMulti (map build_case runs) else build_map runs
     end).
