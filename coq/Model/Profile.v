(* profile.go: lookups over the compiled-in profile (Gen/ProfileData.v). *)
From Coq Require Import NArith ZArith List Bool String.
From FitV Require Import Model.Values Gen.ProfileData Gen.Consts.
Import ListNotations.
Local Open Scope N_scope.

Definition find_msg (gmn : N) : option msgdesc := find (fun m => md_num m =? gmn) messages.

(* knownMsgNums[gmn] *)
Definition known_msg (gmn : N) : bool := existsb (N.eqb gmn) known_msgnums.

(* func getField(gmn MesgNum, fdn byte) (ptr field, bool) *)
Definition get_field (gmn fdn : N) : option pfield :=
  if fields_len <=? gmn then None else
  match find_msg gmn with
  | None => None
  | Some m =>
      match find (fun e => fst e =? fdn) (md_entries m) with
      | Some e => Some (snd e)
      | None => None
      end
  end.

(* func getMesgAllInvalid(mn MesgNum) reflect.Value; None = the call panics
   (index out of range of newMesgFuncs, or nil function) *)
Definition mesg_all_invalid (gmn : N) : option msg :=
  match find_msg gmn with
  | Some m => if md_has_ctor m then Some (mk_msg gmn (md_invalid m)) else None
  | None => None
  end.

Definition msg_layout (gmn : N) : list (string * gotype) :=
  match find_msg gmn with Some m => md_layout m | None => [] end.

Definition field_type (gmn : N) (sindex : nat) : option gotype :=
  match nth_error (msg_layout gmn) sindex with Some (_, t) => Some t | None => None end.

(* index of a struct field by name *)
Fixpoint index_of_name (name : string) (l : list (string * gotype)) (i : nat) : option nat :=
  match l with
  | [] => None
  | (n, _) :: r => if String.eqb n name then Some i else index_of_name name r (S i)
  end.
Definition sindex_of (gmn : N) (name : string) : option nat := index_of_name name (msg_layout gmn) 0.

(* Go zero value of a type (new(File) leaves FileId zero, not all-invalid).
   time.Time{} relative to the FIT epoch comes from Gen.ProfileData.zero_time_sec. *)
Definition zero_val (t : gotype) : goval :=
  match t with
  | TU _ => VU 0 | TI _ => VI 0 | TF _ => VF 0 | TStr => VStr []
  | TTime => VTime zero_time_sec 0 None
  | TLat => VLat 0 | TLng => VLng 0
  | TSlice _ => VNil | TOther => VOther
  end.
Definition zero_msg (gmn : N) : msg := mk_msg gmn (map (fun p => zero_val (snd p)) (msg_layout gmn)).
