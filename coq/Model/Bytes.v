(* Byte-order and fixed-width helpers: encoding/binary's ByteOrder functions and
   Go's integer conversions, written out with explicit mod 2^k. Bytes are N < 256. *)
From Coq Require Import NArith ZArith List.
Import ListNotations.
Local Open Scope N_scope.

Definition b_at (l : list N) (i : nat) : N := nth i l 0.

Definition le16 (l : list N) : N := b_at l 0 + 256 * b_at l 1.
Definition be16 (l : list N) : N := 256 * b_at l 0 + b_at l 1.
Definition le32 (l : list N) : N := b_at l 0 + 256 * b_at l 1 + 65536 * b_at l 2 + 16777216 * b_at l 3.
Definition be32 (l : list N) : N := 16777216 * b_at l 0 + 65536 * b_at l 1 + 256 * b_at l 2 + b_at l 3.

(* arch: false = little endian, true = big endian *)
Definition get16 (be : bool) (l : list N) : N := if be then be16 l else le16 l.
Definition get32 (be : bool) (l : list N) : N := if be then be32 l else le32 l.

Definition put_le16 (x : N) : list N := [x mod 256; (x / 256) mod 256].
Definition put_be16 (x : N) : list N := [(x / 256) mod 256; x mod 256].
Definition put_le32 (x : N) : list N := [x mod 256; (x / 256) mod 256; (x / 65536) mod 256; (x / 16777216) mod 256].
Definition put_be32 (x : N) : list N := [(x / 16777216) mod 256; (x / 65536) mod 256; (x / 256) mod 256; x mod 256].
Definition put16 (be : bool) (x : N) : list N := if be then put_be16 x else put_le16 x.
Definition put32 (be : bool) (x : N) : list N := if be then put_be32 x else put_le32 x.

(* big/little endian unsigned value of an arbitrary-length byte list *)
Fixpoint le_val (l : list N) : N := match l with [] => 0 | b :: r => b + 256 * le_val r end.
Definition be_val (l : list N) : N := fold_left (fun acc b => 256 * acc + b) l 0.
Definition get_val (be : bool) (l : list N) : N := if be then be_val l else le_val l.

(* two's complement *)
Definition to_signed (bits : N) (x : N) : Z :=
  if x <? 2 ^ (bits - 1) then Z.of_N x else (Z.of_N x - Z.of_N (2 ^ bits))%Z.
Definition of_signed (bits : N) (z : Z) : N := Z.to_N (z mod Z.of_N (2 ^ bits)).
(* Go conversion uintN(x) / intN(x) of a wider integer *)
Definition wrap_u (bits : N) (x : N) : N := x mod 2 ^ bits.
Definition wrap_s (bits : N) (z : Z) : Z := to_signed bits (of_signed bits z).

Definition is_byte (b : N) : bool := b <? 256.
Definition all_bytes (l : list N) : bool := forallb is_byte l.
