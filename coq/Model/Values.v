(* Go values as the model sees them: the types shared by the generated tables
   (Gen/), the model and the specs. *)
From Coq Require Import NArith ZArith List String.
Import ListNotations.
Local Open Scope N_scope.

(* Go type of a message struct field, as reported by reflect. *)
Inductive gotype :=
| TU (bits : N)            (* uint8/16/32/64 and named types over them *)
| TI (bits : N)            (* int8/16/32/64 *)
| TF (bits : N)            (* float32/64 *)
| TStr
| TTime                    (* time.Time *)
| TLat | TLng              (* fit.Latitude / fit.Longitude *)
| TSlice (elem : gotype)
| TOther.

(* A Go value stored in a message struct field.
   VTime sec nsec zone: seconds relative to the FIT epoch 1989-12-31T00:00:00Z,
   nanoseconds, and zone = None for UTC or Some offset for a fixed zone. *)
Inductive goval :=
| VU (n : N)
| VI (z : Z)
| VF (bits : N)
| VStr (s : list N)
| VTime (sec : Z) (nsec : N) (zone : option Z)
| VLat (z : Z)
| VLng (z : Z)
| VNil
| VList (l : list goval)
| VOther.

(* profile lookup table entry: fit.field *)
Record pfield := mk_pfield { pf_sindex : nat; pf_num : N; pf_t : N; pf_length : N }.

(* everything the compiled profile says about one message number *)
Record msgdesc := mk_msgdesc {
  md_num : N;
  md_name : string;            (* Go struct type name from msgsTypes, "" if none *)
  md_known : bool;             (* knownMsgNums[num] *)
  md_has_type : bool;          (* msgsTypes[num] != nil *)
  md_has_ctor : bool;          (* newMesgFuncs[num] != nil *)
  md_ctor_type : string;       (* type of the value the constructor returns *)
  md_layout : list (string * gotype);   (* struct fields in order *)
  md_invalid : list goval;     (* constructor result, field by field *)
  md_entries : list (N * pfield) (* _fields[num][k] for the non-nil k *)
}.

(* how File.add was observed to store a message in a slot *)
Inductive rmode := RAppend | ROverwrite | ROther.

(* a decoded message: global number and struct field values by index *)
Record msg := mk_msg { m_num : N; m_fields : list goval }.

Fixpoint goval_eqb (a b : goval) : bool :=
  match a, b with
  | VU x, VU y => N.eqb x y
  | VI x, VI y => Z.eqb x y
  | VF x, VF y => N.eqb x y
  | VStr x, VStr y => if list_eq_dec N.eq_dec x y then true else false
  | VTime s n z, VTime s' n' z' =>
      Z.eqb s s' && N.eqb n n' &&
      match z, z' with None, None => true | Some a, Some b => Z.eqb a b | _, _ => false end
  | VLat x, VLat y => Z.eqb x y
  | VLng x, VLng y => Z.eqb x y
  | VNil, VNil => true
  | VList x, VList y =>
      (fix go (x y : list goval) : bool :=
         match x, y with
         | [], [] => true
         | a :: x', b :: y' => goval_eqb a b && go x' y'
         | _, _ => false
         end) x y
  | VOther, VOther => true
  | _, _ => false
  end%bool.

Fixpoint gotype_eqb (a b : gotype) : bool :=
  match a, b with
  | TU x, TU y | TI x, TI y | TF x, TF y => N.eqb x y
  | TStr, TStr | TTime, TTime | TLat, TLat | TLng, TLng | TOther, TOther => true
  | TSlice x, TSlice y => gotype_eqb x y
  | _, _ => false
  end.
