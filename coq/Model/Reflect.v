(* The reflect setters reader.go uses, with their panics: None = panic
   (wrong Kind, unassignable type). Width truncation as reflect does it. *)
From Coq Require Import NArith ZArith List Bool.
From FitV Require Import Model.Values Model.Bytes.
Import ListNotations.
Local Open Scope N_scope.

(* Value.SetUint: panics unless Kind is Uint*; stores uintN(x) *)
Definition set_uint (t : gotype) (x : N) : option goval :=
  match t with TU bits => Some (VU (wrap_u bits x)) | _ => None end.

(* Value.SetInt: panics unless Kind is Int*; stores intN(x) *)
Definition set_int (t : gotype) (z : Z) : option goval :=
  match t with TI bits => Some (VI (wrap_s bits z)) | _ => None end.

(* Value.SetFloat: panics unless Kind is Float32/64. The profile has no float
   fields (profile_wf); the bit pattern is kept as is for float32 sources. *)
Definition set_float (t : gotype) (bits : N) : option goval :=
  match t with TF _ => Some (VF bits) | _ => None end.

Definition set_string (t : gotype) (s : list N) : option goval :=
  match t with TStr => Some (VStr s) | _ => None end.

(* Value.SetBytes: panics unless []byte *)
Definition set_bytes (t : gotype) (l : list N) : option goval :=
  match t with TSlice (TU 8) => Some (VList (map VU l)) | _ => None end.

(* Value.Set(reflect.ValueOf(x)): x must be assignable to the field type *)
Definition set_time (t : gotype) (v : goval) : option goval := match t with TTime => Some v | _ => None end.
Definition set_lat (t : gotype) (v : goval) : option goval := match t with TLat => Some v | _ => None end.
Definition set_lng (t : gotype) (v : goval) : option goval := match t with TLng => Some v | _ => None end.
Definition set_strings (t : gotype) (l : list (list N)) : option goval :=
  match t with TSlice TStr => Some (match l with [] => VNil | _ => VList (map VStr l) end) | _ => None end.

(* reflect.MakeSlice(fieldv.Type(), n, n) then Index(k).SetUint/SetInt/SetFloat
   for each element, then fieldv.Set(slicev) *)
Definition set_uint_slice (t : gotype) (l : list N) : option goval :=
  match t with
  | TSlice (TU bits) => Some (VList (map (fun x => VU (wrap_u bits x)) l))
  | TSlice _ => match l with [] => Some (VList []) | _ => None end
  | _ => None
  end.
Definition set_int_slice (t : gotype) (l : list Z) : option goval :=
  match t with
  | TSlice (TI bits) => Some (VList (map (fun z => VI (wrap_s bits z)) l))
  | TSlice _ => match l with [] => Some (VList []) | _ => None end
  | _ => None
  end.
Definition set_float_slice (t : gotype) (l : list N) : option goval :=
  match t with
  | TSlice (TF _) => Some (VList (map VF l))
  | TSlice _ => match l with [] => Some (VList []) | _ => None end
  | _ => None
  end.

Fixpoint set_nth {A} (n : nat) (x : A) (l : list A) : list A :=
  match l, n with
  | [], _ => []
  | _ :: r, O => x :: r
  | a :: r, S k => a :: set_nth k x r
  end.
