(* Model of /repo/dyncrc16/dyncrc16.go: nibble-table CRC with a 16-bit register. *)
From Coq Require Import NArith List.
From FitV Require Import Gen.CrcTable.
Import ListNotations.
Local Open Scope N_scope.

(* crcTable[i] *)
Definition T (i : N) : N := nth (N.to_nat i) crc_table 0.

(* func updateByte(c crc16, data byte) crc16 *)
Definition update_byte (c d : N) : N :=
  let tmp := T (N.land c 15) in
  let c1 := N.land (N.shiftr c 4) 0x0FFF in
  let c2 := N.lxor (N.lxor c1 tmp) (T (N.land d 15)) in
  let tmp2 := T (N.land c2 15) in
  let c3 := N.land (N.shiftr c2 4) 0x0FFF in
  N.lxor (N.lxor c3 tmp2) (T (N.land (N.shiftr d 4) 15)).

(* func update(c crc16, data []byte) crc16 *)
Definition update (c : N) (data : list N) : N := fold_left update_byte data c.

(* func Checksum(data []byte) uint16 *)
Definition checksum (data : list N) : N := update 0 data.

(* the Hash16 returned by New(): the state is the register *)
Definition crc_new : N := 0.
Definition crc_write (h : N) (data : list N) : N := update h data.
Definition crc_sum16 (h : N) : N := h.
Definition crc_reset (h : N) : N := 0.
