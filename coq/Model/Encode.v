(* writer.go: the encoder, as the code is written now (field order of a slice's
   definition sorted by field number; Header.CRC written back for 14-byte
   headers). Total functions; every point where Go can panic is an explicit
   EPanic outcome:
     1 getMesgAllInvalid on a message without constructor
     2 "mismatched number of fields" / Value.Field out of range
     3 failed type assertion in encodeValue (value.(time.Time) etc.)
     4 a types.Base table access out of range (bsize[t.index()])
     9 nil profile field dereferenced (getFieldBySindex fell through to a nil fields[255])
    10 nil container dereferenced (FileId.Type names a container that init did not create)
    11 slice bounds out of range in encodeString (profile length 0)
    12 the model value does not have the Go type of its struct field (not a Go state; excluded by wf_file)
    13 Value.Len on a non-slice
   Errors are classes (only nil / non-nil is ever compared with the implementation).
   Not modelled: errors of the destination io.Writer (the harness writes into a
   bytes.Buffer, which never fails); nil elements inside a container slice. *)
From Coq Require Import NArith ZArith List Bool String.
From FitV Require Import Model.Values Model.Bytes Model.Base Model.Profile Model.Reflect Model.Crc
  Model.Header Model.Components Model.Route Gen.Consts Gen.RoutingData.
Import ListNotations.
Local Open Scope N_scope.

Inductive eerr :=
| EEFileType        (* "encode failed: Unknown filetype" *)
| EEString          (* encodeString: not valid UTF-8 *)
| EENotString       (* "not a string" *)
| EEStringArray     (* "can't encode array of strings" *)
| EEWrite           (* binary.Write: invalid type *)
| EEKind.           (* "unknown Fit type" *)

Inductive eres (A : Type) :=
| EOk (a : A)
| EErr (e : eerr)
| EPanic (w : N).
Arguments EOk {A}. Arguments EErr {A}. Arguments EPanic {A}.

Definition ebind {A B} (r : eres A) (f : A -> eres B) : eres B :=
  match r with
  | EOk a => f a
  | EErr e => EErr e
  | EPanic w => EPanic w
  end.

(* sequence a list of results, concatenating the byte lists *)
Fixpoint econcat (l : list (eres (list N))) : eres (list N) :=
  match l with
  | [] => EOk []
  | r :: rest => ebind r (fun a => ebind (econcat rest) (fun b => EOk (a ++ b)))
  end.

(* ------------------------------------------------------------ binary.Write *)

(* n little-endian bytes of x (x mod 256^n) *)
Fixpoint le_bytes (n : nat) (x : N) : list N :=
  match n with
  | O => []
  | S k => x mod 256 :: le_bytes k (x / 256)
  end.
Definition put_int (be : bool) (n : nat) (x : N) : list N :=
  if be then rev (le_bytes n x) else le_bytes n x.

Definition nbytes (bits : N) : nat := N.to_nat (bits / 8).

(* binary.Write(w, arch, v) for a value v of Go type ty: integers and floats by
   their Go width, slices element-wise, one-field structs (Latitude, Longitude)
   field-wise; string and time.Time are "invalid type" errors. *)
Fixpoint bw (be : bool) (ty : gotype) (v : goval) {struct v} : eres (list N) :=
  match ty, v with
  | TU bits, VU n => EOk (put_int be (nbytes bits) (n mod 2 ^ bits))
  | TI bits, VI z => EOk (put_int be (nbytes bits) (of_signed bits z))
  | TF bits, VF n => EOk (put_int be (nbytes bits) (n mod 2 ^ bits))
  | TLat, VLat z => EOk (put_int be 4 (of_signed 32 z))
  | TLng, VLng z => EOk (put_int be 4 (of_signed 32 z))
  | TSlice t, VNil => EOk []
  | TSlice t, VList l =>
      (fix go (l : list goval) : eres (list N) :=
         match l with
         | [] => EOk []
         | x :: r => ebind (bw be t x) (fun a => ebind (go r) (fun b => EOk (a ++ b)))
         end) l
  | TStr, VStr _ => EErr EEWrite
  | TTime, VTime _ _ _ => EErr EEWrite
  | _, _ => EPanic 12
  end.

(* ------------------------------------------------------------ time.go *)
Definition max_i64 : Z := 9223372036854775807.
Definition min_i64 : Z := (-9223372036854775808)%Z.

(* t.Sub(timeBase): saturating int64 nanoseconds *)
Definition sub_timebase (sec : Z) (nsec : N) : Z :=
  let d := (sec * 1000000000 + Z.of_N nsec)%Z in
  if (d >? max_i64)%Z then max_i64 else if (d <? min_i64)%Z then min_i64 else d.

(* func encodeTime(t time.Time) uint32: Duration / time.Second truncates toward zero *)
Definition encode_time (sec : Z) (nsec : N) : N :=
  Z.to_N ((Z.quot (sub_timebase sec nsec) 1000000000) mod 4294967296)%Z.

(* uint32(int64(encodeTime(t)) + int64(offs)) *)
Definition encode_time_local (sec : Z) (nsec : N) (zone : option Z) : N :=
  let off := match zone with Some o => o | None => 0%Z end in
  Z.to_N ((Z.of_N (encode_time sec nsec) + off) mod 4294967296)%Z.

(* ------------------------------------------------------------ utf8.Valid *)
Definition cont (b : N) : bool := (0x80 <=? b) && (b <=? 0xBF).
Definition in_rng (lo hi b : N) : bool := (lo <=? b) && (b <=? hi).

Fixpoint utf8_valid_fuel (fuel : nat) (s : list N) : bool :=
  match fuel with
  | O => match s with [] => true | _ => false end
  | S f =>
    match s with
    | [] => true
    | b :: r =>
      if b <? 0x80 then utf8_valid_fuel f r
      else if in_rng 0xC2 0xDF b then
        match r with c1 :: r' => cont c1 && utf8_valid_fuel f r' | _ => false end
      else if in_rng 0xE0 0xEF b then
        match r with
        | c1 :: c2 :: r' =>
            (if b =? 0xE0 then in_rng 0xA0 0xBF c1 else if b =? 0xED then in_rng 0x80 0x9F c1 else cont c1)
            && cont c2 && utf8_valid_fuel f r'
        | _ => false
        end
      else if in_rng 0xF0 0xF4 b then
        match r with
        | c1 :: c2 :: c3 :: r' =>
            (if b =? 0xF0 then in_rng 0x90 0xBF c1 else if b =? 0xF4 then in_rng 0x80 0x8F c1 else cont c1)
            && cont c2 && cont c3 && utf8_valid_fuel f r'
        | _ => false
        end
      else false
    end
  end.
Definition utf8_valid (s : list N) : bool := utf8_valid_fuel (S (List.length s)) s.

(* func encodeString(str string, size byte) ([]byte, error) *)
Definition encode_string (s : list N) (size : N) : eres (list N) :=
  if size =? 0 then EPanic 11 (* str[:-1] *) else
  let n := Nat.min (List.length s) (N.to_nat size - 1) in
  let bstr := firstn n s ++ repeat 0 (N.to_nat size - n) in
  if utf8_valid bstr then EOk bstr else EErr EEString.

(* ------------------------------------------------------------ fields *)

(* func (e *encoder) encodeValue(value interface{}, f *field) error *)
Definition encode_value (be : bool) (pf : pfield) (ty : gotype) (v : goval) : eres (list N) :=
  let t := pf_t pf in
  let k := fit_kind t in
  if k =? kind_timeutc then
    match v with VTime s n _ => EOk (put_int be 4 (encode_time s n)) | _ => EPanic 3 end
  else if k =? kind_timelocal then
    match v with VTime s n z => EOk (put_int be 4 (encode_time_local s n z)) | _ => EPanic 3 end
  else if k =? kind_lat then
    match v with VLat z => EOk (put_int be 4 (of_signed 32 z)) | _ => EPanic 3 end
  else if k =? kind_lng then
    match v with VLng z => EOk (put_int be 4 (of_signed 32 z)) | _ => EPanic 3 end
  else if k =? kind_native then
    if fit_base t =? base_string then
      match v with
      | VStr s => encode_string s (pf_length pf)      (* then binary.Write of the []byte *)
      | _ => EErr EENotString
      end
    else bw be ty v
  else EErr EEKind.

(* the Go type of goinvalid[t.index()] *)
Definition invalid_type (bt : N) : option gotype :=
  match b_size bt, b_signed bt, b_integer bt with
  | Some s, Some sg, Some ig =>
      if bt =? base_string then Some TStr
      else if negb ig && sg then Some (TF (8 * s))
      else if sg then Some (TI (8 * s)) else Some (TU (8 * s))
  | _, _, _ => None
  end.

Definition elem_type (ty : gotype) : gotype := match ty with TSlice t => t | _ => TOther end.

(* func (e *encoder) writeField(value reflect.Value, f *field) error *)
Definition write_field (be : bool) (pf : pfield) (ty : gotype) (v : goval) : eres (list N) :=
  let t := pf_t pf in
  if negb (fit_array t) then encode_value be pf ty v else
  if fit_base t =? base_string then EErr EEStringArray else
  match b_known (fit_base t) with
  | None => EPanic 4
  | Some kn =>
    match (match v with VList l => Some l | VNil => Some [] | _ => None end) with
    | None => EPanic 13
    | Some l =>
      let len8 := N.of_nat (List.length l) mod 256 in          (* byte(value.Len()) *)
      let mx := if pf_length pf <? len8 then pf_length pf else len8 in
      let elems := map (encode_value be pf (elem_type ty)) (firstn (N.to_nat mx) l) in
      let npad := N.to_nat (pf_length pf - mx) in
      let pad :=
        match npad with
        | O => []
        | _ =>
          (* Invalid() of an unknown base type is a string: binary.Write rejects it *)
          if negb kn then [EErr EEWrite] else
          match b_invalid (fit_base t), invalid_type (fit_base t) with
          | Some iv, Some ity => repeat (encode_value be pf ity iv) npad
          | _, _ => [EPanic 4]
          end
        end in
      econcat (elems ++ pad)
    end
  end.

(* func getFieldBySindex(index int, fields [256]*field) *field *)
Definition get_field_by_sindex (gmn : N) (i : nat) : option pfield :=
  match find_msg gmn with
  | None => None
  | Some m =>
      match find (fun e => Nat.eqb (pf_sindex (snd e)) i) (md_entries m) with
      | Some e => Some (snd e)
      | None =>
          match find (fun e => fst e =? 255) (md_entries m) with
          | Some e => Some (snd e)
          | None => None
          end
      end
  end.

(* the loop of getEncodeMesgDef over the struct fields i, i+1, ... *)
Fixpoint def_fields (gmn : N) (i : nat) (vals invs : list goval) : eres (list pfield) :=
  match vals, invs with
  | v :: vr, iv :: ir =>
      let field := get_field_by_sindex gmn i in
      let rest := def_fields gmn (S i) vr ir in
      let include :=
        match field with
        | None => EPanic 9
        | Some pf => ebind rest (fun r => EOk (pf :: r))
        end in
      match v with
      | VNil => rest                                    (* fval.IsNil() *)
      | VList l =>
          (* invalid := field.t.BaseType().Invalid() is evaluated before the loop;
             fval.Interface() != invalid compares the slice with a scalar: always true *)
          match field with
          | None => EPanic 9
          | Some pf =>
              match b_known (fit_base (pf_t pf)) with
              | None => EPanic 4
              | Some _ => match l with [] => rest | _ => include end
              end
          end
      | _ => if goval_eqb v iv then rest else include    (* no float fields: == is structural *)
      end
  | _, _ => EOk []
  end.

(* func getEncodeMesgDef(mesg reflect.Value, localMesgNum byte) *encodeMesgDef *)
Definition get_encode_mesg_def (m : msg) : eres (list pfield) :=
  match mesg_all_invalid (m_num m) with
  | None => EPanic 1
  | Some inv =>
      if negb (Nat.eqb (List.length (m_fields m)) (List.length (m_fields inv))) then EPanic 2
      else def_fields (m_num m) 0 (m_fields m) (m_fields inv)
  end.

Definition fdef_bytes (pf : pfield) : eres (list N) :=
  let bt := fit_base (pf_t pf) in
  match b_size bt with
  | None => EPanic 4
  | Some bs =>
      let size := if bt =? base_string then pf_length pf
                  else if fit_array (pf_t pf) then (bs mod 256 * pf_length pf) mod 256
                  else bs mod 256 in
      EOk [pf_num pf; size; bt]
  end.

(* func (e *encoder) writeDefMesg(def *encodeMesgDef) error; localMesgNum is always 0 *)
Definition write_def_mesg (be : bool) (gmn : N) (fields : list pfield) : eres (list N) :=
  ebind (econcat (map fdef_bytes fields)) (fun fb =>
  EOk ([N.lor c_mesgDefinitionMask (N.land 0 c_localMesgNumMask); 0; if be then 1 else 0]
       ++ put_int be 2 (gmn mod 65536)
       ++ [N.of_nat (List.length fields) mod 256]
       ++ fb)).

(* func (e *encoder) writeMesg(mesg reflect.Value, def *encodeMesgDef) error *)
Definition write_mesg (be : bool) (m : msg) (fields : list pfield) : eres (list N) :=
  ebind (econcat (map (fun pf =>
                         match nth_error (m_fields m) (pf_sindex pf), field_type (m_num m) (pf_sindex pf) with
                         | Some v, Some ty => write_field be pf ty v
                         | _, _ => EPanic 2
                         end) fields)) (fun body =>
  EOk (N.land 0 c_localMesgNumMask :: body)).

(* func (e *encoder) encodeDefAndDataMesg(mesg reflect.Value) error *)
Definition encode_def_and_data (be : bool) (m : msg) : eres (list N) :=
  ebind (get_encode_mesg_def m) (fun fields =>
  ebind (write_def_mesg be (m_num m) fields) (fun d =>
  ebind (write_mesg be m fields) (fun w => EOk (d ++ w)))).

(* mfields[f.num] = f, then sort by field number: a sorted association list *)
Fixpoint ins_field (pf : pfield) (l : list pfield) : list pfield :=
  match l with
  | [] => [pf]
  | q :: r =>
      if pf_num pf <? pf_num q then pf :: l
      else if pf_num pf =? pf_num q then pf :: r
      else q :: ins_field pf r
  end.

Fixpoint collect_fields (ms : list msg) (acc : list pfield) : eres (list pfield) :=
  match ms with
  | [] => EOk acc
  | m :: r => ebind (get_encode_mesg_def m) (fun fs => collect_fields r (fold_left (fun a pf => ins_field pf a) fs acc))
  end.

(* the reflect.Slice case of encodeFile: one definition for the union of the
   valid fields of all elements, then one data record per element *)
Definition encode_slice (be : bool) (ms : list msg) : eres (list N) :=
  match ms with
  | [] => EOk []
  | _ =>
      ebind (collect_fields ms []) (fun fields =>
      ebind (write_def_mesg be (m_num (last ms (mk_msg 0 []))) fields) (fun d =>
      ebind (econcat (map (fun m => write_mesg be m fields) ms)) (fun body => EOk (d ++ body))))
  end.

(* one File / container field: pointer (or FileId by value) or slice *)
Definition encode_slot (be : bool) (multi : bool) (ms : list msg) : eres (list N) :=
  if multi then encode_slice be ms else econcat (map (encode_def_and_data be) ms).

(* FileId, FileCreator, TimestampCorrelation, then the container's fields in
   struct order; the hidden developer-data slots 3 and 4 are not encoded *)
Fixpoint encode_slots (be : bool) (i : nat) (descs : list (string * bool * N)) (slots : list (list msg)) : eres (list N) :=
  match descs, slots with
  | (_, multi, _) :: dr, s :: sr =>
      let rest := encode_slots be (S i) dr sr in
      if Nat.eqb i 3 || Nat.eqb i 4 then rest
      else ebind (encode_slot be multi s) (fun a => ebind rest (fun b => EOk (a ++ b)))
  | _, _ => EOk []
  end.

Definition set_header (f : file) (h : header) (crc : N) : file :=
  mk_file h crc (f_slots f) (f_inited f) (f_unkm f) (f_unkf f).

Definition enc_result := eres (list N * file).

(* func Encode(w io.Writer, file *File, arch binary.ByteOrder) error:
   the bytes written to w and the File after the call *)
Definition encode (f : file) (be : bool) : enc_result :=
  let ft := file_type f in
  match ft_entry ft with
  | Some (true, _, descs) =>
      match f_inited f with
      | Some ft' =>
          if negb (ft' =? ft) then EPanic 10 else
          ebind (encode_slots be 0 descs (f_slots f)) (fun data =>
          let h := f_header f in
          let h1 := mk_header (h_size h) (h_proto h) (h_profile h) (N.of_nat (List.length data) mod 2 ^ 32) (h_dtype h) (h_crc h) in
          let '(hdr, hcrc) := header_marshal h1 in
          let h2 := if h_size h =? c_headerSizeCRC
                    then mk_header (h_size h1) (h_proto h1) (h_profile h1) (h_dsize h1) (h_dtype h1) hcrc else h1 in
          let crc := crc_sum16 (crc_write (crc_write crc_new hdr) data) in
          EOk (hdr ++ data ++ put_le16 crc, set_header f h2 crc))
      | None => EPanic 10
      end
  | _ => EErr EEFileType
  end.
