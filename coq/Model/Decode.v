(* reader.go: the decoder, written as [prog] programs over the buffered read
   primitives (Model/IO.v), and the five entry points over a reader oracle.
   Every point where Go can panic is an explicit Panic outcome:
     1 getMesgAllInvalid on a message without constructor      2 Value.Field out of range / on the zero Value
     3 reflect setter on the wrong kind                         4 a types.Base table access out of range
     5 slice bounds in ByteOrder.UintNN (definition size < base type size)
     6 unknown types.Kind ("unreachable")                       7 pre-crc invariant n != limit
     8 integer divide by zero (base type size 0)               30/31 File.add (unmodelled expansion / nil msgAdder)
   The model describes the code as repaired by the fix: commits (DESIGN.md 7):
   sign extension of narrow signed fields, big-endian narrow fields, the
   developer-field block of a zero-field definition, unknown-field counting for
   known messages only, the end-of-chain test of DecodeChained, the two time-rule
   repairs (a local timestamp never becomes the reference; hasTimestamp instead of
   timestamp == 0). *)
From Coq Require Import NArith ZArith List Bool String.
From FitV Require Import Model.Values Model.Bytes Model.Base Model.Profile Model.Reflect Model.Crc
  Model.IO Model.Header Model.Components Model.Route Gen.Consts.
Import ListNotations.
Local Open Scope N_scope.

Inductive err :=
| EReadSizeEOF | EReadSize | EHeaderSize | EReadData | EProto | ENotFit | EHdrCRC
| EParseData | EFileCRCRead | EFileCRC
| EIO (e : ioerr)
| ERecordHeader | ENotDef | ENotFileIdDef | ENotFileIdMsg
| EArch | EGlobalInvalid | EValidate | EMissingDef | EFileType | EParseField.

(* IntegrityError or not: the only distinction between errors a property draws *)
Definition is_integrity (e : err) : bool := match e with EHdrCRC | EFileCRC => true | _ => false end.

Record fdef := mk_fdef { fd_num : N; fd_size : N; fd_btype : N }.
Record defmsg := mk_defmsg {
  dm_local : N; dm_be : bool; dm_gmn : N; dm_fdefs : list fdef; dm_devs : list (N * N * N)
}.

Record dopts := mk_dopts { o_logger : bool; o_unkf : bool; o_unkm : bool }.
Definition no_opts : dopts := mk_dopts false false false.

Record dstate := mk_dstate {
  ds_defs : list (option defmsg);      (* d.defmsgs, 16 slots *)
  ds_ts : N;                           (* d.timestamp *)
  ds_lastoff : N;                      (* d.lastTimeOffset, always in [0,31] *)
  ds_unkf : list (N * N * N);          (* d.unknownFields: (mesg, field, count), insertion order *)
  ds_unkm : list (N * N);              (* d.unknownMessages *)
  ds_file : file;
  ds_g : gstate;
  ds_quirks : list N;                  (* formerly the tags of executions entering a recorded defect; both C12 defects are
                                          repaired (fixed: ac9b0b0, 2f21531), nothing raises a tag: always [] *)
  ds_hasts : bool                      (* d.hasTimestamp: a timestamp field (253) has set the reference *)
}.

Definition P := prog dstate err.
Notation "x <- p ;; q" := (bind p (fun x => q)) (at level 61, p at next level, right associativity).
Notation "p ;;; q" := (bind p (fun _ => q)) (at level 61, right associativity).
Notation "p >>= f" := (bind p f) (at level 50, left associativity).

Definition read_byte : P N := ReadByte (fun b => Ret b).
Definition read_full (n : nat) : P (list N) := ReadFull n (fun l => Ret l).
Definition get_st : P dstate := Get (fun s => Ret s).
Definition put_st (s : dstate) : P unit := Put s (Ret tt).
Definition fail {A} (e : err) : P A := Fail e.
Definition panic {A} (w : N) : P A := Panic w.

(* ------------------------------------------------------------ validation *)
Inductive vres := VOk | VErr | VPanic (w : N).

(* func (d) validateFieldDef(gmsgnum MesgNum, dfield fieldDef) error *)
Definition validate_field_def (gmn : N) (fd : fdef) : vres :=
  let bt := fd_btype fd in
  match b_known bt with
  | None => VPanic 4
  | Some false => VErr
  | Some true =>
    let pf := if known_msg gmn then get_field gmn (fd_num fd) else None in
    if bt =? base_string then
      match pf with
      | None => VOk
      | Some p => if fit_base (pf_t p) =? bt then VOk else VErr
      end
    else
    match b_size bt with
    | None => VPanic 4
    | Some bs =>
      if fd_size fd <? bs then VErr else
      match pf with
      | None => VOk
      | Some p =>
        let pb := fit_base (pf_t p) in
        if negb (fit_array (pf_t p)) then
          match b_size pb with
          | None => VPanic 4
          | Some ps =>
            if ps <? fd_size fd then VErr
            else if negb (bt =? pb) then
              match b_signed pb, b_signed bt with
              | Some sp, Some sd =>
                if negb (Bool.eqb sp sd) then VErr else
                match b_float bt with
                | None => VPanic 4
                | Some fl =>
                  let c2 := if fl then match b_float pb with
                                       | None => None
                                       | Some fp => Some (negb fp)
                                       end
                            else Some false in
                  match c2 with
                  | None => VPanic 4
                  | Some true => VErr
                  | Some false => if (pb =? base_string) && negb (bt =? base_string) then VErr else VOk
                  end
                end
              | _, _ => VPanic 4
              end
            else VOk
          end
        else
          if bs =? 0 then VPanic 8
          else if negb ((fd_size fd) mod bs =? 0) then VErr
          else if negb (bt =? pb) then VErr
          else VOk
      end
    end
  end.

Fixpoint chunk3 (l : list N) : list (N * N * N) :=
  match l with
  | a :: b :: c :: r => (a, b, c) :: chunk3 r
  | _ => []
  end.

Fixpoint validate_all (gmn : N) (fds : list fdef) : vres :=
  match fds with
  | [] => VOk
  | fd :: r => match validate_field_def gmn fd with VOk => validate_all gmn r | x => x end
  end.

(* func (d) parseDefinitionMessage(recordHeader byte) (ptr defmsg, error) *)
Definition parse_definition_message (b : N) : P defmsg :=
  let local := N.land b c_localMesgNumMask in
  read_byte ;;;
  arch <- read_byte ;;
  (if arch =? c_littleEndian then Ret false
   else if arch =? c_bigEndian then Ret true
   else fail EArch) >>= (fun be =>
  g2 <- read_full 2 ;;
  let gmn := get16 be g2 in
  if gmn =? c_MesgNumInvalid then fail EGlobalInvalid else
  nf <- read_byte ;;
  fb <- read_full (3 * N.to_nat nf)%nat ;;
  let fds := map (fun t => match t with (a, b, c) => mk_fdef a b c end) (chunk3 fb) in
  match validate_all gmn fds with
  | VPanic w => panic w
  | VErr => fail EValidate
  | VOk =>
    if N.land b c_devDataMask =? c_devDataMask then
      nd <- read_byte ;;
      db <- read_full (3 * N.to_nat nd)%nat ;;
      Ret (mk_defmsg local be gmn fds (chunk3 db))
    else Ret (mk_defmsg local be gmn fds [])
  end).

(* ------------------------------------------------------------ field values *)

(* latlng.go: NewLatitude / NewLongitude on int32(u32) *)
Definition new_latitude (z : Z) : goval :=
  if (z =? 0x7FFFFFFF)%Z || (z <? - 2 ^ 30)%Z || (z >? 2 ^ 30 - 1)%Z then VLat 0x7FFFFFFF else VLat z.
Definition new_longitude (z : Z) : goval := VLng z.

(* the 4 bytes the time / coordinate kinds are decoded from: the wire bytes
   extended to the profile width (sign extension for signed definition types) *)
Definition extend4 (be : bool) (signed : bool) (buf : list N) : list N :=
  let d := List.length buf in
  if Nat.leb 4 d then firstn 4 buf else
  let msb := if be then b_at buf 0 else b_at buf (d - 1)%nat in
  let fill := if signed && Nat.ltb 0 d && (128 <=? msb) then 0xFF else 0x00 in
  if be then repeat fill (4 - d)%nat ++ buf else buf ++ repeat fill (4 - d)%nat.

Definition first_zero (l : list N) : nat :=
  (fix go (l : list N) (i : nat) := match l with [] => i | b :: r => if b =? 0 then i else go r (S i) end) l O.

Inductive fres := FSet (v : goval) | FKeep | FErr | FPanic (w : N).
Definition of_set (o : option goval) : fres := match o with Some v => FSet v | None => FPanic 3 end.

Definition is_u8like (bt : N) : bool := (bt =? base_byte) || (bt =? base_enum) || (bt =? base_uint8) || (bt =? base_uint8z).

(* func (d) parseFitField(dm, dfield, fieldv) error *)
Definition parse_fit_field (be : bool) (fd : fdef) (buf : list N) (ty : gotype) : fres :=
  let bt := fd_btype fd in
  let dsize := List.length buf in
  if is_u8like bt then of_set (set_uint ty (b_at buf 0))
  else if bt =? base_sint8 then of_set (set_int ty (to_signed 8 (b_at buf 0)))
  else if bt =? base_sint16 then
    if Nat.ltb dsize 2 then FPanic 5 else of_set (set_int ty (to_signed 16 (get16 be buf)))
  else if (bt =? base_uint16) || (bt =? base_uint16z) then
    if Nat.ltb dsize 2 then FPanic 5 else of_set (set_uint ty (get16 be buf))
  else if bt =? base_sint32 then
    if Nat.ltb dsize 4 then FPanic 5 else of_set (set_int ty (to_signed 32 (get32 be buf)))
  else if (bt =? base_uint32) || (bt =? base_uint32z) then
    if Nat.ltb dsize 4 then FPanic 5 else of_set (set_uint ty (get32 be buf))
  else if bt =? base_float32 then
    if Nat.ltb dsize 4 then FPanic 5 else of_set (set_float ty (get32 be buf))
  else if bt =? base_float64 then
    if Nat.ltb dsize 8 then FPanic 5 else of_set (set_float ty (get_val be (firstn 8 buf)))
  else if bt =? base_string then
    let j := first_zero buf in
    if Nat.ltb 0 j then of_set (set_string ty (firstn j buf)) else FKeep
  else FErr.

Fixpoint chunks (k : nat) (fuel : nat) (l : list N) : list (list N) :=
  match fuel with
  | O => []
  | S f => match l with [] => [] | _ => firstn k l :: chunks k f (skipn k l) end
  end.

(* the string-array scanner of parseFitFieldArray, as written (j, k indices) *)
Fixpoint scan_strings (fuel : nat) (buf : list N) (dsize j k : nat) (acc : list (list N)) : list (list N) :=
  match fuel with
  | O => acc
  | S f =>
      if b_at buf (j + k)%nat =? 0 then
        if Nat.eqb k 0 then acc else
        let acc' := acc ++ [firstn k (skipn j buf)] in
        let j' := (j + k + 1)%nat in
        if Nat.leb dsize j' then acc' else scan_strings f buf dsize j' 0 acc'
      else
        let k' := S k in
        if Nat.leb dsize (j + k')%nat then acc ++ [firstn (dsize - j)%nat (skipn j buf)]
        else scan_strings f buf dsize j k' acc
  end.

(* func (d) parseFitFieldArray(...) error *)
Definition parse_fit_field_array (be : bool) (fd : fdef) (buf : list N) (ty : gotype) : fres :=
  let bt := fd_btype fd in
  let dsize := List.length buf in
  if bt =? base_byte then of_set (set_bytes ty buf) else
  match ty with
  | TSlice _ =>
    match b_size bt with
    | None => FPanic 4
    | Some 0 => FPanic 8
    | Some bs =>
      let bsn := N.to_nat bs in
      if negb (Nat.eqb (Nat.modulo dsize bsn) 0) then FPanic 5 else
      let elems := chunks bsn dsize (firstn (bsn * (dsize / bsn))%nat buf) in
      if (bt =? base_uint8) || (bt =? base_uint8z) || (bt =? base_enum) then of_set (set_uint_slice ty buf)
      else if bt =? base_sint8 then of_set (set_int_slice ty (map (to_signed 8) buf))
      else if bt =? base_sint16 then of_set (set_int_slice ty (map (fun e => to_signed 16 (get16 be e)) elems))
      else if (bt =? base_uint16) || (bt =? base_uint16z) then of_set (set_uint_slice ty (map (get16 be) elems))
      else if bt =? base_sint32 then of_set (set_int_slice ty (map (fun e => to_signed 32 (get32 be e)) elems))
      else if (bt =? base_uint32) || (bt =? base_uint32z) then of_set (set_uint_slice ty (map (get32 be) elems))
      else if bt =? base_float32 then of_set (set_float_slice ty (map (get32 be) elems))
      else if bt =? base_float64 then of_set (set_float_slice ty (map (get_val be) elems))
      else if bt =? base_string then
        if Nat.eqb dsize 0 then FKeep
        else of_set (set_strings ty (scan_strings (S dsize) buf dsize 0 0 []))
      else FErr
    end
  | _ => FPanic 3     (* reflect.MakeSlice of a non-slice type *)
  end.

(* time.go *)
Definition decode_date_time (u : N) : goval := VTime (Z.of_N u) 0 None.

(* func (d) parseTimeStamp(dm, fieldv, pfield):
   returns the value to set (if any) and the updated reference state *)
Definition parse_time_stamp (s : dstate) (u32 : N) (kind : N) (num : N) : option goval * dstate :=
  if u32 =? 0xFFFFFFFF then (None, s)
  else if kind =? kind_timeutc then
    let s' := if num =? c_fieldNumTimeStamp then
                mk_dstate (ds_defs s) u32 (N.land u32 c_compressedTimeMask) (ds_unkf s) (ds_unkm s) (ds_file s) (ds_g s)
                          (ds_quirks s) true
              else s in
    (Some (decode_date_time u32), s')
  else
    (* local_date_time: no state change; zero offset without a usable (absolute) reference *)
    if negb (ds_hasts s) || (ds_ts s <? c_systemTimeMarker) then
      (Some (VTime (Z.of_N u32) 0 (Some 0%Z)), s)
    else
      (Some (VTime (Z.of_N (ds_ts s)) 0 (Some (Z.of_N u32 - Z.of_N (ds_ts s))%Z)), s).

Definition bump2 (k : N * N) (l : list (N * N * N)) : list (N * N * N) :=
  (fix go (l : list (N * N * N)) :=
     match l with
     | [] => [(fst k, snd k, 1)]
     | (a, b, c) :: r => if (a =? fst k) && (b =? snd k) then (a, b, c + 1) :: r else (a, b, c) :: go r
     end) l.
Definition bump1 (k : N) (l : list (N * N)) : list (N * N) :=
  (fix go (l : list (N * N)) :=
     match l with
     | [] => [(k, 1)]
     | (a, c) :: r => if a =? k then (a, c + 1) :: r else (a, c) :: go r
     end) l.

Definition with_unkf (s : dstate) (u : list (N * N * N)) : dstate :=
  mk_dstate (ds_defs s) (ds_ts s) (ds_lastoff s) u (ds_unkm s) (ds_file s) (ds_g s) (ds_quirks s) (ds_hasts s).
Definition with_unkm (s : dstate) (u : list (N * N)) : dstate :=
  mk_dstate (ds_defs s) (ds_ts s) (ds_lastoff s) (ds_unkf s) u (ds_file s) (ds_g s) (ds_quirks s) (ds_hasts s).
Definition with_defs (s : dstate) (d : list (option defmsg)) : dstate :=
  mk_dstate d (ds_ts s) (ds_lastoff s) (ds_unkf s) (ds_unkm s) (ds_file s) (ds_g s) (ds_quirks s) (ds_hasts s).
Definition with_file (s : dstate) (f : file) (g : gstate) : dstate :=
  mk_dstate (ds_defs s) (ds_ts s) (ds_lastoff s) (ds_unkf s) (ds_unkm s) f g (ds_quirks s) (ds_hasts s).
Definition with_time (s : dstate) (ts lo : N) : dstate :=
  mk_dstate (ds_defs s) ts lo (ds_unkf s) (ds_unkm s) (ds_file s) (ds_g s) (ds_quirks s) (ds_hasts s).

(* store a value in struct field sindex of the message under construction *)
Definition msg_set (m : msg) (sindex : nat) (v : goval) : msg := mk_msg (m_num m) (set_nth sindex v (m_fields m)).

(* one iteration of the field loop of parseDataFields *)
Definition parse_one_field (o : dopts) (dm : defmsg) (known : bool) (fd : fdef) (msgv : option msg) : P (option msg) :=
  let gmn := dm_gmn dm in
  let pf := get_field gmn (fd_num fd) in
  (* padding = profile base type size - dsize is computed before the read *)
  (match pf with
   | Some p =>
       if negb (fit_base (pf_t p) =? base_string) && negb (fit_array (pf_t p)) then
         match b_size (fit_base (pf_t p)) with None => panic 4 | Some _ => Ret tt end
       else Ret tt
   | None =>
       if known && o_unkf o then
         s <- get_st ;; put_st (with_unkf s (bump2 (gmn, fd_num fd) (ds_unkf s)))
       else Ret tt
   end) ;;;
  buf <- read_full (N.to_nat (fd_size fd)) ;;
  match pf with
  | None => Ret msgv
  | Some p =>
    if negb known then Ret msgv else
    match msgv with
    | None => panic 2
    | Some m =>
      match field_type gmn (pf_sindex p) with
      | None => panic 2
      | Some ty =>
        let t := pf_t p in
        let kind := fit_kind t in
        let finish (r : fres) : P (option msg) :=
          match r with
          | FSet v => Ret (Some (msg_set m (pf_sindex p) v))
          | FKeep => Ret (Some m)
          | FErr => fail EParseField
          | FPanic w => panic w
          end in
        if kind =? kind_native then
          if negb (fit_array t) then finish (parse_fit_field (dm_be dm) fd buf ty)
          else finish (parse_fit_field_array (dm_be dm) fd buf ty)
        else
          match b_signed (fd_btype fd) with
          | None => panic 4
          | Some sg =>
            let u32 := get32 (dm_be dm) (extend4 (dm_be dm) sg buf) in
            if (kind =? kind_timeutc) || (kind =? kind_timelocal) then
              s <- get_st ;;
              let '(ov, s') := parse_time_stamp s u32 kind (pf_num p) in
              put_st s' ;;;
              match ov with
              | None => Ret (Some m)
              | Some v => finish (of_set (set_time ty v))
              end
            else if kind =? kind_lat then finish (of_set (set_lat ty (new_latitude (to_signed 32 u32))))
            else if kind =? kind_lng then finish (of_set (set_lng ty (new_longitude (to_signed 32 u32))))
            else panic 6
          end
      end
    end
  end.

Fixpoint parse_fields (o : dopts) (dm : defmsg) (known : bool) (fds : list fdef) (msgv : option msg) : P (option msg) :=
  match fds with
  | [] => Ret msgv
  | fd :: r => m' <- parse_one_field o dm known fd msgv ;; parse_fields o dm known r m'
  end.

Fixpoint skip_dev_fields (devs : list (N * N * N)) : P unit :=
  match devs with
  | [] => Ret tt
  | (_, size, _) :: r => read_full (N.to_nat size) ;;; skip_dev_fields r
  end.

(* func (d) parseDataFields(dm, knownMsg, msgv) (reflect.Value, error) *)
Definition parse_data_fields (o : dopts) (dm : defmsg) (known : bool) (msgv : option msg) : P (option msg) :=
  m <- parse_fields o dm known (dm_fdefs dm) msgv ;;
  skip_dev_fields (dm_devs dm) ;;;
  Ret m.

(* func (d) parseDataMessage(recordHeader byte, compressed bool) (reflect.Value, error) *)
Definition parse_data_message (o : dopts) (b : N) (compressed : bool) : P (option msg) :=
  let local := if compressed then N.shiftr (N.land b c_compressedLocalMesgNumMask) 5
               else N.land b c_localMesgNumMask in
  s <- get_st ;;
  match nth (N.to_nat local) (ds_defs s) None with
  | None => fail EMissingDef
  | Some dm =>
    let gmn := dm_gmn dm in
    let known := known_msg gmn in
    (if known then
       match mesg_all_invalid gmn with
       | None => panic 1
       | Some m => Ret (Some m)
       end
     else
       (if o_unkm o then put_st (with_unkm s (bump1 gmn (ds_unkm s))) else Ret tt) ;;; Ret None) >>= (fun msgv =>
    if negb compressed then parse_data_fields o dm known msgv else
    s <- get_st ;;
    if negb (ds_hasts s) then parse_data_fields o dm known msgv else
    let off := N.land b c_compressedTimeMask in
    (* d.timestamp += uint32((timeOffset - d.lastTimeOffset) & 0x1F), in int32/uint32 *)
    let delta := (off + 32 - ds_lastoff s) mod 32 in
    let ts := (ds_ts s + delta) mod 2 ^ 32 in
    put_st (with_time s ts off) ;;;
    match get_field gmn c_fieldNumTimeStamp with
    | Some p =>
        match msgv with
        | None => panic 2
        | Some m =>
            match field_type gmn (pf_sindex p) with
            | None => panic 2
            | Some ty =>
                match set_time ty (decode_date_time ts) with
                | None => panic 3
                | Some v => parse_data_fields o dm known (Some (msg_set m (pf_sindex p) v))
                end
            end
        end
    | None => parse_data_fields o dm known msgv
    end)
  end.

Definition add_msg (m : msg) : P unit :=
  s <- get_st ;;
  match file_add (ds_file s) (ds_g s) m with
  | AddOk f g => put_st (with_file s f g)
  | AddPanic w => panic w
  end.

Definition set_def (dm : defmsg) : P unit :=
  s <- get_st ;; put_st (with_defs s (set_nth (N.to_nat (dm_local dm)) (Some dm) (ds_defs s))).

(* func (d) parseFileIdMsg() error *)
Definition parse_file_id_msg (o : dopts) : P unit :=
  b <- read_byte ;;
  if negb (N.land b c_mesgDefinitionMask =? c_mesgDefinitionMask) then fail ENotDef else
  dm <- parse_definition_message b ;;
  if negb (dm_gmn dm =? c_MesgNumFileId) then fail ENotFileIdDef else
  set_def dm ;;;
  b2 <- read_byte ;;
  if negb (N.land b2 c_mesgHeaderMask =? c_mesgHeaderMask) then fail ERecordHeader else
  om <- parse_data_message o b2 false ;;
  match om with
  | None => panic 2                 (* msg.Interface() on the zero Value *)
  | Some m => if m_num m =? c_MesgNumFileId then add_msg m else fail ENotFileIdMsg
  end.

(* one record of decodeFileData *)
Definition parse_record (o : dopts) : P unit :=
  b <- read_byte ;;
  if N.land b c_compressedHeaderMask =? c_compressedHeaderMask then
    om <- parse_data_message o b true ;;
    match om with Some m => add_msg m | None => Ret tt end
  else if N.land b c_mesgDefinitionMask =? c_mesgDefinitionMask then
    dm <- parse_definition_message b ;; set_def dm
  else if N.land b c_mesgDefinitionMask =? c_mesgHeaderMask then
    om <- parse_data_message o b false ;;
    match om with Some m => add_msg m | None => Ret tt end
  else fail ERecordHeader.

(* func (d) decodeFileData() error: for d.bytes.n < d.bytes.limit *)
Fixpoint decode_file_data (o : dopts) (fuel : nat) : P unit :=
  match fuel with
  | O => panic 99    (* out of loop fuel: excluded by fuel = limit + 1, every record consumes a byte *)
  | S f => More (fun more => if more then parse_record o ;;; decode_file_data o f else Ret tt)
  end.

Definition do_init : P unit :=
  s <- get_st ;;
  match file_init (ds_file s) with
  | Some f => put_st (with_file s f (ds_g s))
  | None => fail EFileType
  end.

(* the buffered part of decode: file_id, init, records *)
Definition data_prog (o : dopts) (file_id_only : bool) (fuel : nat) : P unit :=
  parse_file_id_msg o ;;;
  if file_id_only then Ret tt else
  do_init ;;; decode_file_data o fuel.

(* ------------------------------------------------------------ entry points *)

Inductive mode := MFull | MHeaderOnly | MFileIdOnly | MCrcOnly.

Record dres := mk_dres {
  dr_err : option err;
  dr_hdr : header;
  dr_file : option file;
  dr_rd : reader;           (* the reader after the call: dr_rd.rd_pos bytes were consumed *)
  dr_g : gstate;
  dr_quirks : list N
}.

Inductive tout (A : Type) := TDone (a : A) | TPanic (w : N) | TOutOfFuel.
Arguments TDone {A}. Arguments TPanic {A}. Arguments TOutOfFuel {A}.

(* sort.Sort over distinct keys: insertion sort *)
Fixpoint ins_unkm (x : N * N) (l : list (N * N)) : list (N * N) :=
  match l with
  | [] => [x]
  | y :: r => if fst x <? fst y then x :: l else y :: ins_unkm x r
  end.
Definition sort_unkm (l : list (N * N)) : list (N * N) := fold_right ins_unkm [] l.
Definition unkf_lt (x y : N * N * N) : bool :=
  let '(a, b, _) := x in let '(c, d, _) := y in (a <? c) || ((a =? c) && (b <? d)).
Fixpoint ins_unkf (x : N * N * N) (l : list (N * N * N)) : list (N * N * N) :=
  match l with
  | [] => [x]
  | y :: r => if unkf_lt x y then x :: l else y :: ins_unkf x r
  end.
Definition sort_unkf (l : list (N * N * N)) : list (N * N * N) := fold_right ins_unkf [] l.

(* the deferred handleUnknownFields / handleUnknownMessages *)
Definition finalize_unknown (o : dopts) (s : dstate) : file :=
  let f := ds_file s in
  mk_file (f_header f) (f_crc f) (f_slots f) (f_inited f)
    (if o_unkm o then Some (sort_unkm (ds_unkm s)) else f_unkm f)
    (if o_unkf o then Some (sort_unkf (ds_unkf s)) else f_unkf f).

Definition set_crc (f : file) (c : N) : file :=
  mk_file (f_header f) c (f_slots f) (f_inited f) (f_unkm f) (f_unkf f).

(* func (d) decodeHeader() error, over the raw reader:
   (error, header as far as it was filled in, crc register, reader) *)
Definition decode_header (fuel : nat) (rd : reader) : outcome (option err * header * N * reader) :=
  match io_read_full fuel rd 1 [] with
  | OutOfFuel => OutOfFuel
  | Done (bs, Some e, rd1) =>
      Done (Some (match e with REOF => EReadSizeEOF | _ => EReadSize end), zero_header, 0, rd1)
  | Done (bs, None, rd1) =>
      let sz := hd 0 bs in
      let h0 := mk_header sz 0 0 0 [0; 0; 0; 0] 0 in
      if negb ((sz =? c_headerSizeCRC) || (sz =? c_headerSizeNoCRC)) then Done (Some EHeaderSize, h0, 0, rd1) else
      match io_read_full fuel rd1 (N.to_nat sz - 1)%nat [] with
      | OutOfFuel => OutOfFuel
      | Done (_, Some _, rd2) => Done (Some EReadData, h0, 0, rd2)
      | Done (t, None, rd2) =>
          if negb (proto_ok (b_at t 0)) then Done (Some EProto, h0, 0, rd2) else
          let h1 := mk_header sz (b_at t 0) (le16 (firstn 2 (skipn 1 t))) (le32 (firstn 4 (skipn 3 t))) [0; 0; 0; 0] 0 in
          let dt := firstn 4 (skipn 7 t) in
          if negb (list_eqb dt fit_dtype) then Done (Some ENotFit, h1, 0, rd2) else
          let h2 := mk_header sz (h_proto h1) (h_profile h1) (h_dsize h1) dt 0 in
          let crc := crc_write (crc_write crc_new [sz]) t in
          if sz =? c_headerSizeNoCRC then Done (None, h2, crc, rd2) else
          let hc := le16 (firstn 2 (skipn 11 t)) in
          let h3 := mk_header sz (h_proto h1) (h_profile h1) (h_dsize h1) dt hc in
          if hc =? 0 then Done (None, h3, crc, rd2)
          else if negb (crc_sum16 crc =? 0) then Done (Some EHdrCRC, h3, crc, rd2)
          else Done (None, h3, crc, rd2)
      end
  end.

(* func (d) checkCRC() error *)
Definition check_crc (fuel : nat) (rd : reader) (crc : N) (f : file) : outcome (option err * file * reader) :=
  match io_read_full fuel rd 2 [] with
  | OutOfFuel => OutOfFuel
  | Done (_, Some _, rd') => Done (Some EFileCRCRead, f, rd')
  | Done (bs, None, rd') =>
      let crc' := crc_write crc bs in
      let f' := set_crc f (le16 bs) in
      if negb (crc_sum16 crc' =? 0) then Done (Some EFileCRC, f', rd') else Done (None, f', rd')
  end.

Definition init_dstate (f : file) (g : gstate) : dstate :=
  mk_dstate (repeat None 16) 0 0 [] [] f g [] false.

(* func (d) decode(r io.Reader, headerOnly, fileIDOnly, crcOnly bool) error *)
Definition decode (o : dopts) (md : mode) (g : gstate) (rd : reader) (fuel : nat) : tout dres :=
  match decode_header fuel rd with
  | OutOfFuel => TOutOfFuel
  | Done (Some e, h, _, rd1) => TDone (mk_dres (Some e) h None rd1 g [])
  | Done (None, h, crc, rd1) =>
    let f0 := new_file h in
    let limit := N.to_nat (h_dsize h) in
    match md with
    | MHeaderOnly => TDone (mk_dres None h (Some f0) rd1 g [])
    | MCrcOnly =>
        match io_copy_n fuel rd1 limit [] with
        | OutOfFuel => TOutOfFuel
        | Done (_, Some _, rd2) => TDone (mk_dres (Some EParseData) h (Some f0) rd2 g [])
        | Done (bs, None, rd2) =>
            match check_crc fuel rd2 (crc_write crc bs) f0 with
            | OutOfFuel => TOutOfFuel
            | Done (e, f, rd3) => TDone (mk_dres e h (Some f) rd3 g [])
            end
        end
    | _ =>
        let fid := match md with MFileIdOnly => true | _ => false end in
        let c0 := mk_cst rd1 [] 0 limit crc fuel in
        match run_c (data_prog o fid (S limit)) c0 (init_dstate f0 g) with
        | ROutOfFuel => TOutOfFuel
        | RPanic w => TPanic w
        | RFail e c s => TDone (mk_dres (Some e) h (Some (finalize_unknown o s)) (c_rd c) (ds_g s) (ds_quirks s))
        | RIOErr e c s => TDone (mk_dres (Some (EIO e)) h (Some (finalize_unknown o s)) (c_rd c) (ds_g s) (ds_quirks s))
        | ROk _ c s =>
            if fid then TDone (mk_dres None h (Some (finalize_unknown o s)) (c_rd c) (ds_g s) (ds_quirks s)) else
            if negb (Nat.eqb (c_n c) (c_limit c)) then TPanic 7 else
            match check_crc fuel (c_rd c) (c_crc c) (ds_file s) with
            | OutOfFuel => TOutOfFuel
            | Done (e, f, rd3) =>
                TDone (mk_dres e h (Some (finalize_unknown o (with_file s f (ds_g s)))) rd3 (ds_g s) (ds_quirks s))
            end
        end
    end
  end.

(* Decode / CheckIntegrity / DecodeHeader / DecodeHeaderAndFileID *)
Definition entry_Decode (o : dopts) (g : gstate) (rd : reader) (fuel : nat) : tout dres := decode o MFull g rd fuel.
Definition entry_CheckIntegrity (header_only : bool) (g : gstate) (rd : reader) (fuel : nat) : tout dres :=
  decode no_opts (if header_only then MHeaderOnly else MCrcOnly) g rd fuel.
Definition entry_DecodeHeader (g : gstate) (rd : reader) (fuel : nat) : tout dres := decode no_opts MHeaderOnly g rd fuel.
Definition entry_DecodeHeaderAndFileID (g : gstate) (rd : reader) (fuel : nat) : tout dres := decode no_opts MFileIdOnly g rd fuel.

(* func DecodeChained(r io.Reader, opts ...DecodeOption) (files, error), as
   repaired: the chain ends without error only when the size byte of a
   following file hits a clean EOF *)
Record cres := mk_cres { cr_err : option err; cr_files : list file; cr_rd : reader; cr_g : gstate; cr_quirks : list N }.

Fixpoint decode_chained (o : dopts) (g : gstate) (rd : reader) (fuel : nat) (i : nat) (files : nat) (acc : list file) (q : list N)
  : tout cres :=
  match files with
  | O => TOutOfFuel
  | S k =>
      match decode o MFull g rd fuel with
      | TOutOfFuel => TOutOfFuel
      | TPanic w => TPanic w
      | TDone r =>
          match dr_err r with
          | Some e =>
              match e, i with
              | EReadSizeEOF, S _ => TDone (mk_cres None acc (dr_rd r) (dr_g r) (q ++ dr_quirks r))
              | _, _ =>
                  let acc' := match dr_file r with Some f => acc ++ [f] | None => acc end in
                  TDone (mk_cres (Some e) acc' (dr_rd r) (dr_g r) (q ++ dr_quirks r))
              end
          | None =>
              let acc' := match dr_file r with Some f => acc ++ [f] | None => acc end in
              decode_chained o (dr_g r) (dr_rd r) fuel (S i) k acc' (q ++ dr_quirks r)
          end
      end
  end.

Definition entry_DecodeChained (o : dopts) (g : gstate) (rd : reader) (fuel : nat) : tout cres :=
  decode_chained o g rd fuel 0 (S (List.length (rd_data rd))) [] [].
