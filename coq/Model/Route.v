(* file.go / file_types.go: File, File.init, File.add and the 17 container
   routers, driven by the routing table the translator obtains by probing the
   real add methods (Gen/RoutingData.v). Slots 0-4 are the common File fields
   (FileId, FileCreator, TimestampCorrelation, fieldDescriptionMsgs,
   developerDataIdMsgs); the container's fields follow. *)
From Coq Require Import NArith ZArith List Bool String.
From FitV Require Import Model.Values Model.Reflect Model.Profile Model.Header Model.Components
  Gen.Consts Gen.RoutingData.
Import ListNotations.
Local Open Scope N_scope.

Definition NCOMMON : nat := 5.

Record file := mk_file {
  f_header : header;
  f_crc : N;
  f_slots : list (list msg);
  f_inited : option N;                   (* file type whose container init created *)
  f_unkm : option (list (N * N));        (* UnknownMessages: None = nil *)
  f_unkf : option (list (N * N * N))     (* UnknownFields *)
}.

(* new(File) with Header set: FileId is the Go zero value *)
Definition new_file (h : header) : file :=
  mk_file h 0 [[zero_msg c_MesgNumFileId]; []; []; []; []] None None None.

(* func (f *File) Type() FileType *)
Definition file_type (f : file) : N :=
  match nth 0 (f_slots f) [] with
  | m :: _ => uval (fld m "Type"%string)
  | [] => 0
  end.

Definition ft_entry (ft : N) : option (bool * string * list (string * bool * N)) :=
  match find (fun e => fst (fst (fst e)) =? ft) file_types with
  | Some (_, ok, cname, slots) => Some (ok, cname, slots)
  | None => None
  end.

(* func (f *File) init() error: false = error *)
Definition file_init (f : file) : option file :=
  let ft := file_type f in
  match ft_entry ft with
  | Some (true, _, slots) =>
      Some (mk_file (f_header f) (f_crc f)
              (firstn NCOMMON (f_slots f) ++ repeat [] (List.length slots - NCOMMON))
              (Some ft) (f_unkm f) (f_unkf f))
  | _ => None
  end.

Definition routes_of (ft : N) (mn : N) : list (nat * rmode * bool) :=
  match find (fun e => fst e =? ft) routing with
  | Some (_, l) =>
      match find (fun e => fst e =? mn) l with
      | Some (_, r) => r
      | None => []
      end
  | None => []
  end.

(* the routes of the common slots are the same for every file type
   (routing_wf checks it); before init they are read off the first valid type *)
Definition first_valid_ft : N :=
  match find (fun e => snd (fst (fst e))) file_types with
  | Some (ft, _, _, _) => ft
  | None => 0
  end.
Definition common_routes (mn : N) : list (nat * rmode * bool) :=
  filter (fun r => Nat.ltb (fst (fst r)) NCOMMON) (routes_of first_valid_ft mn).

Inductive add_result :=
| AddOk (f : file) (g : gstate)
| AddPanic (why : N).

Fixpoint apply_routes (rs : list (nat * rmode * bool)) (m : msg) (slots : list (list msg)) (g : gstate)
  : option (list (list msg) * gstate) :=
  match rs with
  | [] => Some (slots, g)
  | (i, mode, exp) :: rest =>
      let mg := if exp then expand_components g m else Some (m, g) in
      match mg with
      | None => None
      | Some (m', g') =>
          let slots' :=
            match mode with
            | RAppend => set_nth i (nth i slots [] ++ [m']) slots
            | ROverwrite => set_nth i [m'] slots
            | ROther => slots
            end in
          apply_routes rest m slots' g'
      end
  end.

(* func (f *File) add(msg reflect.Value) *)
Definition file_add (f : file) (g : gstate) (m : msg) : add_result :=
  match f_inited f with
  | Some ft =>
      match apply_routes (routes_of ft (m_num m)) m (f_slots f) g with
      | Some (slots, g') => AddOk (mk_file (f_header f) (f_crc f) slots (f_inited f) (f_unkm f) (f_unkf f)) g'
      | None => AddPanic 30
      end
  | None =>
      match common_routes (m_num m) with
      | [] => AddPanic 31          (* nil msgAdder *)
      | rs =>
          match apply_routes rs m (f_slots f) g with
          | Some (slots, g') => AddOk (mk_file (f_header f) (f_crc f) slots (f_inited f) (f_unkm f) (f_unkf f)) g'
          | None => AddPanic 30
          end
      end
  end.

(* the accessors: func (f *File) Activity() returning (ptr ActivityFile, error) etc.
   true = nil error (and the container is returned) *)
Definition accessor_ok (f : file) (accessor : string) : bool :=
  match find (fun a => String.eqb (fst a) accessor) accessors with
  | Some (_, ret) =>
      match ft_entry (file_type f) with
      | Some (true, cname, _) => String.eqb cname ret
      | _ => false
      end
  | None => false
  end.
