(* Model of the core of cmd/fitgen: from the cell grid of the profile workbook
   (Types sheet, Messages sheet) to, per message, the struct fields of
   messages.go and the _fields lookup entries of profile.go.

   Written after the code, function by function:
     scanner.go   tscan / mscan                     -> tscan, mscan
     parser.go    ParseType / ParseMsg (+ init)     -> parse_types, parse_msgs
     transform.go toCamelCase, typeQuirks, isTimestamp, isCoordinate,
                  TransformTypes, Field.transform (skip rule on the example
                  column, parseArray, parseType, setLength, parseRefFields,
                  component names)                  -> camel .. transform_msg
     internal/types/fit.go  Make, MakeNative, Kind, Array, BaseType, GoType
     internal/types/base.go BaseFromString, decompress, bgotype
     codegen.go   genFields (struct field i = msg.Fields[i]),
                  genFieldsArray (entry i = {i, DefNum, FType, Length})
   Not modelled: scale/offset/units/comments, the validation done by
   parseComponents, getters, expandComponents bodies, the types file, the
   stringer.  Strings are byte strings; toUpper is modelled on ASCII. *)
From Coq Require Import NArith List String Ascii Bool.
Import ListNotations.
Local Open Scope string_scope.
Local Open Scope N_scope.

(* ---- results *)
Inductive gerr := ETypesSheet | EMsgsSheet | EBaseType.
Inductive result (A : Type) := Ok (a : A) | Err (e : gerr).
Arguments Ok {A} a.
Arguments Err {A} e.

Definition rbind {A B} (x : result A) (f : A -> result B) : result B :=
  match x with Ok a => f a | Err e => Err e end.

Fixpoint rmap {A B} (f : A -> result B) (l : list A) : result (list B) :=
  match l with
  | [] => Ok []
  | a :: t => match f a with
              | Err e => Err e
              | Ok b => match rmap f t with Err e => Err e | Ok bs => Ok (b :: bs) end
              end
  end.

(* ---- byte-string helpers (Go: strings.Split, TrimFunc, TrimSpace, HasSuffix) *)
Definition is_empty (s : string) : bool := match s with EmptyString => true | _ => false end.

Fixpoint split_on (sep : ascii) (s : string) : list string :=
  match s with
  | EmptyString => [EmptyString]
  | String c r =>
      if Ascii.eqb c sep then EmptyString :: split_on sep r
      else match split_on sep r with
           | h :: t => String c h :: t
           | [] => [String c EmptyString]
           end
  end.

Fixpoint ltrim (p : ascii -> bool) (s : string) : string :=
  match s with
  | EmptyString => EmptyString
  | String c r => if p c then ltrim p r else s
  end.

Fixpoint rtrim (p : ascii -> bool) (s : string) : string :=
  match s with
  | EmptyString => EmptyString
  | String c r => let r' := rtrim p r in
                  if is_empty r' && p c then EmptyString else String c r'
  end.

Definition trim (p : ascii -> bool) (s : string) : string := rtrim p (ltrim p s).

Definition is_bracket (c : ascii) : bool := Ascii.eqb c "["%char || Ascii.eqb c "]"%char.

(* unicode.IsSpace restricted to one-byte code points *)
Definition is_space (c : ascii) : bool :=
  let n := N_of_ascii c in
  (n =? 32) || ((9 <=? n) && (n <=? 13)).

Fixpoint has_suffix (suf s : string) : bool :=
  String.eqb s suf || match s with EmptyString => false | String _ r => has_suffix suf r end.

Definition upper_ascii (c : ascii) : ascii :=
  let n := N_of_ascii c in
  if (97 <=? n) && (n <=? 122) then ascii_of_N (n - 32) else c.

(* transform.go toUpper: first rune to upper case (ASCII) *)
Definition to_upper (s : string) : string :=
  match s with EmptyString => EmptyString | String c r => String (upper_ascii c) r end.

(* transform.go toCamelCase *)
Definition camel (s : string) : string :=
  String.concat "" (map to_upper (split_on "_"%char s)).

Fixpoint assoc {A} (k : string) (l : list (string * A)) : option A :=
  match l with
  | [] => None
  | (k', v) :: t => if String.eqb k k' then Some v else assoc k t
  end.

(* ---- internal/types *)
(* base.go baseStringToType (full base type bytes) *)
Definition base_table : list (string * N) :=
  [ ("enum", 0x00); ("sint8", 0x01); ("uint8", 0x02); ("sint16", 0x83); ("uint16", 0x84);
    ("sint32", 0x85); ("uint32", 0x86); ("string", 0x07); ("float32", 0x88); ("float64", 0x89);
    ("uint8z", 0x0A); ("uint16z", 0x8B); ("uint32z", 0x8C); ("byte", 0x0D); ("sint64", 0x8E);
    ("uint64", 0x8F); ("uint64z", 0x90); ("unit8", 0x02) ].

Definition base_from_string (s : string) : option N := assoc s base_table.

(* base.go decompress *)
Definition decompress (b : N) : N :=
  let b := N.land b 0x1F in
  match b with
  | 0x03 => 0x83 | 0x04 => 0x84 | 0x05 => 0x85 | 0x06 => 0x86 | 0x08 => 0x88 | 0x09 => 0x89
  | 0x0B => 0x8B | 0x0C => 0x8C | 0x0E => 0x8E | 0x0F => 0x8F | 0x10 => 0x90
  | _ => b
  end.

(* base.go bgotype, by index *)
Definition bgotype : list string :=
  [ "byte"; "int8"; "uint8"; "int16"; "uint16"; "int32"; "uint32"; "string"; "float32"; "float64";
    "uint8"; "uint16"; "uint32"; "byte"; "int64"; "uint64"; "uint64" ].

Definition K_NATIVE : N := 0.
Definition K_TIMEUTC : N := 1.
Definition K_TIMELOCAL : N := 2.
Definition K_LAT : N := 3.
Definition K_LNG : N := 4.

(* fit.go: bits 0-4 base type, bit 5 array, bits 6-8 kind *)
Definition set_array (f : N) : N := N.lor f 0x20.
Definition set_kind (f k : N) : N := N.lor f (N.shiftl k 6).
Definition set_base (f b : N) : N := N.lor f (N.land b 0x1F).

Definition fit_make (kind : N) (array : bool) : N :=
  let f := if array then set_array 0 else 0 in
  if kind =? K_NATIVE then f
  else
    let f := set_kind f kind in
    if (kind =? K_TIMEUTC) || (kind =? K_TIMELOCAL) then set_base f 0x86
    else if (kind =? K_LAT) || (kind =? K_LNG) then set_base f 0x85
    else f.

Definition fit_make_native (b : N) (array : bool) : N :=
  let f := set_base 0 b in
  if array then set_array f else f.

Definition fit_kind (f : N) : N := N.shiftr (N.land f 0x1C0) 6.
Definition fit_array (f : N) : bool := N.shiftr (N.land f 0x20) 5 =? 1.
Definition fit_base (f : N) : N := decompress (N.land f 0xFF).

Definition fgotype (k : N) : string :=
  match k with 1 => "time.Time" | 2 => "time.Time" | 3 => "Latitude" | 4 => "Longitude" | _ => "" end.

(* fit.go GoType (the "invalid type" branch cannot be reached from Make /
   MakeNative on a known base type; it is given a fixed text here) *)
Definition fit_go_type (f : N) : string :=
  let idx := N.land (fit_base f) 0x1F in
  if negb ((fit_kind f <? 5) && (idx <? 17)) then "invalid type"
  else
    let gt := if fit_kind f =? K_NATIVE then nth (N.to_nat idx) bgotype "" else fgotype (fit_kind f) in
    if fit_array f then "[]" ++ gt else gt.

(* ---- rows *)
Definition row := list string.
Definition col (i : nat) (r : row) : string := nth i r "".

(* positions.go *)
Definition r_msgname := col 0.
Definition r_defnum := col 1.
Definition r_name := col 2.
Definition r_type := col 3.
Definition r_array := col 4.
Definition r_comps := col 5.
Definition r_refname := col 11.
Definition r_example := col 15.

Definition all_empty (l : list string) : bool := forallb is_empty l.

(* ---- scanner.go *)
Inductive tok := TIllegal | TEmpty | TProfileHdr | TTypeHdr | TTypeField | TFMsgsHdr | TMsgHdr | TMsgField | TDynField.

Definition tscan (r : row) : tok :=
  if negb (is_empty (col 0 r)) then
    (if negb (is_empty (col 2 r)) then TProfileHdr else TTypeHdr)
  else if is_empty (col 2 r) then TEmpty else TTypeField.

Definition mscan (r : row) : tok :=
  if negb (is_empty (r_msgname r)) then
    (if is_empty (r_defnum r) then TMsgHdr else TProfileHdr)
  else if is_empty (r_defnum r) then
    (if is_empty (r_name r) then
       (if negb (is_empty (r_type r)) then TFMsgsHdr
        else if all_empty (skipn 3 r) then TEmpty else TIllegal)
     else TDynField)
  else TMsgField.

(* ---- parser.go, types: the headers of the type blocks, in order *)
Fixpoint parse_types_go (inblock : bool) (rows : list row) : result (list row) :=
  match rows with
  | [] => Ok []
  | r :: rest =>
      match tscan r with
      | TTypeHdr => rbind (parse_types_go true rest) (fun l => Ok (r :: l))
      | TEmpty => parse_types_go false rest
      | TTypeField => if inblock then parse_types_go true rest else Err ETypesSheet
      | _ => Err ETypesSheet
      end
  end.

Definition parse_types (rows : list row) : result (list row) :=
  match rows with
  | r0 :: rest => match tscan r0 with TProfileHdr => parse_types_go false rest | _ => Err ETypesSheet end
  | [] => Err ETypesSheet
  end.

(* ---- parser.go, messages *)
Record pmsg := mkPMsg { pm_header : row; pm_fields : list (row * list row) }.

Inductive pstate :=
| PStart                                        (* between messages *)
| PAfterGroup                                   (* after a group title row: a message header must follow *)
| PIn (hdr : row) (rev_fields : list (row * list row)).

Definition close_msg (hdr : row) (rev_fields : list (row * list row)) : pmsg :=
  mkPMsg hdr (rev rev_fields).

Fixpoint parse_msgs_go (st : pstate) (rows : list row) : result (list pmsg) :=
  match rows with
  | [] =>
      match st with
      | PStart => Ok []
      | PAfterGroup => Err EMsgsSheet
      | PIn h fs => match fs with [] => Err EMsgsSheet | _ => Ok [close_msg h fs] end
      end
  | r :: rest =>
      match st with
      | PStart =>
          match mscan r with
          | TEmpty => parse_msgs_go PStart rest
          | TFMsgsHdr => parse_msgs_go PAfterGroup rest
          | TMsgHdr => parse_msgs_go (PIn r []) rest
          | _ => Err EMsgsSheet
          end
      | PAfterGroup =>
          match mscan r with
          | TMsgHdr => parse_msgs_go (PIn r []) rest
          | _ => Err EMsgsSheet
          end
      | PIn h fs =>
          match mscan r with
          | TMsgField => parse_msgs_go (PIn h ((r, []) :: fs)) rest
          | TDynField =>
              match fs with
              | [] => Err EMsgsSheet
              | (f, subs) :: fs' => parse_msgs_go (PIn h ((f, (subs ++ [r])%list) :: fs')) rest
              end
          | TMsgHdr => rbind (parse_msgs_go (PIn r []) rest) (fun l => Ok (close_msg h fs :: l))
          | TFMsgsHdr => rbind (parse_msgs_go PAfterGroup rest) (fun l => Ok (close_msg h fs :: l))
          | TEmpty =>
              match fs with
              | [] => Err EMsgsSheet
              | _ => rbind (parse_msgs_go PStart rest) (fun l => Ok (close_msg h fs :: l))
              end
          | _ => Err EMsgsSheet
          end
      end
  end.

Definition parse_msgs (rows : list row) : result (list pmsg) :=
  match rows with
  | r0 :: rest => match mscan r0 with TProfileHdr => parse_msgs_go PStart rest | _ => Err EMsgsSheet end
  | [] => Err EMsgsSheet
  end.

(* ---- transform.go *)
Definition type_quirk (s : string) : string :=
  if String.eqb s "activity" then "activity_mode"
  else if String.eqb s "file" then "file_type"
  else s.

Definition is_timestamp (name : string) : option N :=
  if String.eqb name "date_time" then Some K_TIMEUTC
  else if String.eqb name "local_date_time" then Some K_TIMELOCAL
  else None.

Definition is_coordinate (name : string) : option N :=
  if has_suffix "_lat" name then Some K_LAT
  else if has_suffix "_long" name then Some K_LNG
  else None.

(* TransformTypes: Go identifier of the type -> base type byte.  The Go map
   keeps the last insertion for a key: later headers are consed in front and
   looked up first. *)
Definition tmap := list (string * N).

Fixpoint transform_types_go (acc : tmap) (hdrs : list row) : result tmap :=
  match hdrs with
  | [] => Ok acc
  | h :: rest =>
      match is_timestamp (col 0 h) with
      | Some _ => transform_types_go acc rest
      | None =>
          match base_from_string (col 1 h) with
          | None => Err EBaseType
          | Some b => transform_types_go ((camel (type_quirk (col 0 h)), b) :: acc) rest
          end
      end
  end.

Definition transform_types (hdrs : list row) : result tmap := transform_types_go [] hdrs.

Record field := mkField {
  f_defnum : string;
  f_name : string;
  f_ccname : string;
  f_array : string;
  f_typename : string;
  f_ftype : N;
  f_length : string;
  f_comps : list string;      (* component target names (Go identifiers) *)
  f_refs : list string        (* reference field names (Go identifiers); sub-fields only *)
}.

(* Field.parseArray *)
Definition parse_array (cell : string) : string :=
  let a := trim is_bracket cell in
  if is_empty a then "0" else a.

(* Field.parseType: (FType, TypeName) *)
Definition parse_type (types : tmap) (name array tcell : string) : result (N * string) :=
  let arr := negb (String.eqb array "0") in
  match is_coordinate name with
  | Some k => let f := fit_make k arr in Ok (f, fit_go_type f)
  | None =>
      let tn := camel (type_quirk tcell) in
      match is_timestamp tcell with
      | Some k => let f := fit_make k arr in Ok (f, fit_go_type f)
      | None =>
          if String.eqb tn "Bool" then Ok (fit_make_native 0x00 arr, tn)
          else
            match assoc tn types with
            | Some b => Ok (fit_make_native b arr, if arr then "[]" ++ tn else tn)
            | None =>
                match base_from_string tcell with
                | None => Err EBaseType
                | Some b => let f := fit_make_native b arr in Ok (f, fit_go_type f)
                end
            end
      end
  end.

(* Field.setLength *)
Definition set_length (array example : string) (ftype : N) : string :=
  if String.eqb array "N" || (fit_base ftype =? 0x07) then example
  else if negb (String.eqb array "0") then array
  else "1".

Definition names_of (cell : string) : list string :=
  map (fun s => camel (trim is_space s)) (split_on ","%char cell).

(* the skip rule on the example column *)
Definition skip_row (hrst : bool) (r : row) : bool :=
  (is_empty (r_example r) || String.eqb (r_example r) "0")
  && negb (String.eqb (r_name r) "heart_rate_source_type" && hrst).

(* Field.transform; None = skipped *)
Definition transform_field (sub hrst : bool) (types : tmap) (r : row) : result (option field) :=
  if skip_row hrst r then Ok None
  else
    let array := parse_array (r_array r) in
    rbind (parse_type types (r_name r) array (r_type r)) (fun ft =>
      let '(ftype, tname) := ft in
      Ok (Some (mkField (r_defnum r) (r_name r) (camel (r_name r)) array tname ftype
                        (set_length array (r_example r) ftype)
                        (if is_empty (r_comps r) then [] else names_of (r_comps r))
                        (if sub then names_of (r_refname r) else [])))).

Record msg := mkMsg { m_name : string; m_ccname : string; m_fields : list (field * list field) }.

Fixpoint keep_some {A} (l : list (option A)) : list A :=
  match l with [] => [] | Some a :: t => a :: keep_some t | None :: t => keep_some t end.

(* TransformMsgs, one message: skipped fields drop out together with their
   sub-fields; skipped sub-fields drop out *)
Fixpoint transform_fields (hrst : bool) (types : tmap) (l : list (row * list row)) : result (list (field * list field)) :=
  match l with
  | [] => Ok []
  | (r, subs) :: rest =>
      rbind (transform_field false hrst types r) (fun of =>
        match of with
        | None => transform_fields hrst types rest
        | Some f =>
            rbind (rmap (transform_field true hrst types) subs) (fun osubs =>
              rbind (transform_fields hrst types rest) (fun fs => Ok ((f, keep_some osubs) :: fs)))
        end)
  end.

Definition transform_msg (hrst : bool) (types : tmap) (pm : pmsg) : result msg :=
  if is_empty (r_msgname (pm_header pm)) then Err EMsgsSheet
  else rbind (transform_fields hrst types (pm_fields pm)) (fun fs =>
         Ok (mkMsg (r_msgname (pm_header pm)) (camel (r_msgname (pm_header pm))) fs)).

(* ---- codegen.go *)
Fixpoint number_from {A} (i : N) (l : list A) : list (N * A) :=
  match l with [] => [] | a :: t => (i, a) :: number_from (i + 1) t end.

(* genFields: struct field i of <CCName>Msg is (CCName, TypeName) of msg.Fields[i] *)
Definition sfield := (N * (string * string))%type.
Definition gen_struct (m : msg) : list sfield :=
  number_from 0 (map (fun fs => (f_ccname (fst fs), f_typename (fst fs))) (m_fields m)).

(* genFieldsArray: DefNum: {i, DefNum, FType, Length} *)
Record entry := mkEntry { e_num : string; e_sindex : N; e_type : N; e_length : string }.
Definition gen_entries (m : msg) : list entry :=
  map (fun x => mkEntry (f_defnum (fst (snd x))) (fst x) (f_ftype (fst (snd x))) (f_length (fst (snd x))))
      (number_from 0 (m_fields m)).

Record msgout := mkOut { o_ccname : string; o_struct : list sfield; o_entries : list entry }.
Definition gen_msg (m : msg) : msgout := mkOut (m_ccname m) (gen_struct m) (gen_entries m).

(* the pipeline of Generator.GenerateProfile up to the two tables *)
Definition gen_tmap (tsheet : list row) : result tmap :=
  rbind (parse_types tsheet) transform_types.

Definition gen_msgs (hrst : bool) (tsheet msheet : list row) : result (list msg) :=
  rbind (gen_tmap tsheet) (fun types =>
    rbind (parse_msgs msheet) (fun pmsgs => rmap (transform_msg hrst types) pmsgs)).

Definition gen (hrst : bool) (tsheet msheet : list row) : result (list msgout) :=
  rbind (gen_msgs hrst tsheet msheet) (fun ms => Ok (map gen_msg ms)).

(* ---- the look-ups on which the code generator panics (codegen.go
   genDynamicGetter, genGetterForComponents, genAccumulator,
   genExpandComponentsMaskShift(Dyn)), taken conservatively: every component
   target and every reference field of a generated (sub-)field is a generated
   field of the message *)
Definition msg_deps_ok (m : msg) : bool :=
  let names := map (fun fs => f_ccname (fst fs)) (m_fields m) in
  let has n := existsb (String.eqb n) names in
  forallb (fun fs =>
    forallb has (f_comps (fst fs)) &&
    forallb (fun sf => forallb has (f_comps sf) && forallb has (f_refs sf)) (snd fs)) (m_fields m).

Definition deps_ok (hrst : bool) (tsheet msheet : list row) : bool :=
  match gen_msgs hrst tsheet msheet with
  | Ok ms => forallb msg_deps_ok ms
  | Err _ => false
  end.
