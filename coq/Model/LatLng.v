(* Model of latlng.go over Flocq's IEEE-754 binary64/binary32.

   Latitude / Longitude are structs with the single field `semicircles int32`;
   int32 values are the Z in [-2^31, 2^31).  float64 values are Flocq
   `binary64`; float64(int32) is exact, `*` and `/` are round-to-nearest-even,
   comparisons are IEEE (false on NaN).

   Modelled, not verified (named in the trusted base):
   - math.Pow(2, 31) = 2147483648 exactly;
   - math.NaN() = 0x7FF8000000000001;
   - int32(float64) truncates toward zero when the truncation is an int32;
     otherwise (NaN, infinities, out of range) the amd64 result 0x80000000
     (the Go specification leaves it implementation-defined);
   - strconv.FormatFloat(x, 'f', 5, 32): x is rounded to float32 (nearest
     even), the exact decimal expansion of that float32 is rounded to 5
     decimals half-to-even (strconv's bigFtoa path: decimal.Assign/Shift/Round
     are exact, no digit truncation for a float32), the sign is the sign bit,
     non-finite values print as NaN/+Inf/-Inf. *)
From Coq Require Import ZArith Bool String Ascii Decimal DecimalString.
From Flocq Require Import Core IEEE754.BinarySingleNaN IEEE754.Binary IEEE754.Bits.
Local Open Scope Z_scope.

(* const sint32Invalid = 0x7FFFFFFF; precision = 5 *)
Definition sint32_invalid : Z := 0x7FFFFFFF.
Definition precision : Z := 5.
Definition min_int32 : Z := -2147483648.
Definition max_int32 : Z := 2147483647.

Definition is_i32 (s : Z) : Prop := min_int32 <= s <= max_int32.

(* ---- float64 helpers ---- *)

(* float64(z) for |z| < 2^53 (exact), and integer float constants *)
Definition b64_of_Z (z : Z) : binary64 :=
  binary_normalize 53 1024 eq_refl eq_refl mode_NE z 0 false.

(* math.NaN() *)
Definition go_nan : binary64 := B754_nan 53 1024 false 0x8000000000001%positive eq_refl.

Definition b64_ge (x y : binary64) : bool :=
  match b64_compare x y with Some Gt | Some Eq => true | _ => false end.
Definition b64_le (x y : binary64) : bool :=
  match b64_compare x y with Some Lt | Some Eq => true | _ => false end.

Definition b64_lt (x y : binary64) : bool :=
  match b64_compare x y with Some Lt => true | _ => false end.
Definition b64_gt (x y : binary64) : bool :=
  match b64_compare x y with Some Gt => true | _ => false end.
Definition b64_eq (x y : binary64) : bool :=
  match b64_compare x y with Some Eq => true | _ => false end.

(* int32(x) *)
Definition int32_of_b64 (x : binary64) : Z :=
  if is_finite 53 1024 x then
    let t := Btrunc 53 1024 x in
    if (min_int32 <=? t) && (t <=? max_int32) then t else min_int32
  else min_int32.

(* var semiToDegFactor = 180 / math.Pow(2, 31); degToSemiFactor = math.Pow(2, 31) / 180 *)
Definition pow_2_31 : binary64 := b64_of_Z (2 ^ 31).
Definition semi_to_deg : binary64 := b64_div mode_NE (b64_of_Z 180) pow_2_31.
Definition deg_to_semi : binary64 := b64_div mode_NE pow_2_31 (b64_of_Z 180).

(* math.Pow(a, b) on small non-negative integer constants whose power is below 2^53 (exactly representable;
   math.Pow is exact there -- modelled, not verified); vocabulary of the translated source, Gen/C17Funcs.v *)
Definition go_pow_small (a b : Z) : binary64 := b64_of_Z (a ^ b).

(* ---- Latitude ---- *)

Record latitude := mk_lat { lat_semicircles : Z }.
Record longitude := mk_lng { lng_semicircles : Z }.

Definition new_latitude_invalid : latitude := mk_lat sint32_invalid.

(* math.MinInt32/2 and math.MaxInt32/2 are integer constant divisions: they
   truncate, MaxInt32/2 = 1073741823 *)
Definition lat_min : Z := Z.quot min_int32 2.
Definition lat_max : Z := Z.quot max_int32 2.

Definition new_latitude (s : Z) : latitude :=
  if s =? sint32_invalid then new_latitude_invalid
  else if (s <? lat_min) || (lat_max <? s) then new_latitude_invalid
  else mk_lat s.

Definition new_latitude_degrees (d : binary64) : latitude :=
  if b64_ge d (b64_of_Z 90) || b64_le d (b64_of_Z (-90)) then new_latitude_invalid
  else mk_lat (int32_of_b64 (b64_mult mode_NE d deg_to_semi)).

Definition lat_semis (l : latitude) : Z := lat_semicircles l.

Definition lat_degrees (l : latitude) : binary64 :=
  if lat_semicircles l =? sint32_invalid then go_nan
  else b64_mult mode_NE (b64_of_Z (lat_semicircles l)) semi_to_deg.

Definition lat_invalid (l : latitude) : bool := lat_semicircles l =? sint32_invalid.

(* ---- Longitude ---- *)

Definition new_longitude (s : Z) : longitude := mk_lng s.

Definition new_longitude_invalid : longitude := mk_lng sint32_invalid.

Definition new_longitude_degrees (d : binary64) : longitude :=
  if b64_ge d (b64_of_Z 180) || b64_le d (b64_of_Z (-180)) then mk_lng sint32_invalid
  else mk_lng (int32_of_b64 (b64_mult mode_NE d deg_to_semi)).

Definition lng_semis (l : longitude) : Z := lng_semicircles l.

Definition lng_degrees (l : longitude) : binary64 :=
  if lng_semicircles l =? sint32_invalid then go_nan
  else b64_mult mode_NE (b64_of_Z (lng_semicircles l)) semi_to_deg.

Definition lng_invalid (l : longitude) : bool := lng_semicircles l =? sint32_invalid.

(* ---- strconv.FormatFloat(x, 'f', precision, 32) ---- *)

(* float32(x) *)
Definition b32_of_b64 (x : binary64) : binary32 :=
  match x with
  | B754_zero _ _ s => B754_zero 24 128 s
  | B754_infinity _ _ s => B754_infinity 24 128 s
  | B754_nan _ _ s _ _ => B754_nan 24 128 s 1%positive eq_refl
  | B754_finite _ _ s m e _ =>
      binary_normalize 24 128 eq_refl eq_refl mode_NE (cond_Zopp s (Zpos m)) e s
  end.

(* a / b rounded to the nearest integer, ties to even; 0 <= a, 0 < b *)
Definition rhe_div (a b : Z) : Z :=
  let q := a / b in
  let r := a mod b in
  if 2 * r <? b then q
  else if b <? 2 * r then q + 1
  else if Z.even q then q else q + 1.

(* |m * 2^e| * 10^prec rounded to an integer, half to even *)
Definition scaled_round (m : positive) (e : Z) (prec : Z) : Z :=
  if 0 <=? e then Zpos m * 2 ^ e * 10 ^ prec
  else rhe_div (Zpos m * 10 ^ prec) (2 ^ (- e)).

(* finite float32 -> (sign bit, round_half_even(|x| * 10^prec)) *)
Definition fixed_of_b32 (prec : Z) (x : binary32) : option (bool * Z) :=
  match x with
  | B754_zero _ _ s => Some (s, 0)
  | B754_finite _ _ s m e _ => Some (s, scaled_round m e prec)
  | _ => None
  end.

Definition digit_char (d : Z) : ascii := ascii_of_N (48 + Z.to_N d).

(* the prec = 5 fractional digits of n, zero padded *)
Definition frac5 (r : Z) : string :=
  String (digit_char (r / 10000 mod 10))
  (String (digit_char (r / 1000 mod 10))
  (String (digit_char (r / 100 mod 10))
  (String (digit_char (r / 10 mod 10))
  (String (digit_char (r mod 10)) EmptyString)))).

(* decimal digits of a natural number, "0" for zero *)
Definition dec_string (n : Z) : string := NilZero.string_of_uint (N.to_uint (Z.to_N n)).

(* %.5f of sign and n = |x| * 10^5 rounded *)
Definition render5 (sn : bool * Z) : string :=
  let '(neg, n) := sn in
  ((if neg then "-" else "") ++ dec_string (n / 100000) ++ "." ++ frac5 (n mod 100000))%string.

Definition format_f5_32 (x : binary64) : string :=
  let y := b32_of_b64 x in
  match fixed_of_b32 precision y with
  | Some sn => render5 sn
  | None =>
      match y with
      | B754_infinity _ _ false => "+Inf"
      | B754_infinity _ _ true => "-Inf"
      | _ => "NaN"
      end
  end%string.

(* strconv.FormatFloat(x, fmt, prec, bitSize) as the translated source calls it; only the form the library uses
   ('f' = 102, the package precision, 32 bits) has a model, any other call is mapped to a string no coordinate prints as,
   so that a changed format argument can never be proved equal to the model *)
Definition go_format_float (x : binary64) (fmt prec bits : Z) : string :=
  if (fmt =? 102) && (prec =? precision) && (bits =? 32) then format_f5_32 x else "<unmodelled FormatFloat>"%string.

(* const stringInvalid = "Invalid" *)
Definition string_invalid : string := "Invalid"%string.

Definition lat_string (l : latitude) : string :=
  if lat_semicircles l =? sint32_invalid then string_invalid
  else format_f5_32 (lat_degrees l).

Definition lng_string (l : longitude) : string :=
  if lng_semicircles l =? sint32_invalid then string_invalid
  else format_f5_32 (lng_degrees l).
