(* Model of time.go (decodeDateTime, encodeTime, IsBaseTime) together with the
   part of Go's time package they call (go1.23 src/time/time.go: Add, addSec,
   Sub, Equal, Before).

   A time.Time is (seconds relative to the FIT epoch 1989-12-31T00:00:00Z,
   nanoseconds in [0, 10^9), zone) with zone = None for UTC and Some offset for
   any other location (same convention as Values.VTime).  Go keeps the seconds
   as an int64 count from January 1, year 1; that count is `t_sec + base_abs`.
   Monotonic clock readings are not modelled: timeBase comes from time.Date and
   has none, and every use below has timeBase as one operand, so the
   `t.wall & u.wall & hasMonotonic != 0` branches of Sub/Equal are dead and Add
   on timeBase never touches one.  Pure Z arithmetic; no axioms. *)
From Coq Require Import ZArith Bool String.
Local Open Scope Z_scope.

Record gotime := mk_time { t_sec : Z; t_nsec : Z; t_zone : option Z }.

(* int64 / uint32 conversions (two's complement wrap) *)
Definition wrap64 (z : Z) : Z := (z + 2 ^ 63) mod 2 ^ 64 - 2 ^ 63.
Definition to_uint32 (z : Z) : Z := z mod 2 ^ 32.

Definition max_int64 : Z := 2 ^ 63 - 1.
Definition min_int64 : Z := - 2 ^ 63.

(* time.Second as a Duration (int64 nanoseconds) *)
Definition second : Z := 1000000000.

(* internal seconds (since year 1) of 1989-12-31T00:00:00Z:
   unixToInternal 62135596800 + Unix 631065600 *)
Definition base_abs : Z := 62766662400.

(* var timeBase = time.Date(1989, time.December, 31, 0, 0, 0, 0, time.UTC) *)
Definition time_base : gotime := mk_time 0 0 None.

(* days from 1970-01-01 of a proleptic Gregorian date (year >= 1) *)
Definition days_from_civil (y m d : Z) : Z :=
  let y' := if m <=? 2 then y - 1 else y in
  let era := y' / 400 in
  let yoe := y' - era * 400 in
  let doy := (153 * (if 2 <? m then m - 3 else m + 9) + 2) / 5 + d - 1 in
  let doe := yoe * 365 + yoe / 4 - yoe / 100 + doy in
  era * 146097 + doe - 719468.

Example days_from_civil_examples :
  days_from_civil 1970 1 1 = 0 /\ days_from_civil 2000 3 1 = 11017 /\ days_from_civil 1 1 1 = -719162.
Proof. repeat split; reflexivity. Qed.

(* time.Date(y, m, d, h, mi, s, ns, loc) for in-range arguments (month 1..12, day within the month, ...; no
   normalisation is modelled) in time.UTC -- any other location is mapped to a fixed zone 0 that no theorem uses;
   vocabulary of the translated source, Gen/C17Funcs.v *)
Definition go_time_date (y m d h mi s ns : Z) (loc : string) : gotime :=
  mk_time ((days_from_civil y m d - days_from_civil 1 1 1) * 86400 + h * 3600 + mi * 60 + s - base_abs) ns
          (if String.eqb loc "UTC" then None else Some 0).

(* func (t *Time) addSec(d int64), wall-only branch, on the int64 count from
   year 1: saturates instead of wrapping *)
Definition add_sec (sec d : Z) : Z :=
  let ext := sec + base_abs in
  let sum := wrap64 (ext + d) in
  let r := if Bool.eqb (ext <? sum) (0 <? d) then sum
           else if 0 <? d then max_int64 else - max_int64 in
  r - base_abs.

(* func (t Time) Add(d Duration) Time; Go's / and % truncate toward zero *)
Definition time_add (t : gotime) (d : Z) : gotime :=
  let dsec := Z.quot d second in
  let nsec := t_nsec t + Z.rem d second in
  let '(dsec, nsec) :=
    if second <=? nsec then (wrap64 (dsec + 1), nsec - second)
    else if nsec <? 0 then (wrap64 (dsec - 1), nsec + second)
    else (dsec, nsec) in
  mk_time (add_sec (t_sec t) dsec) nsec (t_zone t).

(* func (t Time) Equal(u Time) bool: same instant, zone ignored *)
Definition time_equal (t u : gotime) : bool :=
  (t_sec t =? t_sec u) && (t_nsec t =? t_nsec u).

(* func (t Time) Before(u Time) bool *)
Definition time_before (t u : gotime) : bool :=
  (t_sec t <? t_sec u) || ((t_sec t =? t_sec u) && (t_nsec t <? t_nsec u)).

(* func (t Time) Sub(u Time) Duration: int64 arithmetic that may wrap, then the
   overflow check by adding back, saturating to min/maxDuration *)
Definition time_sub (t u : gotime) : Z :=
  let d := wrap64 (wrap64 (wrap64 (t_sec t - t_sec u) * second) + (t_nsec t - t_nsec u)) in
  if time_equal (time_add u d) t then d
  else if time_before t u then min_int64
  else max_int64.

(* func IsBaseTime(t time.Time) bool { return t.Equal(timeBase) } *)
Definition is_base_time (t : gotime) : bool := time_equal t time_base.

(* func decodeDateTime(dt uint32) time.Time {
     return timeBase.Add(time.Duration(dt) * time.Second) } *)
Definition decode_date_time (dt : Z) : gotime :=
  time_add time_base (wrap64 (dt * second)).

(* func encodeTime(t time.Time) uint32 {
     return uint32(t.Sub(timeBase) / time.Second) } *)
Definition encode_time (t : gotime) : Z :=
  to_uint32 (Z.quot (time_sub t time_base) second).

(* is the uint32 argument a uint32 *)
Definition is_u32 (u : Z) : Prop := 0 <= u < 2 ^ 32.

(* the whole seconds from the FIT epoch that a uint32 can count, in UTC *)
Definition whole_second (t : gotime) : Prop :=
  0 <= t_sec t < 2 ^ 32 /\ t_nsec t = 0 /\ t_zone t = None.
