(* messages.go expandComponents (generated code) and accumu.go, for the message
   types a file container expands: session, lap, record, event, segment_lap
   (and segment_point, which no container expands). Go operand widths are
   written out: [byte << 4] stays a byte; new(uint32Accumulator) has mask 0.
   The three accumulators are package-level variables: the explicit [gstate]. *)
From Coq Require Import NArith ZArith List Bool String.
From FitV Require Import Model.Values Model.Bytes Model.Reflect Model.Profile Gen.Consts.
Import ListNotations.
Local Open Scope string_scope.
Local Open Scope N_scope.

(* accumu.go: uint32Accumulator *)
Record accum := mk_accum { ac_value : N; ac_last : N; ac_mask : N }.
(* func uint32NewAccumulator(bits uint) *uint32Accumulator *)
Definition new_accum (bits : N) : accum := mk_accum 0 0 ((2 ^ bits - 1) mod 2 ^ 32).
(* new(uint32Accumulator) *)
Definition zero_accum : accum := mk_accum 0 0 0.
(* func (a *uint32Accumulator) accumulate(value uint32) uint32 *)
Definition accumulate (a : accum) (v : N) : N * accum :=
  let delta := N.land ((v + 2 ^ 32 - ac_last a) mod 2 ^ 32) (ac_mask a) in
  let nv := (ac_value a + delta) mod 2 ^ 32 in
  (nv, mk_accum nv v (ac_mask a)).

(* var accumuDistance, accumuTotalCycles, accumuAccumulatedPower *uint32Accumulator *)
Record gstate := mk_gstate { g_dist : option accum; g_cycles : option accum; g_power : option accum }.
Definition g_init : gstate := mk_gstate None None None.

(* struct field access by name; a missing name makes the model's message malformed (VOther) *)
Definition fld (m : msg) (name : string) : goval :=
  match sindex_of (m_num m) name with
  | Some i => nth i (m_fields m) VOther
  | None => VOther
  end.
Definition set_fld (m : msg) (name : string) (v : goval) : msg :=
  match sindex_of (m_num m) name with
  | Some i => mk_msg (m_num m) (set_nth i v (m_fields m))
  | None => m
  end.
Definition uval (v : goval) : N := match v with VU n => n | _ => 0 end.

(* if x.Src != 0xFFFF { x.Dst = uint32((x.Src >> 0) & ((1 << 16) - 1)) } *)
Definition widen16 (m : msg) (src dst : string) : msg :=
  let s := uval (fld m src) in
  if s =? 0xFFFF then m else set_fld m dst (VU (N.land s 0xFFFF)).

Definition expand_session_lap (m : msg) : msg :=
  let m := widen16 m "AvgSpeed" "EnhancedAvgSpeed" in
  let m := widen16 m "MaxSpeed" "EnhancedMaxSpeed" in
  let m := widen16 m "AvgAltitude" "EnhancedAvgAltitude" in
  let m := widen16 m "MaxAltitude" "EnhancedMaxAltitude" in
  widen16 m "MinAltitude" "EnhancedMinAltitude".

Definition expand_segment_lap (m : msg) : msg :=
  let m := widen16 m "AvgAltitude" "EnhancedAvgAltitude" in
  let m := widen16 m "MaxAltitude" "EnhancedMaxAltitude" in
  widen16 m "MinAltitude" "EnhancedMinAltitude".

Definition expand_segment_point (m : msg) : msg := widen16 m "Altitude" "EnhancedAltitude".

Definition expand_event (m : msg) : msg :=
  let d16 := uval (fld m "Data16") in
  let m := if d16 =? 0xFFFF then m else set_fld m "Data" (VU (N.land d16 0xFFFF)) in
  let d := uval (fld m "Data") in
  if d =? 0xFFFFFFFF then m else
  let ev := uval (fld m "Event") in
  if ev =? c_EventSportPoint then
    let m := set_fld m "Score" (VU (N.land d 0xFFFF)) in
    set_fld m "OpponentScore" (VU (N.land (N.shiftr d 16) 0xFFFF))
  else if (ev =? c_EventFrontGearChange) || (ev =? c_EventRearGearChange) then
    let m := set_fld m "RearGearNum" (VU (N.land d 0xFF)) in
    let m := set_fld m "RearGear" (VU (N.land (N.shiftr d 8) 0xFF)) in
    let m := set_fld m "FrontGearNum" (VU (N.land (N.shiftr d 16) 0xFF)) in
    set_fld m "FrontGear" (VU (N.land (N.shiftr d 24) 0xFF))
  else m.

Definition get_acc (o : option accum) (fresh : accum) : accum := match o with Some a => a | None => fresh end.

(* the three accumulated components of record, in the order of the generated code *)
Definition expand_csd (g : gstate) (m : msg) : msg * gstate :=
  let csd := match fld m "CompressedSpeedDistance" with VList l => map uval l | _ => [] end in
  let expand := (Nat.eqb (List.length csd) 3) && existsb (fun v => negb (v =? 0xFF)) csd in
  if expand then
    let b0 := nth 0 csd 0 in let b1 := nth 1 csd 0 in let b2 := nth 2 csd 0 in
    (* x.Speed = uint16(b0) | uint16(b1&0x0F)<<8 *)
    let m := set_fld m "Speed" (VU (N.lor b0 (N.shiftl (N.land b1 0x0F) 8))) in
    let a := get_acc (g_dist g) (new_accum 12) in
    (* uint32(b1>>4) | uint32(b2<<4): the shift of b2 is evaluated in byte *)
    let raw := N.lor (N.shiftr b1 4) ((N.shiftl b2 4) mod 256) in
    let va := accumulate a raw in
    (set_fld m "Distance" (VU (fst va)), mk_gstate (Some (snd va)) (g_cycles g) (g_power g))
  else (m, g).

Definition expand_cycles (g : gstate) (m : msg) : msg * gstate :=
  let cyc := uval (fld m "Cycles") in
  if cyc =? 0xFF then (m, g) else
    let a := get_acc (g_cycles g) zero_accum in
    let va := accumulate a (N.land cyc 0xFF) in
    (set_fld m "TotalCycles" (VU (fst va)), mk_gstate (g_dist g) (Some (snd va)) (g_power g)).

Definition expand_power (g : gstate) (m : msg) : msg * gstate :=
  let cap := uval (fld m "CompressedAccumulatedPower") in
  if cap =? 0xFFFF then (m, g) else
    let a := get_acc (g_power g) zero_accum in
    let va := accumulate a (N.land cap 0xFFFF) in
    (set_fld m "AccumulatedPower" (VU (fst va)), mk_gstate (g_dist g) (g_cycles g) (Some (snd va))).

Definition expand_record (g : gstate) (m : msg) : msg * gstate :=
  let m := widen16 m "Altitude" "EnhancedAltitude" in
  let m := widen16 m "Speed" "EnhancedSpeed" in
  let r1 := expand_csd g m in
  let r2 := expand_cycles (snd r1) (fst r1) in
  expand_power (snd r2) (fst r2).

(* dispatch on the message type; None = the model does not cover this type's
   expandComponents (no file container calls it) *)
Definition expand_components (g : gstate) (m : msg) : option (msg * gstate) :=
  let n := m_num m in
  if (n =? c_MesgNumSession) || (n =? c_MesgNumLap) then Some (expand_session_lap m, g)
  else if n =? c_MesgNumRecord then Some (expand_record g m)
  else if n =? c_MesgNumEvent then Some (expand_event m, g)
  else if n =? c_MesgNumSegmentLap then Some (expand_segment_lap m, g)
  else if n =? c_MesgNumSegmentPoint then Some (expand_segment_point m, g)
  else None.
