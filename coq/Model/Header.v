(* header.go *)
From Coq Require Import NArith ZArith List Bool.
From FitV Require Import Model.Bytes Model.Crc Gen.Consts.
Import ListNotations.
Local Open Scope N_scope.

Record header := mk_header {
  h_size : N; h_proto : N; h_profile : N; h_dsize : N; h_dtype : list N; h_crc : N
}.
Definition zero_header : header := mk_header 0 0 0 0 [0; 0; 0; 0] 0.

Definition fit_dtype : list N := [c_fitDataType0; c_fitDataType1; c_fitDataType2; c_fitDataType3].

(* func (p ProtocolVersion) Major() byte *)
Definition proto_major (p : N) : N := N.shiftr (N.land p c_protocolVersionMajorMask) c_protocolVersionMajorShift.
(* func checkProtocolVersion(b byte) error: true = supported *)
Definition proto_ok (b : N) : bool := proto_major b <=? proto_major c_currentProtocolVersion.

Definition list_eqb (a b : list N) : bool := if list_eq_dec N.eq_dec a b then true else false.

(* the 12/14 header bytes as MarshalBinary and Header.CheckIntegrity lay them out *)
Definition header_bytes12 (h : header) : list N :=
  [h_size h; h_proto h] ++ put_le16 (h_profile h) ++ put_le32 (h_dsize h) ++ firstn 4 (h_dtype h ++ [0; 0; 0; 0]).

(* func (h Header) MarshalBinary() ([]byte, error): the CRC written is computed, not h.CRC *)
Definition header_marshal (h : header) : list N * N :=
  let b12 := header_bytes12 h in
  let crc := checksum b12 in
  (if h_size h =? c_headerSizeCRC then b12 ++ put_le16 crc else b12, crc).

(* func (h Header) CheckIntegrity() error, as repaired (a size other than 12 or 14 is rejected first, as
   decodeHeader does; the byte image is written to the checksum):
   None = nil, Some true = IntegrityError, Some false = other *)
Definition header_check_integrity (h : header) : option bool :=
  if negb ((h_size h =? c_headerSizeCRC) || (h_size h =? c_headerSizeNoCRC)) then Some false
  else if negb (proto_ok (h_proto h)) then Some false
  else if negb (list_eqb (h_dtype h) fit_dtype) then Some false
  else if h_size h =? c_headerSizeNoCRC then None
  else if h_crc h =? 0 then None
  else
    let bh := header_bytes12 h ++ put_le16 (h_crc h) in
    if checksum bh =? 0 then None else Some true.

(* func NewHeader(v ProtocolVersion, crc bool) Header *)
Definition new_header (v : N) (crc : bool) : header :=
  mk_header (if crc then c_headerSizeCRC else c_headerSizeNoCRC) v c_ProfileVersion 0 fit_dtype 0.
