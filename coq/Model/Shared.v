(* Package-level state shared by the calls of one process, and what calls can
   observe of each other through it.

   The only package-level variables the decoding and encoding paths write are
   the three component accumulators of profile.go (accumuDistance,
   accumuTotalCycles, accumuAccumulatedPower; Gen/SharedState.v lists every
   package-level variable and every write reachable from the entry points, and
   Proofs/C08Shared.v pins that list to exactly these three).  They are the
   [gstate] that Model/Decode.v threads through every entry point.

   Part 1 (C08): a call, what its caller observes, a call history.
   Part 2 (C09): calls as threads of atomic steps over (private state, shared
   gstate), interleaved by a schedule; conflicting unsynchronised accesses.

   What is NOT modelled here (C09 is partial for that reason): the Go runtime
   and scheduler, the Go memory model (an unsynchronised access is taken at
   face value: a step that loads or stores the shared accumulators at some
   point of the interleaving), the internals of the standard library.
   Granularity: a call that reaches an accumulating expansion is modelled as a
   private prefix, one unsynchronised load of the accumulators it uses and one
   unsynchronised store; the code performs one such load/store pair per record
   message.  A call that reaches none performs no shared step at all
   (Proofs/C08Decode.v proves, for every state of such a run, that the
   accumulators are neither changed nor able to influence it). *)
From Coq Require Import NArith ZArith List Bool.
From FitV Require Import Model.Values Model.IO Model.Header Model.Components Model.Route Model.Decode
  Model.Encode Gen.Consts.
Import ListNotations.
Local Open Scope N_scope.

(* ------------------------------------------------------------------ part 1 *)

Inductive call :=
| CDecode (o : dopts) (rd : reader) (fuel : nat)
| CChained (o : dopts) (rd : reader) (fuel : nat)
| CCheck (header_only : bool) (rd : reader) (fuel : nat)
| CHeader (rd : reader) (fuel : nat)
| CHeaderFileId (rd : reader) (fuel : nat)
| CEncode (f : file) (be : bool).

(* what the caller of one call can observe: error class, header, File(s), the
   reader afterwards; for Encode the bytes written and the File afterwards.
   The accumulators and the model's quirk tags are not observable. *)
Inductive obs :=
| ODec (e : option err) (h : header) (f : option file) (rd : reader)
| OChain (e : option err) (fs : list file) (rd : reader)
| OEnc (r : enc_result)
| OPanic (w : N)
| OFuel.

(* a panic unwinds out of the library: the model does not say what it leaves
   in the accumulators (none of the entry points panics: C01) and keeps g *)
Definition obs_dec (g : gstate) (t : tout dres) : obs * gstate :=
  match t with
  | TDone r => (ODec (dr_err r) (dr_hdr r) (dr_file r) (dr_rd r), dr_g r)
  | TPanic w => (OPanic w, g)
  | TOutOfFuel => (OFuel, g)
  end.

Definition obs_chain (g : gstate) (t : tout Decode.cres) : obs * gstate :=
  match t with
  | TDone r => (OChain (cr_err r) (cr_files r) (cr_rd r), cr_g r)
  | TPanic w => (OPanic w, g)
  | TOutOfFuel => (OFuel, g)
  end.

(* one call made when the accumulators hold g *)
Definition run_call (g : gstate) (c : call) : obs * gstate :=
  match c with
  | CDecode o rd fuel => obs_dec g (entry_Decode o g rd fuel)
  | CChained o rd fuel => obs_chain g (entry_DecodeChained o g rd fuel)
  | CCheck ho rd fuel => obs_dec g (entry_CheckIntegrity ho g rd fuel)
  | CHeader rd fuel => obs_dec g (entry_DecodeHeader g rd fuel)
  | CHeaderFileId rd fuel => obs_dec g (entry_DecodeHeaderAndFileID g rd fuel)
  | CEncode f be => (OEnc (encode f be), g)
  end.

(* a process: calls made one after another from the state g *)
Fixpoint run_history (g : gstate) (cs : list call) : list obs :=
  match cs with
  | [] => []
  | c :: r => let og := run_call g c in fst og :: run_history (snd og) r
  end.

(* the same call made first in a fresh process *)
Definition fresh (c : call) : obs := fst (run_call g_init c).

(* side conditions, stated on the fresh run of the call (they are decidable
   by running the model; the harness evaluates them):
   - the call reaches no compressed_speed_distance expansion: the distance
     accumulator is still nil afterwards (get_acc creates it on first use);
   - the call reaches no accumulating expansion at all. *)
Definition no_distance_source (c : call) : Prop := g_dist (snd (run_call g_init c)) = None.
Definition no_accumulated_source (c : call) : Prop := snd (run_call g_init c) = g_init.
Definition no_distance_sourceb (c : call) : bool :=
  match g_dist (snd (run_call g_init c)) with None => true | Some _ => false end.
Definition no_accumulated_sourceb (c : call) : bool :=
  match snd (run_call g_init c) with mk_gstate None None None => true | _ => false end.

(* states of the accumulators that calls can produce: total_cycles and
   accumulated_power are created by new(uint32Accumulator): mask 0, and their
   value never leaves 0 (the defect recorded for C18) *)
Definition acc0 (o : option accum) : Prop := forall a, o = Some a -> ac_mask a = 0 /\ ac_value a = 0.
Definition gwf (g : gstate) : Prop := acc0 (g_cycles g) /\ acc0 (g_power g).

(* two messages that can differ only if both are record messages (the only
   type whose expansion reads an accumulator) *)
Definition msg_sim (m1 m2 : msg) : Prop :=
  m1 = m2 \/ (m_num m1 = c_MesgNumRecord /\ m_num m2 = c_MesgNumRecord).
Definition file_sim (f1 f2 : file) : Prop :=
  f_header f1 = f_header f2 /\ f_crc f1 = f_crc f2 /\ Forall2 (Forall2 msg_sim) (f_slots f1) (f_slots f2) /\
  f_inited f1 = f_inited f2 /\ f_unkm f1 = f_unkm f2 /\ f_unkf f1 = f_unkf f2.
Definition ofile_sim (f1 f2 : option file) : Prop :=
  match f1, f2 with Some a, Some b => file_sim a b | None, None => True | _, _ => False end.

(* what never depends on the accumulators: the outcome class, error, header,
   reader position, number of Files, and every message that is not a record *)
Definition obs_sim (o1 o2 : obs) : Prop :=
  match o1, o2 with
  | ODec e1 h1 f1 r1, ODec e2 h2 f2 r2 => e1 = e2 /\ h1 = h2 /\ ofile_sim f1 f2 /\ r1 = r2
  | OChain e1 fs1 r1, OChain e2 fs2 r2 => e1 = e2 /\ Forall2 file_sim fs1 fs2 /\ r1 = r2
  | OEnc a, OEnc b => a = b
  | OPanic a, OPanic b => a = b
  | OFuel, OFuel => True
  | _, _ => False
  end.

(* ------------------------------------------------------------------ part 2 *)

Inductive loc := LDist | LCycles | LPower.
Definition loc_eqb (a b : loc) : bool :=
  match a, b with LDist, LDist | LCycles, LCycles | LPower, LPower => true | _, _ => false end.

(* the accumulators a call uses: those its fresh run leaves non-nil *)
Definition touched (c : call) : list loc :=
  let g := snd (run_call g_init c) in
  (match g_dist g with Some _ => [LDist] | None => [] end) ++
  (match g_cycles g with Some _ => [LCycles] | None => [] end) ++
  (match g_power g with Some _ => [LPower] | None => [] end).

(* atomic steps of a thread that executes one call *)
Inductive tstep :=
| TLocal (c : call)                   (* private work only: no accumulating expansion is reached *)
| TLoad (ls : list loc) (c : call)    (* unsynchronised load of the package-level accumulators *)
| TStore (ls : list loc) (c : call).  (* unsynchronised store; the call returns *)

Definition call_steps (c : call) : list tstep :=
  if no_accumulated_sourceb c then [TLocal c] else [TLoad (touched c) c; TStore (touched c) c].

Record thread := mk_thread {
  t_todo : list tstep;
  t_view : gstate;            (* the accumulator values this thread has loaded *)
  t_res : option obs          (* Some: the call has returned *)
}.
Definition spawn (c : call) : thread := mk_thread (call_steps c) g_init None.

(* one step of thread t against the shared accumulators g *)
Definition exec_step (t : thread) (g : gstate) : thread * gstate :=
  match t_todo t with
  | [] => (t, g)
  | TLocal c :: r => (mk_thread r (t_view t) (Some (fresh c)), g)
  | TLoad _ c :: r => (mk_thread r g (t_res t), g)
  | TStore _ c :: r => let og := run_call (t_view t) c in (mk_thread r (t_view t) (Some (fst og)), snd og)
  end.

(* an executed shared access: thread, is it a store, which accumulators *)
Definition event := (nat * bool * list loc)%type.
Definition step_event (i : nat) (t : thread) : list event :=
  match t_todo t with
  | TLoad ls _ :: _ => [(i, false, ls)]
  | TStore ls _ :: _ => [(i, true, ls)]
  | _ => []
  end.

Fixpoint upd {A} (i : nat) (x : A) (l : list A) : list A :=
  match l, i with
  | [], _ => []
  | _ :: r, O => x :: r
  | a :: r, S k => a :: upd k x r
  end.

(* a schedule names the thread that takes the next step; a finished or
   unknown thread id is a no-op *)
Fixpoint interleave (sched : list nat) (ts : list thread) (g : gstate) (tr : list event)
  : list thread * gstate * list event :=
  match sched with
  | [] => (ts, g, tr)
  | i :: rest =>
      match nth_error ts i with
      | None => interleave rest ts g tr
      | Some t =>
          let tg := exec_step t g in
          interleave rest (upd i (fst tg) ts) (snd tg) (tr ++ step_event i t)
      end
  end.

Definition run_concurrent (sched : list nat) (cs : list call) (g : gstate) :=
  interleave sched (map spawn cs) g [].
Definition results (x : list thread * gstate * list event) : list (option obs) := map t_res (fst (fst x)).
Definition trace (x : list thread * gstate * list event) : list event := snd x.
Definition all_returned (x : list thread * gstate * list event) : bool :=
  forallb (fun t => match t_res t with Some _ => true | None => false end) (fst (fst x)).

(* nothing in the library orders two calls (Gen/SharedState.v: no sync-typed
   package-level variable is used on these paths), so two accesses of different
   threads to a common accumulator, one of them a store, are a data race
   wherever they fall in the interleaving *)
Definition conflict (a b : event) : bool :=
  let '(i, wa, la) := a in let '(j, wb, lb) := b in
  negb (Nat.eqb i j) && (wa || wb) && existsb (fun l => existsb (loc_eqb l) lb) la.
Fixpoint races (tr : list event) : list (event * event) :=
  match tr with
  | [] => []
  | e :: r => map (fun e' => (e, e')) (filter (conflict e) r) ++ races r
  end.

(* the sequential schedule: thread 0 to completion, then thread 1, ... *)
Fixpoint seq_schedule (n : nat) (k : nat) : list nat :=
  match n with O => [] | S m => k :: k :: seq_schedule m (S k) end.
