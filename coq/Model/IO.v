(* The decoder's view of its input.

   - [reader]: an io.Reader oracle: the data it will deliver, a chunk schedule
     (how many bytes each Read call returns at most; 0 = an empty read), what it
     answers when the data is exhausted (io.EOF or a non-EOF error), and whether
     the last chunk is returned together with that condition.
   - Go's io.ReadFull, binary.Read of one byte and io.CopyN over the oracle.
   - [prog]: decoder programs over the buffered primitives of reader.go
     (readByte/skipByte, readFull, the loop test n < limit).
   - the concrete interpreter (4096-byte buffer, fill capped by limit - n, CRC
     written at fill time) and the abstract interpreter over a plain byte list.
   Loops run on explicit fuel; exhausting it is the distinct outcome OutOfFuel. *)
From Coq Require Import NArith ZArith List Bool Arith.
From FitV Require Import Model.Crc Gen.Consts.
Import ListNotations.

Inductive term := TEOF | TFault.

Record reader := mk_reader {
  rd_data : list N;
  rd_sched : list nat;
  rd_term : term;
  rd_ewd : bool;           (* last chunk comes together with EOF / the error *)
  rd_pos : nat             (* bytes delivered so far *)
}.

(* one Read(p) call with len(p) = k > 0 *)
Definition rd_read (r : reader) (k : nat) : list N * option term * reader :=
  match rd_data r with
  | [] => ([], Some (rd_term r), r)
  | _ =>
      let cap := match rd_sched r with [] => k | c :: _ => Nat.min c k end in
      let bs := firstn cap (rd_data r) in
      let rest := skipn cap (rd_data r) in
      let e := match rest with
               | [] => if rd_ewd r then Some (rd_term r) else None
               | _ => None
               end in
      (bs, e, mk_reader rest (tl (rd_sched r)) (rd_term r) (rd_ewd r) (rd_pos r + length bs))
  end.

(* error classes of the raw reads *)
Inductive rerr := REOF | RUnexpectedEOF | RFault.

Inductive outcome (A : Type) :=
| Done (a : A)
| OutOfFuel.
Arguments Done {A}. Arguments OutOfFuel {A}.

(* io.ReadFull(r, buf) with len(buf) = n: ReadAtLeast loop *)
Fixpoint io_read_full (fuel : nat) (r : reader) (n : nat) (acc : list N)
  : outcome (list N * option rerr * reader) :=
  if Nat.leb n (length acc) then Done (acc, None, r) else
  match fuel with
  | O => OutOfFuel
  | S f =>
      let '(bs, e, r') := rd_read r (n - length acc) in
      let acc' := acc ++ bs in
      match e with
      | None => io_read_full f r' n acc'
      | Some t =>
          if Nat.leb n (length acc') then Done (acc', None, r')
          else Done (acc', Some (match t with
                                 | TFault => RFault
                                 | TEOF => match acc' with [] => REOF | _ => RUnexpectedEOF end
                                 end), r')
      end
  end.

(* io.CopyN(dst, r, n): io.Copy over a LimitedReader with a buffer of
   min(32 KiB, n) bytes; returns the bytes copied (they were written to dst) *)
Definition COPYBUF : nat := 32768.
Fixpoint io_copy_n (fuel : nat) (r : reader) (n : nat) (acc : list N)
  : outcome (list N * option rerr * reader) :=
  if Nat.leb n (length acc) then Done (acc, None, r) else
  match fuel with
  | O => OutOfFuel
  | S f =>
      let want := Nat.min COPYBUF (n - length acc) in
      let '(bs, e, r') := rd_read r want in
      let acc' := acc ++ bs in
      match e with
      | None => io_copy_n f r' n acc'
      | Some t =>
          if Nat.leb n (length acc') then Done (acc', None, r')
          else Done (acc', Some (match t with TFault => RFault | TEOF => REOF end), r')
      end
  end.

(* ---------------------------------------------------------------- programs *)

(* Decoder programs: a free monad over the buffered read primitives plus the
   decoder's own mutable state (S), so that an I/O error, which every call site
   in reader.go returns immediately, leaves the state reached so far
   observable (the partially filled File). E is the error class. *)
Inductive prog (S E A : Type) : Type :=
| Ret (a : A)
| Fail (e : E)
| Panic (why : N)
| ReadByte (k : N -> prog S E A)
| ReadFull (n : nat) (k : list N -> prog S E A)
| More (k : bool -> prog S E A)
| Get (k : S -> prog S E A)
| Put (s : S) (k : prog S E A).

Arguments Ret {S E A}. Arguments Fail {S E A}. Arguments Panic {S E A}.
Arguments ReadByte {S E A}. Arguments ReadFull {S E A}. Arguments More {S E A}.
Arguments Get {S E A}. Arguments Put {S E A}.

Fixpoint bind {S E A B} (p : prog S E A) (f : A -> prog S E B) : prog S E B :=
  match p with
  | Ret a => f a
  | Fail e => Fail e
  | Panic w => Panic w
  | ReadByte k => ReadByte (fun b => bind (k b) f)
  | ReadFull n k => ReadFull n (fun l => bind (k l) f)
  | More k => More (fun m => bind (k m) f)
  | Get k => Get (fun s => bind (k s) f)
  | Put s k => Put s (bind k f)
  end.

(* I/O level error of the buffered primitives *)
Inductive ioerr := IOBeyond | IOUnexpectedEOF | IOFault.

(* X is the interpreter's I/O state, S the decoder state *)
Inductive result (X S E A : Type) :=
| ROk (a : A) (x : X) (s : S)
| RFail (e : E) (x : X) (s : S)
| RIOErr (e : ioerr) (x : X) (s : S)
| RPanic (why : N)
| ROutOfFuel.
Arguments ROk {X S E A}. Arguments RFail {X S E A}. Arguments RIOErr {X S E A}.
Arguments RPanic {X S E A}. Arguments ROutOfFuel {X S E A}.

Definition noEOF (t : term) : ioerr := match t with TEOF => IOUnexpectedEOF | TFault => IOFault end.

(* ------------------------------------------------------- abstract interpreter *)
Record ast := mk_ast { a_rest : list N; a_term : term; a_n : nat; a_limit : nat }.

(* take k bytes: succeeds iff k <= min (limit - n) |rest|; otherwise BEYOND if
   the limit is reached first, else the reader's terminal condition *)
Definition a_take (k : nat) (x : ast) : list N * ast + ioerr :=
  let room := a_limit x - a_n x in
  if Nat.leb k (Nat.min room (length (a_rest x))) then
    inl (firstn k (a_rest x), mk_ast (skipn k (a_rest x)) (a_term x) (a_n x + k) (a_limit x))
  else if Nat.leb room (length (a_rest x)) then inr IOBeyond
  else inr (noEOF (a_term x)).

Fixpoint run_a {S E A} (p : prog S E A) (x : ast) (s : S) : result ast S E A :=
  match p with
  | Ret a => ROk a x s
  | Fail e => RFail e x s
  | Panic w => RPanic w
  | ReadByte k =>
      match a_take 1 x with
      | inl (l, x') => run_a (k (hd 0%N l)) x' s
      | inr e => RIOErr e x s
      end
  | ReadFull n k =>
      match a_take n x with
      | inl (l, x') => run_a (k l) x' s
      | inr e => RIOErr e x s
      end
  | More k => run_a (k (Nat.ltb (a_n x) (a_limit x))) x s
  | Get k => run_a (k s) x s
  | Put s' k => run_a k x s'
  end.

(* ------------------------------------------------------- concrete interpreter *)
Record cst := mk_cst {
  c_rd : reader;
  c_buf : list N;        (* buf[i:j], the unread part of the buffer *)
  c_n : nat;
  c_limit : nat;
  c_crc : N;             (* d.crc, written at fill time *)
  c_fuel : nat
}.

(* len(decoder{}.bytes.buf), regenerated from the source (Gen/Consts.v): a change of the buffer size is followed
   by the model; the simulation theorem only needs it to be positive *)
Definition BUFSZ : nat := N.to_nat c_bufLen.

(* outcome of one buffered primitive: value and state, or the I/O error with the
   state reached when it occurred, or out of fuel *)
Inductive cres (A : Type) :=
| COk (a : A) (c : cst)
| CErr (e : ioerr) (c : cst)
| CFuel.
Arguments COk {A}. Arguments CErr {A}. Arguments CFuel {A}.

(* func (d *decoder) fill() error; called with an empty buffer *)
Definition fill (c : cst) : cres unit :=
  match c_fuel c with
  | O => CFuel
  | S f =>
      if Nat.eqb (c_n c) (c_limit c) then CErr IOBeyond c else
      let '(bs, e, rd') := rd_read (c_rd c) (Nat.min BUFSZ (c_limit c - c_n c)) in
      match bs with
      | _ :: _ => COk tt (mk_cst rd' bs (c_n c) (c_limit c) (crc_write (c_crc c) bs) f)
      | [] =>
          match e with
          | Some t => CErr (noEOF t) (mk_cst rd' [] (c_n c) (c_limit c) (c_crc c) f)
          | None => COk tt (mk_cst rd' [] (c_n c) (c_limit c) (c_crc c) f)
          end
      end
  end.

(* func (d *decoder) readFull(p []byte) error *)
Fixpoint c_take (iters : nat) (k : nat) (acc : list N) (c : cst) : cres (list N) :=
  let m := Nat.min k (length (c_buf c)) in
  let acc' := acc ++ firstn m (c_buf c) in
  let c1 := mk_cst (c_rd c) (skipn m (c_buf c)) (c_n c + m) (c_limit c) (c_crc c) (c_fuel c) in
  if Nat.eqb (k - m) 0 then COk acc' c1 else
  match iters with
  | O => CFuel
  | S it =>
      match fill c1 with
      | COk _ c2 => c_take it (k - m) acc' c2
      | CErr e c2 => CErr e c2
      | CFuel => CFuel
      end
  end.

(* func (d *decoder) readByte() (byte, error) / skipByte *)
Fixpoint c_byte (iters : nat) (c : cst) : cres N :=
  match c_buf c with
  | b :: r => COk b (mk_cst (c_rd c) r (c_n c + 1) (c_limit c) (c_crc c) (c_fuel c))
  | [] =>
      match iters with
      | O => CFuel
      | S it =>
          match fill c with
          | COk _ c2 => c_byte it c2
          | CErr e c2 => CErr e c2
          | CFuel => CFuel
          end
      end
  end.

Fixpoint run_c {S E A} (p : prog S E A) (c : cst) (s : S) : result cst S E A :=
  match p with
  | Ret a => ROk a c s
  | Fail e => RFail e c s
  | Panic w => RPanic w
  | ReadByte k =>
      match c_byte (Datatypes.S (c_fuel c)) c with
      | COk b c' => run_c (k b) c' s
      | CErr e c' => RIOErr e c' s
      | CFuel => ROutOfFuel
      end
  | ReadFull n k =>
      match c_take (Datatypes.S (c_fuel c)) n [] c with
      | COk l c' => run_c (k l) c' s
      | CErr e c' => RIOErr e c' s
      | CFuel => ROutOfFuel
      end
  | More k => run_c (k (Nat.ltb (c_n c) (c_limit c))) c s
  | Get k => run_c (k s) c s
  | Put s' k => run_c k c s'
  end.
