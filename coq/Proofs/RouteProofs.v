(* C03: routing. From routing_wf (one computation over the table observed on
   the current source) to: the contents of every slot after any message
   sequence, dropped messages have no effect, init/accessor behaviour. *)
From Coq Require Import NArith ZArith List Bool String Lia Arith.
From FitV Require Import Proofs.Util Proofs.ProfileProofs Model.Values Model.Reflect Model.Profile Model.Header Model.Components Model.Route
  Spec.RouteSpec Gen.Consts Gen.RoutingData.
Import ListNotations.
Local Open Scope N_scope.

Lemma routing_wf_true : routing_wf = true.
Proof. vm_compute. reflexivity. Qed.

Lemma wf_ft ft : In ft valid_file_types -> ft_routing_ok ft = true.
Proof.
  intros H. pose proof routing_wf_true as W. unfold routing_wf in W.
  apply andb_prop in W. destruct W as [W _]. apply andb_prop in W. destruct W as [W _].
  rewrite forallb_forall in W. now apply W.
Qed.

Lemma rmode_eqb_eq a b : rmode_eqb a b = true -> a = b.
Proof. destruct a, b; simpl; congruence. Qed.

Lemma routes_eqb_eq : forall a b, routes_eqb a b = true -> a = b.
Proof.
  induction a as [|[[i m] e] a IH]; intros [|[[j n] f] b] H; simpl in H; try discriminate; [reflexivity|].
  apply andb_prop in H. destruct H as [H1 H2]. apply andb_prop in H1. destruct H1 as [H1 H3].
  apply andb_prop in H1. destruct H1 as [H0 H1].
  apply Nat.eqb_eq in H0. apply rmode_eqb_eq in H1. apply eqb_prop in H3. subst. f_equal. now apply IH.
Qed.

Lemma find_slot_from_in : forall l mn k i multi, find_slot_from l mn k = Some (i, multi) ->
  exists name, In (name, multi, mn) l.
Proof.
  induction l as [|[[nm mu] held] l IH]; intros mn k i multi H; simpl in H; [discriminate|].
  destruct (N.eqb_spec held mn) as [->|NE].
  - inversion H; subst. exists nm. now left.
  - destruct (IH _ _ _ _ H) as [name Hin]. exists name. now right.
Qed.

Lemma routes_of_unfold ft mn :
  routes_of ft mn = match find (fun e : N * list (nat * rmode * bool) => fst e =? mn) (routing_of_ft ft) with
                    | Some (_, r) => r | None => [] end.
Proof. unfold routes_of, routing_of_ft. destruct (find _ routing) as [[a l]|]; reflexivity. Qed.

(* the observed routing is the expected routing, for every message number *)
Theorem routes_char : forall ft mn, In ft valid_file_types -> routes_of ft mn = expected_routes ft mn.
Proof.
  intros ft mn Hft. pose proof (wf_ft ft Hft) as W. unfold ft_routing_ok in W.
  apply andb_prop in W. destruct W as [W _]. apply andb_prop in W. destruct W as [W _].
  apply andb_prop in W. destruct W as [W _]. apply andb_prop in W. destruct W as [W Hb].
  apply andb_prop in W. destruct W as [_ Ha].
  rewrite routes_of_unfold.
  destruct (find _ (routing_of_ft ft)) as [[mn' r]|] eqn:Ef.
  - apply find_some in Ef. destruct Ef as [Hin Hk]. simpl in Hk. apply N.eqb_eq in Hk. subst mn'.
    rewrite forallb_forall in Ha. specialize (Ha _ Hin). simpl in Ha. now apply routes_eqb_eq.
  - unfold expected_routes. destruct (find_slot ft mn) as [[i multi]|] eqn:Es; [|reflexivity].
    exfalso. unfold find_slot in Es. apply find_slot_from_in in Es. destruct Es as [name Hin].
    rewrite forallb_forall in Hb. specialize (Hb _ Hin). simpl in Hb.
    rewrite routes_of_unfold, Ef in Hb. discriminate.
Qed.

(* expansion never changes the message number *)
Lemma set_fld_num m n v : m_num (set_fld m n v) = m_num m.
Proof. unfold set_fld. destruct (sindex_of _ _); reflexivity. Qed.
Lemma widen16_num m a b : m_num (widen16 m a b) = m_num m.
Proof. unfold widen16. destruct (_ =? _); [reflexivity|apply set_fld_num]. Qed.

Lemma expand_csd_num g m : m_num (fst (expand_csd g m)) = m_num m.
Proof. unfold expand_csd. destruct (_ && _); simpl; rewrite ?set_fld_num; reflexivity. Qed.
Lemma expand_cycles_num g m : m_num (fst (expand_cycles g m)) = m_num m.
Proof. unfold expand_cycles. destruct (_ =? _); simpl; rewrite ?set_fld_num; reflexivity. Qed.
Lemma expand_power_num g m : m_num (fst (expand_power g m)) = m_num m.
Proof. unfold expand_power. destruct (_ =? _); simpl; rewrite ?set_fld_num; reflexivity. Qed.
Lemma expand_record_num g m : m_num (fst (expand_record g m)) = m_num m.
Proof. unfold expand_record. cbv zeta. now rewrite expand_power_num, expand_cycles_num, expand_csd_num, !widen16_num. Qed.

Lemma expand_components_num g m m' g' : expand_components g m = Some (m', g') -> m_num m' = m_num m.
Proof.
  unfold expand_components.
  repeat match goal with |- context [if ?c then _ else _] => destruct c end; intros H; inversion H; subst; clear H.
  - unfold expand_session_lap. now rewrite !widen16_num.
  - match goal with |- m_num ?x = _ => replace x with (fst (expand_record g m)) by (rewrite H1; reflexivity) end.
    apply expand_record_num.
  - unfold expand_event.
    repeat match goal with |- context [if ?c then _ else _] => destruct c end; rewrite ?set_fld_num; reflexivity.
  - unfold expand_segment_lap. now rewrite !widen16_num.
  - unfold expand_segment_point. now rewrite widen16_num.
Qed.

(* ---- list surgery *)
Lemma set_nth_length {A} : forall n (x : A) l, List.length (set_nth n x l) = List.length l.
Proof. induction n as [|n IH]; intros x [|a l]; simpl; auto. Qed.
Lemma nth_set_nth_eq {A} : forall n (x d : A) l, (n < List.length l)%nat -> nth n (set_nth n x l) d = x.
Proof. induction n as [|n IH]; intros x d [|a l] H; simpl in *; try lia; [reflexivity|apply IH; lia]. Qed.
Lemma nth_set_nth_neq {A} : forall n k (x d : A) l, n <> k -> nth k (set_nth n x l) d = nth k l d.
Proof.
  induction n as [|n IH]; intros k x d [|a l] H; simpl; try reflexivity.
  - destruct k; [contradiction|reflexivity].
  - destruct k; [reflexivity|]. apply IH. lia.
Qed.

(* ---- find_slot vs positions *)
Lemma find_slot_from_spec : forall l mn k i multi, find_slot_from l mn k = Some (i, multi) ->
  (k <= i)%nat /\ exists name, nth_error l (i - k) = Some (name, multi, mn).
Proof.
  induction l as [|[[nm mu] held] l IH]; intros mn k i multi H; simpl in H; [discriminate|].
  destruct (N.eqb_spec held mn) as [->|NE].
  - inversion H; subst. split; [lia|]. rewrite Nat.sub_diag. exists nm. reflexivity.
  - destruct (IH _ _ _ _ H) as [Hle [name Hn]]. split; [lia|]. exists name.
    replace (i - k)%nat with (S (i - S k)) by lia. exact Hn.
Qed.

Lemma nodup_N_spec l : nodup_N l = true -> NoDup l.
Proof.
  induction l as [|x r IH]; simpl; intros H; [constructor|].
  apply andb_prop in H. destruct H as [H1 H2]. constructor; [|now apply IH].
  intros Hin. apply negb_true_iff in H1. assert (existsb (N.eqb x) r = true); [|congruence].
  apply existsb_exists. exists x. split; [assumption|apply N.eqb_refl].
Qed.

Lemma find_slot_from_complete : forall l mn k j name multi,
  NoDup (map (fun s : string * bool * N => snd s) l) ->
  nth_error l j = Some (name, multi, mn) -> find_slot_from l mn k = Some ((k + j)%nat, multi).
Proof.
  induction l as [|[[nm mu] held] l IH]; intros mn k j name multi Hnd Hn; [destruct j; discriminate|].
  simpl in Hnd. inversion Hnd as [|? ? Hnot Hnd']; subst. simpl.
  destruct j as [|j]; simpl in Hn.
  - inversion Hn; subst. rewrite N.eqb_refl. f_equal. f_equal. lia.
  - destruct (N.eqb_spec held mn) as [->|NE].
    + exfalso. apply Hnot. apply nth_error_In in Hn. change mn with (snd (name, multi, mn)). now apply in_map.
    + rewrite (IH mn (S k) j name multi Hnd' Hn). f_equal. f_equal. lia.
Qed.

Lemma slots_nodup ft : In ft valid_file_types -> NoDup (map (fun s : string * bool * N => snd s) (slots_of ft)).
Proof.
  intros Hft. pose proof (wf_ft ft Hft) as W. unfold ft_routing_ok in W.
  apply andb_prop in W. destruct W as [W _]. apply andb_prop in W. destruct W as [W _].
  apply andb_prop in W. destruct W as [_ W]. now apply nodup_N_spec.
Qed.

Lemma find_slot_iff ft mn i multi : In ft valid_file_types ->
  (find_slot ft mn = Some (i, multi) <-> exists name, nth_error (slots_of ft) i = Some (name, multi, mn)).
Proof.
  intros Hft. unfold find_slot. split.
  - intros H. apply find_slot_from_spec in H. destruct H as [_ [name Hn]]. rewrite Nat.sub_0_r in Hn. eauto.
  - intros [name Hn]. rewrite (find_slot_from_complete _ _ 0 i name multi (slots_nodup ft Hft) Hn). reflexivity.
Qed.

(* ---- File.add on an initialised file *)
Definition with_slots (f : file) (s : list (list msg)) : file :=
  mk_file (f_header f) (f_crc f) s (f_inited f) (f_unkm f) (f_unkf f).

Lemma file_add_inited ft f g m : In ft valid_file_types -> f_inited f = Some ft ->
  file_add f g m =
    match find_slot ft (m_num m) with
    | None => AddOk (with_slots f (f_slots f)) g
    | Some (i, multi) =>
        match stored ft g m with
        | None => AddPanic 30
        | Some (m', g') =>
            AddOk (with_slots f (set_nth i (if multi then nth i (f_slots f) [] ++ [m'] else [m']) (f_slots f))) g'
        end
    end.
Proof.
  intros Hft Hi. destruct f as [h c s i um uf]. simpl in Hi. subst i.
  unfold file_add, with_slots. simpl. rewrite (routes_char ft (m_num m) Hft).
  unfold expected_routes, stored. destruct (find_slot ft (m_num m)) as [[i multi]|]; simpl; [|reflexivity].
  destruct (Nat.ltb i NCOMMON); simpl.
  - destruct multi; reflexivity.
  - destruct (expands (m_num m)); simpl.
    + destruct (expand_components g m) as [[m' g']|]; [|reflexivity]. destruct multi; reflexivity.
    + destruct multi; reflexivity.
Qed.

Lemma stored_num ft g m m' g' : stored ft g m = Some (m', g') -> m_num m' = m_num m.
Proof.
  unfold stored. destruct (find_slot ft (m_num m)) as [[i multi]|].
  - destruct (Nat.ltb i NCOMMON); [intros H; inversion H; reflexivity|].
    destruct (expands (m_num m)); [apply expand_components_num|intros H; inversion H; reflexivity].
  - intros H; inversion H; reflexivity.
Qed.

Lemma last_cons2 {A} (a b : A) l d : last (a :: b :: l) d = last (b :: l) d.
Proof. reflexivity. Qed.

(* the contents of every slot after any sequence of messages *)
Theorem route_spec : forall ft, In ft valid_file_types -> forall ms f0 g0 f g,
  f_inited f0 = Some ft -> List.length (f_slots f0) = List.length (slots_of ft) ->
  adds f0 g0 ms = AddOk f g ->
  exists sm, stored_seq ft g0 ms = Some sm /\
    forall i name multi held, nth_error (slots_of ft) i = Some (name, multi, held) ->
      nth i (f_slots f) [] = slot_contents multi held (nth i (f_slots f0) []) sm.
Proof.
  intros ft Hft. induction ms as [|m r IH]; intros f0 g0 f g Hi Hlen Ha; simpl in Ha.
  - inversion Ha; subst. exists []. split; [reflexivity|]. intros i name multi held Hn.
    unfold slot_contents. simpl. destruct multi; [now rewrite app_nil_r|reflexivity].
  - rewrite (file_add_inited ft f0 g0 m Hft Hi) in Ha. simpl.
    destruct (find_slot ft (m_num m)) as [[j mj]|] eqn:Es.
    + destruct (stored ft g0 m) as [[m' g1]|] eqn:Est; [|discriminate].
      pose proof (stored_num _ _ _ _ _ Est) as Hnum.
      apply (proj1 (find_slot_iff ft (m_num m) j mj Hft)) in Es. destruct Es as [nmj Hj].
      assert (Hjl : (j < List.length (f_slots f0))%nat).
      { rewrite Hlen. apply nth_error_Some. rewrite Hj. discriminate. }
      specialize (IH _ _ _ _ (Hi : f_inited (with_slots f0 _) = Some ft) ltac:(simpl; rewrite set_nth_length; exact Hlen) Ha).
      destruct IH as (sm & Hsm & Hslots). rewrite Hsm. exists (m' :: sm). split; [reflexivity|].
      intros i name multi held Hn. rewrite (Hslots i name multi held Hn). simpl f_slots.
      destruct (Nat.eq_dec j i) as [->|Nji].
      * rewrite Hj in Hn. inversion Hn; subst. rewrite nth_set_nth_eq by assumption.
        unfold slot_contents. simpl filter. rewrite Hnum, N.eqb_refl.
        destruct multi.
        -- now rewrite <- app_assoc.
        -- destruct (filter _ sm); reflexivity.
      * rewrite nth_set_nth_neq by assumption.
        unfold slot_contents. simpl filter. rewrite Hnum.
        destruct (N.eqb_spec (m_num m) held) as [E|NE]; [|reflexivity].
        exfalso. subst held. apply Nji.
        pose proof (proj2 (find_slot_iff ft (m_num m) i multi Hft) (ex_intro _ name Hn)) as F1.
        pose proof (proj2 (find_slot_iff ft (m_num m) j mj Hft) (ex_intro _ nmj Hj)) as F2.
        rewrite F1 in F2. now inversion F2.
    + assert (Est : stored ft g0 m = Some (m, g0)) by (unfold stored; rewrite Es; reflexivity).
      rewrite Est.
      specialize (IH _ _ _ _ (Hi : f_inited (with_slots f0 _) = Some ft) ltac:(simpl; exact Hlen) Ha).
      destruct IH as (sm & Hsm & Hslots). rewrite Hsm. exists (m :: sm). split; [reflexivity|].
      intros i name multi held Hn. rewrite (Hslots i name multi held Hn). simpl f_slots.
      unfold slot_contents. simpl filter.
      destruct (N.eqb_spec (m_num m) held) as [E|NE]; [|reflexivity].
      exfalso. subst held.
      pose proof (proj2 (find_slot_iff ft (m_num m) i multi Hft) (ex_intro _ name Hn)) as F1. congruence.
Qed.

(* message types the file type does not hold are dropped without effect *)
Theorem dropped_no_effect : forall ft, In ft valid_file_types -> forall f g m,
  f_inited f = Some ft -> find_slot ft (m_num m) = None -> file_add f g m = AddOk f g.
Proof.
  intros ft Hft f g m Hi Hs. rewrite (file_add_inited ft f g m Hft Hi), Hs.
  destruct f; reflexivity.
Qed.

Corollary dropped_anywhere : forall ft, In ft valid_file_types -> forall ms1 ms2 f g m,
  f_inited f = Some ft -> find_slot ft (m_num m) = None ->
  (forall f' g', adds f g ms1 = AddOk f' g' -> f_inited f' = Some ft) ->
  adds f g (ms1 ++ m :: ms2) = adds f g (ms1 ++ ms2).
Proof.
  intros ft Hft. induction ms1 as [|a ms1 IH]; intros ms2 f g m Hi Hs Hinv; simpl.
  - now rewrite (dropped_no_effect ft Hft f g m Hi Hs).
  - destruct (file_add f g a) as [f1 g1|w] eqn:Ea; [|reflexivity].
    apply IH; try assumption.
    + rewrite (file_add_inited ft f g a Hft Hi) in Ea.
      destruct (find_slot ft (m_num a)) as [[i mu]|]; [destruct (stored ft g a) as [[? ?]|]; [|discriminate]|];
        inversion Ea; subst; exact Hi.
    + intros f' g' Hadd. apply (Hinv f' g'). simpl. now rewrite Ea.
Qed.

(* adding never panics on an initialised file of a valid type *)
Lemma expands_modelled g m : expands (m_num m) = true -> expand_components g m <> None.
Proof.
  unfold expands, expand_components. intros H.
  repeat match goal with |- context [if ?c then _ else _] => destruct c eqn:? end; try discriminate.
  exfalso.
  repeat match goal with H0 : (_ || _) = false |- _ => apply orb_false_elim in H0; destruct H0 end.
  repeat match goal with H0 : (_ || _) = true |- _ => apply orb_prop in H0; destruct H0 as [H0|H0] end; congruence.
Qed.

Theorem add_no_panic : forall ft, In ft valid_file_types -> forall f g m,
  f_inited f = Some ft -> exists f' g', file_add f g m = AddOk f' g' /\ f_inited f' = Some ft /\
                                       List.length (f_slots f') = List.length (f_slots f).
Proof.
  intros ft Hft f g m Hi. rewrite (file_add_inited ft f g m Hft Hi).
  destruct (find_slot ft (m_num m)) as [[i multi]|] eqn:Es.
  - assert (stored ft g m <> None) as Hst.
    { unfold stored. rewrite Es. destruct (Nat.ltb i NCOMMON); [discriminate|].
      destruct (expands (m_num m)) eqn:Ee; [now apply expands_modelled|discriminate]. }
    destruct (stored ft g m) as [[m' g']|]; [|contradiction].
    eexists. eexists. split; [reflexivity|]. split; [exact Hi|]. simpl. apply set_nth_length.
  - eexists. eexists. split; [reflexivity|]. split; [exact Hi|reflexivity].
Qed.

(* init: exactly the 17 file types, for every one of the 256 values *)
Lemma init_ok_true : init_ok = true.
Proof. vm_compute. reflexivity. Qed.
Lemma accessors_ok_true : accessors_ok = true.
Proof. vm_compute. reflexivity. Qed.

Theorem init_exact : forall f, file_type f < 256 ->
  (exists f', file_init f = Some f') <-> In (file_type f) valid_file_types.
Proof.
  intros f Hlt.
  pose proof (forall_below 256
     (fun ft => Bool.eqb (match ft_entry ft with Some (true, _, _) => true | _ => false end) (ft_valid ft))
     ltac:(vm_compute; reflexivity) (file_type f) Hlt) as H.
  apply eqb_prop in H. unfold file_init.
  assert (In (file_type f) valid_file_types <-> ft_valid (file_type f) = true) as Hv.
  { unfold ft_valid. rewrite existsb_exists. split.
    - intros Hin. exists (file_type f). split; [assumption|apply N.eqb_refl].
    - intros (x & Hin & Hx). apply N.eqb_eq in Hx. now subst. }
  rewrite Hv, <- H.
  destruct (ft_entry (file_type f)) as [[[ok cn] sl]|]; [destruct ok|]; split; intros H0; try discriminate; eauto;
    destruct H0 as [? H0]; discriminate.
Qed.

(* accessors: exactly the accessor returning the container type of the file's type succeeds *)
Theorem accessor_exact : forall f accessor ret ft cname slots,
  In (accessor, ret) accessors -> NoDup (map fst accessors) ->
  file_type f = ft -> ft_entry ft = Some (true, cname, slots) ->
  accessor_ok f accessor = String.eqb cname ret.
Proof.
  intros f accessor ret ft cname slots Hin Hnd Hft He. unfold accessor_ok. rewrite Hft, He.
  destruct (find (fun a => String.eqb (fst a) accessor) accessors) as [[a r]|] eqn:Ef.
  - apply find_some in Ef. destruct Ef as [Hin2 Hk]. simpl in Hk. apply String.eqb_eq in Hk. subst a.
    assert ((accessor, r) = (accessor, ret)) as E.
    { eapply (ProfileProofs.NoDup_map_inj fst); eauto. }
    inversion E; subst. reflexivity.
  - exfalso. apply (find_none _ _ Ef) in Hin. simpl in Hin. rewrite String.eqb_refl in Hin. discriminate.
Qed.
