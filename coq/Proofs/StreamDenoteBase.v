(* Stream-level decode = denote, layer 0: the abstract interpreter on sequenced programs
   (run_bind, consumes-a-prefix forms of the read primitives) and the small equalities
   between functions the model and the reference semantics define twice. *)
From Coq Require Import NArith ZArith List Bool Lia Arith.
From Coq Require Import ZifyN ZifyNat ZifyBool.
From FitV Require Import Proofs.Util Model.Values Model.Bytes Model.Base Model.Profile Model.Reflect Model.IO
  Model.Route Model.Decode Spec.FitSyntax Spec.RouteSpec Gen.Consts.
Import ListNotations.
Local Open Scope N_scope.
Ltac Zify.zify_post_hook ::= Z.div_mod_to_equations.

(* ------------------------------------------------------------ the abstract interpreter *)

Definition rbind {X S E A B} (r : result X S E A) (f : A -> X -> S -> result X S E B) : result X S E B :=
  match r with
  | ROk a x s => f a x s
  | RFail e x s => RFail e x s
  | RIOErr e x s => RIOErr e x s
  | RPanic w => RPanic w
  | ROutOfFuel => ROutOfFuel
  end.

Lemma run_bind {S E A B} : forall (p : prog S E A) (f : A -> prog S E B) x s,
  run_a (bind p f) x s = rbind (run_a p x s) (fun a x' s' => run_a (f a) x' s').
Proof.
  induction p as [a|e|w|k IH|n k IH|k IH|k IH|s' k IH]; intros f x s; cbn [bind run_a rbind]; try reflexivity.
  - destruct (a_take 1 x) as [[l x']|e]; [apply IH|reflexivity].
  - destruct (a_take n x) as [[l x']|e]; [apply IH|reflexivity].
  - apply IH.
  - apply IH.
  - apply IH.
Qed.

Lemma run_bind_ok {S E A B} (p : prog S E A) (f : A -> prog S E B) x s a x' s' :
  run_a p x s = ROk a x' s' -> run_a (bind p f) x s = run_a (f a) x' s'.
Proof. intros H. rewrite run_bind, H. reflexivity. Qed.

(* the input as a prefix still to be read and a tail *)
Definition ast_at (l tl : list N) (t : term) (n lim : nat) : ast := mk_ast (l ++ tl) t n lim.
Arguments ast_at : simpl never.

Lemma ast_at_nil tl t n lim : ast_at [] tl t n lim = mk_ast tl t n lim.
Proof. reflexivity. Qed.

Lemma ast_at_app l1 l2 tl t n lim : ast_at (l1 ++ l2) tl t n lim = ast_at l1 (l2 ++ tl) t n lim.
Proof. unfold ast_at. now rewrite app_assoc. Qed.

Lemma take_prefix l tl t n lim : (n + List.length l <= lim)%nat ->
  a_take (List.length l) (ast_at l tl t n lim) = inl (l, mk_ast tl t (n + List.length l) lim).
Proof.
  intros H. unfold a_take, ast_at. cbn [a_limit a_n a_rest a_term].
  replace (Nat.leb (List.length l) (Nat.min (lim - n) (List.length (l ++ tl)))) with true.
  - rewrite firstn_app, Nat.sub_diag, firstn_all. cbn [firstn]. rewrite app_nil_r.
    rewrite skipn_app, Nat.sub_diag, skipn_all. reflexivity.
  - symmetry. apply Nat.leb_le. rewrite app_length. lia.
Qed.

Lemma run_read_byte {A} (k : N -> P A) b l tl t n lim s : (n + 1 <= lim)%nat ->
  run_a (ReadByte k) (ast_at (b :: l) tl t n lim) s = run_a (k b) (ast_at l tl t (n + 1) lim) s.
Proof.
  intros H. cbn [run_a]. change (b :: l) with ([b] ++ l). rewrite ast_at_app.
  pose proof (take_prefix [b] (l ++ tl) t n lim ltac:(cbn; lia)) as H0. cbn [List.length] in H0.
  rewrite H0. reflexivity.
Qed.

Lemma run_read_full {A} (k : list N -> P A) m l1 l2 tl t n lim s : List.length l1 = m -> (n + m <= lim)%nat ->
  run_a (ReadFull m k) (ast_at (l1 ++ l2) tl t n lim) s = run_a (k l1) (ast_at l2 tl t (n + m) lim) s.
Proof.
  intros Hm H. subst m. cbn [run_a]. rewrite ast_at_app.
  rewrite (take_prefix l1 (l2 ++ tl) t n lim) by lia. reflexivity.
Qed.

Lemma run_more {A} (k : bool -> P A) l tl t n lim s :
  run_a (More k) (ast_at l tl t n lim) s = run_a (k (Nat.ltb n lim)) (ast_at l tl t n lim) s.
Proof. reflexivity. Qed.

Lemma run_get {A} (k : dstate -> P A) x s : run_a (Get k) x s = run_a (k s) x s.
Proof. reflexivity. Qed.
Lemma run_put {A} (k : P A) x s s' : run_a (Put s' k) x s = run_a k x s'.
Proof. reflexivity. Qed.

(* ------------------------------------------------------------ functions defined on both sides *)

Lemma set_at_set_nth {A} : forall n (x : A) l, set_at n x l = set_nth n x l.
Proof. reflexivity. Qed.

Lemma split_every_chunks : forall fuel k l, split_every k fuel l = chunks k fuel l.
Proof. induction fuel as [|f IH]; intros k l; cbn; [reflexivity|]. destruct l; [reflexivity|]. now rewrite IH. Qed.

Lemma bump1_count1 k l : bump1 k l = count1 k l.
Proof. unfold bump1. induction l as [|[a c] r IH]; cbn; [reflexivity|]. destruct (a =? k); [reflexivity|]. now rewrite IH. Qed.

Lemma bump2_count2 m k l : bump2 (m, k) l = count2 m k l.
Proof.
  unfold bump2. cbn [fst snd]. induction l as [|[[a b] c] r IH]; cbn; [reflexivity|].
  destruct ((a =? m) && (b =? k)); [reflexivity|]. now rewrite IH.
Qed.

Lemma first_zero_go : forall l i,
  (fix go (l : list N) (i : nat) := match l with [] => i | b :: r => if b =? 0 then i else go r (S i) end) l i =
  (i + first_zero l)%nat.
Proof.
  unfold first_zero. induction l as [|b r IH]; intros i; [cbn; lia|].
  cbn. destruct (b =? 0); [lia|]. rewrite IH, (IH 1%nat). lia.
Qed.

Lemma first_zero_cons b r : first_zero (b :: r) = if b =? 0 then O else S (first_zero r).
Proof.
  unfold first_zero at 1. cbn. destruct (b =? 0); [reflexivity|].
  rewrite first_zero_go. reflexivity.
Qed.

Lemma upto_nul_first_zero : forall l, upto_nul l = firstn (first_zero l) l.
Proof.
  induction l as [|b r IH]; [reflexivity|]. rewrite first_zero_cons. cbn [upto_nul].
  destruct (b =? 0); [reflexivity|]. cbn [firstn]. now rewrite IH.
Qed.

Lemma upto_nul_nil_iff l : upto_nul l = [] <-> first_zero l = O.
Proof.
  destruct l as [|b r]; [split; reflexivity|]. rewrite first_zero_cons. cbn [upto_nul].
  destruct (b =? 0); split; intros H; try reflexivity; discriminate.
Qed.

(* adding messages one after the other *)
Lemma adds_app : forall ms f g m,
  adds f g (ms ++ [m]) =
  match adds f g ms with AddOk f' g' => file_add f' g' m | AddPanic w => AddPanic w end.
Proof.
  induction ms as [|a r IH]; intros f g m; cbn.
  - destruct (file_add f g m); reflexivity.
  - destruct (file_add f g a) as [f' g'|w]; [apply IH|reflexivity].
Qed.
