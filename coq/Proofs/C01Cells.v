(* C01: the finite core of "the validator admits only what reflection can store".
   A cell is (profile field descriptor, definition base-type byte, definition size).
   The profile field descriptor is what the decoder looks at in a types.Fit code:
   kind, array flag, base type. [cell_ok] says: on this cell the validator does
   not panic, and if it accepts then storing ANY data bytes of that size, in
   either byte order, cannot panic. The generic lemmas below connect the
   contents-independent boolean checks with the model's parse functions; the
   evaluation over all cells is in C01CellsCheck*.v. *)
From Coq Require Import NArith ZArith List Bool Arith Lia.
From FitV Require Import Proofs.Util Model.Values Model.Bytes Model.Base Model.Profile Model.Reflect Model.Decode
  Spec.ProfileWf Proofs.ProfileProofs Gen.BaseTables.
Import ListNotations.
Local Open Scope N_scope.

(* ---- the validator as a function of what it looks at *)
Definition validate_cell (pd : option (bool * N)) (bt size : N) : vres :=
  match b_known bt with
  | None => VPanic 4
  | Some false => VErr
  | Some true =>
    if bt =? base_string then
      match pd with
      | None => VOk
      | Some (_, pb) => if pb =? bt then VOk else VErr
      end
    else
    match b_size bt with
    | None => VPanic 4
    | Some bs =>
      if size <? bs then VErr else
      match pd with
      | None => VOk
      | Some (arr, pb) =>
        if negb arr then
          match b_size pb with
          | None => VPanic 4
          | Some ps =>
            if ps <? size then VErr
            else if negb (bt =? pb) then
              match b_signed pb, b_signed bt with
              | Some sp, Some sd =>
                if negb (Bool.eqb sp sd) then VErr else
                match b_float bt with
                | None => VPanic 4
                | Some fl =>
                  let c2 := if fl then match b_float pb with
                                       | None => None
                                       | Some fp => Some (negb fp)
                                       end
                            else Some false in
                  match c2 with
                  | None => VPanic 4
                  | Some true => VErr
                  | Some false => if (pb =? base_string) && negb (bt =? base_string) then VErr else VOk
                  end
                end
              | _, _ => VPanic 4
              end
            else VOk
          end
        else
          if bs =? 0 then VPanic 8
          else if negb (size mod bs =? 0) then VErr
          else if negb (bt =? pb) then VErr
          else VOk
      end
    end
  end.

Definition desc_of (p : pfield) : bool * N := (fit_array (pf_t p), fit_base (pf_t p)).

Lemma validate_cell_eq gmn fd :
  validate_field_def gmn fd =
  validate_cell (option_map desc_of (if known_msg gmn then get_field gmn (fd_num fd) else None)) (fd_btype fd) (fd_size fd).
Proof.
  unfold validate_field_def, validate_cell.
  destruct (if known_msg gmn then get_field gmn (fd_num fd) else None) as [p|]; reflexivity.
Qed.

(* ---- contents-independent safety of the three store paths *)
Definition isTU (t : gotype) : bool := match t with TU _ => true | _ => false end.
Definition isTI (t : gotype) : bool := match t with TI _ => true | _ => false end.
Definition isTF (t : gotype) : bool := match t with TF _ => true | _ => false end.
Definition isTStr (t : gotype) : bool := match t with TStr => true | _ => false end.

Definition is_fpanic (r : fres) : bool := match r with FPanic _ => true | _ => false end.

(* mirrors parse_fit_field: which (definition base type, size, Go type) cannot panic *)
Definition pff_safe (bt : N) (dsize : nat) (ty : gotype) : bool :=
  if is_u8like bt then isTU ty
  else if bt =? base_sint8 then isTI ty
  else if bt =? base_sint16 then negb (Nat.ltb dsize 2) && isTI ty
  else if (bt =? base_uint16) || (bt =? base_uint16z) then negb (Nat.ltb dsize 2) && isTU ty
  else if bt =? base_sint32 then negb (Nat.ltb dsize 4) && isTI ty
  else if (bt =? base_uint32) || (bt =? base_uint32z) then negb (Nat.ltb dsize 4) && isTU ty
  else if bt =? base_float32 then negb (Nat.ltb dsize 4) && isTF ty
  else if bt =? base_float64 then negb (Nat.ltb dsize 8) && isTF ty
  else if bt =? base_string then isTStr ty
  else true.

Lemma pff_safe_sound be fd buf ty :
  pff_safe (fd_btype fd) (List.length buf) ty = true -> is_fpanic (parse_fit_field be fd buf ty) = false.
Proof.
  unfold pff_safe, parse_fit_field.
  repeat match goal with |- context [if ?c then _ else _] => destruct c end;
    intros H; try (apply andb_prop in H; destruct H as [H0 H]; try discriminate H0);
    destruct ty; try discriminate H; reflexivity.
Qed.

(* mirrors parse_fit_field_array (conservatively: element type must match even for empty slices) *)
Definition pffa_safe (bt : N) (dsize : nat) (ty : gotype) : bool :=
  if bt =? base_byte then (match ty with TSlice (TU 8) => true | _ => false end) else
  match ty with
  | TSlice e =>
    match b_size bt with
    | None => false
    | Some 0 => false
    | Some bs =>
      Nat.eqb (Nat.modulo dsize (N.to_nat bs)) 0 &&
      (if (bt =? base_uint8) || (bt =? base_uint8z) || (bt =? base_enum) then isTU e
       else if bt =? base_sint8 then isTI e
       else if bt =? base_sint16 then isTI e
       else if (bt =? base_uint16) || (bt =? base_uint16z) then isTU e
       else if bt =? base_sint32 then isTI e
       else if (bt =? base_uint32) || (bt =? base_uint32z) then isTU e
       else if bt =? base_float32 then isTF e
       else if bt =? base_float64 then isTF e
       else if bt =? base_string then isTStr e
       else true)
    end
  | _ => false
  end.

Lemma pffa_safe_sound be fd buf ty :
  pffa_safe (fd_btype fd) (List.length buf) ty = true -> is_fpanic (parse_fit_field_array be fd buf ty) = false.
Proof.
  unfold pffa_safe, parse_fit_field_array.
  destruct (fd_btype fd =? base_byte).
  - destruct ty as [| | | | | | |e|]; try discriminate. destruct e as [b| | | | | | | |]; try discriminate.
    destruct (N.eqb_spec b 8) as [->|NE]; [reflexivity|].
    intros H. exfalso. destruct b as [|p]; [discriminate|].
    do 4 (destruct p; try discriminate). congruence.
  - destruct ty as [| | | | | | |e|]; try discriminate.
    destruct (b_size (fd_btype fd)) as [bs|]; [|discriminate].
    destruct bs as [|p]; [discriminate|].
    intros H. apply andb_prop in H. destruct H as [Hm H]. rewrite Hm. cbn [negb].
    repeat match goal with |- context [if ?c then _ else _] => destruct c end;
      destruct e; try discriminate H; reflexivity.
Qed.

(* ---- the Go type of the struct field, from the descriptor (Spec/ProfileWf gotype_of_fit) *)
Definition gotype_of_desc (k : N) (arr : bool) (pb : N) : gotype :=
  let elem :=
    if k =? kind_native then gotype_of_base pb
    else if (k =? kind_timeutc) || (k =? kind_timelocal) then TTime
    else if k =? kind_lat then TLat
    else if k =? kind_lng then TLng
    else TOther in
  if arr then TSlice elem else elem.

Lemma gotype_of_fit_desc t : gotype_of_fit t = gotype_of_desc (fit_kind t) (fit_array t) (fit_base t).
Proof. reflexivity. Qed.

(* what the profile checker (C15) allows as a descriptor; the base type of a
   types.Fit code is always a canonical base-type byte (an image of decompress) *)
Definition desc_valid (k : N) (arr : bool) (pb : N) : bool :=
  (k <=? 4) && base_storable pb && (decompress pb =? pb) &&
  (if k =? kind_native then true
   else negb arr && (if (k =? kind_timeutc) || (k =? kind_timelocal) then pb =? base_uint32 else pb =? base_sint32)).

(* storing through the descriptor's path is safe whatever the data bytes are *)
Definition store_safe (k : N) (arr : bool) (pb bt size : N) : bool :=
  let ty := gotype_of_desc k arr pb in
  (if negb (pb =? base_string) && negb arr then match b_size pb with Some _ => true | None => false end else true) &&
  (if k =? kind_native then
     if negb arr then pff_safe bt (N.to_nat size) ty else pffa_safe bt (N.to_nat size) ty
   else
     match b_signed bt with
     | None => false
     | Some _ =>
       if (k =? kind_timeutc) || (k =? kind_timelocal) then (match ty with TTime => true | _ => false end)
       else if k =? kind_lat then (match ty with TLat => true | _ => false end)
       else if k =? kind_lng then (match ty with TLng => true | _ => false end)
       else false
     end).

Definition cell_ok (k : N) (arr : bool) (pb bt size : N) : bool :=
  match validate_cell (Some (arr, pb)) bt size with
  | VPanic _ => false
  | VErr => true
  | VOk => store_safe k arr pb bt size
  end.

(* all sizes for one (descriptor, definition base type) *)
Definition row_ok (k : N) (arr : bool) (pb bt : N) : bool := forallb (cell_ok k arr pb bt) (range 256 0).

(* all cells of one descriptor; an invalid descriptor has nothing to check *)
Definition desc_ok (k : N) (arr : bool) (pb : N) : bool :=
  if desc_valid k arr pb then forallb (row_ok k arr pb) (range 256 0) else true.

(* all descriptors of one (kind, array flag) *)
Definition plane_ok (k : N) (arr : bool) : bool := forallb (desc_ok k arr) (range 256 0).

(* fields the profile does not list (and every field of an unknown message) *)
Definition nocell_ok (bt size : N) : bool :=
  match validate_cell None bt size with VPanic _ => false | _ => true end.
Definition nodesc_ok_on (l : list N) : bool := forallb (fun bt => forallb (nocell_ok bt) l) l.
Lemma nodesc_on_cell l : nodesc_ok_on l = true -> forall bt sz, In bt l -> In sz l -> nocell_ok bt sz = true.
Proof.
  intros H bt sz Hbt Hsz. unfold nodesc_ok_on in H. rewrite forallb_forall in H.
  specialize (H bt Hbt). rewrite forallb_forall in H. exact (H sz Hsz).
Qed.

Lemma in_range256 x : x < 256 -> In x (range 256 0).
Proof. intros H. apply range_in. cbn. lia. Qed.

Lemma plane_cell k arr pb bt size : plane_ok k arr = true -> desc_valid k arr pb = true ->
  pb < 256 -> bt < 256 -> size < 256 -> cell_ok k arr pb bt size = true.
Proof.
  intros Hp Hv Hpb Hbt Hsz. unfold plane_ok in Hp. rewrite forallb_forall in Hp.
  specialize (Hp pb (in_range256 _ Hpb)). unfold desc_ok in Hp. rewrite Hv in Hp.
  rewrite forallb_forall in Hp. specialize (Hp bt (in_range256 _ Hbt)). unfold row_ok in Hp.
  rewrite forallb_forall in Hp. exact (Hp size (in_range256 _ Hsz)).
Qed.

(* the descriptor of every profile entry is valid, and its base type is a byte *)
Lemma base_storable_lt pb : base_storable pb = true -> pb < 256.
Proof.
  unfold base_storable, b_known, tbl. intros H.
  destruct (N.lt_ge_cases pb 256) as [L|G]; [assumption|exfalso].
  rewrite nth_overflow in H; [discriminate|].
  assert (List.length base_known = 256%nat) as -> by (vm_compute; reflexivity). lia.
Qed.

Lemma decompress_low b : decompress b = decompress (N.land b 0x1F).
Proof. unfold decompress. cbv zeta. now rewrite <- N.land_assoc, N.land_diag. Qed.

Lemma decompress_idem b : decompress (decompress b) = decompress b.
Proof.
  rewrite (decompress_low b).
  assert (Hlt : N.land b 0x1F < 32) by (apply (land_lt_pow2 b 0x1F 5); reflexivity).
  pose proof (forall_below 32 (fun c => decompress (decompress c) =? decompress c) ltac:(vm_compute; reflexivity) _ Hlt) as H.
  now apply N.eqb_eq.
Qed.

Lemma entry_desc_valid gmn fdn pf : get_field gmn fdn = Some pf ->
  desc_valid (fit_kind (pf_t pf)) (fit_array (pf_t pf)) (fit_base (pf_t pf)) = true /\ fit_base (pf_t pf) < 256.
Proof.
  intros H. destruct (entry_sound _ _ _ H) as (m & _ & F).
  pose proof (ef_kind _ _ _ _ F) as Hk. pose proof (ef_storable _ _ _ _ F) as Hs.
  split; [|now apply base_storable_lt].
  unfold desc_valid. rewrite Hs. replace (fit_kind (pf_t pf) <=? 4) with true by (symmetry; now apply N.leb_le).
  replace (decompress (fit_base (pf_t pf)) =? fit_base (pf_t pf)) with true
    by (symmetry; apply N.eqb_eq; unfold fit_base; apply decompress_idem).
  cbn [andb].
  destruct (N.eqb_spec (fit_kind (pf_t pf)) kind_native) as [E|NE]; [reflexivity|].
  rewrite (ef_scalar_kinds _ _ _ _ F NE). cbn [negb andb].
  destruct ((fit_kind (pf_t pf) =? kind_timeutc) || (fit_kind (pf_t pf) =? kind_timelocal)) eqn:Et.
  - apply N.eqb_eq. apply (ef_time_base _ _ _ _ F).
    apply orb_prop in Et. destruct Et as [Et|Et]; apply N.eqb_eq in Et; auto.
  - apply orb_false_elim in Et. destruct Et as [E1 E2]. apply N.eqb_neq in E1, E2.
    apply N.eqb_eq. apply (ef_coord_base _ _ _ _ F).
    assert (Hc : fit_kind (pf_t pf) = 3 \/ fit_kind (pf_t pf) = 4).
    { unfold kind_native, kind_timeutc, kind_timelocal in *. lia. }
    exact Hc.
Qed.
