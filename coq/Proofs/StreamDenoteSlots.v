(* Stream-level corollaries of the reference semantics (Spec/FitSyntax.v), proved
   about denote_from / denote_fields only:
   - C13: local message type slots are independent and the latest definition wins;
   - C02: rewriting the bytes of one field disturbs no other struct field. *)
From Coq Require Import NArith ZArith List Bool Lia Arith.
From Coq Require Import ZifyN ZifyNat ZifyBool.
From FitV Require Import Model.Values Model.Bytes Model.Base Model.Profile Spec.FitSyntax Gen.Consts
  Proofs.ProfileProofs Proofs.StreamDenoteData.
Import ListNotations.
Local Open Scope N_scope.

(* ================================================================== part A: C13 *)

(* a data record addressed to local type l *)
Definition uses_local (l : N) (r : record) : bool :=
  match r with
  | RDef _ _ _ _ _ _ => false
  | RData l' _ _ => l' =? l
  | RComp l' _ _ _ => l' =? l
  end.

(* a definition record written for local type l *)
Definition defines_local (l : N) (r : record) : bool :=
  match r with
  | RDef l' _ _ _ _ _ => l' =? l
  | RData _ _ _ => false
  | RComp _ _ _ _ => false
  end.

Definition env_agree_off (l : N) (e1 e2 : list (N * sdef)) : Prop :=
  forall l', l' <> l -> lookup_def e1 l' = lookup_def e2 l'.

Definition same_off (l : N) (a b : sstate) : Prop :=
  env_agree_off l (ss_env a) (ss_env b) /\ ss_ref a = ss_ref b /\ ss_msgs a = ss_msgs b /\
  ss_unkm a = ss_unkm b /\ ss_unkf a = ss_unkf b.

(* the developer payload size denote_record stores in a definition *)
Definition devsize_of (devflag : bool) (devs : list (N * N * N)) : nat :=
  fold_right (fun d acc => let '(_, sz, _) := d in (N.to_nat sz + acc)%nat) 0%nat (if devflag then devs else []).

Lemma lookup_def_cons l d e l' :
  lookup_def ((l, d) :: e) l' = if l =? l' then Some d else lookup_def e l'.
Proof. unfold lookup_def. cbn [find fst]. destruct (l =? l'); reflexivity. Qed.

Lemma same_off_refl l a : same_off l a a.
Proof. unfold same_off, env_agree_off. repeat split. Qed.

(* a data record reads only its own slot of the environment, and leaves the environment alone *)
Lemma denote_data_frame a b l off pay dev :
  lookup_def (ss_env a) l = lookup_def (ss_env b) l -> ss_ref a = ss_ref b -> ss_msgs a = ss_msgs b ->
  ss_unkm a = ss_unkm b -> ss_unkf a = ss_unkf b ->
  match denote_data a l off pay dev, denote_data b l off pay dev with
  | Some a', Some b' =>
      ss_env a' = ss_env a /\ ss_env b' = ss_env b /\ ss_ref a' = ss_ref b' /\ ss_msgs a' = ss_msgs b' /\
      ss_unkm a' = ss_unkm b' /\ ss_unkf a' = ss_unkf b'
  | None, None => True
  | _, _ => False
  end.
Proof.
  destruct a as [ea ra ma ua fa], b as [eb rb mb ub fb]. cbn [ss_env ss_ref ss_msgs ss_unkm ss_unkf].
  intros He Hr Hm Hu Hf. subst ra ma ua fa. unfold denote_data. cbn [ss_env ss_ref ss_msgs ss_unkm ss_unkf]. rewrite He.
  destruct (lookup_def eb l) as [d|]; [|exact I].
  destruct (negb (Nat.eqb (List.length pay) (payload_size d)) || negb (Nat.eqb (List.length dev) (sd_devsize d))); [exact I|].
  destruct (known_msg (sd_gmn d)).
  - destruct (mesg_all_invalid (sd_gmn d)) as [m0|]; [|exact I].
    destruct off as [o|]; [destruct rb as [r0|]|].
    + destruct (denote_fields (sd_be d) (sd_gmn d) (sd_fds d) pay _ _ []) as [[m2 ref2] unl].
      cbn [ss_env ss_ref ss_msgs ss_unkm ss_unkf]. repeat split.
    + destruct (denote_fields (sd_be d) (sd_gmn d) (sd_fds d) pay _ _ []) as [[m2 ref2] unl].
      cbn [ss_env ss_ref ss_msgs ss_unkm ss_unkf]. repeat split.
    + destruct (denote_fields (sd_be d) (sd_gmn d) (sd_fds d) pay _ _ []) as [[m2 ref2] unl].
      cbn [ss_env ss_ref ss_msgs ss_unkm ss_unkf]. repeat split.
  - cbn [ss_env ss_ref ss_msgs ss_unkm ss_unkf]. repeat split.
Qed.

Lemma denote_data_env s l off pay dev s' : denote_data s l off pay dev = Some s' -> ss_env s' = ss_env s.
Proof.
  intros H. pose proof (denote_data_frame s s l off pay dev eq_refl eq_refl eq_refl eq_refl eq_refl) as F.
  rewrite H in F. tauto.
Qed.

Lemma denote_data_same_off l a b l' off pay dev a' :
  same_off l a b -> l' <> l -> denote_data a l' off pay dev = Some a' ->
  exists b', denote_data b l' off pay dev = Some b' /\ same_off l a' b'.
Proof.
  intros (He & Hr & Hm & Hu & Hf) Hne Ha.
  pose proof (denote_data_frame a b l' off pay dev (He l' Hne) Hr Hm Hu Hf) as F. rewrite Ha in F.
  destruct (denote_data b l' off pay dev) as [b'|]; [|contradiction].
  exists b'. split; [reflexivity|]. destruct F as (E1 & E2 & F). split; [|exact F].
  rewrite E1, E2. exact He.
Qed.

(* A1 *)
Theorem slots_independent_record : forall l r a b a',
  same_off l a b -> uses_local l r = false -> denote_record a r = Some a' ->
  exists b', denote_record b r = Some b' /\ same_off l a' b'.
Proof.
  intros l r a b a' Hs Hl Ha. destruct r as [l0 be gmn fds dvf dvs | l0 pay dev | l0 off pay dev].
  - destruct Hs as (He & Hr & Hm & Hu & Hf). cbn [denote_record] in *.
    destruct ((16 <=? l0) || (gmn =? c_MesgNumInvalid) || negb (forallb (compat gmn) fds)); [discriminate|].
    inversion Ha; subst a'; clear Ha. eexists. split; [reflexivity|].
    split; [|cbn [ss_ref ss_msgs ss_unkm ss_unkf]; auto].
    intros l' Hne. cbn [ss_env]. rewrite !lookup_def_cons. destruct (l0 =? l'); [reflexivity|]. apply He; assumption.
  - cbn [uses_local] in Hl. apply N.eqb_neq in Hl. cbn [denote_record] in *.
    eapply denote_data_same_off; eassumption.
  - cbn [uses_local] in Hl. apply N.eqb_neq in Hl. cbn [denote_record] in *.
    destruct (4 <=? l0); [discriminate|]. eapply denote_data_same_off; eassumption.
Qed.

(* A2 *)
Theorem slots_independent_stream : forall l rs a b a',
  same_off l a b -> forallb (fun r => negb (uses_local l r)) rs = true -> denote_from a rs = Some a' ->
  exists b', denote_from b rs = Some b' /\ same_off l a' b'.
Proof.
  intros l rs. induction rs as [|r rs IH]; intros a b a' Hs Hall Ha.
  - cbn [denote_from] in *. inversion Ha; subst a'. exists b. split; [reflexivity|assumption].
  - cbn [forallb] in Hall. apply andb_prop in Hall. destruct Hall as [Hr Hall]. apply negb_true_iff in Hr.
    cbn [denote_from] in *. destruct (denote_record a r) as [a1|] eqn:Ea; [|discriminate].
    destruct (slots_independent_record l r a b a1 Hs Hr Ea) as (b1 & Eb & Hs1). rewrite Eb.
    exact (IH a1 b1 a' Hs1 Hall Ha).
Qed.

Lemma denote_from_app s xs ys :
  denote_from s (xs ++ ys) = match denote_from s xs with Some s' => denote_from s' ys | None => None end.
Proof.
  revert s. induction xs as [|x xs IH]; intros s; cbn [app denote_from]; [reflexivity|].
  destruct (denote_record s x); [apply IH|reflexivity].
Qed.

(* when a definition record is accepted, and what it does *)
Lemma denote_def_some s l be gmn fds devflag devs s' :
  denote_record s (RDef l be gmn fds devflag devs) = Some s' ->
  s' = mk_sstate ((l, mk_sdef be gmn fds (devsize_of devflag devs)) :: ss_env s) (ss_ref s) (ss_msgs s) (ss_unkm s) (ss_unkf s).
Proof.
  cbn [denote_record].
  destruct ((16 <=? l) || (gmn =? c_MesgNumInvalid) || negb (forallb (compat gmn) fds)); [discriminate|].
  intros H. inversion H. reflexivity.
Qed.

Lemma def_accepted_iff s l be gmn fds devflag devs :
  denote_record s (RDef l be gmn fds devflag devs) <> None <->
  (l < 16 /\ gmn <> c_MesgNumInvalid /\ forallb (compat gmn) fds = true).
Proof.
  cbn [denote_record].
  destruct (N.leb_spec 16 l) as [Hl|Hl]; destruct (N.eqb_spec gmn c_MesgNumInvalid) as [Hg|Hg];
    destruct (forallb (compat gmn) fds); cbn [orb negb]; split; intros H;
    try (exfalso; apply H; reflexivity); try discriminate;
    try (destruct H as (H1 & H2 & H3); try discriminate; try contradiction; lia).
  repeat split; assumption.
Qed.

(* A3: redefining local type l never changes how records of other local types decode *)
Theorem redefinition_invisible : forall l rs0 be1 g1 f1 v1 x1 be2 g2 f2 v2 x2 rs s s1,
  forallb (fun r => negb (uses_local l r)) rs = true ->
  denote_from s (rs0 ++ RDef l be1 g1 f1 v1 x1 :: rs) = Some s1 ->
  (forall sm, denote_from s rs0 = Some sm -> denote_record sm (RDef l be2 g2 f2 v2 x2) <> None) ->
  exists s2, denote_from s (rs0 ++ RDef l be2 g2 f2 v2 x2 :: rs) = Some s2 /\
    ss_msgs s1 = ss_msgs s2 /\ ss_ref s1 = ss_ref s2 /\ ss_unkm s1 = ss_unkm s2 /\ ss_unkf s1 = ss_unkf s2 /\
    env_agree_off l (ss_env s1) (ss_env s2).
Proof.
  intros l rs0 be1 g1 f1 v1 x1 be2 g2 f2 v2 x2 rs s s1 Hall H1 Hacc.
  rewrite denote_from_app in *. destruct (denote_from s rs0) as [sm|]; [|discriminate].
  specialize (Hacc sm eq_refl). cbn [denote_from] in *.
  destruct (denote_record sm (RDef l be1 g1 f1 v1 x1)) as [t1|] eqn:E1; [|discriminate].
  destruct (denote_record sm (RDef l be2 g2 f2 v2 x2)) as [t2|] eqn:E2; [|contradiction].
  apply denote_def_some in E1. apply denote_def_some in E2.
  assert (Hs : same_off l t1 t2).
  { subst t1 t2. split; [|cbn [ss_ref ss_msgs ss_unkm ss_unkf]; auto].
    intros l' Hne. cbn [ss_env]. rewrite !lookup_def_cons.
    destruct (N.eqb_spec l l') as [E|E]; [congruence|reflexivity]. }
  destruct (slots_independent_stream l rs t1 t2 s1 Hs Hall H1) as (s2 & E & (He & Hr & Hm & Hu & Hf)).
  exists s2. repeat split; assumption.
Qed.

(* the same, with the acceptance condition of the second definition spelled out *)
Corollary redefinition_invisible_wf : forall l rs0 be1 g1 f1 v1 x1 be2 g2 f2 v2 x2 rs s s1,
  forallb (fun r => negb (uses_local l r)) rs = true ->
  denote_from s (rs0 ++ RDef l be1 g1 f1 v1 x1 :: rs) = Some s1 ->
  g2 <> c_MesgNumInvalid -> forallb (compat g2) f2 = true ->
  exists s2, denote_from s (rs0 ++ RDef l be2 g2 f2 v2 x2 :: rs) = Some s2 /\
    ss_msgs s1 = ss_msgs s2 /\ ss_ref s1 = ss_ref s2 /\ ss_unkm s1 = ss_unkm s2 /\ ss_unkf s1 = ss_unkf s2 /\
    env_agree_off l (ss_env s1) (ss_env s2).
Proof.
  intros l rs0 be1 g1 f1 v1 x1 be2 g2 f2 v2 x2 rs s s1 Hall H1 Hg Hc.
  apply (redefinition_invisible l rs0 be1 g1 f1 v1 x1 be2 g2 f2 v2 x2 rs s s1 Hall H1).
  intros sm Hsm. apply def_accepted_iff. repeat split; try assumption.
  rewrite denote_from_app, Hsm in H1. cbn [denote_from] in H1.
  destruct (denote_record sm (RDef l be1 g1 f1 v1 x1)) eqn:E1; [|discriminate].
  assert (Hn : denote_record sm (RDef l be1 g1 f1 v1 x1) <> None) by (rewrite E1; discriminate).
  apply def_accepted_iff in Hn. tauto.
Qed.

(* A4: the latest definition wins *)
Theorem latest_def_wins_stream : forall s l be gmn fds devflag devs s',
  denote_record s (RDef l be gmn fds devflag devs) = Some s' ->
  lookup_def (ss_env s') l = Some (mk_sdef be gmn fds (devsize_of devflag devs)).
Proof.
  intros s l be gmn fds devflag devs s' H. apply denote_def_some in H. subst s'.
  cbn [ss_env]. rewrite lookup_def_cons, N.eqb_refl. reflexivity.
Qed.

Lemma slot_preserved_record l s r s' :
  defines_local l r = false -> denote_record s r = Some s' ->
  lookup_def (ss_env s') l = lookup_def (ss_env s) l.
Proof.
  intros Hd H. destruct r as [l0 be gmn fds dvf dvs | l0 pay dev | l0 off pay dev].
  - cbn [defines_local] in Hd. apply denote_def_some in H. subst s'. cbn [ss_env].
    rewrite lookup_def_cons, Hd. reflexivity.
  - cbn [denote_record] in H. now rewrite (denote_data_env _ _ _ _ _ _ H).
  - cbn [denote_record] in H. destruct (4 <=? l0); [discriminate|]. now rewrite (denote_data_env _ _ _ _ _ _ H).
Qed.

Theorem slot_preserved_stream : forall l rs sa sb,
  denote_from sa rs = Some sb -> forallb (fun r => negb (defines_local l r)) rs = true ->
  lookup_def (ss_env sb) l = lookup_def (ss_env sa) l.
Proof.
  intros l rs. induction rs as [|r rs IH]; intros sa sb H Hall.
  - cbn [denote_from] in H. inversion H. reflexivity.
  - cbn [forallb] in Hall. apply andb_prop in Hall. destruct Hall as [Hr Hall]. apply negb_true_iff in Hr.
    cbn [denote_from] in H. destruct (denote_record sa r) as [s1|] eqn:E; [|discriminate].
    rewrite (IH s1 sb H Hall). exact (slot_preserved_record l sa r s1 Hr E).
Qed.

(* data records never change the environment at all *)
Theorem data_records_keep_env : forall rs sa sb,
  denote_from sa rs = Some sb ->
  forallb (fun r => match r with RDef _ _ _ _ _ _ => false | _ => true end) rs = true ->
  ss_env sb = ss_env sa.
Proof.
  induction rs as [|r rs IH]; intros sa sb H Hall.
  - cbn [denote_from] in H. inversion H. reflexivity.
  - cbn [forallb] in Hall. apply andb_prop in Hall. destruct Hall as [Hr Hall].
    cbn [denote_from] in H. destruct (denote_record sa r) as [s1|] eqn:E; [|discriminate].
    rewrite (IH s1 sb H Hall). destruct r as [l0 be gmn fds dvf dvs | l0 pay dev | l0 off pay dev]; [discriminate| |].
    + cbn [denote_record] in E. exact (denote_data_env _ _ _ _ _ _ E).
    + cbn [denote_record] in E. destruct (4 <=? l0); [discriminate|]. exact (denote_data_env _ _ _ _ _ _ E).
Qed.

(* together: after a definition for l and any records that do not redefine l, slot l still holds that definition *)
Theorem latest_def_wins_after : forall s l be gmn fds devflag devs s' rs sb,
  denote_record s (RDef l be gmn fds devflag devs) = Some s' ->
  forallb (fun r => negb (defines_local l r)) rs = true ->
  denote_from s' rs = Some sb ->
  lookup_def (ss_env sb) l = Some (mk_sdef be gmn fds (devsize_of devflag devs)).
Proof.
  intros s l be gmn fds devflag devs s' rs sb Hd Hall H.
  rewrite (slot_preserved_stream l rs s' sb H Hall). eapply latest_def_wins_stream; eassumption.
Qed.

(* ... so a data record of local type l is decoded exactly as if that definition were the only one *)
Theorem data_decoded_with_latest_def : forall s l be gmn fds devflag devs s' rs sb off pay dev,
  denote_record s (RDef l be gmn fds devflag devs) = Some s' ->
  forallb (fun r => negb (defines_local l r)) rs = true ->
  denote_from s' rs = Some sb ->
  match denote_data sb l off pay dev,
        denote_data (mk_sstate [(l, mk_sdef be gmn fds (devsize_of devflag devs))]
                       (ss_ref sb) (ss_msgs sb) (ss_unkm sb) (ss_unkf sb)) l off pay dev with
  | Some x, Some y =>
      ss_env x = ss_env sb /\ ss_ref x = ss_ref y /\ ss_msgs x = ss_msgs y /\ ss_unkm x = ss_unkm y /\ ss_unkf x = ss_unkf y
  | None, None => True
  | _, _ => False
  end.
Proof.
  intros s l be gmn fds devflag devs s' rs sb off pay dev Hd Hall H.
  pose proof (latest_def_wins_after s l be gmn fds devflag devs s' rs sb Hd Hall H) as Hl.
  pose proof (denote_data_frame sb
                (mk_sstate [(l, mk_sdef be gmn fds (devsize_of devflag devs))] (ss_ref sb) (ss_msgs sb) (ss_unkm sb) (ss_unkf sb))
                l off pay dev) as F.
  cbn [ss_env ss_ref ss_msgs ss_unkm ss_unkf] in F. rewrite lookup_def_cons, N.eqb_refl in F.
  specialize (F Hl eq_refl eq_refl eq_refl eq_refl).
  destruct (denote_data sb l off pay dev) as [x|]; destruct (denote_data _ l off pay dev) as [y|]; try exact F.
  tauto.
Qed.

(* A5 *)
Theorem undefined_local_rejected : forall s l pay dev,
  lookup_def (ss_env s) l = None -> denote_record s (RData l pay dev) = None.
Proof. intros s l pay dev H. cbn [denote_record]. unfold denote_data. rewrite H. reflexivity. Qed.

Theorem undefined_local_rejected_comp : forall s l off pay dev,
  lookup_def (ss_env s) l = None -> denote_record s (RComp l off pay dev) = None.
Proof.
  intros s l off pay dev H. cbn [denote_record]. unfold denote_data. rewrite H. destruct (4 <=? l); reflexivity.
Qed.

(* ================================================================== part B: C02 neighbours *)

Lemma set_at_length {A} (x : A) : forall l i, List.length (set_at i x l) = List.length l.
Proof.
  induction l as [|a l IH]; intros i; [destruct i; reflexivity|]. destruct i as [|i]; cbn [set_at List.length]; [reflexivity|].
  now rewrite IH.
Qed.

Lemma nth_error_set_at {A} (x : A) : forall l k j,
  nth_error (set_at k x l) j =
  if Nat.eqb j k then match nth_error l j with Some _ => Some x | None => None end else nth_error l j.
Proof.
  induction l as [|a l IH]; intros k j.
  - destruct k; cbn [set_at]; destruct j; cbn [nth_error]; destruct (Nat.eqb _ _); reflexivity.
  - destruct k as [|k], j as [|j]; cbn [set_at nth_error Nat.eqb]; try reflexivity. apply IH.
Qed.

Lemma nth_error_set_at_ne {A} (x : A) l k j : j <> k -> nth_error (set_at k x l) j = nth_error l j.
Proof. intros H. rewrite nth_error_set_at. apply Nat.eqb_neq in H. now rewrite H. Qed.

(* two messages that differ at most at struct index i *)
Definition agree_off (i : nat) (m m' : msg) : Prop :=
  m_num m = m_num m' /\ forall j, j <> i -> nth_error (m_fields m) j = nth_error (m_fields m') j.

Lemma agree_off_refl i m : agree_off i m m.
Proof. split; reflexivity. Qed.

Lemma agree_off_sym i m m' : agree_off i m m' -> agree_off i m' m.
Proof. intros [H1 H2]. split; [now symmetry|]. intros j Hj. symmetry. now apply H2. Qed.

Lemma agree_off_trans i m1 m2 m3 : agree_off i m1 m2 -> agree_off i m2 m3 -> agree_off i m1 m3.
Proof.
  intros [H1 H2] [H3 H4]. split; [congruence|]. intros j Hj. rewrite (H2 j Hj). now apply H4.
Qed.

(* the same store on both sides keeps the agreement *)
Lemma agree_set_same i k x m m' :
  agree_off i m m' ->
  agree_off i (mk_msg (m_num m) (set_at k x (m_fields m))) (mk_msg (m_num m') (set_at k x (m_fields m'))).
Proof.
  intros [H1 H2]. split; [exact H1|]. intros j Hj. cbn [m_fields]. rewrite !nth_error_set_at, (H2 j Hj). reflexivity.
Qed.

(* a store at index i is invisible off i *)
Lemma agree_set_here i x m : agree_off i m (mk_msg (m_num m) (set_at i x (m_fields m))).
Proof. split; [reflexivity|]. intros j Hj. cbn [m_fields]. now rewrite nth_error_set_at_ne. Qed.

(* decoding the same fields from the same bytes preserves agreement off i, and the
   time reference and unlisted-field list do not depend on the message at all *)
Lemma denote_fields_agree_off be gmn i : forall fds pay m m' ref unl,
  agree_off i m m' ->
  agree_off i (fst (fst (denote_fields be gmn fds pay m ref unl))) (fst (fst (denote_fields be gmn fds pay m' ref unl))) /\
  snd (fst (denote_fields be gmn fds pay m ref unl)) = snd (fst (denote_fields be gmn fds pay m' ref unl)) /\
  snd (denote_fields be gmn fds pay m ref unl) = snd (denote_fields be gmn fds pay m' ref unl).
Proof.
  induction fds as [|f r IH]; intros pay m m' ref unl Hag.
  - cbn [denote_fields fst snd]. auto.
  - rewrite !denote_fields_cons. unfold dstep.
    destruct (get_field gmn (sf_num f)) as [p|].
    + cbv beta iota zeta. apply IH.
      destruct (denote_field be f p _ ref _) as [x|]; [|exact Hag]. apply agree_set_same. exact Hag.
    + cbv beta iota zeta. apply IH. exact Hag.
Qed.

Lemma denote_fields_length be gmn : forall fds pay m ref unl,
  List.length (m_fields (fst (fst (denote_fields be gmn fds pay m ref unl)))) = List.length (m_fields m) /\
  m_num (fst (fst (denote_fields be gmn fds pay m ref unl))) = m_num m.
Proof.
  induction fds as [|f r IH]; intros pay m ref unl.
  - cbn [denote_fields fst snd]. auto.
  - rewrite denote_fields_cons. unfold dstep.
    destruct (get_field gmn (sf_num f)) as [p|].
    + cbv beta iota zeta.
      destruct (denote_field be f p _ ref _) as [x|].
      * match goal with |- context [denote_fields be gmn r ?pay' ?m1 ?ref' unl] =>
          destruct (IH pay' m1 ref' unl) as [E1 E2] end.
        rewrite E1, E2. cbn [m_fields m_num]. now rewrite set_at_length.
      * apply IH.
    + cbv beta iota zeta. apply IH.
Qed.

Lemma firstn_exact {A} (l r : list A) n : List.length l = n -> firstn n (l ++ r) = l.
Proof.
  intros <-. induction l as [|a l IH]; cbn [List.length firstn app]; [now destruct r|]. now rewrite IH.
Qed.

Lemma skipn_exact {A} (l r : list A) n : List.length l = n -> skipn n (l ++ r) = r.
Proof. intros <-. induction l as [|a l IH]; cbn [List.length skipn app]; [reflexivity|exact IH]. Qed.

(* what "undisturbed" means for the two results *)
Definition undisturbed (gmn num : N) (r r' : msg * option N * list N) : Prop :=
  snd (fst r) = snd (fst r') /\ snd r = snd r' /\ m_num (fst (fst r)) = m_num (fst (fst r')) /\
  forall j, (match get_field gmn num with Some p => j <> pf_sindex p | None => True end) ->
    nth_error (m_fields (fst (fst r))) j = nth_error (m_fields (fst (fst r'))) j.

Lemma neighbours_at_field be gmn f f2 b b' p2 m ref unl :
  List.length b = N.to_nat (sf_size f) -> List.length b' = N.to_nat (sf_size f) ->
  (sf_num f =? c_fieldNumTimeStamp) = false ->
  undisturbed gmn (sf_num f)
    (denote_fields be gmn (f :: f2) (b ++ p2) m ref unl) (denote_fields be gmn (f :: f2) (b' ++ p2) m ref unl).
Proof.
  intros Hb Hb' H253. rewrite !denote_fields_cons.
  rewrite (firstn_exact b p2 _ Hb), (firstn_exact b' p2 _ Hb'), (skipn_exact b p2 _ Hb), (skipn_exact b' p2 _ Hb').
  unfold undisturbed, dstep. destruct (get_field gmn (sf_num f)) as [p|] eqn:Eg.
  - rewrite H253. cbn [andb]. cbv beta iota zeta.
    match goal with |- context [denote_fields be gmn f2 p2 ?ma ref unl] => set (m1 := ma) end.
    match goal with |- context [denote_fields be gmn f2 p2 ?mb ref unl] =>
      lazymatch mb with m1 => fail | _ => set (m1' := mb) end end.
    assert (Hag : agree_off (pf_sindex p) m1 m1').
    { subst m1 m1'.
      destruct (denote_field be f p _ ref b) as [x|]; destruct (denote_field be f p _ ref b') as [y|].
      - eapply agree_off_trans; [apply agree_off_sym, agree_set_here|apply agree_set_here].
      - apply agree_off_sym, agree_set_here.
      - apply agree_set_here.
      - apply agree_off_refl. }
    destruct (denote_fields_agree_off be gmn (pf_sindex p) f2 p2 m1 m1' ref unl Hag) as ((Hn & Hj) & Hr & Hu).
    repeat split; assumption.
  - cbv beta iota zeta. repeat split.
Qed.

Lemma neighbours_aux be gmn f f2 b b' p2 :
  List.length b = N.to_nat (sf_size f) -> List.length b' = N.to_nat (sf_size f) ->
  (sf_num f =? c_fieldNumTimeStamp) = false ->
  forall f1 p1 m ref unl, List.length p1 = psize f1 ->
  undisturbed gmn (sf_num f)
    (denote_fields be gmn (f1 ++ f :: f2) (p1 ++ b ++ p2) m ref unl)
    (denote_fields be gmn (f1 ++ f :: f2) (p1 ++ b' ++ p2) m ref unl).
Proof.
  intros Hb Hb' H253. induction f1 as [|a f1 IH]; intros p1 m ref unl Hlen.
  - cbn [psize fold_right] in Hlen. destruct p1; [|discriminate]. cbn [app].
    apply neighbours_at_field; assumption.
  - cbn [psize fold_right] in Hlen. fold (psize f1) in Hlen.
    set (sz := N.to_nat (sf_size a)) in *.
    assert (Hq1 : List.length (firstn sz p1) = sz) by (rewrite firstn_length; lia).
    assert (Hq2 : List.length (skipn sz p1) = psize f1) by (rewrite skipn_length; lia).
    rewrite <- (firstn_skipn sz p1). rewrite <- !app_assoc. rewrite <- !app_comm_cons.
    rewrite !denote_fields_cons. fold sz.
    rewrite !(firstn_exact (firstn sz p1) _ sz Hq1), !(skipn_exact (firstn sz p1) _ sz Hq1).
    destruct (dstep be gmn a (firstn sz p1) m ref unl) as [[m1 ref1] unl1].
    apply IH. exact Hq2.
Qed.

(* B *)
Theorem neighbours_undisturbed : forall be gmn f1 f f2 p1 b b' p2 m ref unl,
  List.length p1 = psize f1 -> List.length b = N.to_nat (sf_size f) -> List.length b' = N.to_nat (sf_size f) ->
  negb (sf_num f =? c_fieldNumTimeStamp) = true ->
  let r := denote_fields be gmn (f1 ++ f :: f2) (p1 ++ b ++ p2) m ref unl in
  let r' := denote_fields be gmn (f1 ++ f :: f2) (p1 ++ b' ++ p2) m ref unl in
  snd (fst r) = snd (fst r') /\ snd r = snd r' /\ m_num (fst (fst r)) = m_num (fst (fst r')) /\
  forall j, (match get_field gmn (sf_num f) with Some p => j <> pf_sindex p | None => True end) ->
    nth_error (m_fields (fst (fst r))) j = nth_error (m_fields (fst (fst r'))) j.
Proof.
  intros be gmn f1 f f2 p1 b b' p2 m ref unl Hp1 Hb Hb' H253 r r'. apply negb_true_iff in H253.
  exact (neighbours_aux be gmn f f2 b b' p2 Hb Hb' H253 f1 p1 m ref unl Hp1).
Qed.

(* both results also have as many struct fields as the starting message, so "agree at
   every index but one" is agreement of two equally long lists *)
Theorem neighbours_same_length : forall be gmn fds pay pay' m ref unl,
  List.length (m_fields (fst (fst (denote_fields be gmn fds pay m ref unl)))) =
  List.length (m_fields (fst (fst (denote_fields be gmn fds pay' m ref unl)))).
Proof.
  intros be gmn fds pay pay' m ref unl.
  destruct (denote_fields_length be gmn fds pay m ref unl) as [E1 _].
  destruct (denote_fields_length be gmn fds pay' m ref unl) as [E2 _]. congruence.
Qed.

(* the struct index that may change belongs to no other field number *)
Theorem changed_index_is_own : forall gmn num num' p p',
  get_field gmn num = Some p -> get_field gmn num' = Some p' -> num' <> num -> pf_sindex p' <> pf_sindex p.
Proof.
  intros gmn num num' p p' H H' Hne E. apply Hne. exact (distinct_struct_fields gmn num' num p' p H' H E).
Qed.

Print Assumptions slots_independent_stream.
Print Assumptions redefinition_invisible.
Print Assumptions neighbours_undisturbed.
