(* Stream-level decode = denote, layer 2: the field loop of one data record.
   parse_one_field / parse_fields on the payload bytes compute exactly denote_fields:
   the message, the time reference and the unlisted-field counts. *)
From Coq Require Import NArith ZArith List Bool Lia Arith.
From Coq Require Import ZifyN ZifyNat ZifyBool.
From FitV Require Import Proofs.Util Model.Values Model.Bytes Model.Base Model.Profile Model.Reflect Model.IO
  Model.Route Model.Decode Spec.FitSyntax Spec.ProfileWf Proofs.ProfileProofs Proofs.DecodeLemmas Gen.Consts
  Proofs.StreamDenoteBase Proofs.StreamDenoteArith Proofs.StreamDenoteDefs Proofs.StreamDenoteDef
  Proofs.StreamDenoteField.
Import ListNotations.
Local Open Scope N_scope.
Ltac Zify.zify_post_hook ::= Z.div_mod_to_equations.

(* the decoder state with the components a field loop can change replaced *)
Definition st_upd (s : dstate) (hs : bool) (ts lo : N) (uf : list (N * N * N)) : dstate :=
  mk_dstate (ds_defs s) ts lo uf (ds_unkm s) (ds_file s) (ds_g s) (ds_quirks s) hs.

Lemma st_upd_id s : st_upd s (ds_hasts s) (ds_ts s) (ds_lastoff s) (ds_unkf s) = s.
Proof. destruct s; reflexivity. Qed.
Lemma st_upd_upd s a b c d a' b' c' d' : st_upd (st_upd s a b c d) a' b' c' d' = st_upd s a' b' c' d'.
Proof. reflexivity. Qed.

(* ------------------------------------------------------------ one step of the reference semantics *)

Definition dstep (be : bool) (gmn : N) (f : sfdef) (bytes : list N) (m : msg) (ref : option N) (unl : list N)
  : msg * option N * list N :=
  match get_field gmn (sf_num f) with
  | None => (m, ref, unl ++ [sf_num f])
  | Some p =>
      let ty := match field_type gmn (pf_sindex p) with Some t => t | None => TOther end in
      let v := denote_field be f p ty ref bytes in
      let m' := match v with Some x => mk_msg (m_num m) (set_at (pf_sindex p) x (m_fields m)) | None => m end in
      let ref' :=
        if (sf_num f =? c_fieldNumTimeStamp) && (fit_kind (pf_t p) =? kind_timeutc) then
          let u := wire_unsigned be bytes in if u =? 0xFFFFFFFF then ref else Some u
        else ref in
      (m', ref', unl)
  end.

Lemma denote_fields_cons be gmn f r pay m ref unl :
  denote_fields be gmn (f :: r) pay m ref unl =
  let '(m', ref', unl') := dstep be gmn f (firstn (N.to_nat (sf_size f)) pay) m ref unl in
  denote_fields be gmn r (skipn (N.to_nat (sf_size f)) pay) m' ref' unl'.
Proof. cbn [denote_fields]. unfold dstep. destruct (get_field gmn (sf_num f)); reflexivity. Qed.

Lemma dstep_ref_indep be gmn f bytes m m' ref unl unl' :
  snd (fst (dstep be gmn f bytes m ref unl)) = snd (fst (dstep be gmn f bytes m' ref unl')).
Proof. unfold dstep. destruct (get_field gmn (sf_num f)); reflexivity. Qed.

(* ------------------------------------------------------------ the decoder's field step, unfolded *)

(* what parse_one_field does with the bytes of a listed field of a known message *)
Definition field_body (dm : defmsg) (fd : fdef) (p : pfield) (m : msg) (ty : gotype) (buf : list N) : P (option msg) :=
  let t := pf_t p in
  let kind := fit_kind t in
  let finish (r : fres) : P (option msg) :=
    match r with
    | FSet v => Ret (Some (msg_set m (pf_sindex p) v))
    | FKeep => Ret (Some m)
    | FErr => fail EParseField
    | FPanic w => panic w
    end in
  if kind =? kind_native then
    if negb (fit_array t) then finish (parse_fit_field (dm_be dm) fd buf ty)
    else finish (parse_fit_field_array (dm_be dm) fd buf ty)
  else
    match b_signed (fd_btype fd) with
    | None => panic 4
    | Some sg =>
      let u32 := get32 (dm_be dm) (extend4 (dm_be dm) sg buf) in
      if (kind =? kind_timeutc) || (kind =? kind_timelocal) then
        bind get_st (fun s =>
        let '(ov, s') := parse_time_stamp s u32 kind (pf_num p) in
        bind (put_st s') (fun _ =>
        match ov with
        | None => Ret (Some m)
        | Some v => finish (of_set (set_time ty v))
        end))
      else if kind =? kind_lat then finish (of_set (set_lat ty (new_latitude (to_signed 32 u32))))
      else if kind =? kind_lng then finish (of_set (set_lng ty (new_longitude (to_signed 32 u32))))
      else panic 6
    end.

Lemma storable_size pb : base_storable pb = true -> exists s, b_size pb = Some s.
Proof.
  unfold base_storable. destruct (b_known pb) as [[|]|]; try discriminate.
  destruct (b_size pb) as [s|]; [eauto|discriminate].
Qed.

Lemma pof_listed o dm fd p m buf rest tl t n lim s :
  get_field (dm_gmn dm) (fd_num fd) = Some p ->
  List.length buf = N.to_nat (fd_size fd) -> (n + List.length buf <= lim)%nat ->
  run_a (parse_one_field o dm true fd (Some m)) (ast_at (buf ++ rest) tl t n lim) s =
  run_a (field_body dm fd p m (gotype_of_fit (pf_t p)) buf) (ast_at rest tl t (n + List.length buf) lim) s.
Proof.
  intros Hg Hlen Hlim. destruct (entry_sound _ _ _ Hg) as (md & Em & F).
  unfold parse_one_field. rewrite Hg.
  destruct (storable_size _ (ef_storable _ _ _ _ F)) as [sz Hsz]. rewrite Hsz.
  match goal with |- run_a (bind ?pre _) _ _ = _ => replace pre with (Ret tt : P unit) by (destruct (_ && _); reflexivity) end.
  rewrite bind_ret.
  rewrite (step_read_full _ (N.to_nat (fd_size fd)) buf rest) by (auto; lia).
  cbn [negb]. rewrite (ef_type _ _ _ _ F). rewrite Hlen. reflexivity.
Qed.

Lemma pof_unlisted o dm known fd msgv buf rest tl t n lim s :
  get_field (dm_gmn dm) (fd_num fd) = None ->
  List.length buf = N.to_nat (fd_size fd) -> (n + List.length buf <= lim)%nat ->
  run_a (parse_one_field o dm known fd msgv) (ast_at (buf ++ rest) tl t n lim) s =
  ROk msgv (ast_at rest tl t (n + List.length buf) lim)
      (if known && o_unkf o then with_unkf s (bump2 (dm_gmn dm, fd_num fd) (ds_unkf s)) else s).
Proof.
  intros Hg Hlen Hlim. unfold parse_one_field. rewrite Hg.
  destruct (known && o_unkf o).
  - unfold get_st, put_st. cbn [bind]. rewrite run_get, run_put.
    change (ReadFull (N.to_nat (fd_size fd)) (fun l => Ret msgv)) with (bind (read_full (N.to_nat (fd_size fd))) (fun _ => Ret msgv : P (option msg))).
    rewrite (step_read_full _ (N.to_nat (fd_size fd)) buf rest) by (auto; lia). rewrite Hlen. reflexivity.
  - rewrite bind_ret.
    rewrite (step_read_full _ (N.to_nat (fd_size fd)) buf rest) by (auto; lia). rewrite Hlen. reflexivity.
Qed.

(* ------------------------------------------------------------ the field step agrees with dstep *)

Lemma pts_utc s u num : u <> 0xFFFFFFFF ->
  parse_time_stamp s u kind_timeutc num =
  (Some (time_of u),
   if num =? c_fieldNumTimeStamp then
     mk_dstate (ds_defs s) u (N.land u c_compressedTimeMask) (ds_unkf s) (ds_unkm s) (ds_file s) (ds_g s)
               (ds_quirks s) true
   else s).
Proof.
  intros Hu. unfold parse_time_stamp. destruct (N.eqb_spec u 0xFFFFFFFF); [contradiction|].
  change (kind_timeutc =? kind_timeutc) with true. cbv iota. reflexivity.
Qed.

Lemma kind_cases k : k <= 4 -> k = kind_native \/ k = kind_timeutc \/ k = kind_timelocal \/ k = kind_lat \/ k = kind_lng.
Proof. unfold kind_native, kind_timeutc, kind_timelocal, kind_lat, kind_lng. lia. Qed.

Lemma run_finish_res m sidx (ov : option goval) x s :
  run_a (match res_of ov with
         | FSet v => Ret (Some (msg_set m sidx v))
         | FKeep => Ret (Some m)
         | FErr => fail EParseField
         | FPanic w => panic w
         end) x s =
  ROk (Some (match ov with Some v => mk_msg (m_num m) (set_at sidx v (m_fields m)) | None => m end)) x s.
Proof. destruct ov; reflexivity. Qed.

Lemma field_body_spec be gmn dm f p m buf ref unl x s :
  get_field gmn (sf_num f) = Some p -> compat gmn f = true -> canon_bt f = true ->
  dm_gmn dm = gmn -> dm_be dm = be ->
  List.length buf = N.to_nat (sf_size f) -> all_bytes buf = true ->
  time_rel (ds_hasts s) (ds_ts s) (ds_lastoff s) ref ->
  exists hs' ts' lo',
    run_a (field_body dm (to_fdef f) p m (gotype_of_fit (pf_t p)) buf) x s =
      ROk (Some (fst (fst (dstep be gmn f buf m ref unl)))) x (st_upd s hs' ts' lo' (ds_unkf s)) /\
    time_rel hs' ts' lo' (snd (fst (dstep be gmn f buf m ref unl))).
Proof.
  intros Hg Hc Hcan Hgmn Hbe Hlen Hbytes Htime.
  destruct (entry_sound _ _ _ Hg) as (md & Em & F).
  unfold dstep. rewrite Hg. cbn [fst snd]. rewrite (ef_type _ _ _ _ F).
  destruct (compat_listed gmn f p Hc (ef_known _ _ _ _ F) Hg) as [Hkn Hcase].
  destruct (kind_cases _ (ef_kind _ _ _ _ F)) as [Hk|[Hk|[Hk|[Hk|Hk]]]].
  - (* native *)
    exists (ds_hasts s), (ds_ts s), (ds_lastoff s). rewrite st_upd_id.
    unfold field_body. rewrite Hk. change (kind_native =? kind_native) with true. cbv iota.
    change (kind_native =? kind_timeutc) with false. rewrite andb_false_r.
    split; [|exact Htime].
    pose proof (native_field_agree be gmn f p ref buf Hg Hc Hcan Hk Hlen Hbytes) as Hag. rewrite Hbe.
    destruct (negb (fit_array (pf_t p))); rewrite Hag; apply run_finish_res.
  - (* date_time *)
    assert (Ha : fit_array (pf_t p) = false) by (apply (ef_scalar_kinds _ _ _ _ F); rewrite Hk; discriminate).
    pose proof (ef_time_base _ _ _ _ F (or_introl Hk)) as Hpb.
    rewrite Hpb, Ha in Hcase. change (base_uint32 =? base_string) with false in Hcase. cbv iota in Hcase.
    destruct (time_u32 be _ _ buf Hkn Hcase Hlen) as [Hsg Hu32].
    assert (Hty : gotype_of_fit (pf_t p) = TTime) by (unfold gotype_of_fit; rewrite Hk, Ha; reflexivity).
    rewrite Hty. unfold field_body. rewrite Hk.
    change (kind_timeutc =? kind_native) with false. cbv iota.
    unfold to_fdef at 1. cbn [fd_btype]. rewrite Hsg. rewrite Hbe, Hu32.
    change ((kind_timeutc =? kind_timeutc) || (kind_timeutc =? kind_timelocal)) with true. cbv iota.
    unfold get_st. cbn [bind]. rewrite run_get. rewrite (ef_num _ _ _ _ F).
    unfold denote_field. rewrite Hk.
    change (kind_timeutc =? kind_native) with false. change (kind_timeutc =? kind_timeutc) with true. cbv iota.
    rewrite andb_true_r.
    destruct (N.eqb_spec (wire_unsigned be buf) 0xFFFFFFFF) as [Einv|Ninv].
    + rewrite Einv. rewrite invalid_time_untouched. cbv iota beta. unfold put_st. cbn [bind]. rewrite run_put.
      exists (ds_hasts s), (ds_ts s), (ds_lastoff s). rewrite st_upd_id.
      split; [reflexivity|]. destruct (sf_num f =? c_fieldNumTimeStamp); exact Htime.
    + rewrite (pts_utc s _ _ Ninv). cbv iota beta. unfold put_st. cbn [bind]. rewrite run_put.
      cbn [of_set set_time]. cbn [run_a].
      destruct (sf_num f =? c_fieldNumTimeStamp) eqn:E253.
      * exists true, (wire_unsigned be buf), (N.land (wire_unsigned be buf) c_compressedTimeMask).
        split; [reflexivity|]. cbn [time_rel].
        split; [reflexivity|]. split; [reflexivity|]. apply explicit_timestamp_invariant.
      * exists (ds_hasts s), (ds_ts s), (ds_lastoff s). rewrite st_upd_id. split; [reflexivity|exact Htime].
  - (* local_date_time *)
    assert (Ha : fit_array (pf_t p) = false) by (apply (ef_scalar_kinds _ _ _ _ F); rewrite Hk; discriminate).
    pose proof (ef_time_base _ _ _ _ F (or_intror Hk)) as Hpb.
    rewrite Hpb, Ha in Hcase. change (base_uint32 =? base_string) with false in Hcase. cbv iota in Hcase.
    destruct (time_u32 be _ _ buf Hkn Hcase Hlen) as [Hsg Hu32].
    assert (Hty : gotype_of_fit (pf_t p) = TTime) by (unfold gotype_of_fit; rewrite Hk, Ha; reflexivity).
    rewrite Hty. unfold field_body. rewrite Hk.
    change (kind_timelocal =? kind_native) with false. cbv iota.
    unfold to_fdef at 1. cbn [fd_btype]. rewrite Hsg. rewrite Hbe, Hu32.
    change ((kind_timelocal =? kind_timeutc) || (kind_timelocal =? kind_timelocal)) with true. cbv iota.
    unfold get_st. cbn [bind]. rewrite run_get.
    unfold denote_field. rewrite Hk.
    change (kind_timelocal =? kind_native) with false. change (kind_timelocal =? kind_timeutc) with false.
    change (kind_timelocal =? kind_timelocal) with true. cbv iota.
    rewrite andb_false_r.
    exists (ds_hasts s), (ds_ts s), (ds_lastoff s). rewrite st_upd_id. split; [|exact Htime].
    destruct (N.eqb_spec (wire_unsigned be buf) 0xFFFFFFFF) as [Einv|Ninv].
    + rewrite Einv. rewrite invalid_time_untouched. cbv iota beta. unfold put_st. cbn [bind]. rewrite run_put. reflexivity.
    + unfold local_time_of. destruct ref as [r0|].
      * destruct Htime as (Hh & Hts & Hlo).
        destruct (N.ltb_spec r0 c_systemTimeMarker) as [Hlt|Hge].
        -- rewrite (local_time_without_reference s _ _ Ninv) by (right; rewrite Hts; exact Hlt).
           cbv iota beta. unfold put_st. cbn [bind]. rewrite run_put. reflexivity.
        -- rewrite (local_time_with_reference s _ _ Ninv Hh) by (rewrite Hts; exact Hge).
           cbv iota beta. unfold put_st. cbn [bind]. rewrite run_put. rewrite Hts. reflexivity.
      * cbn [time_rel] in Htime.
        rewrite (local_time_without_reference s _ _ Ninv) by (left; exact Htime).
        cbv iota beta. unfold put_st. cbn [bind]. rewrite run_put. reflexivity.
  - (* latitude *)
    assert (Ha : fit_array (pf_t p) = false) by (apply (ef_scalar_kinds _ _ _ _ F); rewrite Hk; discriminate).
    pose proof (ef_coord_base _ _ _ _ F (or_introl Hk)) as Hpb.
    rewrite Hpb, Ha in Hcase. change (base_sint32 =? base_string) with false in Hcase. cbv iota in Hcase.
    destruct (coord_s32 be _ _ buf Hkn Hcase Hlen Hbytes) as [Hsg Hs32].
    assert (Hty : gotype_of_fit (pf_t p) = TLat) by (unfold gotype_of_fit; rewrite Hk, Ha; reflexivity).
    rewrite Hty. unfold field_body. rewrite Hk.
    change (kind_lat =? kind_native) with false. cbv iota.
    unfold to_fdef at 1. cbn [fd_btype]. rewrite Hsg. rewrite Hbe, Hs32.
    change ((kind_lat =? kind_timeutc) || (kind_lat =? kind_timelocal)) with false. cbv iota.
    change (kind_lat =? kind_lat) with true. cbv iota.
    unfold denote_field. rewrite Hk, Hsg.
    change (kind_lat =? kind_native) with false. change (kind_lat =? kind_timeutc) with false.
    change (kind_lat =? kind_timelocal) with false. change (kind_lat =? kind_lat) with true. cbv iota.
    rewrite andb_false_r.
    exists (ds_hasts s), (ds_ts s), (ds_lastoff s). rewrite st_upd_id. split; [reflexivity|exact Htime].
  - (* longitude *)
    assert (Ha : fit_array (pf_t p) = false) by (apply (ef_scalar_kinds _ _ _ _ F); rewrite Hk; discriminate).
    pose proof (ef_coord_base _ _ _ _ F (or_intror Hk)) as Hpb.
    rewrite Hpb, Ha in Hcase. change (base_sint32 =? base_string) with false in Hcase. cbv iota in Hcase.
    destruct (coord_s32 be _ _ buf Hkn Hcase Hlen Hbytes) as [Hsg Hs32].
    assert (Hty : gotype_of_fit (pf_t p) = TLng) by (unfold gotype_of_fit; rewrite Hk, Ha; reflexivity).
    rewrite Hty. unfold field_body. rewrite Hk.
    change (kind_lng =? kind_native) with false. cbv iota.
    unfold to_fdef at 1. cbn [fd_btype]. rewrite Hsg. rewrite Hbe, Hs32.
    change ((kind_lng =? kind_timeutc) || (kind_lng =? kind_timelocal)) with false. cbv iota.
    change (kind_lng =? kind_lat) with false. change (kind_lng =? kind_lng) with true. cbv iota.
    unfold denote_field. rewrite Hk, Hsg.
    change (kind_lng =? kind_native) with false. change (kind_lng =? kind_timeutc) with false.
    change (kind_lng =? kind_timelocal) with false. change (kind_lng =? kind_lat) with false.
    change (kind_lng =? kind_lng) with true. cbv iota.
    rewrite andb_false_r.
    exists (ds_hasts s), (ds_ts s), (ds_lastoff s). rewrite st_upd_id. split; [reflexivity|exact Htime].
Qed.

(* ------------------------------------------------------------ the field loop *)

Definition psize (fds : list sfdef) : nat := fold_right (fun f acc => (N.to_nat (sf_size f) + acc)%nat) 0%nat fds.

Lemma all_bytes_split k l : all_bytes l = true -> all_bytes (firstn k l) = true /\ all_bytes (skipn k l) = true.
Proof.
  intros H. rewrite <- (firstn_skipn k l) in H. unfold all_bytes in *. rewrite forallb_app in H.
  now apply andb_prop in H.
Qed.

Definition counts (gmn : N) (unl : list N) (base : list (N * N * N)) : list (N * N * N) :=
  fold_left (fun acc k => count2 gmn k acc) unl base.

Lemma counts_snoc gmn unl k base : counts gmn (unl ++ [k]) base = count2 gmn k (counts gmn unl base).
Proof. unfold counts. rewrite fold_left_app. reflexivity. Qed.

Lemma fields_known o dm be gmn base : known_msg gmn = true -> dm_gmn dm = gmn -> dm_be dm = be ->
  forall fds pay m ref unl s tl t n lim,
  forallb (compat gmn) fds = true -> forallb canon_bt fds = true ->
  List.length pay = psize fds -> all_bytes pay = true ->
  time_rel (ds_hasts s) (ds_ts s) (ds_lastoff s) ref ->
  (o_unkf o = true -> ds_unkf s = counts gmn unl base) ->
  (n + List.length pay <= lim)%nat ->
  exists hs' ts' lo' uf',
    run_a (parse_fields o dm true (map to_fdef fds) (Some m)) (ast_at pay tl t n lim) s =
      ROk (Some (fst (fst (denote_fields be gmn fds pay m ref unl)))) (ast_at [] tl t (n + List.length pay) lim)
          (st_upd s hs' ts' lo' uf') /\
    time_rel hs' ts' lo' (snd (fst (denote_fields be gmn fds pay m ref unl))) /\
    (o_unkf o = true -> uf' = counts gmn (snd (denote_fields be gmn fds pay m ref unl)) base) /\
    (o_unkf o = false -> uf' = ds_unkf s).
Proof.
  intros Hkn Hgmn Hbe. induction fds as [|f r IH]; intros pay m ref unl s tl t n lim Hc Hcan Hlen Hbytes Htime Hunk Hlim.
  - cbn [psize fold_right] in Hlen. destruct pay; [|discriminate]. cbn [map parse_fields denote_fields fst snd List.length run_a].
    rewrite Nat.add_0_r. exists (ds_hasts s), (ds_ts s), (ds_lastoff s), (ds_unkf s). rewrite st_upd_id.
    repeat split; auto.
  - cbn [forallb] in Hc, Hcan. apply andb_prop in Hc. destruct Hc as [Hc1 Hc]. apply andb_prop in Hcan. destruct Hcan as [Hcan1 Hcan].
    cbn [psize fold_right] in Hlen. fold (psize r) in Hlen.
    set (sz := N.to_nat (sf_size f)) in *.
    assert (Hb1 : List.length (firstn sz pay) = sz) by (rewrite firstn_length; lia).
    assert (Hb2 : List.length (skipn sz pay) = psize r) by (rewrite skipn_length; lia).
    destruct (all_bytes_split sz pay Hbytes) as [Hby1 Hby2].
    rewrite denote_fields_cons. fold sz.
    destruct (dstep be gmn f (firstn sz pay) m ref unl) as [[m1 ref1] unl1] eqn:Eds.
    cbn [map parse_fields]. rewrite run_bind.
    replace (ast_at pay tl t n lim) with (ast_at (firstn sz pay ++ skipn sz pay) tl t n lim) by (now rewrite firstn_skipn).
    assert (Hlen' : (List.length pay = sz + List.length (skipn sz pay))%nat) by lia.
    destruct (get_field gmn (sf_num f)) as [p|] eqn:Eg.
    + rewrite (pof_listed o dm (to_fdef f) p m (firstn sz pay) (skipn sz pay))
        by (try (rewrite Hgmn; exact Eg); cbn [to_fdef fd_size]; fold sz; lia).
      destruct (field_body_spec be gmn dm f p m (firstn sz pay) ref unl
                  (ast_at (skipn sz pay) tl t (n + List.length (firstn sz pay)) lim) s
                  Eg Hc1 Hcan1 Hgmn Hbe Hb1 Hby1 Htime)
        as (hs1 & ts1 & lo1 & Hrun & Htime1).
      rewrite Hrun. rewrite Eds in Htime1. cbn [fst snd] in Htime1. rewrite Eds. cbn [fst snd rbind].
      assert (Eunl : unl1 = unl) by (unfold dstep in Eds; rewrite Eg in Eds; now inversion Eds). subst unl1.
      destruct (IH (skipn sz pay) m1 ref1 unl (st_upd s hs1 ts1 lo1 (ds_unkf s)) tl t (n + List.length (firstn sz pay))%nat lim
                  Hc Hcan Hb2 Hby2 Htime1 Hunk ltac:(lia))
        as (hs' & ts' & lo' & uf' & Hrun' & Ht' & Hu1 & Hu2).
      exists hs', ts', lo', uf'. rewrite Hrun'. rewrite st_upd_upd.
      replace (n + List.length (firstn sz pay) + List.length (skipn sz pay))%nat with (n + List.length pay)%nat by lia.
      repeat split; auto.
    + rewrite (pof_unlisted o dm true (to_fdef f) (Some m) (firstn sz pay) (skipn sz pay))
        by (try (rewrite Hgmn; exact Eg); cbn [to_fdef fd_size]; fold sz; lia).
      cbn [rbind andb]. unfold dstep in Eds. rewrite Eg in Eds. inversion Eds; subst m1 ref1 unl1. clear Eds.
      cbn [to_fdef fd_num]. rewrite Hgmn, bump2_count2.
      set (s1 := if o_unkf o then with_unkf s (count2 gmn (sf_num f) (ds_unkf s)) else s).
      assert (Es1 : s1 = st_upd s (ds_hasts s) (ds_ts s) (ds_lastoff s) (if o_unkf o then count2 gmn (sf_num f) (ds_unkf s) else ds_unkf s)).
      { unfold s1. destruct (o_unkf o); [reflexivity|now rewrite st_upd_id]. }
      rewrite Es1.
      destruct (IH (skipn sz pay) m ref (unl ++ [sf_num f])
                  (st_upd s (ds_hasts s) (ds_ts s) (ds_lastoff s) (if o_unkf o then count2 gmn (sf_num f) (ds_unkf s) else ds_unkf s))
                  tl t (n + List.length (firstn sz pay))%nat lim Hc Hcan Hb2 Hby2 Htime)
        as (hs' & ts' & lo' & uf' & Hrun' & Ht' & Hu1 & Hu2).
      { intros Ho. cbn [st_upd ds_unkf]. rewrite Ho. rewrite counts_snoc. now rewrite (Hunk Ho). }
      { lia. }
      exists hs', ts', lo', uf'. rewrite Hrun'. rewrite st_upd_upd.
      replace (n + List.length (firstn sz pay) + List.length (skipn sz pay))%nat with (n + List.length pay)%nat by lia.
      repeat split; auto.
      intros Ho. rewrite (Hu2 Ho). cbn [st_upd ds_unkf]. now rewrite Ho.
Qed.

(* fields of a message the profile does not know: skipped, nothing counted *)
Lemma unknown_no_field gmn k : known_msg gmn = false -> get_field gmn k = None.
Proof.
  intros Hk. destruct (get_field gmn k) as [p|] eqn:Eg; [|reflexivity].
  destruct (entry_sound _ _ _ Eg) as (md & _ & F). rewrite (ef_known _ _ _ _ F) in Hk. discriminate.
Qed.

Lemma fields_unknown o dm : known_msg (dm_gmn dm) = false ->
  forall fds pay s tl t n lim, List.length pay = psize fds -> (n + List.length pay <= lim)%nat ->
  run_a (parse_fields o dm false (map to_fdef fds) None) (ast_at pay tl t n lim) s =
  ROk None (ast_at [] tl t (n + List.length pay) lim) s.
Proof.
  intros Hk. induction fds as [|f r IH]; intros pay s tl t n lim Hlen Hlim.
  - cbn [psize fold_right] in Hlen. destruct pay; [|discriminate]. cbn [map parse_fields List.length run_a].
    now rewrite Nat.add_0_r.
  - cbn [psize fold_right] in Hlen. fold (psize r) in Hlen. set (sz := N.to_nat (sf_size f)) in *.
    assert (Hb1 : List.length (firstn sz pay) = sz) by (rewrite firstn_length; lia).
    assert (Hb2 : List.length (skipn sz pay) = psize r) by (rewrite skipn_length; lia).
    cbn [map parse_fields]. rewrite run_bind.
    replace (ast_at pay tl t n lim) with (ast_at (firstn sz pay ++ skipn sz pay) tl t n lim) by (now rewrite firstn_skipn).
    rewrite (pof_unlisted o dm false (to_fdef f) None (firstn sz pay) (skipn sz pay))
      by (try apply unknown_no_field; try assumption; cbn [to_fdef fd_size]; fold sz; lia).
    cbn [rbind andb]. rewrite IH by (try assumption; lia).
    replace (n + List.length (firstn sz pay) + List.length (skipn sz pay))%nat with (n + List.length pay)%nat by lia.
    reflexivity.
Qed.

(* developer fields are skipped by their declared sizes *)
Lemma skip_dev_ok : forall devs dev s tl t n lim, List.length dev = dev_size devs -> (n + List.length dev <= lim)%nat ->
  run_a (skip_dev_fields devs) (ast_at dev tl t n lim) s = ROk tt (ast_at [] tl t (n + List.length dev) lim) s.
Proof.
  induction devs as [|[[a sz] c] r IH]; intros dev s tl t n lim Hlen Hlim.
  - cbn [dev_size fold_right] in Hlen. destruct dev; [|discriminate]. cbn [skip_dev_fields List.length run_a].
    now rewrite Nat.add_0_r.
  - cbn [dev_size fold_right] in Hlen. fold (dev_size r) in Hlen. set (k := N.to_nat sz) in *.
    assert (Hb1 : List.length (firstn k dev) = k) by (rewrite firstn_length; lia).
    assert (Hb2 : List.length (skipn k dev) = dev_size r) by (rewrite skipn_length; lia).
    cbn [skip_dev_fields]. fold k.
    replace (ast_at dev tl t n lim) with (ast_at (firstn k dev ++ skipn k dev) tl t n lim) by (now rewrite firstn_skipn).
    rewrite (step_read_full _ k (firstn k dev) (skipn k dev)) by (auto; lia).
    rewrite IH by (try assumption; lia).
    replace (n + k + List.length (skipn k dev))%nat with (n + List.length dev)%nat by lia. reflexivity.
Qed.
