(* C14: the nibble-table CRC of dyncrc16 is CRC-16/ARC, for every state and
   byte, by XOR-linearity; streaming, reset and residue laws. *)
From Coq Require Import NArith List Lia Bool.
From FitV Require Import Gen.CrcTable Model.Crc Spec.CrcSpec Proofs.Util.
Import ListNotations.
Local Open Scope N_scope.

Definition lin (f : N -> N) := forall a b, f (N.lxor a b) = N.lxor (f a) (f b).

Lemma land_lxor_l a b m : N.land (N.lxor a b) m = N.lxor (N.land a m) (N.land b m).
Proof. apply N.bits_inj; intro n. rewrite !N.land_spec, !N.lxor_spec, !N.land_spec.
  destruct (N.testbit a n), (N.testbit b n), (N.testbit m n); reflexivity. Qed.

Lemma lin_land m : lin (fun x => N.land x m). Proof. intros a b. apply land_lxor_l. Qed.
Lemma lin_shiftr k : lin (fun x => N.shiftr x k). Proof. intros a b. apply N.shiftr_lxor. Qed.
Lemma lin_comp f g : lin f -> lin g -> lin (fun x => f (g x)).
Proof. intros Hf Hg a b. rewrite Hg, Hf. reflexivity. Qed.
Lemma lxor_swap a b c d : N.lxor (N.lxor a b) (N.lxor c d) = N.lxor (N.lxor a c) (N.lxor b d).
Proof. apply N.bits_inj; intro n. rewrite !N.lxor_spec.
  destruct (N.testbit a n), (N.testbit b n), (N.testbit c n), (N.testbit d n); reflexivity. Qed.
Lemma lin_xor f g : lin f -> lin g -> lin (fun x => N.lxor (f x) (g x)).
Proof. intros Hf Hg a b. rewrite Hf, Hg. apply lxor_swap. Qed.

Lemma land15_lt a : N.land a 15 < 16.
Proof. change 15 with (N.ones 4). rewrite N.land_ones. apply N.mod_lt. discriminate. Qed.

(* the table itself is linear on 4-bit indices: a 16 x 16 check of the table
   extracted from the current source *)
Lemma T_lin_small : forall a b, a < 16 -> b < 16 -> T (N.lxor a b) = N.lxor (T a) (T b).
Proof.
  assert (H: forallb (fun a => forallb (fun b => N.eqb (T (N.lxor a b)) (N.lxor (T a) (T b))) (range 16 0)) (range 16 0) = true)
    by (vm_compute; reflexivity).
  intros a b Ha Hb. rewrite forallb_forall in H.
  specialize (H a (range_in 16 0 a ltac:(lia))). rewrite forallb_forall in H.
  specialize (H b (range_in 16 0 b ltac:(lia))). now apply N.eqb_eq in H.
Qed.

Lemma lin_Tlow : lin (fun x => T (N.land x 15)).
Proof. intros a b. rewrite land_lxor_l. apply T_lin_small; apply land15_lt. Qed.

Definition nib (x : N) : N := N.lxor (N.land (N.shiftr x 4) 0x0FFF) (T (N.land x 15)).

Lemma lin_nib : lin nib.
Proof. unfold nib. apply lin_xor.
  - apply (lin_comp (fun x => N.land x 4095) (fun x => N.shiftr x 4)); [apply lin_land|apply lin_shiftr].
  - apply lin_Tlow. Qed.

Lemma upd_nib c d :
  update_byte c d = N.lxor (nib (N.lxor (nib c) (T (N.land d 15)))) (T (N.land (N.shiftr d 4) 15)).
Proof. reflexivity. Qed.

Lemma update_byte_linear : forall c1 c2 d1 d2,
  update_byte (N.lxor c1 c2) (N.lxor d1 d2) = N.lxor (update_byte c1 d1) (update_byte c2 d2).
Proof.
  intros. rewrite !upd_nib.
  rewrite (lin_nib c1 c2), (lin_Tlow d1 d2).
  rewrite (lxor_swap (nib c1) (nib c2)), lin_nib.
  rewrite N.shiftr_lxor, (lin_Tlow (N.shiftr d1 4) (N.shiftr d2 4)).
  apply lxor_swap.
Qed.

(* spec side *)
Definition sel (x : N) : N := if N.odd x then 0xA001 else 0.
Lemma lin_sel : lin sel.
Proof. intros a b. unfold sel. rewrite <- !N.bit0_odd, N.lxor_spec.
  destruct (N.testbit a 0), (N.testbit b 0); reflexivity. Qed.
Lemma lin_shift1 : lin arc_shift1.
Proof. unfold arc_shift1. apply lin_xor; [apply lin_shiftr|apply lin_sel]. Qed.
Lemma lin_shift8 : lin arc_shift8.
Proof. unfold arc_shift8. do 7 (apply (lin_comp arc_shift1); [apply lin_shift1|]). apply lin_shift1. Qed.
Lemma arc_step_linear : forall c1 c2 d1 d2,
  arc_step (N.lxor c1 c2) (N.lxor d1 d2) = N.lxor (arc_step c1 d1) (arc_step c2 d2).
Proof. intros. unfold arc_step. rewrite lxor_swap. apply lin_shift8. Qed.

(* agreement on the two axes, by computation over the current table *)
Lemma agree_c0 : forall c, c < 65536 -> update_byte c 0 = arc_step c 0.
Proof.
  intros c Hc. apply N.eqb_eq.
  apply (forall_below 65536 (fun c => N.eqb (update_byte c 0) (arc_step c 0))); [vm_compute; reflexivity|assumption].
Qed.
Lemma agree_0d : forall d, d < 256 -> update_byte 0 d = arc_step 0 d.
Proof.
  intros d Hd. apply N.eqb_eq.
  apply (forall_below 256 (fun d => N.eqb (update_byte 0 d) (arc_step 0 d))); [vm_compute; reflexivity|assumption].
Qed.

Theorem update_is_arc : forall c d, c < 65536 -> d < 256 -> update_byte c d = arc_step c d.
Proof.
  intros c d Hc Hd.
  replace c with (N.lxor c 0) at 1 2 by apply N.lxor_0_r.
  replace d with (N.lxor 0 d) at 1 2 by apply N.lxor_0_l.
  rewrite update_byte_linear, arc_step_linear, agree_c0, agree_0d by assumption. reflexivity.
Qed.

(* the register stays 16 bits wide *)
Lemma shift1_lt c : c < 65536 -> arc_shift1 c < 65536.
Proof.
  intros Hc. unfold arc_shift1. change 65536 with (2 ^ 16). apply lxor_lt_pow2.
  - eapply N.le_lt_trans; [apply shiftr_le|assumption].
  - destruct (N.odd c); vm_compute; reflexivity.
Qed.
Lemma arc_step_lt c d : c < 65536 -> d < 256 -> arc_step c d < 65536.
Proof.
  intros Hc Hd. unfold arc_step, arc_shift8. do 8 apply shift1_lt.
  change 65536 with (2 ^ 16). apply lxor_lt_pow2; [assumption|]. change (2 ^ 16) with 65536. lia.
Qed.
Lemma update_byte_lt c d : c < 65536 -> d < 256 -> update_byte c d < 65536.
Proof. intros Hc Hd. rewrite update_is_arc by assumption. now apply arc_step_lt. Qed.

Lemma update_arc_from : forall data c, c < 65536 -> is_bytes data ->
  update c data = fold_left arc_step data c /\ update c data < 65536.
Proof.
  unfold update. induction data as [|b data IH]; intros c Hc Hb; cbn [fold_left].
  - split; [reflexivity|assumption].
  - inversion Hb as [|? ? Hb1 Hb2]; subst.
    rewrite update_is_arc by assumption. apply IH; [now apply arc_step_lt|assumption].
Qed.

Theorem checksum_is_arc : forall data, is_bytes data -> checksum data = arc data.
Proof. intros data H. unfold checksum, arc. apply update_arc_from; [reflexivity|assumption]. Qed.

Lemma update_lt c data : c < 65536 -> is_bytes data -> update c data < 65536.
Proof. intros. now apply update_arc_from. Qed.

(* streaming: any partition into successive writes *)
Lemma update_app c a b : update c (a ++ b) = update (update c a) b.
Proof. unfold update. apply fold_left_app. Qed.

Theorem write_split : forall h a b,
  crc_sum16 (crc_write (crc_write h a) b) = crc_sum16 (crc_write h (a ++ b)).
Proof. intros. unfold crc_sum16, crc_write. now rewrite update_app. Qed.

Theorem write_partition : forall h chunks,
  crc_sum16 (fold_left crc_write chunks h) = crc_sum16 (crc_write h (concat chunks)).
Proof.
  intros h chunks. revert h. induction chunks as [|c cs IH]; intros h; cbn [fold_left concat].
  - reflexivity.
  - rewrite IH. unfold crc_sum16, crc_write. now rewrite update_app.
Qed.

Theorem reset_is_new : forall h, crc_reset h = crc_new.
Proof. reflexivity. Qed.

Theorem checksum_is_write : forall data, checksum data = crc_sum16 (crc_write crc_new data).
Proof. reflexivity. Qed.

(* residue: feeding the register its own value little-endian clears it *)
Lemma residue_state : forall c, c < 65536 -> update_byte (update_byte c (lo8 c)) (hi8 c) = 0.
Proof.
  intros c Hc. apply N.eqb_eq.
  apply (forall_below 65536 (fun c => N.eqb (update_byte (update_byte c (lo8 c)) (hi8 c)) 0)); [vm_compute; reflexivity|assumption].
Qed.

Theorem residue_zero : forall data, is_bytes data ->
  checksum (data ++ [lo8 (checksum data); hi8 (checksum data)]) = 0.
Proof.
  intros data H. unfold checksum at 1. rewrite update_app. fold (checksum data).
  unfold update. cbn [fold_left]. apply residue_state. apply update_lt; [reflexivity|assumption].
Qed.

Lemma lo8_lt x : lo8 x < 256.
Proof. unfold lo8. change 255 with (N.ones 8). rewrite N.land_ones. apply N.mod_lt. discriminate. Qed.
Lemma hi8_lt x : x < 65536 -> hi8 x < 256.
Proof. intros H. unfold hi8. rewrite N.shiftr_div_pow2. apply N.div_lt_upper_bound; [discriminate|]. exact H. Qed.
