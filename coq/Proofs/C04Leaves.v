(* C04: which errors the buffered part of the decoder can fail with.  [leaves Q p]: every Fail leaf of
   the program tree p carries an error satisfying Q.  Used to show that an IntegrityError returned by
   Decode can only come from the header stage or from checkCRC, never from record parsing. *)
From Coq Require Import NArith ZArith List Bool.
From FitV Require Import Model.Values Model.Bytes Model.Base Model.Profile Model.Reflect Model.Crc Model.IO Model.Header
  Model.Components Model.Route Model.Decode Gen.Consts.
Import ListNotations.
Local Open Scope N_scope.

Inductive leaves {S E A : Type} (Q : E -> Prop) : prog S E A -> Prop :=
| lv_ret : forall a, leaves Q (Ret a)
| lv_fail : forall e, Q e -> leaves Q (Fail e)
| lv_panic : forall w, leaves Q (Panic w)
| lv_rb : forall k, (forall b, leaves Q (k b)) -> leaves Q (ReadByte k)
| lv_rf : forall n k, (forall l, leaves Q (k l)) -> leaves Q (ReadFull n k)
| lv_more : forall k, (forall m, leaves Q (k m)) -> leaves Q (More k)
| lv_get : forall k, (forall s, leaves Q (k s)) -> leaves Q (Get k)
| lv_put : forall s k, leaves Q k -> leaves Q (Put s k).

Lemma leaves_bind {S E A B} (Q : E -> Prop) (p : prog S E A) (f : A -> prog S E B) :
  leaves Q p -> (forall a, leaves Q (f a)) -> leaves Q (bind p f).
Proof.
  intros Hp Hf. induction Hp; cbn [bind]; try (constructor; auto; fail).
  - apply Hf.
Qed.

Lemma run_c_leaves {S E A} (Q : E -> Prop) (p : prog S E A) : leaves Q p ->
  forall c s e c' s', run_c p c s = RFail e c' s' -> Q e.
Proof.
  induction 1 as [a|e He|w|k Hk IH|n k Hk IH|k Hk IH|k Hk IH|s0 k Hk IH]; intros c s e' c' s' Hr; cbn [run_c] in Hr.
  - discriminate.
  - now inversion Hr; subst.
  - discriminate.
  - destruct (c_byte _ c) as [b c1|e1 c1|]; try discriminate. eapply IH; eassumption.
  - destruct (c_take _ n [] c) as [l c1|e1 c1|]; try discriminate. eapply IH; eassumption.
  - eapply IH; eassumption.
  - eapply IH; eassumption.
  - eapply IH; eassumption.
Qed.

(* the errors record parsing can fail with are never IntegrityErrors *)
Definition not_integrity (e : err) : Prop := is_integrity e = false.

(* syntactic decomposition: never unfolds a named sub-program *)
Ltac lv_step known :=
  lazymatch goal with
  | |- leaves _ (Ret _) => apply lv_ret
  | |- leaves _ (Panic _) => apply lv_panic
  | |- leaves _ (@Decode.panic _ _) => apply lv_panic
  | |- leaves _ (Fail _) => apply lv_fail; reflexivity
  | |- leaves _ (@Decode.fail _ _) => apply lv_fail; reflexivity
  | |- leaves _ (ReadByte _) => apply lv_rb; intros
  | |- leaves _ (ReadFull _ _) => apply lv_rf; intros
  | |- leaves _ (More _) => apply lv_more; intros
  | |- leaves _ (Get _) => apply lv_get; intros
  | |- leaves _ (Put _ _) => apply lv_put
  | |- leaves _ (bind _ _) => apply leaves_bind; [|intros]
  | |- leaves _ (if ?b then _ else _) => destruct b
  | |- leaves _ (match ?x with _ => _ end) => destruct x
  | |- leaves _ (let _ := _ in _) => cbv zeta
  | |- _ => known
  end.
Ltac lv known := repeat (lv_step known).

Lemma lv_read_byte : leaves not_integrity read_byte. Proof. unfold read_byte. lv ltac:(fail). Qed.
Lemma lv_read_full n : leaves not_integrity (read_full n). Proof. unfold read_full. lv ltac:(fail). Qed.
Lemma lv_get_st : leaves not_integrity get_st. Proof. unfold get_st. lv ltac:(fail). Qed.
Lemma lv_put_st s : leaves not_integrity (put_st s). Proof. unfold put_st. lv ltac:(fail). Qed.

Ltac base := first [ apply lv_read_byte | apply lv_read_full | apply lv_get_st | apply lv_put_st ].

Lemma lv_parse_definition_message b : leaves not_integrity (parse_definition_message b).
Proof. unfold parse_definition_message. cbv zeta. lv ltac:(base). Qed.

Lemma lv_parse_one_field o dm known fd msgv : leaves not_integrity (parse_one_field o dm known fd msgv).
Proof. unfold parse_one_field. cbv zeta. lv ltac:(base). Qed.

Lemma lv_parse_fields o dm known : forall fds msgv, leaves not_integrity (parse_fields o dm known fds msgv).
Proof.
  induction fds as [|fd r IH]; intros msgv; cbn [parse_fields]; [apply lv_ret|].
  apply leaves_bind; [apply lv_parse_one_field|intros; apply IH].
Qed.

Lemma lv_skip_dev_fields : forall devs, leaves not_integrity (skip_dev_fields devs).
Proof.
  induction devs as [|[[a sz] idx] r IH]; cbn [skip_dev_fields]; [apply lv_ret|].
  apply leaves_bind; [apply lv_read_full|intros; apply IH].
Qed.

Lemma lv_parse_data_fields o dm known msgv : leaves not_integrity (parse_data_fields o dm known msgv).
Proof.
  unfold parse_data_fields. apply leaves_bind; [apply lv_parse_fields|intros].
  apply leaves_bind; [apply lv_skip_dev_fields|intros; apply lv_ret].
Qed.

Lemma lv_parse_data_message o b compressed : leaves not_integrity (parse_data_message o b compressed).
Proof.
  unfold parse_data_message. cbv zeta.
  lv ltac:(first [ apply lv_parse_data_fields | base ]).
Qed.

Lemma lv_add_msg m : leaves not_integrity (add_msg m).
Proof. unfold add_msg. lv ltac:(base). Qed.

Lemma lv_set_def dm : leaves not_integrity (set_def dm).
Proof. unfold set_def. lv ltac:(base). Qed.

Lemma lv_parse_file_id_msg o : leaves not_integrity (parse_file_id_msg o).
Proof.
  unfold parse_file_id_msg.
  lv ltac:(first [ apply lv_parse_definition_message | apply lv_parse_data_message | apply lv_add_msg | apply lv_set_def | base ]).
Qed.

Lemma lv_parse_record o : leaves not_integrity (parse_record o).
Proof.
  unfold parse_record.
  lv ltac:(first [ apply lv_parse_definition_message | apply lv_parse_data_message | apply lv_add_msg | apply lv_set_def | base ]).
Qed.

Lemma lv_decode_file_data o : forall fuel, leaves not_integrity (decode_file_data o fuel).
Proof.
  induction fuel as [|f IH]; cbn [decode_file_data]; [apply lv_panic|].
  apply lv_more. intros [|]; [|apply lv_ret].
  apply leaves_bind; [apply lv_parse_record|intros; apply IH].
Qed.

Lemma lv_do_init : leaves not_integrity do_init.
Proof. unfold do_init. lv ltac:(base). Qed.

Theorem lv_data_prog o fid fuel : leaves not_integrity (data_prog o fid fuel).
Proof.
  unfold data_prog. apply leaves_bind; [apply lv_parse_file_id_msg|intros].
  destruct fid; [apply lv_ret|].
  apply leaves_bind; [apply lv_do_init|intros; apply lv_decode_file_data].
Qed.
