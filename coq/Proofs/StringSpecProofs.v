(* C20 -- the spec of Spec/StringSpec.v means what it says: [strip] removes a
   prefix, [names_of] collects the prefix-less names of the constants with a
   given value, and [decimal] is the canonical decimal numeral (its digits
   denote the number, no leading zero). *)
From Coq Require Import NArith List String Ascii Bool Lia.
From FitV Require Import Spec.StringSpec Proofs.Util.
Import ListNotations.
Local Open Scope N_scope.

Lemma strip_spec p : forall s r, strip p s = Some r <-> s = (p ++ r)%string.
Proof.
  induction p as [|a p IH]; intros s r; simpl.
  - split; [now intros [= ->]|now intros ->].
  - destruct s as [|b s]; [split; discriminate|].
    destruct (Ascii.eqb_spec a b) as [->|Hne].
    + rewrite IH. split; [now intros ->|now intros [= ->]].
    + split; [discriminate|]. intros [= E _]. congruence.
Qed.

Lemma short_name_prefixed T r : short_name T (T ++ r) = r.
Proof.
  unfold short_name. destruct (strip T (T ++ r)) as [x|] eqn:E.
  - apply strip_spec in E. revert E. clear. induction T as [|a T IH]; simpl; [congruence|].
    intros [= E]. now apply IH.
  - assert (H : strip T (T ++ r) = Some r) by now apply strip_spec. congruence.
Qed.

Lemma names_of_spec T consts v s :
  In s (names_of T consts v) <-> exists n, In (n, v) consts /\ s = short_name T n.
Proof.
  unfold names_of. rewrite in_map_iff. split.
  - intros [[n v'] [E Hin]]. apply filter_In in Hin as [Hin Hv]. simpl in *.
    apply N.eqb_eq in Hv. subst. now exists n.
  - intros [n [Hin ->]]. exists (n, v). split; [reflexivity|].
    apply filter_In. split; [assumption|]. simpl. apply N.eqb_refl.
Qed.

Lemma names_of_nonempty T consts n v : In (n, v) consts -> names_of T consts v <> [].
Proof.
  intros Hin E. assert (H : In (short_name T n) (names_of T consts v)) by (apply names_of_spec; now exists n).
  rewrite E in H. contradiction.
Qed.

(* ---------- decimal numerals ---------- *)

Lemma digit_value_char d : d < 10 -> digit_value (digit_char d) = Some d.
Proof.
  intros H.
  assert (E : forallb (fun d => match digit_value (digit_char d) with Some x => x =? d | None => false end) (range 10 0) = true)
    by (vm_compute; reflexivity).
  rewrite forallb_forall in E. specialize (E d (range_in 10 0 d ltac:(simpl; lia))).
  destruct (digit_value (digit_char d)); [|discriminate]. apply N.eqb_eq in E. now subst.
Qed.

Lemma digit_char_nonzero d : 0 < d -> d < 10 -> digit_char d <> "0"%char.
Proof.
  intros H0 H.
  assert (E : forallb (fun d => negb (Ascii.eqb (digit_char d) "0"%char)) (range 9 1) = true) by (vm_compute; reflexivity).
  rewrite forallb_forall in E. specialize (E d (range_in 9 1 d ltac:(simpl; lia))).
  apply negb_true_iff in E. now apply Ascii.eqb_neq.
Qed.

Lemma numeral_value_acc_app a : forall b acc,
  numeral_value_acc (a ++ b) acc =
  match numeral_value_acc a acc with Some x => numeral_value_acc b x | None => None end.
Proof.
  induction a as [|c a IH]; intros b acc; simpl; [reflexivity|].
  destruct (digit_value c); [apply IH|reflexivity].
Qed.

Lemma pow10_succ f : 10 ^ N.of_nat (S f) = 10 * 10 ^ N.of_nat f.
Proof. rewrite Nat2N.inj_succ, N.pow_succ_r'. reflexivity. Qed.

Lemma decimal_fuel_value fuel : forall n, n < 10 ^ N.of_nat fuel ->
  exists k, forall acc, numeral_value_acc (decimal_fuel fuel n) acc = Some (acc * 10 ^ k + n).
Proof.
  induction fuel as [|f IH]; intros n Hn.
  - change (10 ^ N.of_nat 0) with 1 in Hn. exists 0. intros acc. cbn [decimal_fuel numeral_value_acc].
    rewrite N.pow_0_r. f_equal. lia.
  - simpl decimal_fuel. destruct (N.ltb_spec n 10) as [Hlt|Hge].
    + exists 1. intros acc. cbn [numeral_value_acc]. rewrite digit_value_char by assumption.
      rewrite N.pow_1_r. f_equal. lia.
    + rewrite pow10_succ in Hn.
      assert (Hq : n / 10 < 10 ^ N.of_nat f) by (apply N.div_lt_upper_bound; lia).
      destruct (IH _ Hq) as [k Hk]. exists (N.succ k). intros acc.
      rewrite numeral_value_acc_app, Hk. cbn [numeral_value_acc].
      assert (Hm : n mod 10 < 10) by (apply N.mod_lt; discriminate).
      rewrite digit_value_char by assumption. f_equal.
      rewrite N.pow_succ_r'. pose proof (N.div_mod n 10 ltac:(discriminate)). lia.
Qed.

Lemma decimal_fuel_head fuel : forall n, 0 < n -> n < 10 ^ N.of_nat fuel ->
  exists c r, decimal_fuel fuel n = String c r /\ c <> "0"%char.
Proof.
  induction fuel as [|f IH]; intros n H0 Hn.
  - simpl in Hn. lia.
  - simpl decimal_fuel. destruct (N.ltb_spec n 10) as [Hlt|Hge].
    + eexists _, _. split; [reflexivity|]. now apply digit_char_nonzero.
    + rewrite pow10_succ in Hn.
      assert (Hq : n / 10 < 10 ^ N.of_nat f) by (apply N.div_lt_upper_bound; lia).
      assert (Hq0 : 0 < n / 10) by (apply N.div_str_pos; lia).
      destruct (IH _ Hq0 Hq) as [c [r [E Hc]]]. rewrite E. simpl. eexists _, _. split; [reflexivity|assumption].
Qed.

Lemma pos_lt_pow2_size p : N.pos p < 2 ^ N.of_nat (Pos.size_nat p).
Proof.
  induction p as [p IH|p IH|]; simpl Pos.size_nat.
  - rewrite Nat2N.inj_succ, N.pow_succ_r'. lia.
  - rewrite Nat2N.inj_succ, N.pow_succ_r'. lia.
  - reflexivity.
Qed.

Lemma lt_pow10_size n : n < 10 ^ N.of_nat (S (N.size_nat n)).
Proof.
  rewrite pow10_succ.
  assert (H : n < 2 ^ N.of_nat (N.size_nat n) \/ n = 0).
  { destruct n as [|p]; [now right|left]. apply pos_lt_pow2_size. }
  assert (Hle : 2 ^ N.of_nat (N.size_nat n) <= 10 ^ N.of_nat (N.size_nat n)) by (apply N.pow_le_mono_l; lia).
  assert (Hp : 0 < 10 ^ N.of_nat (N.size_nat n)) by (apply N.neq_0_lt_0, N.pow_nonzero; discriminate).
  destruct H as [H| ->]; lia.
Qed.

Lemma append_nonempty a c : (a ++ String c EmptyString)%string <> EmptyString.
Proof. destruct a; discriminate. Qed.

Lemma decimal_fuel_nonempty f n : decimal_fuel (S f) n <> EmptyString.
Proof. cbn [decimal_fuel]. destruct (n <? 10); [discriminate|apply append_nonempty]. Qed.

(* the digits of [decimal n] denote n *)
Lemma decimal_value n : numeral_value (decimal n) = Some n.
Proof.
  unfold decimal.
  destruct (decimal_fuel_value _ n (lt_pow10_size n)) as [k Hk].
  unfold numeral_value.
  pose proof (decimal_fuel_nonempty (N.size_nat n) n) as Hne.
  remember (decimal_fuel (S (N.size_nat n)) n) as s eqn:E. clear E.
  destruct s as [|c s]; [congruence|].
  rewrite Hk, N.mul_0_l, N.add_0_l. reflexivity.
Qed.

(* and it has no leading zero (0 itself is "0") *)
Lemma decimal_canonical n : no_leading_zero (decimal n) = true.
Proof.
  unfold decimal. simpl decimal_fuel.
  destruct (N.ltb_spec n 10) as [Hlt|Hge]; [reflexivity|].
  pose proof (lt_pow10_size n) as Hn. rewrite pow10_succ in Hn.
  assert (Hq : n / 10 < 10 ^ N.of_nat (N.size_nat n)) by (apply N.div_lt_upper_bound; lia).
  assert (Hq0 : 0 < n / 10) by (apply N.div_str_pos; lia).
  destruct (decimal_fuel_head _ _ Hq0 Hq) as [c [r [E Hc]]]. rewrite E. simpl.
  destruct r; simpl; apply negb_true_iff, Ascii.eqb_neq; assumption.
Qed.
