(* C04: CRC verdicts agree across entry points.  An IntegrityError returned by Decode is the verdict the
   bytes determine, i.e. the one CheckIntegrity returns on the same bytes: it can only come from the header
   stage or from checkCRC after the records were read to the end (record parsing never fails with an
   IntegrityError: Proofs/C04Leaves.v). *)
From Coq Require Import NArith ZArith List Bool Arith Lia.
From FitV Require Import Model.Values Model.Bytes Model.Crc Model.IO Model.Header Model.Route Model.Decode Gen.Consts
  Spec.CrcSpec Spec.Burst Spec.Integrity Proofs.Util Proofs.CrcProofs Proofs.IOSim Proofs.C04Crc Proofs.C04IO
  Proofs.C04Verdict Proofs.C04Corrupt Proofs.C04Leaves.
Import ListNotations.
Local Open Scope N_scope.

Theorem decode_integrity_error_agrees o g fuel rd r e : (measure rd < fuel)%nat ->
  decode o MFull g rd fuel = TDone r -> dr_err r = Some e -> is_integrity e = true ->
  crc_verdict_with checksum (rd_data rd) (rd_term rd) = Some e.
Proof.
  intros Hm. unfold decode. destruct (decode_header_spec fuel rd Hm) as (h & crc & rd1 & E & Hm1 & Hok).
  rewrite E. unfold crc_verdict_with. destruct (header_stage_with checksum (rd_data rd) (rd_term rd)) as [e0|] eqn:Ehs.
  - intros H Herr _. inversion H; subst r. cbn [dr_err] in Herr. exact Herr.
  - destruct (Hok eq_refl) as (-> & -> & Hadv & Hle & Hd1). clear Hok.
    set (bs := rd_data rd) in *.
    change (N.to_nat (h_dsize (parse_header bs))) with (data_size bs).
    set (limit := data_size bs). set (crc := checksum (firstn (hdr_size bs) bs)).
    change (mk_cst rd1 [] 0 limit crc fuel) with (start_c rd1 limit crc fuel).
    set (p := data_prog o false (S limit)). set (s0 := init_dstate (new_file (parse_header bs)) g).
    assert (Hf : (length (rd_data rd1) + length (rd_sched rd1) < fuel)%nat) by (unfold measure in *; lia).
    pose proof (run_sim (rd_data rd1) (rd_pos rd1) crc p _ _ s0 (Rel_start rd1 limit crc fuel Hf)) as Hsim.
    pose proof (run_a_inv p (start_a rd1 limit) s0) as Hinv.
    pose proof (run_c_leaves not_integrity p (lv_data_prog o false (S limit)) (start_c rd1 limit crc fuel) s0) as Hlv.
    destruct (run_c p (start_c rd1 limit crc fuel) s0) as [x c s|e1 c s|e1 c s|w|] eqn:Erun; intros H Herr Hint; try discriminate H.
    2:{ (* record parsing failed: not an IntegrityError *)
        inversion H; subst r. cbn [dr_err] in Herr. inversion Herr; subst e1.
        specialize (Hlv e c s eq_refl). unfold not_integrity in Hlv. congruence. }
    2:{ inversion H; subst r. cbn [dr_err] in Herr. inversion Herr; subst e. discriminate Hint. }
    destruct (Nat.eqb (c_n c) (c_limit c)) eqn:En; cbn [negb] in H; [|discriminate H].
    apply Nat.eqb_eq in En.
    destruct (check_crc fuel (c_rd c) (c_crc c) (ds_file s)) as [[[e2 f] rd3]|] eqn:Ecc; [|discriminate H].
    inversion H; subst r; clear H. cbn [dr_err] in Herr. subst e2.
    unfold sim in Hsim. destruct (run_a p (start_a rd1 limit) s0) as [y a s'|? ? ?|? ? ?|?|] eqn:Era; try contradiction.
    destruct Hsim as (_ & _ & HR). destruct Hinv as [Hlim _]. cbn [a_limit start_a] in Hlim.
    pose proof (all_length _ _ _ _ _ HR) as Hall.
    destruct HR as [Hr Ha Hl Ht Hn Hli Hb Hfu Hp Hc].
    assert (Hcl : c_limit c = limit) by congruence.
    assert (Hcn : c_n c = limit) by congruence.
    assert (Hbuf : c_buf c = []) by (destruct (c_buf c); [reflexivity|cbn [length] in Hb; lia]).
    rewrite Hbuf in *. cbn [app length] in *. rewrite Nat.add_0_r in *.
    assert (Han : a_n a = limit) by congruence.
    rewrite Han in *.
    assert (Hlim1 : (limit <= length (rd_data rd1))%nat) by lia.
    assert (Hd2 : rd_data (c_rd c) = skipn limit (rd_data rd1)).
    { rewrite <- Hr. symmetry. now apply skipn_firstn_rest. }
    assert (Hl1 : length (rd_data rd1) = (length bs - hdr_size bs)%nat) by (rewrite Hd1; apply skipn_length).
    replace (Nat.ltb (length bs) (hdr_size bs + limit)) with false by (symmetry; apply Nat.ltb_ge; lia).
    unfold check_crc in Ecc.
    destruct (io_read_full fuel (c_rd c) 2 []) as [[[res3 e3] rd3']|] eqn:E3; [|discriminate Ecc].
    destruct e3 as [e3|]; [inversion Ecc; subst; discriminate Hint|].
    pose proof (next_n_of_done _ _ _ _ _ (io_read_full_done _ _ _ _ _ _ _ E3 ltac:(cbn; lia))) as (Ha3 & Hok3 & _).
    destruct (Hok3 eq_refl) as (Hres3 & Hr3len & Hr3le & Hd3). clear Hok3.
    assert (Hl2 : length (rd_data (c_rd c)) = (length bs - hdr_size bs - limit)%nat) by (rewrite Hd2, skipn_length; lia).
    replace (Nat.ltb (length bs) (frame_len bs)) with false by (symmetry; apply Nat.ltb_ge; unfold frame_len; fold limit; lia).
    assert (Hcrc : crc_write (c_crc c) res3 = checksum (firstn (frame_len bs) bs)).
    { rewrite Hc. unfold crc_write, crc, checksum, frame_len. rewrite <- !update_app. f_equal.
      rewrite !firstn_plus. rewrite <- app_assoc. f_equal. fold limit. f_equal.
      - now rewrite Hd1, Hcn.
      - rewrite Hres3, Hd2, Hd1, skipn_skipn'. reflexivity. }
    rewrite Hcrc in Ecc. unfold crc_sum16 in Ecc.
    destruct (checksum (firstn (frame_len bs) bs) =? 0) eqn:Ec; cbn [negb] in Ecc; inversion Ecc; subst.
    reflexivity.
Qed.

(* in terms of the entry points: Decode's IntegrityError is CheckIntegrity's, under any two schedules *)
Theorem integrity_verdicts_agree : forall o g fuel rd r e, (measure rd < fuel)%nat ->
  decode o MFull g rd fuel = TDone r -> dr_err r = Some e -> is_integrity e = true ->
  forall o2 g2 fuel2 rd2, rd_data rd2 = rd_data rd -> (measure rd2 < fuel2)%nat ->
  exists r2, decode o2 MCrcOnly g2 rd2 fuel2 = TDone r2 /\ dr_err r2 = Some e.
Proof.
  intros o g fuel rd r e Hm Hd He Hi o2 g2 fuel2 rd2 Hdata Hm2.
  pose proof (decode_integrity_error_agrees o g fuel rd r e Hm Hd He Hi) as Hv.
  destruct (check_integrity_spec o2 g2 fuel2 rd2 Hm2) as (r2 & E2 & Hv2 & _).
  exists r2. split; [exact E2|]. rewrite Hv2, Hdata.
  rewrite (verdict_term_irrelevant _ _ _ (rd_term rd)); [exact Hv|].
  intros Z. rewrite Z in Hv. cbn in Hv. destruct (rd_term rd); inversion Hv; subst e; discriminate Hi.
Qed.
