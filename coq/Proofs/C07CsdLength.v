(* C07: the compressed_speed_distance array length defect (known finding csd_array_length), as a witness on
   the models: RecordMsg.expandComponents expands the array only when it has exactly 3 bytes; a definition may
   give field 8 another size; Encode pads or cuts the array to the 3 bytes of the profile; the next Decode
   expands it.  Speed and Distance of that record differ between generation 1 and generation 2. *)
From Coq Require Import NArith ZArith List Bool String.
From FitV Require Import Model.Values Model.Bytes Model.Base Model.Profile Model.Header Model.IO Model.Components Model.Route
  Model.Encode Model.Decode Spec.FitSyntax Spec.RoundTrip Proofs.StreamDenoteFrame Proofs.StreamDenoteDecode.
Import ListNotations.
Local Open Scope N_scope.

(* file_id (activity), then a record whose definition gives compressed_speed_distance (field 8, byte) the
   bytes [pay] *)
Definition csd_stream (pay : list N) : list record :=
  [RDef 0 false 0 [mk_sfdef 0 1 0] false []; RData 0 [4] [];
   RDef 0 false 20 [mk_sfdef 8 (N.of_nat (List.length pay)) 13] false []; RData 0 pay []].
Definition csd_hdr (pay : list N) : header :=
  mk_header 12 16 2215 (N.of_nat (List.length (ser_records (csd_stream pay)))) fit_dtype 0.
Definition csd_reader (pay : list N) : reader := mk_reader (fit_file (csd_hdr pay) (csd_stream pay)) [] TEOF false 0.

Definition decode_file (rd : reader) (fuel : nat) : option file :=
  match entry_Decode no_opts g_init rd fuel with
  | TDone r => match dr_err r with None => dr_file r | Some _ => None end
  | _ => None
  end.
Definition first_record (f : file) : option msg :=
  match filter (fun m => m_num m =? 20) (List.concat (f_slots f)) with m :: _ => Some m | [] => None end.
(* generation 1 = Decode of the stream; generation 2 = Decode of Encode of generation 1; both from g_init *)
Definition gens (pay : list N) : option (file * file) :=
  match decode_file (csd_reader pay) 200 with
  | Some f1 =>
      match encode f1 false with
      | EOk (bs, _) => match decode_file (mk_reader bs [] TEOF false 0) 400 with Some f2 => Some (f1, f2) | None => None end
      | _ => None
      end
  | None => None
  end.

(* what the two generations hold for the record: (array, Speed, Distance) *)
Definition csd_obs (pay : list N) : option (goval * goval * goval * (goval * goval * goval) * bool) :=
  match gens pay with
  | Some (f1, f2) =>
      match first_record f1, first_record f2 with
      | Some m1, Some m2 =>
          Some (fld m1 "CompressedSpeedDistance", fld m1 "Speed", fld m1 "Distance",
                (fld m2 "CompressedSpeedDistance", fld m2 "Speed", fld m2 "Distance"), content_eq7 f1 f2)
      | _, _ => None
      end
  | None => None
  end.

(* 2 bytes: generation 1 keeps the array, Speed and Distance stay invalid; generation 2 holds the array
   padded with 0xFF, Speed 528 and Distance 243; the comparator of C07 says "different" *)
Theorem reencode_csd_array_length_refuted :
  csd_obs [0x10; 0x32] =
  Some (VList [VU 16; VU 50], VU 65535, VU 4294967295, (VList [VU 16; VU 50; VU 255], VU 528, VU 243), false).
Proof. vm_compute. reflexivity. Qed.

(* 5 bytes: the array is cut to 3 bytes by Encode and expanded by the second Decode *)
Theorem reencode_csd_array_length5_refuted :
  csd_obs [0x10; 0x32; 0x54; 0x76; 0x98] =
  Some (VList [VU 16; VU 50; VU 84; VU 118; VU 152], VU 65535, VU 4294967295, (VList [VU 16; VU 50; VU 84], VU 528, VU 67), false).
Proof. vm_compute. reflexivity. Qed.

(* exactly 3 bytes: both generations expand and Speed/Distance agree (from fresh accumulators); the generations
   still differ: EnhancedSpeed follows the derived Speed one generation late (part of the finding csd_accumulator) *)
Theorem reencode_csd_three_bytes :
  csd_obs [0x10; 0x32; 0x54] =
  Some (VList [VU 16; VU 50; VU 84], VU 528, VU 67, (VList [VU 16; VU 50; VU 84], VU 528, VU 67), false) /\
  match gens [0x10; 0x32; 0x54] with
  | Some (f1, f2) => match first_record f1, first_record f2 with
                     | Some m1, Some m2 => (fld m1 "EnhancedSpeed", fld m2 "EnhancedSpeed") = (VU 4294967295, VU 528)
                     | _, _ => False
                     end
  | None => False
  end.
Proof. split; vm_compute; reflexivity. Qed.
